"""C05 — QuantileLinearRegression fits, and scores with, the pinball loss of its quantile."""
import ast
import contextlib
import io
import math
from fractions import Fraction

from core import Corr, Violation, run_driver
from extract import pyexpr
from extract.ratexpr import Tr

ID = "C05"
#: functions the hand-written model transcribes: their control skeleton (extract/shape.py) is regenerated into
#: Gen/C05.lean and compared with the literal in Properties/C05.lean (`modelled_functions_have_the_transcribed_shape`)
SHAPES = [
    ("shapeFit", "mlinsights/mlmodel/quantile_regression.py", "QuantileLinearRegression.fit"),
    ("shapeEpsilon", "mlinsights/mlmodel/quantile_regression.py", "QuantileLinearRegression._epsilon"),
    ("shapeScore", "mlinsights/mlmodel/quantile_regression.py", "QuantileLinearRegression.score"),
]
SRC = "mlinsights/mlmodel/quantile_regression.py"
LEAN_TARGETS = ["MlVerif.Gen.C05", "MlVerif.Model.Quantile", "MlVerif.Lemmas.Quantile", "MlVerif.Properties.C05"]
PROPERTY_FILE = "MlVerif/Properties/C05.lean"
DRIVER = "Drivers/C05.lean"
TRUSTED = [
    "sklearn LinearRegression(fit_intercept=False, positive=p).fit(Xm, y, W) returns a minimiser of sum_i W_i (Xm_i.b - y_i)^2 "
    "(over b >= 0 when positive=True); for an unconstrained minimiser this is the weighted normal equations, which is the "
    "fixed-point hypothesis of irls_fixed_point_optimal. The solver is a parameter of the model: its coefficient vectors are "
    "recorded and fed to the model",
    "sklearn.metrics.mean_absolute_error(y, p, sample_weight=w) = sum w|y-p| / sum w (the quantile == 0.5 branch of score)",
    "numpy semantics as transcribed: abs, sign, maximum, reciprocal, boolean-mask `*=`, hstack, ndarray.sum",
    "convergence of the IRLS iteration within max_iter and the effect of delta (residuals below delta) are NOT proved; "
    "they are tested by the search against the exact LP optimum (scipy.optimize.linprog, HiGHS)",
    "real numbers (any ordered field) stand in for floats",
]
ASSUMPTIONS = [
    "'up to the IRLS tolerance' is read as: the mean pinball loss of the fit with max_iter=100 is within 1% of the exact LP optimum "
    "(observed worst relative gap < 2e-3), and |#{y < f} - q n| <= p + 2 + 0.03 n where p is the number of fitted parameters "
    "(at an exact optimum the deviation is at most p, theorem fraction_below)",
    "with sample weights the 'mean' of the loss is the weighted mean (sum w l / sum w), as mean_absolute_error does for q = 0.5",
    "with positive=True the inner solver is fitted on the design matrix including the column of ones, so the intercept is "
    "constrained to be >= 0 as well; the statement only asks for non-negative coefficients, and optimality for positive=True is "
    "checked over the set the code optimises over (coefficients and intercept >= 0)",
    "quantile == 0.5 takes a separate code path (no multiplier, objective sum |r| = 2 * pinball_0.5); both paths are modelled",
]
RULE = ("correspondence on dyadic-rational data (X small integers, y multiples of 1/16, coefficients snapped to multiples "
        "of 1/64, q in k/16, delta = 2^-10): _epsilon (epsilon, mult) compared exactly; every IRLS iteration: the sample_weight "
        "vector passed to the inner LinearRegression.fit (recorded by wrapping it), the error E printed by verbose, n_iter_, "
        "coef_/intercept_ and the design matrix compared with the model (weights: exact when representable, else within 4 "
        "roundings); score compared as the correctly rounded quotient of the model's exact value. Non-trivial = at least one "
        "positive, one negative residual (and, for the hits, zero residuals / residuals below delta / weights)")
LEVEL_TEXT = ("Proved in Lean for every ordered field, every n and d: the quantity fit minimises is the (weighted) pinball loss of "
              "`quantile`; score is exactly twice its (weighted) mean with the same q, hence monotone in the loss and the MAE for "
              "q = 1/2; any fixed point of the reweighted normal equations with no residual below delta minimises the pinball loss "
              "over all linear functions, and with an intercept splits the targets in proportion q : 1-q; integer weights equal "
              "row repetition; the extracted keyword tables pass positive through and give a zero intercept without fit_intercept. "
              "Partial: convergence of IRLS within max_iter, the delta-regularisation and float rounding are tested (LP optimum), "
              "not proved.")
LEVEL_NOTE = "inner least-squares solver, mean_absolute_error, float = real are trusted; expressions of _epsilon/fit/score are regenerated from the source"
TECHNIQUE = ("Lean 4 proof (induction over rows, subgradient inequality, ordered-field algebra by grind) + AST-regenerated "
             "definitions (multiplier table, fit/score factors, divisor, kwargs) + differential correspondence")

U = Fraction(1, 2 ** 53)


# ------------------------------------------------------------------------------ extractor

def _unk(what):
    return '(unk "%s")' % what.replace('"', "'").replace("\\", "/")


def _mask_applies(test, s):
    """Does the boolean mask `sign <op> 0` select a row whose sign(diff) is s (1, -1, 0)?  None = not understood."""
    if not (isinstance(test, ast.Compare) and len(test.ops) == 1):
        return None
    l, r = test.left, test.comparators[0]

    def val(n):
        if isinstance(n, ast.Name) and n.id == "sign":
            return s
        if isinstance(n, ast.Constant) and isinstance(n.value, (int, float)) and not isinstance(n.value, bool):
            return n.value
        if isinstance(n, ast.UnaryOp) and isinstance(n.op, ast.USub) and isinstance(n.operand, ast.Constant):
            return -n.operand.value
        return None
    a, b = val(l), val(r)
    if a is None or b is None or not any(isinstance(n, ast.Name) and n.id == "sign" for n in (l, r)):
        return None
    op = test.ops[0]
    for k, f in ((ast.Gt, a > b), (ast.Lt, a < b), (ast.GtE, a >= b), (ast.LtE, a <= b), (ast.Eq, a == b),
                 (ast.NotEq, a != b)):
        if isinstance(op, k):
            return f
    return None


def _extract_epsilon(fn):
    """Symbolic execution of `_epsilon` for the three sign classes."""
    out = {"diff": _unk("diff not found"), "hasMult": '(unkB "guard not found")', "eps_abs": False,
           "sign_of_diff": False, "weights_mult": False}
    tr = Tr({"y_pred": "yPred", "y_true": "yTrue", "quantile": "q"}, unknown_fmt='(unk "%s")')
    cls = {"pos": None, "neg": None, "zero": None}
    svals = {"pos": 1, "neg": -1, "zero": 0}
    for st in fn.body:
        if isinstance(st, ast.Assign) and len(st.targets) == 1 and isinstance(st.targets[0], ast.Name):
            name = st.targets[0].id
            if name == "diff":
                out["diff"] = tr.expr(st.value)
            elif name == "epsilon":
                out["eps_abs"] = ast.unparse(st.value) == "numpy.abs(diff)"
        elif isinstance(st, ast.If) and "quantile" in ast.unparse(st.test):
            t = st.test
            if isinstance(t, ast.Compare) and len(t.ops) == 1 and isinstance(t.ops[0], (ast.NotEq, ast.Eq)):
                a, b = tr.expr(t.left), tr.expr(t.comparators[0])
                body_has, else_none = st.body, st.orelse
                if isinstance(t.ops[0], ast.Eq):
                    body_has, else_none = st.orelse, st.body
                    out["hasMult"] = "(decide (%s ≠ %s))" % (a, b)
                else:
                    out["hasMult"] = "(decide (%s ≠ %s))" % (a, b)
                ok_none = (len(else_none) == 1 and ast.unparse(else_none[0]) == "mult = None")
                if not ok_none:
                    out["hasMult"] = '(unkB "%s")' % ast.unparse(t).replace('"', "'")
                for s2 in body_has:
                    src = ast.unparse(s2)
                    if src == "sign = numpy.sign(diff)":
                        out["sign_of_diff"] = True
                    elif isinstance(s2, ast.Assign) and ast.unparse(s2.targets[0]) == "mult":
                        if isinstance(s2.value, ast.Call) and ast.unparse(s2.value.func) == "numpy.ones":
                            for c in cls:
                                cls[c] = "1"
                        else:
                            for c in cls:
                                cls[c] = _unk(src)
                    elif isinstance(s2, (ast.AugAssign, ast.Assign)) and isinstance(
                            s2.target if isinstance(s2, ast.AugAssign) else s2.targets[0], ast.Subscript):
                        tgt = s2.target if isinstance(s2, ast.AugAssign) else s2.targets[0]
                        if ast.unparse(tgt.value) != "mult":
                            continue
                        for c in cls:
                            ap = _mask_applies(tgt.slice, svals[c])
                            if ap is None:
                                cls[c] = _unk(src)
                            elif ap:
                                v = tr.expr(s2.value)
                                if isinstance(s2, ast.Assign):
                                    cls[c] = v
                                elif isinstance(s2.op, ast.Mult):
                                    cls[c] = "(%s * %s)" % (cls[c] or _unk("mult unset"), v)
                                elif isinstance(s2.op, ast.Add):
                                    cls[c] = "(%s + %s)" % (cls[c] or _unk("mult unset"), v)
                                elif isinstance(s2.op, ast.Sub):
                                    cls[c] = "(%s - %s)" % (cls[c] or _unk("mult unset"), v)
                                elif isinstance(s2.op, ast.Div):
                                    cls[c] = "(%s / %s)" % (cls[c] or _unk("mult unset"), v)
                                else:
                                    cls[c] = _unk(src)
                    elif "mult" in src:
                        for c in cls:
                            cls[c] = _unk(src)
        elif isinstance(st, ast.If) and ast.unparse(st.test) == "sample_weight is not None":
            out["weights_mult"] = [ast.unparse(x) for x in st.body] == ["epsilon *= sample_weight"]
    for c in cls:
        out[c] = cls[c] or _unk("mult never assigned")
    return out


def _aug_factor(block, target, tr):
    """The expression e of the unique `target *= e` inside `if mult is not None:` of `block`."""
    found = []
    for st in ast.walk(block):
        if isinstance(st, ast.If) and ast.unparse(st.test) == "mult is not None":
            for s2 in st.body:
                if isinstance(s2, ast.AugAssign) and ast.unparse(s2.target) == target:
                    found.append(s2)
    if len(found) == 1 and isinstance(found[0].op, ast.Mult):
        return tr.expr(found[0].value), ast.unparse(found[0])
    return _unk("%d statements `%s *= ...` under `if mult is not None`" % (len(found), target)), "?"


def _classify_div(node):
    if not (isinstance(node, ast.BinOp) and isinstance(node.op, ast.Div)):
        return "Divisor.unknown"
    if ast.unparse(node.left) != "epsilon.sum()":
        return "Divisor.unknown"
    d = ast.unparse(node.right)
    if d in ("X.shape[0]", "len(X)", "y.shape[0]", "len(y)", "pred.shape[0]", "len(pred)"):
        return "Divisor.nRows"
    if d in ("sample_weight.sum()", "numpy.sum(sample_weight)", "sum(sample_weight)"):
        return "Divisor.weightSum"
    return "Divisor.unknown"


def _extract_score(fn):
    tr = Tr({"mult": "m"}, unknown_fmt='(unk "%s")')
    out = {"factor": _unk("score block not found"), "factor_src": "?", "weighted": "Divisor.unknown",
           "unweighted": "Divisor.unknown", "guard": '(unkB "score guard")', "mae": False, "eps_call": False}
    trq = Tr({"self.quantile": "q"}, unknown_fmt='(unk "%s")')
    for st in fn.body:
        if isinstance(st, ast.If) and "quantile" in ast.unparse(st.test):
            t = st.test
            if isinstance(t, ast.Compare) and len(t.ops) == 1 and isinstance(t.ops[0], ast.NotEq):
                out["guard"] = "(decide (%s ≠ %s))" % (trq.expr(t.left), trq.expr(t.comparators[0]))
            out["factor"], out["factor_src"] = _aug_factor(st, "epsilon", tr)
            for s2 in st.body:
                if isinstance(s2, ast.Assign) and "_epsilon" in ast.unparse(s2.value):
                    out["eps_call"] = (ast.unparse(s2) ==
                                       "epsilon, mult = QuantileLinearRegression._epsilon(y, pred, self.quantile, sample_weight)")
            # returns of the block, with their guard on sample_weight
            weighted = unweighted = None
            for s2 in st.body:
                if isinstance(s2, ast.Return) and s2.value is not None:
                    k = _classify_div(s2.value)
                    if weighted is None:
                        weighted = k
                    if unweighted is None:
                        unweighted = k
                elif isinstance(s2, ast.If) and ast.unparse(s2.test) in ("sample_weight is not None", "sample_weight is None"):
                    rets = [x for x in s2.body if isinstance(x, ast.Return) and x.value is not None]
                    if len(rets) == 1 and len(s2.body) == 1 and not s2.orelse:
                        k = _classify_div(rets[0].value)
                        if ast.unparse(s2.test) == "sample_weight is not None":
                            weighted = weighted or k
                        else:
                            unweighted = unweighted or k
                    elif any(isinstance(x, ast.Return) for x in ast.walk(s2)):
                        weighted = weighted or "Divisor.unknown"
                        unweighted = unweighted or "Divisor.unknown"
            out["weighted"] = weighted or "Divisor.unknown"
            out["unweighted"] = unweighted or "Divisor.unknown"
        elif isinstance(st, ast.Return) and st.value is not None:
            out["mae"] = ast.unparse(st.value) == "mean_absolute_error(y, pred, sample_weight=sample_weight)"
    return out


def _kwargs(call):
    if call is None:
        return [("?", "call not found")]
    out = [("*%d" % i, ast.unparse(a)) for i, a in enumerate(call.args)]
    out += [(k.arg or "**", ast.unparse(k.value)) for k in call.keywords]
    return out


def _lean_table(pairs):
    return "[" + ", ".join('("%s", "%s")' % (a.replace('"', "'"), b.replace('"', "'")) for a, b in pairs) + "]"


def extract(ctx):
    tree = ast.parse(ctx.source(SRC))
    eps = _extract_epsilon(pyexpr.find_function(tree, "QuantileLinearRegression._epsilon"))
    fit = pyexpr.find_function(tree, "QuantileLinearRegression.fit")
    cz = pyexpr.find_function(fit, "compute_z")
    trm = Tr({"mult": "m"}, unknown_fmt='(unk "%s")')
    fit_eps, fit_eps_src = _aug_factor(cz, "epsilon", trm)
    fit_w, fit_w_src = _aug_factor(cz, "r", trm)
    recip = [ast.unparse(a.value) for a in pyexpr.assignments(cz, "r")]
    sc = _extract_score(pyexpr.find_function(tree, "QuantileLinearRegression.score"))
    inner = [c for c in pyexpr.calls(fit, "LinearRegression")]
    inner_kw = _kwargs(inner[0] if len(inner) == 1 else None)
    init = pyexpr.find_function(tree, "QuantileLinearRegression.__init__")
    sup = pyexpr.calls(init, "LinearRegression.__init__")
    super_kw = _kwargs(sup[0] if len(sup) == 1 else None)
    # the tail of fit: `if self.fit_intercept: coef_ = beta[:-1]; intercept_ = beta[-1] else: coef_ = beta; intercept_ = 0`
    tail = {"with": [], "without": []}
    design = {"with": "?", "without": "?"}
    for st in fit.body:
        if isinstance(st, ast.If) and ast.unparse(st.test) == "self.fit_intercept":
            srcs_b = [ast.unparse(x) for x in st.body]
            srcs_e = [ast.unparse(x) for x in st.orelse]
            if any(s.startswith("Xm =") for s in srcs_b):
                design["with"] = [s for s in srcs_b if s.startswith("Xm =")][0][5:]
                design["without"] = ([s for s in srcs_e if s.startswith("Xm =")] or ["Xm = ?"])[0][5:]
            if any(s.startswith("self.intercept_") for s in srcs_b + srcs_e):
                tail["with"] = sorted(srcs_b)
                tail["without"] = sorted(srcs_e)
    no_int = [s for s in tail["without"] if s.startswith("self.intercept_ = ")]
    tr0 = Tr({}, unknown_fmt='(unk "%s")')
    if len(no_int) == 1:
        no_int_val = tr0.expr(ast.parse(no_int[0]).body[0].value)
    else:
        no_int_val = _unk("self.intercept_ without fit_intercept")
    fit_call = [ast.unparse(c) for c in pyexpr.calls(fit, "clr.fit")]
    # what `fit` itself (outside the nested compute_z) binds to the names of its inputs, in source order; and the
    # position of the DataFrame -> array conversion relative to the construction of the design matrix
    rebinds, order = [], []
    for idx, st in enumerate(fit.body):
        if isinstance(st, ast.FunctionDef):
            continue
        for n in ast.walk(st):
            tg = []
            if isinstance(n, ast.Assign):
                tg = n.targets
            elif isinstance(n, (ast.AugAssign, ast.AnnAssign)):
                tg = [n.target]
            for t in tg:
                for nm in ast.walk(t):
                    if isinstance(nm, ast.Name) and nm.id in ("X", "y", "sample_weight") and isinstance(nm.ctx, ast.Store):
                        rebinds.append(ast.unparse(n).replace('"', "'"))
            if isinstance(n, ast.Assign) and ast.unparse(n.targets[0]) == "X" and ast.unparse(n.value) == "X.values":
                order.append(("convert", idx))
            if isinstance(n, ast.Assign) and ast.unparse(n.targets[0]) == "Xm":
                order.append(("design", idx))
    conv = [i for k, i in order if k == "convert"]
    des = [i for k, i in order if k == "design"]
    conv_first = bool(conv) and bool(des) and max(conv) < min(des)
    body = pyexpr.HEADER + """import MlVerif.Gen.Base
set_option linter.unusedVariables false
namespace MlVerif.Gen.C05
open Lean.Grind

/-- what the extractor emits for source it cannot classify (opaque: nothing can be proved about it) -/
def unk {α : Type} [Field α] (src : String) : α := @Int.cast α Ring.intCast (MlVerif.Gen.unknownInt src)
def unkB (src : String) : Bool := MlVerif.Gen.unknownBool src

/-- divisor of `epsilon.sum()` in `score` -/
inductive Divisor where
  | nRows | weightSum | unknown
deriving DecidableEq, Repr

section
variable {α : Type} [Field α]

/-- `_epsilon`: `diff = ...` (`epsilon = numpy.abs(diff)`, `sign = numpy.sign(diff)`) -/
def diff (yTrue yPred : α) : α := %(diff)s
/-- `_epsilon`: value of `mult` for a row with sign(diff) > 0 / < 0 / = 0, after the masked updates in source order -/
def multPos (q : α) : α := %(pos)s
def multNeg (q : α) : α := %(neg)s
def multZero (q : α) : α := %(zero)s
/-- `_epsilon` returns `mult = None` unless this guard holds -/
def hasMult [DecidableEq α] (q : α) : Bool := %(hasMult)s
/-- `compute_z` (fit), under `if mult is not None`: `%(fit_eps_src)s` and `%(fit_w_src)s` -/
def fitEpsFactor (m : α) : α := %(fit_eps)s
def fitWFactor (m : α) : α := %(fit_w)s
/-- `score`, under `if mult is not None`: `%(score_src)s` -/
def scoreFactor (m : α) : α := %(score)s
/-- `score`: guard of the branch that uses `_epsilon` (the other branch is `mean_absolute_error`) -/
def scoreUsesEpsilon [DecidableEq α] (q : α) : Bool := %(score_guard)s
/-- `self.intercept_ = ...` when `fit_intercept` is False -/
def interceptWithoutFitIntercept : α := %(no_int)s
end

/-- `score`: what `epsilon.sum()` is divided by, without / with `sample_weight` -/
def scoreDivUnweighted : Divisor := %(unweighted)s
def scoreDivWeighted : Divisor := %(weighted)s

/-- statement-shape facts the hand-written model relies on (source text compared) -/
def epsilonIsAbsDiff : Bool := %(eps_abs)s
def signIsSignOfDiff : Bool := %(sign_of_diff)s
def epsilonTimesSampleWeight : Bool := %(weights_mult)s
def scoreCallsEpsilonWithWeights : Bool := %(eps_call)s
def scoreHalfIsMeanAbsoluteError : Bool := %(mae)s
def reciprocalOfMaxEpsilonDelta : Bool := %(recip)s

/-- keyword arguments of the inner `LinearRegression(...)` built by `fit`, and of `clr.fit(...)` -/
def innerKwargs : List (String × String) := %(inner_kw)s
def innerFitCalls : List String := %(fit_call)s
/-- arguments of `LinearRegression.__init__(self, ...)` in the constructor -/
def superInitKwargs : List (String × String) := %(super_kw)s
/-- the design matrix with / without `fit_intercept`, and the two tails of `fit` (sorted statements) -/
def designWithIntercept : String := "%(design_with)s"
def designWithoutIntercept : String := "%(design_without)s"
def tailWithIntercept : List String := %(tail_with)s
def tailWithoutIntercept : List String := %(tail_without)s
/-- every statement of `fit` (outside `compute_z`) that binds one of the input names `X`, `y`, `sample_weight` -/
def fitInputRebinds : List String := %(rebinds)s
/-- the DataFrame -> array conversion of `X` precedes the construction of the design matrix `Xm` -/
def conversionBeforeDesign : Bool := %(conv_first)s

end MlVerif.Gen.C05
""" % {
        "diff": eps["diff"], "pos": eps["pos"], "neg": eps["neg"], "zero": eps["zero"], "hasMult": eps["hasMult"],
        "fit_eps": fit_eps, "fit_w": fit_w, "fit_eps_src": fit_eps_src, "fit_w_src": fit_w_src,
        "score": sc["factor"], "score_src": sc["factor_src"], "score_guard": sc["guard"],
        "no_int": no_int_val, "unweighted": sc["unweighted"], "weighted": sc["weighted"],
        "eps_abs": str(eps["eps_abs"]).lower(), "sign_of_diff": str(eps["sign_of_diff"]).lower(),
        "weights_mult": str(bool(eps["weights_mult"])).lower(), "eps_call": str(sc["eps_call"]).lower(),
        "mae": str(sc["mae"]).lower(),
        "recip": str(recip == ["numpy.reciprocal(numpy.maximum(epsilon, deltas))"]).lower(),
        "inner_kw": _lean_table(inner_kw), "super_kw": _lean_table(super_kw),
        "fit_call": "[" + ", ".join('"%s"' % s for s in fit_call) + "]",
        "design_with": design["with"].replace('"', "'"), "design_without": design["without"].replace('"', "'"),
        "tail_with": "[" + ", ".join('"%s"' % s for s in tail["with"]) + "]",
        "tail_without": "[" + ", ".join('"%s"' % s for s in tail["without"]) + "]",
        "rebinds": "[" + ", ".join('"%s"' % s for s in rebinds) + "]", "conv_first": str(conv_first).lower(),
    }
    return {"MlVerif/Gen/C05.lean": body}


# ------------------------------------------------------------------------------ helpers

def fr(x):
    return Fraction(float(x))


def fs(x):
    x = Fraction(x)
    return "%d/%d" % (x.numerator, x.denominator) if x.denominator != 1 else "%d" % x.numerator


def fl(xs):
    xs = list(xs)
    return ",".join(fs(fr(x)) for x in xs) if xs else "-"


def fm(rows):
    rows = list(rows)
    return ";".join(fl(r) for r in rows) if rows else "-"


def parse_rats(s):
    return [] if s == "-" else [Fraction(t) for t in s.split(",")]


def parse_mat(s):
    return [] if s == "-" else [parse_rats(r) for r in s.split(";")]


def same_float(exact, impl):
    """Is the float `impl` what a correctly rounded single operation gives for the exact rational `exact`?"""
    return float(exact) == float(impl)


def within_roundings(exact, impl, k=4):
    """|impl - exact| <= k*u*|exact|: the float value is the result of at most 3 correctly rounded operations
    (reciprocal, two products) on exact operands, each of relative error <= u = 2^-53, and (1+u)^3 - 1 < 4u."""
    exact = Fraction(exact)
    impl = Fraction(float(impl))
    if impl == exact:
        return True, "exact"
    return abs(impl - exact) <= k * U * abs(exact), "rounded"


class InnerFitRecorder:
    """Wraps sklearn's LinearRegression.fit for plain LinearRegression objects (the inner solver `clr`):
    records (X, y, sample_weight) of every call and replaces the returned coef_ by a dyadic vector
    (the solver's own result snapped to multiples of 1/64, or a scripted one), which is recorded."""

    def __init__(self, script=None):
        self.calls = []
        self.script = script

    def __enter__(self):
        import numpy
        from sklearn.linear_model import LinearRegression
        self.cls = LinearRegression
        self.orig = LinearRegression.fit
        rec = self

        def fit(est, X, y, sample_weight=None):
            if type(est) is not rec.cls:
                return rec.orig(est, X, y, sample_weight)
            entry = {"X": numpy.array(X, dtype=float).copy(), "y": numpy.array(y, dtype=float).copy(),
                     "w": None if sample_weight is None else numpy.array(sample_weight, dtype=float).copy(),
                     "positive": est.positive, "fit_intercept": est.fit_intercept}
            rec.calls.append(entry)
            try:
                r = rec.orig(est, X, y, sample_weight)
            except Exception as e:
                entry["raised"] = type(e).__name__
                raise
            k = len(rec.calls) - 1
            if rec.script is not None:
                beta = numpy.array(rec.script[min(k, len(rec.script) - 1)], dtype=float)
            else:
                beta = numpy.round(numpy.clip(est.coef_, -64, 64) * 64) / 64
            est.coef_ = beta.copy()
            entry["beta"] = beta.copy()
            return r
        LinearRegression.fit = fit
        return self

    def __exit__(self, *a):
        self.cls.fit = self.orig


def _grid(rng, lo, hi, den):
    return Fraction(rng.randint(lo * den, hi * den), den)


QS = [Fraction(k, 16) for k in (1, 2, 3, 4, 5, 6, 7, 8, 8, 9, 10, 12, 13, 14, 15)]
DELTA = Fraction(1, 1024)


# ------------------------------------------------------------------------------ correspondence

def correspond(ctx):
    ctx.shadow(need_cython=True)
    import numpy
    import warnings
    from mlinsights.mlmodel.quantile_regression import QuantileLinearRegression as QLR
    corr = Corr()
    corr.rule = RULE
    rng = ctx.rng
    lines, expect = [], []

    # ---- op 1: _epsilon
    for t in range(ctx.pick(300, 4000)):
        n = rng.randint(1, 8)
        q = rng.choice(QS)
        yt = [_grid(rng, -4, 4, 8) for _ in range(n)]
        yp = [rng.choice([yt[i], yt[i] + _grid(rng, -3, 3, 8), _grid(rng, -4, 4, 8)]) for i in range(n)]
        sw = None if rng.random() < 0.5 else [Fraction(rng.randint(0, 6), 2) for _ in range(n)]
        a_t, a_p = numpy.array([float(v) for v in yt]), numpy.array([float(v) for v in yp])
        a_w = None if sw is None else numpy.array([float(v) for v in sw])
        before = (a_t.tobytes(), a_p.tobytes(), None if a_w is None else a_w.tobytes())
        e, m = QLR._epsilon(a_t, a_p, float(q), a_w)
        after = (a_t.tobytes(), a_p.tobytes(), None if a_w is None else a_w.tobytes())
        impl = "%s|%s" % (fl(e), "none" if m is None else fl(m))
        if before != after:
            impl += "|inputs-modified"
        lines.append("eps %s %s %s %s" % (fs(q), fl(a_t), fl(a_p), "none" if sw is None else fl(a_w)))
        expect.append(("eps", {"q": str(q), "y_true": list(map(str, yt)), "y_pred": list(map(str, yp)),
                               "w": None if sw is None else list(map(str, sw))}, impl))
        signs = {(v > 0) - (v < 0) for v in (p - t_ for p, t_ in zip(yp, yt))}
        corr.case(("eps", q, tuple(yt), tuple(yp), None if sw is None else tuple(sw)),
                  nontrivial=(1 in signs and -1 in signs),
                  sample={"op": "eps", "q": str(q), "y_true": fl(a_t), "y_pred": fl(a_p), "impl": impl} if t < 2 else None)
        corr.hit("eps:q=1/2" if q == Fraction(1, 2) else "eps:q!=1/2")
        if 0 in signs:
            corr.hit("eps:zero-residual")
        corr.hit("eps:weights" if sw is not None else "eps:no-weights")

    # ---- op 2: score on a model with dyadic coefficients
    for t in range(ctx.pick(300, 4000)):
        n = rng.randint(1, 9)
        d = rng.randint(1, 3)
        q = rng.choice(QS)
        X = numpy.array([[rng.randint(-4, 4) for _ in range(d)] for _ in range(n)], dtype=float)
        coef = numpy.array([float(_grid(rng, -2, 2, 16)) for _ in range(d)])
        icpt = float(_grid(rng, -2, 2, 16))
        m = QLR(quantile=float(q))
        m.coef_ = coef
        m.intercept_ = icpt
        pred = m.predict(X)
        y = numpy.array([float(rng.choice([fr(pred[i]), fr(pred[i]) + _grid(rng, -3, 3, 8), _grid(rng, -6, 6, 8)]))
                         for i in range(n)])
        weighted = rng.random() < 0.6
        if weighted:
            w = numpy.array([float(Fraction(rng.randint(0, 6), 2)) for _ in range(n)])
            if w.sum() == 0:
                w[rng.randrange(n)] = 1.0
        else:
            w = None
        with warnings.catch_warnings():
            warnings.simplefilter("ignore")
            try:
                s = m.score(X, y, w) if weighted else m.score(X, y)
                impl = repr(float(s)) if math.isfinite(float(s)) else "nonfinite"
            except Exception as e:  # canonical error kind
                impl = type(e).__name__
        lines.append("score %s %d %s %s %s" % (fs(q), 1 if weighted else 0, fl(y), fl(pred),
                                               fl(w) if weighted else fl([1.0] * n)))
        expect.append(("score", {"q": str(q), "X": X.tolist(), "coef": coef.tolist(), "intercept": icpt,
                                 "y": y.tolist(), "w": None if w is None else w.tolist()}, impl))
        r = [fr(pred[i]) - fr(y[i]) for i in range(n)]
        corr.case(("score", q, weighted, tuple(r), None if w is None else tuple(w.tolist())),
                  nontrivial=(any(v > 0 for v in r) and any(v < 0 for v in r)),
                  sample={"op": "score", "q": str(q), "weighted": weighted, "y": fl(y), "pred": fl(pred),
                          "impl": impl} if t < 2 else None)
        corr.hit("score:q=1/2(mae)" if q == Fraction(1, 2) else "score:q!=1/2")
        corr.hit("score:weights" if weighted else "score:no-weights")
        if any(v == 0 for v in r):
            corr.hit("score:zero-residual")

    # ---- op 3: the IRLS loop, inner solver recorded
    irls_meta = []
    for t in range(ctx.pick(120, 2500)):
        n = rng.randint(2, 10)
        d = rng.randint(1, 3)
        q = rng.choice(QS)
        fi = rng.random() < 0.7
        positive = rng.random() < 0.2
        weighted = rng.random() < 0.5
        mi = rng.choice([0, 1, 2, 3, 4, 6]) if rng.random() < 0.9 else 10
        X = numpy.array([[rng.randint(-4, 4) for _ in range(d)] for _ in range(n)], dtype=float)
        p = d + (1 if fi else 0)
        scripted = rng.random() < 0.35
        script = None
        if scripted:
            b0 = [float(_grid(rng, -2, 2, 16)) for _ in range(p)]
            Xm = numpy.hstack([X, numpy.ones((n, 1))]) if fi else X
            f0 = Xm @ numpy.array(b0)
            y = numpy.array([float(rng.choice([fr(f0[i]), fr(f0[i]) + Fraction(rng.choice([-1, 1]), 4096),
                                               fr(f0[i]) + _grid(rng, -3, 3, 8), fr(f0[i]) - Fraction(1, 1024)]))
                             for i in range(n)])
            b1 = [float(_grid(rng, -2, 2, 16)) for _ in range(p)]
            script = rng.choice([[b0], [b1, b0], [b1, b0, b0], [b0, b1, b1, b0]])
        else:
            y = numpy.array([float(_grid(rng, -8, 8, 16)) for _ in range(n)])
        sw = numpy.array([float(rng.randint(1, 3)) for _ in range(n)]) if weighted else None
        m = QLR(quantile=float(q), delta=float(DELTA), max_iter=mi, fit_intercept=fi, positive=positive, verbose=True)
        buf = io.StringIO()
        sw_before = None if sw is None else sw.tobytes()
        with InnerFitRecorder(script) as rec, contextlib.redirect_stdout(buf), warnings.catch_warnings():
            warnings.simplefilter("ignore")
            try:
                r = m.fit(X, y, sw)
                err = None if r is m else "fit-does-not-return-self"
            except Exception as e:
                err = type(e).__name__
        es = []
        for ln in buf.getvalue().split("\n"):
            if "error=" in ln:
                es.append(float(ln.split("error=")[1]))
        betas = [c["beta"] for c in rec.calls if "beta" in c]
        lines.append("irls %s %s %d %d %d %s %s %s %s" % (
            fs(q), fs(DELTA), 1 if fi else 0, 1 if weighted else 0, mi, fm(X), fl(y),
            fl(sw) if weighted else fl([1.0] * n), fm(betas)))
        meta = {"q": str(q), "fit_intercept": fi, "positive": positive, "max_iter": mi, "X": X.tolist(), "y": y.tolist(),
                "w": None if sw is None else sw.tolist(), "betas": [b.tolist() for b in betas], "scripted": scripted}
        if err is None:
            impl = {"n_iter": int(m.n_iter_), "coef": fl(numpy.atleast_1d(m.coef_)), "intercept": fs(fr(m.intercept_)),
                    "es": fl(es), "n_fits": len(rec.calls), "ws": [c["w"] for c in rec.calls],
                    "kw": all(c["positive"] == positive and c["fit_intercept"] is False for c in rec.calls),
                    "sw_modified": sw is not None and sw.tobytes() != sw_before}
        else:
            impl = {"error": err}
            if rec.calls and "raised" in rec.calls[-1]:
                # the external solver refused its input (e.g. all weights zero): the model is parametric in the
                # solver and reports that it has no coefficient vector for this iteration
                impl = {"error": "need-more-betas"}
                corr.hit("irls:inner-solver-raised:%s" % rec.calls[-1]["raised"])
        expect.append(("irls", meta, impl))
        # design matrix as the inner solver received it
        if rec.calls:
            lines.append("design %d %s" % (1 if fi else 0, fm(X)))
            expect.append(("design", meta, fm(rec.calls[0]["X"])))
        corr.case(("irls", t), nontrivial=(err is None and len(rec.calls) >= 2),
                  sample={"op": "irls", "q": str(q), "n": n, "d": d, "max_iter": mi, "n_fits": len(rec.calls),
                          "errors": es[:3], "n_iter_": getattr(m, "n_iter_", None)} if t < 2 else None)
        corr.hit("irls:error:%s" % err if err else "irls:ok")
        corr.hit("irls:scripted" if scripted else "irls:snapped-solver")
        corr.hit("irls:q=1/2" if q == Fraction(1, 2) else "irls:q!=1/2")
        corr.hit("irls:weights" if weighted else "irls:no-weights")
        corr.hit("irls:intercept" if fi else "irls:no-intercept")
        if err is None and len(rec.calls) < mi:
            corr.hit("irls:early-break")
        corr.hit("irls:fits=%d" % min(len(rec.calls), 7))

    out = run_driver(DRIVER, lines)
    for (op, inp, impl), got in zip(expect, out):
        if op == "eps" or op == "design":
            if got != impl:
                corr.disagree(op, inp, got, impl)
        elif op == "score":
            if got in ("nonfinite", "bad-op") or impl in ("nonfinite",) or not impl[0].isdigit() and impl[0] != "-":
                ok = got == impl
            else:
                ok = same_float(Fraction(got), float(impl))
            if not ok:
                corr.disagree(op, inp, got if "/" not in got else "%s (=%r)" % (got, float(Fraction(got))), impl)
        elif op == "irls":
            if "error" in impl:
                if got != impl["error"]:
                    corr.disagree(op, inp, got, impl["error"])
                continue
            parts = got.split("|")
            if len(parts) != 5:
                corr.disagree(op, inp, got, {k: v for k, v in impl.items() if k != "ws"})
                continue
            n_iter, coef, icpt, es, ws = parts
            bad = []
            if str(impl["n_iter"]) != n_iter:
                bad.append("n_iter_ model=%s impl=%s" % (n_iter, impl["n_iter"]))
            if coef != impl["coef"] or icpt != impl["intercept"]:
                bad.append("coef/intercept model=%s|%s impl=%s|%s" % (coef, icpt, impl["coef"], impl["intercept"]))
            if es != impl["es"]:
                bad.append("E per iteration model=%s impl=%s" % (es, impl["es"]))
            if not impl["kw"]:
                bad.append("inner solver not built with fit_intercept=False, positive=self.positive")
            if impl["sw_modified"]:
                bad.append("sample_weight modified in place")
            W = parse_mat(ws)
            if impl["n_fits"] != len(W):
                bad.append("number of inner fits model=%d impl=%d" % (len(W), impl["n_fits"]))
            # first inner fit: ones / the sample weights; fit k+1 receives the model's W_k
            n = len(inp["y"])
            w0 = [Fraction(1)] * n if inp["w"] is None else [fr(v) for v in inp["w"]]
            for k, wk in enumerate(impl["ws"]):
                ref = w0 if k == 0 else (W[k - 1] if k - 1 < len(W) else None)
                if ref is None or wk is None or len(ref) != len(wk):
                    bad.append("weights of inner fit %d: model=%s impl=%s" % (k, ref, None if wk is None else wk.tolist()))
                    break
                for a, b in zip(ref, wk):
                    ok, kind = within_roundings(a, b)
                    corr.hit("irls:W-" + kind)
                    if not ok:
                        bad.append("weights of inner fit %d: model=%s impl=%r" % (k, [str(v) for v in ref], wk.tolist()))
                        break
                if bad:
                    break
            if bad:
                corr.disagree(op, inp, bad, {k: v for k, v in impl.items() if k != "ws"})
    return corr


# ------------------------------------------------------------------------------ search (oracle from the statement)

GAP_TOL = 0.01          # relative excess of the fitted mean pinball loss over the exact LP optimum (max_iter=100)
FRAC_SLACK = 0.03       # |#{y<f} - q n| <= p + 2 + FRAC_SLACK * n
SEARCH_ITERS = 100
DUP_TOL = 1e-6          # the two fits follow the same iterates in exact arithmetic (observed relative difference < 1e-13)


def _pinball(q, y, f, w=None):
    import numpy
    r = y - f
    l = q * numpy.maximum(r, 0) + (1 - q) * numpy.maximum(-r, 0)
    if w is None:
        return float(l.mean())
    return float((l * w).sum() / w.sum())


def _lp_optimum(q, X, y, w, fit_intercept, positive):
    """Exact minimum of the (weighted) mean pinball loss over linear functions: LP solved by HiGHS."""
    import numpy
    from scipy.optimize import linprog
    n, d = X.shape
    Xm = numpy.hstack([X, numpy.ones((n, 1))]) if fit_intercept else X
    p = Xm.shape[1]
    ww = numpy.ones(n) if w is None else w
    c = numpy.concatenate([numpy.zeros(p), q * ww, (1 - q) * ww])
    A = numpy.hstack([Xm, numpy.eye(n), -numpy.eye(n)])
    # positive=True is handed to the inner solver, which is fitted on the design matrix *including* the column of
    # ones: the code constrains the intercept as well, so the optimum is taken over that set (see ASSUMPTIONS)
    bounds = [((0, None) if positive else (None, None)) for j in range(p)] + [(0, None)] * (2 * n)
    res = linprog(c, A_eq=A, b_eq=y, bounds=bounds, method="highs")
    if res.status != 0:
        return None
    return float(res.fun / ww.sum())


def _make_case(cfg):
    """Deterministic data set from a config dict (seed, n, d, q, noise, weights, fit_intercept, positive)."""
    import numpy
    rs = numpy.random.RandomState(cfg["seed"])
    n, d = cfg["n"], cfg["d"]
    X = rs.randn(n, d)
    if cfg.get("container") == "intX":
        X = rs.randint(-6, 7, size=(n, d)).astype(float)      # integer-VALUED features (counts); real targets
    beta = rs.randn(d)
    if cfg.get("positive"):
        beta = numpy.abs(beta)
        X = X + (1.0 if cfg.get("container") == "intX" else 0.5)
        if cfg.get("negative_column"):
            X[:, 0] = -numpy.abs(X[:, 0]) - 1.0        # a feature that only takes negative values (a loss, a depth)
    y = X @ beta + (1.0 if cfg.get("fit_intercept", True) else 0.0) + rs.randn(n) * cfg["noise"]
    if cfg.get("container") == "intY":
        y = numpy.rint(y * 4.0)            # integer-VALUED targets; _check_case hands them over with an integer dtype
    y = y * cfg.get("scale", 1.0)          # targets of another scale; the residual floor `delta` is scaled alike
    if cfg.get("offset") and cfg.get("fit_intercept", True):
        y = y + cfg["offset"]              # a level far above the noise: the quantile hyperplane just moves with it
    w = None
    if cfg.get("weights") == "int":
        w = rs.randint(1, 4, size=n).astype(float)
    elif cfg.get("weights") == "real":
        w = rs.rand(n) + 0.25
    return X, y, w


def _check_case(cfg):
    """All oracles of the statement on one configuration; returns [(key, what, observed, required)]."""
    import numpy
    import warnings
    from mlinsights.mlmodel.quantile_regression import QuantileLinearRegression as QLR
    bad = []
    q = cfg["q"]
    fi, pos = cfg.get("fit_intercept", True), cfg.get("positive", False)
    X, y, w = _make_case(cfg)
    n, d = X.shape
    p = d + (1 if fi else 0)
    stats = {}
    with warnings.catch_warnings():
        warnings.simplefilter("ignore")
        m = QLR(quantile=q, max_iter=cfg.get("max_iter", SEARCH_ITERS), fit_intercept=fi, positive=pos,
                delta=1e-4 * cfg.get("scale", 1.0))
        # the same training set in another container ("all training sets"): integer-typed features, or a DataFrame
        # with a Series target whose index labels are not X's (rows are matched by position, as for arrays)
        Xc, yc = X, y
        if cfg.get("container") == "intX":
            Xc = X.astype(numpy.int64)
        elif cfg.get("container") == "frame":
            import pandas
            Xc = pandas.DataFrame(X, columns=["f%d" % j for j in range(d)])
            yc = pandas.Series(y, index=numpy.random.RandomState(cfg["seed"] + 2).permutation(n))
        elif cfg.get("container") == "intY":
            yc = numpy.asarray(y).astype(numpy.int64)       # integer-typed targets (counts): same values, another dtype
        ys = yc if cfg.get("container") == "intY" else y
        if cfg.get("reconfigured"):
            # history: the same object was first fitted under the OPPOSITE fit_intercept / another quantile, then given its
            # configuration through set_params: the fit examined below is the one of the current parameters
            try:
                m.set_params(fit_intercept=not fi, quantile=0.5 if q != 0.5 else 0.3)
                m.fit(Xc, yc, w)
                m.predict(X)
            except Exception:  # noqa: BLE001
                pass
            m.set_params(fit_intercept=fi, quantile=q)
        try:
            r = m.fit(Xc, yc, w)
        except Exception as e:
            return [("fit:raises", "fit raises %s on a full-rank training set" % type(e).__name__,
                     "%s: %s" % (type(e).__name__, e), "a fitted model")], stats
        if r is not m:
            bad.append(("fit:return", "fit does not return self", repr(r), "self"))
        f = m.predict(X)
        # --- score == 2 * (weighted) mean pinball_q
        L = _pinball(q, y, f, w)
        s_w = float(m.score(X, ys, w)) if w is not None else None
        s_u = float(m.score(X, ys))
        Lu = _pinball(q, y, f)
        tol = 1e-9 * max(1.0, abs(Lu))
        if abs(s_u - 2 * Lu) > tol:
            obs = {"score": s_u, "2*mean pinball_q": 2 * Lu, "2*mean pinball_(1-q)": 2 * _pinball(1 - q, y, f)}
            bad.append(("score:unweighted", "score(X, y) is not twice the mean pinball loss of quantile q=%s" % q, obs,
                        2 * Lu))
        if w is not None and abs(s_w - 2 * L) > 1e-9 * max(1.0, abs(L)):
            lw = (q * numpy.maximum(y - f, 0) + (1 - q) * numpy.maximum(f - y, 0)) * w
            obs = {"score": s_w, "2*weighted mean pinball_q": 2 * L, "2*sum(w*pinball_q)/n": float(2 * lw.sum() / n),
                   "2*weighted mean pinball_(1-q)": 2 * _pinball(1 - q, y, f, w)}
            bad.append(("score:weighted", "score(X, y, w) is not twice the weighted mean pinball loss of quantile q=%s" % q,
                        obs, 2 * L))
        if q == 0.5:
            mae = float(numpy.abs(y - f).mean()) if w is None else float((numpy.abs(y - f) * w).sum() / w.sum())
            s = s_u if w is None else s_w
            if abs(s - mae) > 1e-9 * max(1.0, mae):
                bad.append(("score:half-not-mae", "score for q=0.5 is not the mean absolute error", s, mae))
        # --- a better q-quantile fit never scores worse: compare with a perturbed model
        m2 = QLR(quantile=q)
        rs = numpy.random.RandomState(cfg["seed"] + 1)
        m2.coef_ = m.coef_ + rs.randn(d) * 0.3
        m2.intercept_ = m.intercept_ + (rs.randn() * 0.3 if fi else 0.0)
        f2 = m2.predict(X)
        L2 = _pinball(q, y, f2, w)
        s1 = s_w if w is not None else s_u
        s2 = float(m2.score(X, ys, w)) if w is not None else float(m2.score(X, ys))
        if (L < L2 - 1e-9 and s1 > s2 + 1e-9) or (L2 < L - 1e-9 and s2 > s1 + 1e-9):
            bad.append(("score:not-monotone", "the fit with the smaller pinball_q loss gets the larger score (q=%s)" % q,
                        {"loss": [L, L2], "score": [s1, s2]}, "score increasing with the pinball loss"))
        # --- optimality against the exact LP optimum
        sc = cfg.get("scale", 1.0)
        # the LP solver's tolerances are absolute: solve at unit scale, and around zero (a level of 1e5 would drown them)
        off = cfg.get("offset", 0.0) if fi else 0.0
        Lo = _lp_optimum(q, X, (y - off) / sc, w, fi, pos)
        Lo = None if Lo is None else Lo * sc
        if Lo is not None and Lo > 1e-12:
            gap = (L - Lo) / Lo
            stats["gap"] = gap
            if gap > GAP_TOL:
                bad.append(("fit:loss-above-lp-optimum", "mean pinball_q loss of the fit exceeds the exact LP optimum by more "
                            "than %g%% (max_iter=%d)" % (100 * GAP_TOL, cfg.get("max_iter", SEARCH_ITERS)),
                            {"fit": L, "lp": Lo, "relative_gap": gap}, "<= %g" % (Lo * (1 + GAP_TOL))))
        # --- about a fraction q of the training targets lies below the hyperplane
        if fi and not pos:
            wt = numpy.ones(n) if w is None else w
            below = float(wt[y < f].sum())
            dev = abs(below - q * wt.sum())
            allow = (p + 2) * float(wt.max()) + FRAC_SLACK * float(wt.sum())
            stats["frac_dev"] = float(dev / allow)
            if dev > allow:
                bad.append(("fit:fraction-below", "weight of the targets below the hyperplane is not about q=%s of the total" % q,
                            {"below": below, "q*total": q * float(wt.sum())}, "|below - q*total| <= %g" % allow))
        # --- positive / fit_intercept
        if pos and (numpy.atleast_1d(m.coef_) < 0).any():
            bad.append(("fit:positive-negative-coefficient", "positive=True gives a negative coefficient",
                        numpy.atleast_1d(m.coef_).tolist(), "coef_ >= 0"))
        if not fi and not (m.intercept_ == 0):
            bad.append(("fit:intercept-nonzero", "fit_intercept=False gives a non-zero intercept", float(m.intercept_), 0))
        # --- integer weights == repeated rows
        if cfg.get("weights") == "int":
            reps = w.astype(int)
            Xr, yr = numpy.repeat(X, reps, axis=0), numpy.repeat(y, reps)
            try:
                mr = QLR(quantile=q, max_iter=cfg.get("max_iter", SEARCH_ITERS), fit_intercept=fi, positive=pos,
                         delta=1e-4 * cfg.get("scale", 1.0)).fit(Xr, yr)
            except Exception as e:
                bad.append(("fit:raises", "fit raises %s on a full-rank training set (repeated rows)" % type(e).__name__,
                            "%s: %s" % (type(e).__name__, e), "a fitted model"))
                return bad, stats
            # same model scored both ways: exact identity
            a, b = float(m.score(X, ys, w)), float(m.score(Xr, yr))
            if abs(a - b) > 1e-9 * max(1.0, abs(b)):
                bad.append(("score:weights-vs-repeats", "score with integer weights differs from the score on repeated rows",
                            {"weighted": a, "repeated": b}, "equal"))
            Lr = _pinball(q, yr, mr.predict(Xr))
            stats["dup"] = abs(Lr - L) / max(L, 1e-12)
            if abs(Lr - L) > DUP_TOL * max(L, 1e-12):
                bad.append(("fit:weights-vs-repeats", "fit with integer weights and fit on repeated rows reach different losses",
                            {"weighted": L, "repeated": Lr}, "equal up to the IRLS tolerance"))
            cd = float(numpy.abs(numpy.atleast_1d(mr.coef_) - numpy.atleast_1d(m.coef_)).max())
            stats["dup_coef"] = cd
    return bad, stats


def _configs(ctx, count):
    rng = ctx.rng
    out = []
    for t in range(count):
        out.append({"seed": rng.randrange(1 << 30), "n": rng.randint(40, 160), "d": rng.randint(1, 4),
                    "q": rng.choice([0.05, 0.1, 0.2, 0.25, 0.3, 0.4, 0.5, 0.5, 0.6, 0.7, 0.75, 0.8, 0.9, 0.95,
                                     round(rng.uniform(0.05, 0.95), 3)]),
                    "noise": rng.choice([0.1, 0.5, 1.0, 3.0]),
                    "weights": rng.choice([None, None, "int", "int", "real"]),
                    "fit_intercept": rng.random() < 0.75, "positive": rng.random() < 0.2})
        if t % 8 == 5:
            out[-1]["scale"] = rng.choice([1e-6, 1e-3, 1e3])
        if t % 4 == 2:
            out[-1]["reconfigured"] = True
        if out[-1]["positive"] and t % 2:
            out[-1]["negative_column"] = True
        if t % 7 == 4 and not out[-1]["positive"] and "scale" not in out[-1]:
            # (positive=True also bounds the intercept: the level matters there; a level of 1e5 on targets of spread 1e-6
            #  would leave four significant digits to the residuals)
            out[-1]["offset"] = rng.choice([1e4, 1e5, -1e5])      # targets far from 0 compared with their spread
        if t % 5 == 3:
            out[-1]["container"] = rng.choice(["intX", "frame"])
            if "scale" not in out[-1] and "offset" not in out[-1] and rng.random() < 0.5:
                out[-1]["container"] = "intY"
            if out[-1]["container"] == "frame" and t % 2:
                out[-1]["fit_intercept"] = False
    return out


def search(ctx, hints):
    ctx.shadow(need_cython=True)
    vs, evals, nontriv, samples = [], 0, set(), []
    worst = {"gap": 0.0, "frac_dev": 0.0, "dup": 0.0, "dup_coef": 0.0}
    # the D09 witness of DESIGN.md first (q = 0.2), then the generated stream
    cfgs = [{"seed": 7, "n": 60, "d": 1, "q": 0.2, "noise": 1.0, "weights": None, "fit_intercept": True, "positive": False},
            {"seed": 8, "n": 60, "d": 2, "q": 0.2, "noise": 1.0, "weights": "int", "fit_intercept": True, "positive": False}]
    cfgs += _configs(ctx, ctx.pick(150, 2500))
    for cfg in cfgs:
        bad, stats = _check_case(cfg)
        evals += 1
        nontriv.add((cfg["seed"], cfg["n"], cfg["d"], cfg["q"]))
        for k in worst:
            if k in stats:
                worst[k] = max(worst[k], stats[k])
        if len(samples) < 3:
            samples.append({"config": cfg, "stats": stats})
        for key, what, obs, req in bad:
            vs.append(Violation("QuantileLinearRegression." + key, what, cfg, obs, req))
    best = {}
    for v in vs:
        if v.key not in best or (v.input["n"], v.input["d"]) < (best[v.key].input["n"], best[v.key].input["d"]):
            best[v.key] = v
    return list(best.values()), {"evaluations": evals, "distinct_nontrivial": len(nontriv), "samples": samples,
                                 "worst_observed": worst,
                                 "tolerances": {"relative_gap": GAP_TOL, "fraction_slack": FRAC_SLACK, "weights_vs_repeats": DUP_TOL,
                                                "max_iter": SEARCH_ITERS}}


def replay(ctx, item):
    ctx.shadow(need_cython=True)
    bad, _ = _check_case(item["input"])
    best = {}
    want = item.get("key")
    for key, what, obs, req in bad:
        if want is None or want == "QuantileLinearRegression." + key:
            best.setdefault(key, Violation("QuantileLinearRegression." + key, what, item["input"], obs, req))
    return list(best.values())
