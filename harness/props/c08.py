"""C08 — Piecewise estimators: a partition by the binner with one local model per bucket."""
import ast
import time
from fractions import Fraction

from core import Corr, Violation, run_driver
from extract import pyexpr
from extract import shape

ID = "C08"
SRC = "mlinsights/mlmodel/piecewise_estimator.py"
LEAN_TARGETS = ["MlVerif.Gen.C08", "MlVerif.Model.Piecewise", "MlVerif.Lemmas.Piecewise2", "MlVerif.Properties.C08"]
PROPERTY_FILE = "MlVerif/Properties/C08.lean"
DRIVER = "Drivers/C08.lean"
TRUSTED = [
    "the fitted binner reports one bucket key per row (decision_path has exactly one leaf column set per row; "
    "KBinsDiscretizer.transform gives one cell per row): keys are inputs of the model, checked per case",
    "local estimators are parameters: their batch methods are row-wise (hypothesis of dispatch_exact) and a "
    "scikit-learn classifier's classes_ is the sorted set of the labels it was fitted on",
    "joblib.Parallel returns results in submission order; tasks run in threads that only read the shared numpy "
    "arrays (thread safety of those reads is assumed, not modelled)",
    "numpy boolean-mask indexing/assignment, numpy.logical_or/logical_not, dict insertion order, sorted() on int tuples",
    "RandomState.shuffle returns a permutation of arange(n) (recorded and fed to the model)",
]
ASSUMPTIONS = [
    "'one local model per non-empty training bucket' is read on the buckets of the fitted binner that contain at "
    "least one training row; buckets are numbered densely in leaf-index order (tree) / sorted cell order (discretizer)",
    "'results do not depend on n_jobs' is read over thread schedules: with a seeded random_state the fitted local "
    "models must be the same list for every order in which the threads run the bucket tasks",
    "'predicted labels belong to classes_' is read for every label type scikit-learn classifiers accept "
    "(integers, floats, strings)",
    "random_state=None draws unseeded generators by design and is excluded from the n_jobs comparison of the "
    "borrowed examples (everything else is still compared)",
]
RULE = ("random data sets (n 6..60, 1-3 features, integer grid) x binner (DecisionTree depth 1-6 / tree fitted on a "
        "superset so that some leaves are empty at training time / KBinsDiscretizer 2-4 bins) x sample weights x "
        "n_jobs in {None,1,4,16} x regressor/classifier with a recording local estimator; per case the bucket keys "
        "reported by the real binner, the recorded shuffles and the recording estimators' tags are fed to the Lean "
        "model and association/mapping/leaves, every bucket's training sub-list (rows, targets, weights, order), "
        "transform_bins and predict/predict_proba/decision_function on a fresh batch are compared exactly. "
        "Non-trivial = at least 2 buckets; distinct = distinct (keys, labels, weights, batch keys)")
LEVEL_TEXT = ("Lean 4 theorems for all data sets, bucket maps, batches and schedules: the bucket maps computed by "
              "_mapping_train/transform_bins are a partition by the binner key with -1 exactly for unseen keys, one "
              "model per non-empty bucket, each trained on exactly the sub-list of its rows/targets/weights (plus "
              "exactly one borrowed row per missing class), dispatch writes each row its bucket model's (or the "
              "fallback's) output, probabilities/labels stay in classes_, and the result list is schedule "
              "independent. Selections, the unseen value, the mask bookkeeping, the Parallel arguments, the label "
              "buffer dtype/cast and the per-task random state are regenerated from the source on every run.")
LEVEL_NOTE = ("partial: thread safety of shared numpy reads and joblib's ordering are trusted; binner and local "
              "estimators are parameters (their row-wise behaviour is a hypothesis validated by the differential run)")
TECHNIQUE = ("Lean 4 proof (induction over bucket lists and batches, scatter lemma dispatch_rows) + AST-regenerated "
             "definitions + differential correspondence with a recording local estimator")

CMP = {ast.Eq: ".eq", ast.NotEq: ".ne", ast.Lt: ".lt", ast.LtE: ".le", ast.Gt: ".gt", ast.GtE: ".ge"}


# ------------------------------------------------------------------------------ extractor

def _q(s):
    return '"' + s.replace("\\", "/").replace('"', "'") + '"'


def _lstr(xs):
    return "[" + ", ".join(_q(x) for x in xs) + "]"


def _lint(v):
    return "(%d : Int)" % v


def _const_int(node):
    """-1, 0, 3 ... -> int; None if not an integer literal."""
    if isinstance(node, ast.Constant) and isinstance(node.value, int) and not isinstance(node.value, bool):
        return node.value
    if isinstance(node, ast.UnaryOp) and isinstance(node.op, ast.USub):
        v = _const_int(node.operand)
        return None if v is None else -v
    return None


def _int_or_unknown(node):
    v = _const_int(node)
    if v is None:
        return '(MlVerif.Gen.unknownInt %s)' % _q(ast.unparse(node))
    return _lint(v)


def _masksel(node):
    """`a <cmp> b` -> Lean MaskSel term."""
    if isinstance(node, ast.Compare) and len(node.ops) == 1:
        cmp_ = CMP.get(type(node.ops[0]), ".unknown")
        return "⟨%s, %s, %s⟩" % (_q(ast.unparse(node.left)), cmp_, _q(ast.unparse(node.comparators[0])))
    return "⟨%s, .unknown, %s⟩" % (_q(ast.unparse(node)), _q("?"))


def _first_assign(fn, name):
    a = pyexpr.assignments(fn, name)
    return a[0] if a else None


def _sliced_by(stmts, mask="ind"):
    """[(target, array)] for statements `T = A[mask, :]`, `T = A[mask]`, `T = A[mask] if A is not None else None`."""
    out = []
    for st in stmts:
        if not (isinstance(st, ast.Assign) and len(st.targets) == 1 and isinstance(st.targets[0], ast.Name)):
            continue
        v = st.value
        if isinstance(v, ast.IfExp):
            cond = ast.unparse(v.test)
            if not (isinstance(v.orelse, ast.Constant) and v.orelse.value is None and cond.endswith("is not None")):
                continue
            v = v.body
        if isinstance(v, ast.Subscript) and isinstance(v.value, ast.Name):
            sl = ast.unparse(v.slice)
            if sl in (mask, "%s, :" % mask, "(%s, :)" % mask):
                out.append((st.targets[0].id, v.value.id))
    return out


def _pairs(xs):
    return "[" + ", ".join("(%s, %s)" % (_q(a), _q(b)) for a, b in xs) + "]"


def _fn(root, name):
    try:
        return pyexpr.find_function(root, name)
    except pyexpr.Unknown:
        return None


def extract(ctx):
    tree = ast.parse(ctx.source(SRC))
    fitfn = pyexpr.find_function(tree, "_fit_piecewise_estimator")
    a = _first_assign(fitfn, "ind")
    fit_sel = _masksel(a.value) if a is not None else '⟨"?", .unknown, "?"⟩'
    top = [s for s in fitfn.body]
    fit_sliced = _sliced_by(top)
    after = []
    for s in fitfn.body:
        if isinstance(s, ast.If) and "nb_classes" in ast.unparse(s.test):
            after = _sliced_by(s.body)
    fit_call = []
    for s in fitfn.body:
        if isinstance(s, ast.Return) and isinstance(s.value, ast.Call) and ast.unparse(s.value.func) == "model.fit":
            fit_call = [ast.unparse(x) for x in s.value.args] + \
                       ["%s=%s" % (k.arg, ast.unparse(k.value)) for k in s.value.keywords]
    # predict tasks
    psel = []
    for name in ("_predict_piecewise_estimator", "_predict_proba_piecewise_estimator",
                 "_decision_function_piecewise_estimator"):
        try:
            fn = pyexpr.find_function(tree, name)
        except pyexpr.Unknown:
            psel.append((name, '⟨"?", .unknown, "?"⟩', "missing"))
            continue
        a = _first_assign(fn, "ind")
        sel = _masksel(a.value) if a is not None else '⟨"?", .unknown, "?"⟩'
        meth = "unknown"
        for s in fn.body:
            if isinstance(s, ast.Return) and isinstance(s.value, ast.Tuple) and len(s.value.elts) == 2:
                e0, e1 = s.value.elts
                if (isinstance(e0, ast.Name) and e0.id == "ind" and isinstance(e1, ast.Call)
                        and isinstance(e1.func, ast.Attribute) and ast.unparse(e1.func.value) == "est"
                        and len(e1.args) == 1 and ast.unparse(e1.args[0]) in ("X[ind, :]", "X[ind]")):
                    meth = e1.func.attr
        psel.append((name, sel, meth))
    # unseen value
    cls = pyexpr.find_function(tree, "PiecewiseEstimator")
    inits, defaults = [], []
    for fname in ("_mapping_train", "transform_bins"):
        fn = pyexpr.find_function(cls, fname)
        nodes = sorted((n for n in ast.walk(fn) if hasattr(n, "lineno")), key=lambda n: (n.lineno, n.col_offset))
        for n in nodes:
            if isinstance(n, ast.Assign) and len(n.targets) == 1 and ast.unparse(n.targets[0]) == "association[:]":
                inits.append(_int_or_unknown(n.value))
            if isinstance(n, ast.Call) and isinstance(n.func, ast.Attribute) and n.func.attr == "get" \
                    and ast.unparse(n.func.value) in ("mapping", "self.mapping_"):
                defaults.append(_int_or_unknown(n.args[1]) if len(n.args) == 2 else
                                '(MlVerif.Gen.unknownInt "get without default")')
    allv = set(inits + defaults)
    unseen = inits[0] if len(allv) == 1 else '(MlVerif.Gen.unknownInt "unseen values differ: %d")' % len(allv)
    # _apply_predict_method
    ap = pyexpr.find_function(cls, "_apply_predict_method")
    scatter, accum, final, guard, fb = [], ".unknown", ".id", "(.unknown, (0 : Int))", []
    for s in ap.body:
        if isinstance(s, ast.For) and ast.unparse(s.iter) == "indpred":
            for b in s.body:
                if isinstance(b, ast.If) and ast.unparse(b.test) == "ind is None":
                    continue
                if isinstance(b, ast.Assign) and isinstance(b.targets[0], ast.Subscript):
                    scatter.append(ast.unparse(b))
                elif isinstance(b, ast.Assign) and ast.unparse(b.targets[0]) == "indall":
                    src = ast.unparse(b.value)
                    accum = {"numpy.logical_or(indall, ind)": ".or", "numpy.logical_or(ind, indall)": ".or",
                             "numpy.logical_and(indall, ind)": ".and",
                             "numpy.logical_xor(indall, ind)": ".xor"}.get(src, ".unknown")
                else:
                    scatter.append("?" + ast.unparse(b))
        if isinstance(s, ast.Assign) and ast.unparse(s.targets[0]) == "indall" and isinstance(s.value, ast.Call):
            src = ast.unparse(s.value)
            if src == "numpy.logical_not(indall)":
                final = ".not"
            elif src.startswith("numpy.empty"):
                pass
            else:
                final = ".unknown"
        if isinstance(s, ast.If) and "Xmissed" in ast.unparse(s.test):
            t = s.test
            if (isinstance(t, ast.Compare) and len(t.ops) == 1 and ast.unparse(t.left) == "Xmissed.shape[0]"
                    and _const_int(t.comparators[0]) is not None):
                guard = "(%s, %s)" % (CMP.get(type(t.ops[0]), ".unknown"), _lint(_const_int(t.comparators[0])))
            fb = [ast.unparse(b) for b in s.body]
    xm = _first_assign(ap, "Xmissed")
    if xm is None or ast.unparse(xm.value) != "X[indall]":
        guard = "(.unknown, (0 : Int))"
    # Parallel(...)
    pk = []
    for c in sorted((n for n in ast.walk(cls) if isinstance(n, ast.Call) and ast.unparse(n.func) == "Parallel"),
                    key=lambda n: n.lineno):
        pk.append("[" + ", ".join("(%s, %s)" % (_q(k.arg or "**"), _q(ast.unparse(k.value))) for k in c.keywords) + "]")
    # task arguments
    fit = pyexpr.find_function(cls, "fit")

    def delayed_args(fn, callee):
        for n in ast.walk(fn):
            if isinstance(n, ast.Call) and isinstance(n.func, ast.Call) and ast.unparse(n.func.func) == "delayed" \
                    and len(n.func.args) == 1 and ast.unparse(n.func.args[0]) == callee:
                return n.args
        return None
    fa = delayed_args(fit, "_fit_piecewise_estimator")
    pa = delayed_args(ap, "parallelized")
    fit_args = [ast.unparse(x) for x in fa] if fa is not None else ["?"]
    pred_args = [ast.unparse(x) for x in pa] if pa is not None else ["?"]
    rng_names = set()
    for n in ast.walk(fit):
        if isinstance(n, ast.Assign) and len(n.targets) == 1 and isinstance(n.targets[0], ast.Name) \
                and isinstance(n.value, ast.Call) and ast.unparse(n.value.func).endswith("RandomState"):
            rng_names.add(n.targets[0].id)
    shared = [ast.unparse(x) for x in (fa or []) if isinstance(x, ast.Name) and x.id in rng_names]
    if fa is None:
        shared = ["?"]
    # classifier predict: buffer dtype and post-processing
    zeros = [n for n in ast.walk(ap) if isinstance(n, ast.Assign) and ast.unparse(n.targets[0]) == "pred"
             and isinstance(n.value, ast.Call) and ast.unparse(n.value.func) == "numpy.zeros"]
    pc = pyexpr.find_function(tree, "PiecewiseClassifier")
    cpred = pyexpr.find_function(pc, "predict")
    dtype, post = "unknown", ".unknown"
    apply_call, bound = None, None
    for s in cpred.body:
        v = getattr(s, "value", None)
        if isinstance(s, (ast.Assign, ast.Return)) and isinstance(v, ast.Call) \
                and ast.unparse(v.func) == "self._apply_predict_method":
            apply_call = v
            if isinstance(s, ast.Return):
                post = ".identity"
            else:
                bound = ast.unparse(s.targets[0])
        elif isinstance(s, ast.Return) and apply_call is not None and bound is not None:
            if isinstance(v, ast.Name) and v.id == bound:
                post = ".identity"
            elif isinstance(v, ast.Call) and isinstance(v.func, ast.Attribute) and v.func.attr == "astype" \
                    and ast.unparse(v.func.value) == bound and len(v.args) == 1:
                post = ".astype %s" % _q(ast.unparse(v.args[0]))
    if len(zeros) == 1 and apply_call is not None:
        kws = {k.arg: k.value for k in zeros[0].value.keywords}
        if "dtype" not in kws and len(zeros[0].value.args) == 1:
            dtype = "float64"
        elif "dtype" in kws and isinstance(kws["dtype"], ast.Name):
            pname = kws["dtype"].id
            params = [a_.arg for a_ in ap.args.args]
            passed = {k.arg: k.value for k in apply_call.keywords}
            if pname in params:
                if pname in passed:
                    src = ast.unparse(passed[pname])
                    dtype = "classes_.dtype" if src.endswith("classes_.dtype") else "unknown:" + src
                else:
                    idx = params.index(pname) - (len(params) - len(ap.args.defaults))
                    d = ap.args.defaults[idx] if idx >= 0 else None
                    if isinstance(d, ast.Constant) and d.value is None and len(apply_call.args) < params.index(pname):
                        dtype = "float64"
    body = pyexpr.HEADER + """import MlVerif.Gen.Base
namespace MlVerif.Gen.C08
open MlVerif.Gen

inductive Cmp where
  | eq | ne | lt | le | gt | ge | unknown
deriving DecidableEq, Repr

/-- a row selection `array <cmp> rhs` -/
structure MaskSel where
  array : String
  cmp : Cmp
  rhs : String
deriving DecidableEq, Repr

inductive BOp where
  | or | and | xor | unknown
deriving DecidableEq, Repr

inductive UOp where
  | not | id | unknown
deriving DecidableEq, Repr

inductive PostOp where
  | identity | astype (ty : String) | unknown
deriving DecidableEq, Repr

/-- `ind = ...` in `_fit_piecewise_estimator` -/
def fitSelection : MaskSel := %(fit_sel)s
/-- arrays sliced by `ind` (target name, sliced array), first slicing -/
def fitSliced : List (String × String) := %(fit_sliced)s
/-- arrays sliced by `ind` again after the class-borrowing loop -/
def fitSlicedAfterBorrow : List (String × String) := %(after)s
/-- what the fitted task hands to the local model: `model.fit(...)` -/
def fitCall : List String := %(fit_call)s
/-- selections of the three predict tasks (function, selection, method called on `X[ind, :]`) -/
def predictSelections : List (String × MaskSel × String) := %(psel)s
/-- `association[:] = v` initial values (in `_mapping_train` tree / transform branch, `transform_bins` tree / transform branch) -/
def unseenInit : List Int := %(inits)s
/-- defaults of `mapping.get(key, default)` (in `_mapping_train`, `transform_bins` tree, `transform_bins` transform) -/
def unseenDefault : List Int := %(defaults)s
/-- the value of an unseen bucket -/
def unseenValue : Int := %(unseen)s
/-- `_apply_predict_method`: the masked writes of the gather loop, `indall = numpy.logical_or(indall, ind)` -/
def applyScatter : List String := %(scatter)s
def applyAccum : BOp := %(accum)s
/-- `indall = numpy.logical_not(indall)` -/
def applyFinal : UOp := %(final)s
/-- `Xmissed = X[indall]`, guard `Xmissed.shape[0] <cmp> c` -/
def fallbackGuard : Cmp × Int := %(guard)s
/-- body of the fallback branch -/
def fallbackScatter : List String := %(fb)s
/-- keyword arguments of the `Parallel(...)` calls (in `fit`, `_apply_predict_method`) -/
def parallelKwargs : List (List (String × String)) := %(pk)s
/-- arguments of the delayed fit task / predict task -/
def fitTaskArgs : List String := %(fit_args)s
def predictTaskArgs : List String := %(pred_args)s
/-- task arguments bound, in the submitting function, to one `numpy.random.RandomState(...)` object shared by all tasks -/
def fitTaskSharedRng : List String := %(shared)s
/-- `PiecewiseClassifier.predict`: dtype of the buffer the labels are scattered into, and what is applied to it -/
def predictBufferDtype : String := %(dtype)s
def predictPost : PostOp := %(post)s

%(shapes)s
end MlVerif.Gen.C08
""" % dict(shapes=shape.lean_defs([("shapeFitTask", _fn(tree, "_fit_piecewise_estimator")),
                                     ("shapePredictTask", _fn(tree, "_predict_piecewise_estimator")),
                                     ("shapeTransformBins", _fn(cls, "transform_bins")),
                                     ("shapeMappingTrain", _fn(cls, "_mapping_train")),
                                     ("shapeApplyPredictMethod", _fn(cls, "_apply_predict_method"))]),
           fit_sel=fit_sel, fit_sliced=_pairs(fit_sliced), after=_pairs(after), fit_call=_lstr(fit_call),
           psel="[" + ", ".join("(%s, %s, %s)" % (_q(n), s, _q(m)) for n, s, m in psel) + "]",
           inits="[" + ", ".join(inits) + "]", defaults="[" + ", ".join(defaults) + "]", unseen=unseen,
           scatter=_lstr(scatter), accum=accum, final=final, guard=guard, fb=_lstr(fb),
           pk="[" + ", ".join(pk) + "]", fit_args=_lstr(fit_args), pred_args=_lstr(pred_args),
           shared=_lstr(shared), dtype=_q(dtype), post=post)
    return {"MlVerif/Gen/C08.lean": body}


# ------------------------------------------------------------------------------ helpers (real code side)

def _mk_classes():
    """Recording local estimators and binners, defined after the shadow build (they subclass sklearn)."""
    import numpy
    from sklearn.base import BaseEstimator, RegressorMixin, ClassifierMixin
    from sklearn.tree import DecisionTreeRegressor, DecisionTreeClassifier

    def tag_of(X, y):
        ids = X[:, 0].astype(numpy.int64)
        return int((int(ids.sum()) * 7 + len(ids) * 13 + 1) % 997)

    class RecReg(BaseEstimator, RegressorMixin):
        """Stores exactly what it is fitted on; predicts rowid*1000 + tag (tag identifies the training set)."""

        def __init__(self, a=1):
            self.a = a

        def fit(self, X, y, sample_weight=None):
            self.seen_X = numpy.array(X).copy()
            self.seen_y = numpy.array(y).copy()
            self.seen_w = None if sample_weight is None else numpy.array(sample_weight).copy()
            self.tag_ = tag_of(self.seen_X, self.seen_y)
            return self

        def predict(self, X):
            return numpy.asarray(X)[:, 0] * 1000.0 + self.tag_

    class RecClf(BaseEstimator, ClassifierMixin):
        def __init__(self, a=1):
            self.a = a

        def fit(self, X, y, sample_weight=None):
            self.seen_X = numpy.array(X).copy()
            self.seen_y = numpy.array(y).copy()
            self.seen_w = None if sample_weight is None else numpy.array(sample_weight).copy()
            self.tag_ = tag_of(self.seen_X, self.seen_y)
            self.classes_ = numpy.unique(self.seen_y)
            return self

        def predict(self, X):
            ids = numpy.asarray(X)[:, 0].astype(numpy.int64)
            return self.classes_[(ids + self.tag_) % len(self.classes_)]

        def predict_proba(self, X):
            base = numpy.asarray(X)[:, 0] * 1000.0 + self.tag_
            k = len(self.classes_)
            return base[:, None] * 8.0 + numpy.arange(k)[None, :]

        def decision_function(self, X):
            base = numpy.asarray(X)[:, 0] * 1000.0 + self.tag_
            k = len(self.classes_)
            if k == 2:
                return base
            return base[:, None] * 8.0 + numpy.arange(k)[None, :]

    def _extra(X, seed):
        rs = numpy.random.RandomState(seed)
        m = max(4, X.shape[0] // 2)
        Xe = X.max(axis=0)[None, :] + 3 + rs.randint(0, 12, size=(m, X.shape[1])).astype(float)
        return Xe

    class SupersetTreeReg(DecisionTreeRegressor):
        """A tree binner fitted on a superset of the training set: some leaves hold no training row."""

        def fit(self, X, y, sample_weight=None, check_input=True):
            Xe = _extra(X, 4242)
            ye = numpy.arange(Xe.shape[0], dtype=float) * 17 + 500
            sw = None if sample_weight is None else numpy.concatenate([sample_weight, numpy.ones(Xe.shape[0])])
            return DecisionTreeRegressor.fit(self, numpy.vstack([X, Xe]), numpy.concatenate([y, ye]), sample_weight=sw)

    class SupersetTreeClf(DecisionTreeClassifier):
        def fit(self, X, y, sample_weight=None, check_input=True):
            Xe = _extra(X, 4243)
            cl = numpy.unique(y)
            ye = cl[numpy.arange(Xe.shape[0]) % len(cl)]
            sw = None if sample_weight is None else numpy.concatenate([sample_weight, numpy.ones(Xe.shape[0])])
            return DecisionTreeClassifier.fit(self, numpy.vstack([X, Xe]), numpy.concatenate([y, ye]), sample_weight=sw)

    return dict(RecReg=RecReg, RecClf=RecClf, SupersetTreeReg=SupersetTreeReg, SupersetTreeClf=SupersetTreeClf,
                extra=_extra)


_CLS = {}


def classes(ctx):
    if not _CLS:
        ctx.shadow(need_cython=False)
        _CLS.update(_mk_classes())
    return _CLS


class ShuffleRecorder:
    """Records every RandomState.shuffle result (randomness is an input of the model)."""

    def __enter__(self):
        import numpy
        self.numpy = numpy
        self.orig = numpy.random.RandomState
        rec = self
        rec.log = []
        rec.count = 0

        class RecRS(self.orig):
            def __init__(self, *a, **k):
                super().__init__()
                if a or k:
                    self.seed(*a, **k)
                self._verif_idx = rec.count
                rec.count += 1

            def shuffle(self, x):
                r = super().shuffle(x)
                rec.log.append((self._verif_idx, len(rec.log), numpy.array(x).copy()))
                return r
        numpy.random.RandomState = RecRS
        return self

    def __exit__(self, *a):
        self.numpy.random.RandomState = self.orig

    def ordered(self):
        return [x for _, _, x in sorted(self.log, key=lambda t: (t[0], t[1]))]


class MappingRecorder:
    """Records what `_mapping_train` returned during fit (harness-side wrapper, no repo hook)."""

    def __init__(self, cls):
        self.cls = cls

    def __enter__(self):
        self.orig = self.cls._mapping_train
        rec = self
        rec.out = None

        def wrapped(self_, X, binner):
            r = rec.orig(self_, X, binner)
            rec.out = (r[0].copy(), dict(r[1]), list(r[2]))
            return r
        self.cls._mapping_train = wrapped
        return self

    def __exit__(self, *a):
        self.cls._mapping_train = self.orig


def fl(xs):
    xs = list(xs)
    return ",".join(str(int(x)) for x in xs) if xs else "-"


def fmat(rows):
    rows = list(rows)
    return ";".join(fl(r) for r in rows) if rows else "-"


def make_case(rng, kind, label_type="int"):
    """Random data set on an integer grid.  Column 0 is the row number (what recording models echo)."""
    import numpy
    n = rng.randint(6, 60)
    d = rng.choice([1, 2, 2, 3])
    X = numpy.zeros((n, d + 1))
    X[:, 0] = numpy.arange(n)
    off = rng.choice([0, 0, 0, -3, -5, -4])      # features of either sign: tree thresholds such as -2.0, -1.0, 0.0 occur
    for j in range(1, d + 1):
        X[:, j] = [rng.choice([0, 2, 4, 6, 8, 1]) + off if off else rng.randint(0, 9) for _ in range(n)]
    w = None
    if rng.random() < 0.5:
        lo = rng.choice([1, 1, 0])      # "all sample weights": count weights may be 0 for some rows
        w = numpy.array([rng.randint(lo, 5) for _ in range(n)], dtype=float)
        if not w.any():
            w[0] = 1.0
    if kind == "reg":
        y = numpy.array([rng.randint(-20, 20) for _ in range(n)], dtype=float)
        codes = None
        cls_ = None
    else:
        k = rng.choice([2, 2, 3, 4])
        codes = numpy.array([(int(X[i, 1]) * k // 10 + (1 if rng.random() < 0.15 else 0)) % k for i in range(n)])
        for c in range(k):                      # every class occurs
            codes[rng.randrange(n) if c >= n else c] = c
        if label_type == "int":
            cls_ = numpy.array([3 * c + 1 for c in range(k)])
        elif label_type == "float":            # float-coded labels (scikit-learn rejects non-integral floats)
            cls_ = numpy.array([3.0 * c + 1.0 for c in range(k)])
        elif label_type == "bigint":
            cls_ = numpy.array([3000000000 + 7 * c for c in range(k)], dtype=numpy.int64)
        elif label_type == "strlen":          # strings of unequal lengths, the shortest sorts first
            cls_ = numpy.array(["a", "bb", "ccc", "dddd"][:k])
        else:
            cls_ = numpy.array(["abcd"[c] for c in range(k)])
        y = cls_[codes]
    m = rng.randint(1, 30)
    B = numpy.zeros((m, d + 1))
    B[:, 0] = numpy.arange(m)
    for j in range(1, d + 1):
        B[:, j] = [rng.randint(0, 9) + off for _ in range(m)]
    return X, y, w, B, codes, cls_


def make_binner(ctx, rng, kind):
    from sklearn.tree import DecisionTreeRegressor, DecisionTreeClassifier
    from sklearn.preprocessing import KBinsDiscretizer
    C = classes(ctx)
    r = rng.random()
    depth = rng.randint(1, 6)
    msl = rng.choice([1, 1, 2, 3])
    if r < 0.45:
        T = DecisionTreeRegressor if kind == "reg" else DecisionTreeClassifier
        return "tree%d" % depth, T(max_depth=depth, min_samples_leaf=msl, random_state=0)
    if r < 0.7:
        T = C["SupersetTreeReg"] if kind == "reg" else C["SupersetTreeClf"]
        return "supertree%d" % depth, T(max_depth=depth, min_samples_leaf=msl, random_state=0)
    nb = rng.choice([2, 3, 4])
    return "kbins%d" % nb, KBinsDiscretizer(n_bins=nb, strategy=rng.choice(["uniform", "quantile"]))


def binner_keys(model, X):
    """Bucket key of every row as the fitted binner reports it.  Returns (kind, keys, one_leaf_per_row)."""
    import numpy
    b = model.binner_
    if hasattr(b, "tree_"):
        t = b.tree_
        leaves = [i for i in range(len(t.children_left)) if t.children_left[i] <= i and t.children_right[i] <= i]
        dp = numpy.asarray(b.decision_path(X).todense())
        keys, ok = [], True
        for r in range(X.shape[0]):
            on = [j for j in leaves if dp[r, j] == 1]
            if len(on) != 1:
                ok = False
            keys.append(on[-1] if on else 10 ** 6)
        return "tree", keys, ok
    tr = numpy.asarray(b.transform(X).todense()).astype(numpy.int64)
    return "cells", [tuple(int(v) for v in row) for row in tr], True


def label_tok(v):
    import numpy
    if isinstance(v, (str, numpy.str_)):
        return "s:%s" % v
    if isinstance(v, (float, numpy.floating)):
        fr = Fraction(float(v))
        return "f:%d/%d" % (fr.numerator, fr.denominator) if fr.denominator != 1 else "f:%d" % fr.numerator
    return "i:%d" % int(v)


def fit_model(ctx, kind, binner, X, y, w, n_jobs, random_state, used_before=None):
    """Fit the real estimator with recorders on.  Returns dict(model, err, shuffles, mapping).
    `used_before` = (X0, y0, w0, B0): the same object is first fitted on that training set and used on B0."""
    import warnings
    from mlinsights.mlmodel.piecewise_estimator import PiecewiseRegressor, PiecewiseClassifier, PiecewiseEstimator
    C = classes(ctx)
    if kind == "reg":
        model = PiecewiseRegressor(binner, C["RecReg"](), n_jobs=n_jobs)
    else:
        model = PiecewiseClassifier(binner, C["RecClf"](), n_jobs=n_jobs, random_state=random_state)
    out = {"model": model, "err": None}
    if used_before is not None:
        X0, y0, w0, B0 = used_before
        with warnings.catch_warnings():
            warnings.simplefilter("ignore")
            try:
                model.fit(X0, y0, w0)
                model.transform_bins(B0)
                (model.predict if kind == "reg" else model.predict_proba)(B0)
            except Exception:  # noqa: BLE001
                pass
    with warnings.catch_warnings():
        warnings.simplefilter("ignore")
        with ShuffleRecorder() as sr, MappingRecorder(PiecewiseEstimator) as mr:
            try:
                model.fit(X, y, w)
            except Exception as e:
                out["err"] = "%s: %s" % (type(e).__name__, str(e)[:120])
    out["shuffles"] = sr.ordered()
    out["mapping"] = mr.out
    return out


# ------------------------------------------------------------------------------ correspondence

def correspond(ctx):
    import warnings
    import numpy
    C = classes(ctx)
    corr = Corr()
    corr.rule = RULE
    rng = ctx.rng
    lines, expect = [], []

    def add(op, line, impl, inp):
        lines.append(line)
        expect.append((op, inp, impl))

    ncases = ctx.pick(70, 900)
    for t in range(ncases):
        kind = "reg" if t % 2 == 0 else "clf"
        label_type = "int" if kind == "reg" else rng.choice(["int", "int", "float", "str"])
        X, y, w, B, codes, cls_ = make_case(rng, kind, label_type)
        bname, binner = make_binner(ctx, rng, kind)
        n_jobs = rng.choice([None, 1, 4, 16])
        random_state = None
        if kind == "clf":
            random_state = rng.randrange(1000) if (n_jobs not in (None, 1) or rng.random() < 0.6) else None
        r = fit_model(ctx, kind, binner, X, y, w, n_jobs, random_state)
        model = r["model"]
        desc = {"case": t, "kind": kind, "binner": bname, "n": int(X.shape[0]), "n_jobs": n_jobs,
                "weights": w is not None, "labels": label_type, "random_state": random_state}
        if r["err"] is not None:
            corr.hit("fit_error:" + r["err"].split(":")[0])
            corr.case(("fit-error", t), nontrivial=False)
            continue
        corr.hit("binner:" + bname.rstrip("0123456789"))
        corr.hit("n_jobs=%s" % n_jobs)
        corr.hit("kind:" + kind)
        bk, keys, one = binner_keys(model, X)
        _, bkeys, oneb = binner_keys(model, B)
        corr.hit("one_leaf_per_row" if (one and oneb) else "NOT_one_leaf_per_row")
        assoc_impl, mapping_impl, leaves_impl = r["mapping"]
        nest = len(model.estimators_)
        # ---- bucket maps
        if bk == "tree":
            tr_ = model.binner_.tree_
            add("leaves", "leaves %s %s" % (fl(tr_.children_left), fl(tr_.children_right)),
                fl(leaves_impl), desc)
            impl = "%s|%s" % (fl(assoc_impl), ",".join("%d:%d" % (k, v) for k, v in mapping_impl.items()) or "-")
            add("traintree", "traintree %s %s" % (fl(leaves_impl), fl(keys)), impl, desc)
            mp = ",".join("%d:%d" % (k, v) for k, v in model.mapping_.items()) or "-"
            add("tbtree", "tbtree %s %s %s" % (fl(model.leaves_), mp, fl(bkeys)), fl(model.transform_bins(B)), desc)
        else:
            impl = "%s|%s|%s|%s" % (fl(assoc_impl), fmat(mapping_impl.keys()), fl(mapping_impl.values()),
                                    fmat(leaves_impl))
            add("trainbins", "trainbins %s" % fmat(keys), impl, desc)
            add("tbcells", "tbcells %s %s %s" % (fmat(model.mapping_.keys()), fl(model.mapping_.values()), fmat(bkeys)),
                fl(model.transform_bins(B)), desc)
        assoc_b = model.transform_bins(B)
        unseen = int((assoc_b < 0).sum())
        corr.hit("batch_rows_unseen_bucket", unseen)
        corr.hit("batch_with_unseen" if unseen else "batch_all_seen")
        corr.hit("n_estimators=%s" % (nest if nest < 8 else "8+"))
        # ---- training sub-lists
        if kind == "reg":
            ycode, nb = y, "none"
        else:
            ycode, nb = codes, str(len(set(model.mean_estimator_.classes_)))
        shuffles = list(r["shuffles"])
        n_borrow = 0
        for i, est in enumerate(model.estimators_):
            ind = assoc_impl == i
            need = kind == "clf" and len(set(ycode[ind])) != int(nb)
            add_txt = "-"
            if need:
                n_borrow += 1
                if shuffles:
                    add_txt = fl(shuffles.pop(0))
                else:
                    add_txt = "-"
            line = "fit %d %s %s %s %s %s" % (i, fl(ycode), fl(w) if w is not None else "none", fl(assoc_impl), nb, add_txt)
            if hasattr(est, "seen_X"):
                rows = est.seen_X[:, 0]
                sy = est.seen_y if kind == "reg" else [list(cls_).index(v) for v in est.seen_y]
                base = set(numpy.nonzero(ind)[0])
                got_rows = [int(v) for v in rows]
                borrowed_set = [v for v in got_rows if v not in base]
                impl_head = "fitted %s|%s|%s|" % (fl(rows), fl(sy), "none" if est.seen_w is None else fl(est.seen_w))
                # full rows (all features) must be the training rows themselves
                if not numpy.array_equal(est.seen_X, X[got_rows]):
                    corr.disagree("fit-rows-content", desc, "rows of X", "different feature values")
            else:
                impl_head, borrowed_set = "unfitted", []
            lines.append(line)
            expect.append(("fit", dict(desc, bucket=i), (impl_head, sorted(borrowed_set))))
        corr.hit("buckets_borrowing", n_borrow)
        corr.hit("case_with_borrowing" if n_borrow else "case_without_borrowing")
        if shuffles:
            corr.disagree("shuffle-count", desc, "%d borrowing buckets" % n_borrow, "%d extra shuffles" % len(shuffles))
        # ---- dispatch
        tags = [getattr(e, "tag_", 0) for e in model.estimators_]
        mt = model.mean_estimator_.tag_
        ids = fl(B[:, 0])
        with warnings.catch_warnings():
            warnings.simplefilter("ignore")
            if kind == "reg":
                add("apply", "apply 0 %d %s %d %s %s" % (nest, fl(tags), mt, ids, fl(assoc_b)), fl(model.predict(B)), desc)
            else:
                k = len(cls_)
                P = model.predict_proba(B)
                base = "apply 1 %d %s %d %s %s" % (nest, fl(tags), mt, ids, fl(assoc_b))
                ok = P.shape == (B.shape[0], k) and all(((P[:, c] - c) / 8.0 == (P[:, 0]) / 8.0).all() for c in range(k))
                add("apply", base, fl(P[:, 0] / 8.0) if ok else "shape/columns wrong: %r" % (P.shape,), desc)
                D = model.decision_function(B)
                base = "apply 2 %d %s %d %s %s" % (nest, fl(tags), mt, ids, fl(assoc_b))
                if k == 2:
                    add("apply", base, fl(D) if D.shape == (B.shape[0],) else "shape %r" % (D.shape,), desc)
                else:
                    ok = D.shape == (B.shape[0], k) and all(((D[:, c] - c) == D[:, 0]).all() for c in range(k))
                    add("apply", base, fl(D[:, 0] / 8.0) if ok else "shape/columns wrong: %r" % (D.shape,), desc)
                try:
                    pl = model.predict(B)
                    impl = "ok " + (",".join(label_tok(v) for v in pl) or "-")
                except Exception as e:
                    impl = "err " + type(e).__name__
                corr.hit("labels:%s:%s" % (label_type, impl.split(" ")[0]))
                add("cpredict", "cpredict %d %s %s %d %s %s" % (nest, ",".join(label_tok(v) for v in cls_), fl(tags), mt,
                                                               ids, fl(assoc_b)), impl, desc)
        corr.case((bk, tuple(keys), tuple(map(str, y)), None if w is None else tuple(w), tuple(bkeys), n_jobs),
                  nontrivial=nest >= 2,
                  sample=dict(desc, n_estimators=nest, unseen_rows_in_batch=unseen, borrowing_buckets=n_borrow) if t < 6 else None)
    out = run_driver(DRIVER, lines)
    for (op, inp, impl), got in zip(expect, out):
        if op == "fit":
            head, borrowed = impl
            if head == "unfitted":
                ok = got == "unfitted"
            else:
                ok = got.startswith(head) and sorted(int(v) for v in got[len(head):].split(",") if v not in ("-", "")) == borrowed
            if not ok:
                corr.disagree(op, inp, got, "%s%s" % (head, borrowed))
        elif got != impl:
            corr.disagree(op, inp, got, impl)
    return corr


# ------------------------------------------------------------------------------ search (oracle from the statement)

K_PART = "PiecewiseEstimator.transform_bins:not-a-partition-by-the-binner"
K_NEST = "PiecewiseEstimator.fit:not-one-model-per-nonempty-bucket"
K_ROWS = "PiecewiseEstimator.fit:bucket-model-not-trained-on-its-rows"
K_BORROW = "PiecewiseClassifier.fit:borrowed-examples"
K_DISP = "PiecewiseEstimator._apply_predict_method:row-output-not-its-bucket-model"
K_NJOBS = "PiecewiseEstimator:result-depends-on-n_jobs"
K_SCHED = "PiecewiseClassifier.fit:shared-random-state-thread-schedule"
K_PROBA = "PiecewiseClassifier.predict_proba:not-a-distribution-over-classes_"
K_LABELS = "PiecewiseClassifier.predict:labels-not-in-classes_"
K_RAISE = "PiecewiseEstimator.fit:raises-on-valid-input"


def independent_keys(model, X):
    """Bucket of every row straight from the fitted binner's public API (apply / transform)."""
    import numpy
    b = model.binner_
    if hasattr(b, "tree_"):
        return [int(v) for v in b.apply(X)]
    tr = numpy.asarray(b.transform(X).todense())
    return [tuple(int(v) for v in row) for row in tr]


def _signature(model, kind, B, with_borrowed):
    import numpy
    sig = []
    for e in model.estimators_:
        if hasattr(e, "seen_X"):
            rows = tuple(int(v) for v in e.seen_X[:, 0])
            sig.append((rows, tuple(map(str, e.seen_y)), None if e.seen_w is None else tuple(e.seen_w)))
        else:
            sig.append(None)
    out = [tuple(map(str, numpy.asarray(model.predict(B)).ravel()))] if with_borrowed else []
    return sig, out


def check_recording(ctx, gen_seed, kind, label_type="int", njobs_list=(None, 1, 4, 16)):
    """One generated configuration with recording local estimators, all n_jobs values.  Returns
    (list of (key, what, observed, required), info)."""
    import random
    import warnings
    import numpy
    rng = random.Random(gen_seed)
    X, y, w, B, codes, cls_ = make_case(rng, kind, label_type)
    bname, binner = make_binner(ctx, rng, kind)
    if bname.startswith("kbins") and rng.random() < 0.4:
        # another number of bins per feature, the later features finer than the first
        from sklearn.preprocessing import KBinsDiscretizer
        bname = "kbins-per-feature"
        binner = KBinsDiscretizer(n_bins=[2 + j + (j % 2) for j in range(X.shape[1])], strategy="uniform")
    used_before = None
    if rng.random() < 0.4:
        # history: the object under test served another training set (other buckets) before
        X0, y0, w0, B0, _, _ = make_case(rng, kind, label_type)
        if X0.shape[1] == X.shape[1]:
            used_before = (X0, y0, w0, B0)
    random_state = rng.randrange(1000) if kind == "clf" and rng.random() < 0.8 else None
    bad = []
    sigs = {}
    info = {"binner": bname, "n": int(X.shape[0]), "weights": w is not None, "random_state": random_state}
    for nj in njobs_list:
        from sklearn.base import clone
        r = fit_model(ctx, kind, clone(binner), X, y, w, nj, random_state, used_before=used_before)
        model = r["model"]
        if r["err"] is not None:
            if "Unknown label type" in r["err"]:
                return [], dict(info, skipped="sklearn rejects the labels")
            bad.append((K_RAISE, "fit raises on a valid training set (n_jobs=%s)" % nj, r["err"], "a fitted model"))
            return bad, info
        with warnings.catch_warnings():
            warnings.simplefilter("ignore")
            keys = independent_keys(model, X)
            bkeys = independent_keys(model, B)
            assoc = model.transform_bins(X)
            assoc_b = model.transform_bins(B)
            nest = len(model.estimators_)
            # every row gets exactly one id or -1; same id <=> same bucket of the binner
            ids_ok = all(float(a).is_integer() and -1 <= a < nest for a in list(assoc) + list(assoc_b))
            k2id = {}
            part_ok = ids_ok
            for kk, a in zip(keys, assoc):
                if a < 0 or k2id.setdefault(kk, a) != a:
                    part_ok = False
            if len(set(k2id.values())) != len(k2id):
                part_ok = False
            for kk, a in zip(bkeys, assoc_b):
                if a != k2id.get(kk, -1):
                    part_ok = False
            if not part_ok:
                bad.append((K_PART, "bucket ids are not a partition by the binner's buckets (-1 for unseen)",
                            {"train": [int(a) for a in assoc][:40], "batch": [int(a) for a in assoc_b][:40]},
                            "one id per binner bucket, -1 exactly for buckets without training row"))
            if nest != len(set(keys)) or model.n_estimators_ != nest:
                bad.append((K_NEST, "number of local models", nest, "%d non-empty training buckets" % len(set(keys))))
            # each model trained on exactly its bucket's rows, targets, weights (classifier: + borrowed)
            allcl = set(map(str, y)) if kind == "clf" else None
            for i, e in enumerate(model.estimators_):
                want = [r_ for r_ in range(X.shape[0]) if assoc[r_] == i]
                if not hasattr(e, "seen_X"):
                    bad.append((K_ROWS, "local model %d was never fitted" % i, "unfitted", "fitted on %d rows" % len(want)))
                    continue
                rows = [int(v) for v in e.seen_X[:, 0]]
                extra = [r_ for r_ in rows if r_ not in set(want)]
                base = [r_ for r_ in rows if r_ in set(want)]
                okc = (base == want and rows == sorted(rows) and numpy.array_equal(e.seen_X, X[rows])
                       and list(map(str, e.seen_y)) == list(map(str, y[rows]))
                       and ((e.seen_w is None) == (w is None)) and (w is None or numpy.array_equal(e.seen_w, w[rows])))
                if kind == "reg" and extra:
                    okc = False
                if not okc:
                    bad.append((K_ROWS, "local model %d not trained on exactly its bucket's rows/targets/weights" % i,
                                {"rows": rows[:40]}, {"rows": want[:40]}))
                if kind == "clf":
                    have = set(map(str, y[want]))
                    ext = list(map(str, y[extra]))
                    if sorted(ext) != sorted(allcl - have) or set(map(str, e.seen_y)) != allcl:
                        bad.append((K_BORROW, "bucket %d: borrowed examples are not exactly one per missing class" % i,
                                    {"bucket_classes": sorted(have), "borrowed_classes": ext},
                                    {"borrowed_classes": sorted(allcl - have)}))
            # the global fallback model is trained like a direct fit on the whole training set (weights included)
            me = model.mean_estimator_
            if hasattr(me, "seen_X"):
                okm = (numpy.array_equal(me.seen_X, X) and list(map(str, me.seen_y)) == list(map(str, y))
                       and ((me.seen_w is None) == (w is None)) and (w is None or numpy.array_equal(me.seen_w, w)))
                if not okm:
                    bad.append(("PiecewiseEstimator.fit:fallback-model-training-set",
                                "the global fallback model is not trained on the whole training set with its targets and weights",
                                {"rows": int(me.seen_X.shape[0]), "weights": None if me.seen_w is None else "given"},
                                {"rows": int(X.shape[0]), "weights": None if w is None else "given"}))
            # dispatch: row output = its bucket's model's output, or the fallback's
            meths = ["predict"] if kind == "reg" else ["predict_proba", "decision_function"]
            for meth in meths:
                out = getattr(model, meth)(B)
                for r_ in range(B.shape[0]):
                    a = int(k2id.get(bkeys[r_], -1))
                    src = model.estimators_[a] if a >= 0 and a < nest else model.mean_estimator_
                    ref = getattr(src, meth)(B[r_:r_ + 1])[0]
                    if not numpy.array_equal(numpy.asarray(out[r_]), numpy.asarray(ref)):
                        bad.append((K_DISP, "%s: output of a row is not the output of its bucket's model%s"
                                    % (meth, "" if a >= 0 else " (unseen bucket: fallback model)"),
                                    {"row": r_, "got": numpy.asarray(out[r_]).tolist()},
                                    {"want": numpy.asarray(ref).tolist()}))
                        break
            # a tall batch (row counts around the block sizes a vectorised routing would use): every row still goes to
            # its own bucket, and the output is the concatenation of the outputs of its chunks
            if nj == njobs_list[0]:
                mt = TALL_ROWS[gen_seed % len(TALL_ROWS)]
                T = numpy.zeros((mt, X.shape[1]))
                T[:, 0] = numpy.arange(mt)
                trs = numpy.random.RandomState(gen_seed % (1 << 30))
                T[:, 1:] = trs.randint(0, 10, size=(mt, X.shape[1] - 1))
                tkeys = independent_keys(model, T)
                at = numpy.asarray(model.transform_bins(T))
                want_t = numpy.array([k2id.get(kk, -1) for kk in tkeys], dtype=float)
                if at.shape[0] != mt or not numpy.array_equal(at.astype(float), want_t):
                    r_ = int(numpy.argmax(at.astype(float) != want_t)) if at.shape[0] == mt else -1
                    bad.append((K_PART, "bucket ids of a batch of %d rows are not the binner's buckets (first at row %d)"
                                % (mt, r_), {"got": at[max(r_, 0):max(r_, 0) + 5].tolist()},
                                {"want": want_t[max(r_, 0):max(r_, 0) + 5].tolist()}))
                for meth in meths:
                    out_t = numpy.asarray(getattr(model, meth)(T))
                    parts = numpy.concatenate([numpy.asarray(getattr(model, meth)(T[i:i + 256]))
                                               for i in range(0, mt, 256)], axis=0)
                    if out_t.shape != parts.shape or not numpy.array_equal(out_t, parts):
                        bad.append((K_DISP, "%s: output on a batch of %d rows is not the concatenation of the outputs of "
                                    "its chunks" % (meth, mt), {"shape": list(out_t.shape)}, {"shape": list(parts.shape)}))
            info["n_estimators"] = nest
            info["unseen_rows"] = int((assoc_b < 0).sum())
            try:
                sigs[nj] = _signature(model, kind, B, random_state is not None or kind == "reg")
            except Exception as e:       # predict failing is judged by the label oracle below, not here
                sigs[nj] = ("predict raises", type(e).__name__)
    ref = sigs[njobs_list[0]]
    for nj in njobs_list[1:]:
        a, b = ref, sigs[nj]
        if random_state is None and kind == "clf" and isinstance(a, tuple) and isinstance(a[0], list):
            continue    # unseeded borrowing is random by design
        if a != b:
            key = K_NJOBS
            if kind == "clf" and isinstance(a[0], list) and isinstance(b[0], list) and len(a[0]) == len(b[0]):
                # do the models differ only by the borrowed rows?  then it is the shared generator
                same_len = all((x is None) == (z is None) for x, z in zip(a[0], b[0]))
                if same_len:
                    key = K_SCHED
            bad.append((key, "fitted models / predictions differ between n_jobs=%s and n_jobs=%s" % (njobs_list[0], nj),
                        str(b)[:300], str(a)[:300]))
    return bad, info


TALL_ROWS = (2049, 4097, 1025, 2047, 4095, 8193)


def check_real(ctx, gen_seed, label_type):
    """Real scikit-learn local classifiers: probabilities are distributions over classes_, labels in classes_."""
    import random
    import warnings
    import numpy
    from sklearn.linear_model import LogisticRegression
    from sklearn.tree import DecisionTreeClassifier
    from mlinsights.mlmodel.piecewise_estimator import PiecewiseClassifier
    rng = random.Random(gen_seed)
    X, y, w, B, codes, cls_ = make_case(rng, "clf", label_type)
    bname, binner = make_binner(ctx, rng, "clf")
    local = rng.choice(["logreg", "tree"])
    est = LogisticRegression(max_iter=50) if local == "logreg" else DecisionTreeClassifier(max_depth=2, random_state=0)
    bad = []
    info = {"binner": bname, "local": local, "labels": label_type, "n": int(X.shape[0])}
    with warnings.catch_warnings():
        warnings.simplefilter("ignore")
        model = PiecewiseClassifier(binner, est, random_state=rng.randrange(1000), n_jobs=rng.choice([None, 4]))
        try:
            model.fit(X, y, w)
        except Exception as e:
            if "at least one non-zero" in str(e):
                # a bucket (or a borrowed completion) whose rows all have weight 0: scikit-learn's local estimator
                # refuses such a training set itself - not a training set the statement speaks about
                return [], dict(info, skipped="a bucket with all-zero weights")
            bad.append((K_RAISE, "fit raises on a valid training set (labels %s)" % label_type,
                        "%s: %s" % (type(e).__name__, str(e)[:150]), "a fitted model"))
            return bad, info
        classes_ = numpy.asarray(model.classes_)
        if sorted(map(str, classes_)) != sorted(set(map(str, y))):
            bad.append((K_LABELS, "classes_ is not the set of training labels", list(map(str, classes_)),
                        sorted(set(map(str, y)))))
        try:
            P = model.predict_proba(B)
            ok = (P.shape == (B.shape[0], len(classes_)) and (P >= 0).all()
                  and numpy.allclose(P.sum(axis=1), 1.0, rtol=0, atol=1e-9))
            if not ok:
                bad.append((K_PROBA, "predict_proba rows are not distributions over classes_",
                            {"shape": list(P.shape), "row_sums": P.sum(axis=1)[:5].tolist()},
                            {"shape": [B.shape[0], len(classes_)], "row_sums": 1.0}))
        except Exception as e:
            bad.append((K_PROBA, "predict_proba raises", "%s: %s" % (type(e).__name__, str(e)[:150]),
                        "an (n, n_classes) array of distributions"))
        try:
            lab = numpy.asarray(model.predict(B))
            inside = numpy.isin(lab, classes_)
            if lab.shape != (B.shape[0],) or not inside.all():
                bad.append((K_LABELS, "predicted labels do not belong to classes_ (labels of type %s)" % label_type,
                            {"predicted": [str(v) for v in lab[:10]], "dtype": str(lab.dtype)},
                            {"classes_": [str(v) for v in classes_]}))
        except Exception as e:
            bad.append((K_LABELS, "predict raises for labels of type %s" % label_type,
                        "%s: %s" % (type(e).__name__, str(e)[:150]),
                        "labels taken from classes_ = %s" % [str(v) for v in classes_]))
    return bad, info


def check_schedule(ctx, gen_seed):
    """Same data, same seed, two thread schedules: the sequential one and one in which the bucket tasks reach
    their random draw in reverse order (forced by a sample_weight array whose slicing is slow for the earlier
    buckets).  The fitted local models must be the same list."""
    import time as _t
    import warnings
    import numpy
    from sklearn.tree import DecisionTreeClassifier
    from mlinsights.mlmodel.piecewise_estimator import PiecewiseClassifier
    C = classes(ctx)
    rs = numpy.random.RandomState(gen_seed)
    nb = 3
    per = 6
    n = nb * per
    X = numpy.zeros((n, 2))
    X[:, 0] = numpy.arange(n)
    X[:, 1] = numpy.repeat(numpy.arange(nb), per) * 10 + rs.randint(0, 3, size=n)
    y = numpy.repeat(numpy.arange(nb), per)            # every bucket is pure: all of them borrow
    seed = int(rs.randint(0, 1000))

    state = {"assoc": None, "delay": 0.0}

    class SlowW(numpy.ndarray):
        def __getitem__(self, ind):
            if state["assoc"] is not None and isinstance(ind, numpy.ndarray) and ind.dtype == bool \
                    and ind.shape == state["assoc"].shape and ind.any():
                b = int(state["assoc"][int(numpy.argmax(ind))])
                _t.sleep(state["delay"] * (nb - 1 - b))
            return numpy.asarray(self).__getitem__(ind)

    def run(n_jobs, delay):
        w = numpy.ones(n).view(SlowW)
        state["delay"] = delay
        m = PiecewiseClassifier(DecisionTreeClassifier(max_depth=2, random_state=0), C["RecClf"](),
                                n_jobs=n_jobs, random_state=seed)
        with warnings.catch_warnings():
            warnings.simplefilter("ignore")
            m.fit(X, y, w)
        if state["assoc"] is None:
            state["assoc"] = m.transform_bins(X)
        return [tuple(int(v) for v in e.seen_X[:, 0]) for e in m.estimators_]
    a = run(None, 0.0)
    b = run(nb + 1, 0.12)
    bad = []
    if a != b:
        bad.append((K_SCHED, "same data and random_state, two thread schedules: the local models are trained on "
                             "different borrowed examples", {"reversed_schedule": b}, {"sequential": a}))
    return bad, {"n": n, "buckets": len(a), "random_state": seed}


def check_template(ctx, gen_seed):
    """The fitted model holds its OWN models: the estimator / binner objects given to the constructor are templates.
    What the caller does with them after the fit (here: fitting the very same objects on another training set, what a
    second piecewise model sharing the template does) must not change what the fitted model returns - in particular
    for rows of buckets that were empty at training time, which go to the global fallback model trained on the whole
    training set."""
    import random
    import warnings
    import numpy
    from sklearn.linear_model import LinearRegression, LogisticRegression
    from sklearn.preprocessing import KBinsDiscretizer
    from sklearn.tree import DecisionTreeRegressor
    from mlinsights.mlmodel.piecewise_estimator import PiecewiseClassifier, PiecewiseRegressor
    rng = random.Random(gen_seed)
    task = rng.choice(["reg", "clf"])
    n = rng.randint(24, 60)
    x0 = numpy.array([rng.uniform(0, 9) for _ in range(n)])
    X = numpy.stack([x0, x0 + numpy.array([rng.uniform(-0.4, 0.4) for _ in range(n)])], axis=1)   # the diagonal cells only
    yr = 2.0 * X[:, 0] - X[:, 1] + numpy.array([rng.uniform(-0.2, 0.2) for _ in range(n)])
    yc = (X[:, 0] + numpy.array([rng.uniform(-2, 2) for _ in range(n)]) > 4.5).astype(int)
    yc[:2] = [0, 1]
    y = yr if task == "reg" else yc
    w = None if rng.random() < 0.5 else numpy.array([rng.choice([0.5, 1.0, 2.0]) for _ in range(n)])
    use_tree = rng.random() < 0.3
    binner = DecisionTreeRegressor(max_depth=2, random_state=0) if use_tree else \
        KBinsDiscretizer(n_bins=3, strategy="uniform")
    est = LinearRegression() if task == "reg" else LogisticRegression(max_iter=60)
    G = numpy.array([[a, b] for a in (0.5, 4.5, 8.5) for b in (0.5, 4.5, 8.5)], dtype=float)    # off-diagonal = unseen cells
    info = {"task": task, "binner": "tree" if use_tree else "bins", "n": n, "weights": w is not None}
    bad = []
    with warnings.catch_warnings():
        warnings.simplefilter("ignore")
        cls = PiecewiseRegressor if task == "reg" else PiecewiseClassifier
        model = cls(binner, est, n_jobs=rng.choice([None, 2]))
        model.fit(X, y, w)
        meths = ["predict"] + (["predict_proba"] if task == "clf" else [])
        before = {m: numpy.asarray(getattr(model, m)(G)).copy() for m in meths}
        ids = numpy.asarray(model.transform_bins(G))
        info["unseen_rows"] = int((ids < 0).sum())
        # the caller now reuses the templates for something else
        X2 = X[::-1] * numpy.array([1.0, -1.0]) + numpy.array([0.0, 9.0])
        y2 = (-(y[::-1]) + 3.0) if task == "reg" else 1 - y[::-1]
        try:
            est.fit(X2, y2)
            binner.fit(X2, y2 if use_tree else None)
        except Exception:  # noqa: BLE001
            return [], dict(info, skipped="the templates cannot be refitted")
        for m in meths:
            after = numpy.asarray(getattr(model, m)(G))
            if before[m].shape != after.shape or not numpy.array_equal(before[m], after):
                rows = [i for i in range(G.shape[0]) if not numpy.array_equal(before[m][i], after[i])] \
                    if before[m].shape == after.shape else []
                bad.append(("%s.%s:changes-when-the-template-estimator-is-reused" % (cls.__name__, m),
                            "outputs of a fitted model change after the estimator / binner objects given to its "
                            "constructor were fitted on another training set by the caller (rows %s, bucket ids %s)"
                            % (rows[:6], ids[rows[:6]].tolist()), after.tolist()[:6], before[m].tolist()[:6]))
    return bad, info


def _run(ctx, item):
    k = item["kind"]
    if k == "recording":
        return check_recording(ctx, item["gen_seed"], item["task"], item.get("labels", "int"))
    if k == "real":
        return check_real(ctx, item["gen_seed"], item["labels"])
    if k == "schedule":
        return check_schedule(ctx, item["gen_seed"])
    if k == "template":
        return check_template(ctx, item["gen_seed"])
    raise ValueError("unknown replay kind %r" % k)


def search(ctx, hints):
    classes(ctx)
    rng = ctx.rng
    vs, evals, nontriv, samples = [], 0, set(), []
    items = []
    for t in range(ctx.pick(24, 400)):
        task = "reg" if t % 2 == 0 else "clf"
        items.append({"kind": "recording", "gen_seed": rng.randrange(1 << 30), "task": task,
                      "labels": "int" if task == "reg" else rng.choice(["int", "float", "str", "strlen"])})
    for t in range(ctx.pick(24, 300)):
        items.append({"kind": "real", "gen_seed": rng.randrange(1 << 30),
                      "labels": ["int", "float", "str", "bigint", "strlen"][t % 5]})
    for t in range(ctx.pick(2, 6)):
        items.append({"kind": "schedule", "gen_seed": rng.randrange(1 << 30)})
    for t in range(ctx.pick(8, 60)):
        items.append({"kind": "template", "gen_seed": rng.randrange(1 << 30)})
    for it in items:
        try:
            bad, info = _run(ctx, it)
        except Exception as e:      # the real code raised where the statement promises a result
            import traceback
            bad, info = [(K_RAISE, "the estimator raises on a valid configuration",
                          "%s: %s | %s" % (type(e).__name__, str(e)[:150], traceback.format_exc()[-300:]),
                          "a result")], {}
        evals += 1
        if not info.get("skipped"):
            nontriv.add((it["kind"], it["gen_seed"]))
        if len(samples) < 4 and it["kind"] != "schedule":
            samples.append(dict(it, **{k: v for k, v in info.items()}))
        for key, what, obs, req in bad:
            vs.append(Violation(key, what, dict(it, n=info.get("n", 0)), obs, req))
    best = {}

    def rank(v):        # prefer the plainest witness: string labels, then the smallest training set
        return (0 if v.input.get("labels") == "str" else 1, v.input.get("n", 0))
    for v in vs:
        if v.key not in best or rank(v) < rank(best[v.key]):
            best[v.key] = v
    return list(best.values()), {"evaluations": evals, "distinct_nontrivial": len(nontriv), "samples": samples}


def replay(ctx, item):
    classes(ctx)
    bad, _ = _run(ctx, item["input"])
    best = {}
    for key, what, obs, req in bad:
        best.setdefault(key, Violation(key, what, item["input"], obs, req))
    return list(best.values())
