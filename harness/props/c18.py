"""C18 — Correlation and comparable-score metrics are well defined."""
import ast
import hashlib
import math
from fractions import Fraction

from core import Corr, Violation, run_driver
from extract import pyexpr
from extract.ratexpr import Tr

ID = "C18"
#: functions the hand-written model transcribes: their control skeleton (extract/shape.py) is regenerated into
#: Gen/C18.lean and compared with the literal in Properties/C18.lean (`modelled_functions_have_the_transcribed_shape`)
SHAPES = [
    ("shapeCorrelations", "mlinsights/metrics/correlations.py", "non_linear_correlations"),
    ("shapeComparableMetric", "mlinsights/metrics/scoring_metrics.py", "comparable_metric", "full"),
    ("shapeR2Comparable", "mlinsights/metrics/scoring_metrics.py", "r2_score_comparable", "full"),
]
SRC_COR = "mlinsights/metrics/correlations.py"
SRC_MET = "mlinsights/metrics/scoring_metrics.py"
LEAN_TARGETS = ["MlVerif.Gen.C18", "MlVerif.Model.Corr", "MlVerif.Lemmas.Corr", "MlVerif.Properties.C18"]
PROPERTY_FILE = "MlVerif/Properties/C18.lean"
DRIVER = "Drivers/C18.lean"
TRUSTED = [
    "numpy.var returns a value >= 0 (hypothesis of co_in_unit_interval); x ** 0.5 is the non-negative square root "
    "(the model specifies co by 0 <= co and co*co = max(1 - var, 0); the driver computes it exactly on perfect squares)",
    "numpy.corrcoef(df, rowvar=False) is d x d for d >= 2 columns and a 0-d scalar for d = 1; numpy.atleast_2d of a scalar is "
    "1 x 1; DataFrame.corr() is d x d labelled by the columns (transcribed in Model/Corr.lean initShape)",
    "sklearn.preprocessing.scale, sklearn.model_selection.train_test_split (same split for the same numpy global seed), "
    "sklearn.clone and the learner are external: their outputs are recorded / scripted, not modelled",
    "callable() and dict.get as transcribed in the comparable_metric model; sklearn.metrics.r2_score is a parameter",
    "real numbers (any ordered field) stand in for floats",
]
ASSUMPTIONS = [
    "'a model able to learn the identity' is read as: its prediction on the test half equals the target column "
    "(exactly for the identity stub, up to 1e-9 for LinearRegression)",
    "tables have at least 4 rows (train_test_split(test_size=0.5) needs a non-empty train and test half) and finite entries",
    "'equal values for a DataFrame and for its array under the same seed' = numpy.random.seed(s) before each call; the array is the frame's "
    "own `.values` (same numbers, same memory layout) and equality is bit-for-bit; a C-ordered copy of the same numbers makes "
    "scikit-learn's scale sum in a different order and changes last bits, which discontinuous learners (trees) amplify",
    "the unit diagonal is required exactly for the identity stub and within 1e-9 for LinearRegression on continuous data (a "
    "constant training half, possible with integer data, cannot teach the identity)",
]
RULE = ("correspondence: (a) accumulation with numpy.var scripted to exact values whose 1 - v is a perfect square of a dyadic "
        "(or negative / zero): cor, mini, maxi of the array and the DataFrame branch compared exactly with the model for "
        "d in 1..4, draws in 1..5, minmax on/off; (b) comparable_metric decisions over tr, inv_tr in "
        "{None, 'log', 'exp', unknown name, callable, non-callable} with a recording metric; (c) identity / constant / sign "
        "stub learners with the split recorded, draws = 1: every entry checked against the recorded variance through squares "
        "(c^2 within 4 roundings of max(1 - v, 0)). Non-trivial = at least two draws with different values in a cell / "
        "both arguments present / off-diagonal entry strictly inside (0, 1)")
LEVEL_TEXT = ("Proved in Lean for every ordered field and every number of draws >= 1 and columns >= 1: each draw's value is in "
              "[0, 1] when the variance is >= 0, the returned mean is in [0, 1] and lies between the returned min and max, the "
              "diagonal is exactly 1 when the prediction equals the target, the matrix is d x d in both branches, the DataFrame "
              "and array branches perform the same arithmetic, comparable_metric applies tr to the targets and inv_tr to the "
              "predictions (names resolved through the extracted table to numpy.log / numpy.exp) and refuses when both are "
              "missing. Partial: scale, train_test_split, clone, the learner and r2_score are trusted parameters.")
LEVEL_NOTE = "scikit-learn's scale/train_test_split/clone/r2_score and numpy.var/corrcoef are trusted; the expressions are regenerated from the source"
TECHNIQUE = ("Lean 4 proof (induction over draws, ordered-field algebra by grind, finite tables by decide) + AST-regenerated "
             "definitions (clamp expression, cell updates of both branches, final division, _known_functions, branches of "
             "comparable_metric) + differential correspondence")

U = Fraction(1, 2 ** 53)


# ------------------------------------------------------------------------------ extractor

def _unk(what):
    return '(unk "%s")' % str(what).replace('"', "'").replace("\\", "/")


def _q(s):
    return '"%s"' % s.replace("\\", "/").replace('"', "'")


def _cell_name(node):
    """`cor[i, j]` / `cor.iloc[i, j]` -> 'cor' (also mini, maxi); None otherwise."""
    if not isinstance(node, ast.Subscript):
        return None
    if ast.unparse(node.slice) not in ("(i, j)", "i, j"):
        return None
    base = node.value
    if isinstance(base, ast.Attribute) and base.attr == "iloc":
        base = base.value
    if isinstance(base, ast.Name) and base.id in ("cor", "mini", "maxi"):
        return base.id
    return None


def _cell_table(stmts):
    table = {"co": "co"}
    for st in stmts:
        for n in ast.walk(st):
            nm = _cell_name(n)
            if nm:
                table[ast.unparse(n)] = nm
    return table


def _extract_updates(branch):
    """Updates of one branch (frame or array) of the innermost loop body."""
    out = {"cor": _unk("cor update not found"), "miniFirst": _unk("mini first"), "maxiFirst": _unk("maxi first"),
           "miniNext": _unk("mini next"), "maxiNext": _unk("maxi next"), "firstTest": "?", "src": []}
    tr = Tr(_cell_table(branch), unknown_fmt='(unk "%s")', fns={"min": "minR", "max": "maxR"})
    for st in branch:
        out["src"].append(ast.unparse(st).replace("\n", " ; "))
        if isinstance(st, ast.AugAssign) and _cell_name(st.target) == "cor":
            v = tr.expr(st.value)
            ops = {ast.Add: "+", ast.Sub: "-", ast.Mult: "*"}
            o = next((s for k, s in ops.items() if isinstance(st.op, k)), None)
            out["cor"] = "(cor %s %s)" % (o, v) if o else _unk(ast.unparse(st))
        elif isinstance(st, ast.Assign) and _cell_name(st.targets[0]) == "cor":
            out["cor"] = tr.expr(st.value)
        elif isinstance(st, ast.If) and ast.unparse(st.test) == "minmax":
            for s2 in st.body:
                if isinstance(s2, ast.If):
                    out["firstTest"] = ast.unparse(s2.test)
                    for which, blk in (("First", s2.body), ("Next", s2.orelse)):
                        for s3 in blk:
                            if isinstance(s3, ast.Assign) and len(s3.targets) == 1:
                                nm = _cell_name(s3.targets[0])
                                if nm in ("mini", "maxi"):
                                    out[nm + which] = tr.expr(s3.value)
    return out


def _extract_correlations(src):
    tree = ast.parse(src)
    fn = pyexpr.find_function(tree, "non_linear_correlations")
    g = {"frameInit": "Init.unknown", "arrayInit": "Init.unknown", "frameZeroed": False, "arrayZeroed": False,
         "frameFlag": "?", "arrayFlag": "?", "frameCopies": False, "arrayCopies": False}
    inits = {"df.corr()": "Init.dfCorr", "numpy.corrcoef(df, rowvar=False)": "Init.corrcoef",
             "numpy.atleast_2d(numpy.corrcoef(df, rowvar=False))": "Init.atleast2dCorrcoef",
             "numpy.zeros((df.shape[1], df.shape[1]))": "Init.zerosDD"}
    for st in fn.body:
        if isinstance(st, ast.If) and ast.unparse(st.test) == "hasattr(df, 'iloc')":
            for nm, blk in (("frame", st.body), ("array", st.orelse)):
                cur = None
                for s2 in blk:
                    src2 = ast.unparse(s2)
                    if isinstance(s2, ast.Assign) and ast.unparse(s2.targets[0]) == "cor":
                        cur = inits.get(ast.unparse(s2.value), "Init.unknown")
                    elif src2 in ("cor.iloc[:, :] = 0.0", "cor[:, :] = 0.0"):
                        g[nm + "Zeroed"] = True
                    elif src2.startswith("iloc = "):
                        g[nm + "Flag"] = src2[7:]
                    elif isinstance(s2, ast.If) and src2.replace("\n", ";").replace(" ", "") == \
                            "ifminmax:;mini=cor.copy();maxi=cor.copy()":
                        g[nm + "Copies"] = True
                g[nm + "Init"] = cur or "Init.unknown"
    # the statements of the innermost loop
    facts = {}
    c_expr = co_rad = _unk("not found")
    co_exp = "0"
    var_arg = "?"
    upd = {"frame": _extract_updates([]), "array": _extract_updates([])}
    loops = []
    for n in ast.walk(fn):
        if isinstance(n, ast.For):
            loops.append("%s in %s" % (ast.unparse(n.target), ast.unparse(n.iter)))
        if isinstance(n, ast.Assign) and len(n.targets) == 1:
            t = ast.unparse(n.targets[0])
            if t in ("xi_train", "xi_test", "xj_train", "xj_test", "mod", "v", "df", "df_train, df_test"):
                facts[t] = ast.unparse(n.value)
            if t == "c":
                vcalls = [c for c in ast.walk(n.value) if isinstance(c, ast.Call) and ast.unparse(c.func) == "numpy.var"]
                if len(vcalls) == 1 and len(vcalls[0].args) == 1 and not vcalls[0].keywords:
                    var_arg = ast.unparse(vcalls[0].args[0])
                    c_expr = Tr({ast.unparse(vcalls[0]): "v"}, unknown_fmt='(unk "%s")').expr(n.value)
                else:
                    c_expr = _unk(ast.unparse(n.value))
            if t == "co":
                v = n.value
                if isinstance(v, ast.BinOp) and isinstance(v.op, ast.Pow) and isinstance(v.right, ast.Constant) \
                        and isinstance(v.right.value, (int, float)):
                    co_rad = Tr({"c": "c"}, unknown_fmt='(unk "%s")', fns={"max": "maxR", "min": "minR"}).expr(v.left)
                    fr_ = Fraction(v.right.value)
                    co_exp = "(%d / %d)" % (fr_.numerator, fr_.denominator)
                else:
                    co_rad = _unk(ast.unparse(v))
        if isinstance(n, ast.Expr) and isinstance(n.value, ast.Call) and ast.unparse(n.value.func) == "mod.fit":
            facts["fit"] = ast.unparse(n.value)
        if isinstance(n, ast.If) and ast.unparse(n.test) == "iloc":
            upd["frame"] = _extract_updates(n.body)
            upd["array"] = _extract_updates(n.orelse)
    # returns
    fin = {"minmax": _unk("return not found"), "plain": _unk("return not found"), "tuple_ok": False}
    trf = Tr({"cor": "cor", "draws": "draws"}, unknown_fmt='(unk "%s")')
    for st in fn.body:
        if isinstance(st, ast.If) and ast.unparse(st.test) == "minmax":
            rets = [x for x in st.body if isinstance(x, ast.Return)]
            if len(rets) == 1 and isinstance(rets[0].value, ast.Tuple) and len(rets[0].value.elts) == 3:
                e = rets[0].value.elts
                fin["minmax"] = trf.expr(e[0])
                fin["tuple_ok"] = (ast.unparse(e[1]), ast.unparse(e[2])) == ("mini", "maxi")
        elif isinstance(st, ast.Return) and st.value is not None:
            fin["plain"] = trf.expr(st.value)
    # which loop body the statement `mod = clone(model)` belongs to (one fresh, unfitted copy per coefficient)
    clone_in = [ast.unparse(n.target) for n in ast.walk(fn) if isinstance(n, ast.For)
                and any(isinstance(b, ast.Assign) and ast.unparse(b) == "mod = clone(model)" for b in n.body)]
    facts["__clone_in"] = clone_in
    return g, facts, c_expr, co_rad, co_exp, var_arg, upd, loops, fin


def _cond(test):
    s = ast.unparse(test)
    return {"tr is not None and (not callable(tr))": "Cond.trNotNoneNotCallable",
            "inv_tr is not None and (not callable(inv_tr))": "Cond.invNotNoneNotCallable",
            "tr is None and inv_tr is None": "Cond.bothNone",
            "tr is None": "Cond.trNone", "inv_tr is None": "Cond.invNone"}.get(s, "Cond.unknown")


def _act(st):
    if isinstance(st, ast.Raise) and isinstance(st.exc, ast.Call):
        nm = ast.unparse(st.exc.func)
        return {"TypeError": "Act.raiseType", "ValueError": "Act.raiseValue"}.get(nm, "Act.unknown")
    if isinstance(st, ast.Return) and isinstance(st.value, ast.Call) and ast.unparse(st.value.func) == "metric_function":
        c = st.value
        if len(c.args) == 2 and len(c.keywords) == 1 and c.keywords[0].arg is None \
                and ast.unparse(c.keywords[0].value) == "kwargs":
            a, b = ast.unparse(c.args[0]), ast.unparse(c.args[1])
            ta = {"y_true": "false", "tr(y_true)": "true"}.get(a)
            tb = {"y_pred": "false", "inv_tr(y_pred)": "true"}.get(b)
            if ta and tb:
                return "Act.metric %s %s" % (ta, tb)
    return "Act.unknown"


def _extract_metrics(src):
    tree = ast.parse(src)
    known = [("?", "table not found")]
    for st in tree.body:
        if isinstance(st, ast.Assign) and ast.unparse(st.targets[0]) == "_known_functions" and isinstance(st.value, ast.Dict):
            known = []
            for k, v in zip(st.value.keys, st.value.values):
                known.append((k.value if isinstance(k, ast.Constant) and isinstance(k.value, str) else "?" + ast.unparse(k),
                              ast.unparse(v)))
    cm = pyexpr.find_function(tree, "comparable_metric")
    resolves, branches, fall = [], [], "Act.unknown"
    for st in cm.body:
        if isinstance(st, ast.Expr) and isinstance(st.value, ast.Constant):
            continue                                   # docstring
        if isinstance(st, ast.Assign) and len(st.targets) == 1:
            t = ast.unparse(st.targets[0])
            if ast.unparse(st.value) == "_known_functions.get(%s, %s)" % (t, t) and not branches:
                resolves.append(t)
            else:
                branches.append(("Cond.unknown", "Act.unknown"))
        elif isinstance(st, ast.If) and len(st.body) == 1 and not st.orelse:
            branches.append((_cond(st.test), _act(st.body[0])))
        elif isinstance(st, ast.Return):
            fall = _act(st)
        else:
            branches.append(("Cond.unknown", "Act.unknown"))
    defaults = {}
    args = cm.args
    pos = args.args
    for a, dflt in zip(pos[len(pos) - len(args.defaults):], args.defaults):
        defaults[a.arg] = ast.unparse(dflt)
    r2 = pyexpr.find_function(tree, "r2_score_comparable")
    r2_defaults = [(a.arg, ast.unparse(d_)) for a, d_ in zip(r2.args.kwonlyargs, r2.args.kw_defaults) if d_ is not None]
    r2_call = [("?", "call not found")]
    for st in r2.body:
        if isinstance(st, ast.Return) and isinstance(st.value, ast.Call) and ast.unparse(st.value.func) == "comparable_metric":
            r2_call = [("*%d" % i, ast.unparse(a)) for i, a in enumerate(st.value.args)]
            r2_call += [(k.arg or "**", ast.unparse(k.value)) for k in st.value.keywords]
    return known, resolves, branches, fall, sorted(defaults.items()), r2_defaults, r2_call


def _table(pairs):
    return "[" + ", ".join("(%s, %s)" % (_q(a), _q(b)) for a, b in pairs) + "]"


def extract(ctx):
    g, facts, c_expr, co_rad, co_exp, var_arg, upd, loops, fin = _extract_correlations(ctx.source(SRC_COR))
    known, resolves, branches, fall, cm_defaults, r2_defaults, r2_call = _extract_metrics(ctx.source(SRC_MET))
    b = lambda x: str(bool(x)).lower()
    body = pyexpr.HEADER + """import MlVerif.Gen.Base
set_option linter.unusedVariables false
namespace MlVerif.Gen.C18
open Lean.Grind

/-- what the extractor emits for source it cannot classify (opaque: nothing can be proved about it) -/
def unk {α : Type} [Field α] (src : String) : α := @Int.cast α Ring.intCast (MlVerif.Gen.unknownInt src)

/-- how `cor` is created -/
inductive Init where
  | dfCorr | corrcoef | atleast2dCorrcoef | zerosDD | unknown
deriving DecidableEq, Repr

/-- guards and actions of `comparable_metric` -/
inductive Cond where
  | trNotNoneNotCallable | invNotNoneNotCallable | bothNone | trNone | invNone | unknown
deriving DecidableEq, Repr
inductive Act where
  | raiseType | raiseValue
  | metric (trOnTrue invOnPred : Bool)     -- `metric_function(tr(y_true)|y_true, inv_tr(y_pred)|y_pred, **kwargs)`
  | unknown
deriving DecidableEq, Repr

section
variable {α : Type} [Field α] [LE α] [DecidableLE α]

/-- Python `max(a, b)` / `min(a, b)` on comparable numbers -/
def maxR (a b : α) : α := if a ≤ b then b else a
def minR (a b : α) : α := if b ≤ a then b else a

/-- `c = ...` with `v = numpy.var(%(var_arg)s)` -/
def cOfVar (v : α) : α := %(c_expr)s
/-- `co = <radicand> ** <exponent>` -/
def radicandOfC (c : α) : α := %(co_rad)s
/-- DataFrame branch (`if iloc:`): updates of the cell (i, j) -/
def frameCor (cor co : α) : α := %(f_cor)s
def frameMiniFirst (co : α) : α := %(f_mini1)s
def frameMaxiFirst (co : α) : α := %(f_maxi1)s
def frameMiniNext (mini co : α) : α := %(f_mini2)s
def frameMaxiNext (maxi co : α) : α := %(f_maxi2)s
/-- array branch -/
def arrayCor (cor co : α) : α := %(a_cor)s
def arrayMiniFirst (co : α) : α := %(a_mini1)s
def arrayMaxiFirst (co : α) : α := %(a_maxi1)s
def arrayMiniNext (mini co : α) : α := %(a_mini2)s
def arrayMaxiNext (maxi co : α) : α := %(a_maxi2)s
/-- `return cor / draws, mini, maxi` and `return cor / draws` -/
def finalMinmax (cor draws : α) : α := %(fin_minmax)s
def finalPlain (cor draws : α) : α := %(fin_plain)s
end

def coExponent : Rat := %(co_exp)s
def varArgument : String := %(var_arg_q)s
def frameInit : Init := %(frameInit)s
def arrayInit : Init := %(arrayInit)s
def frameZeroed : Bool := %(frameZeroed)s
def arrayZeroed : Bool := %(arrayZeroed)s
def frameFlag : String := %(frameFlag)s
def arrayFlag : String := %(arrayFlag)s
def frameMinMaxAreCopies : Bool := %(frameCopies)s
def arrayMinMaxAreCopies : Bool := %(arrayCopies)s
def frameFirstDrawTest : String := %(f_first)s
def arrayFirstDrawTest : String := %(a_first)s
def minmaxReturnsMiniMaxi : Bool := %(tuple_ok)s
def loops : List String := %(loops)s
/-- loop variable(s) of the loop(s) whose body contains `mod = clone(model)` -/
def cloneInLoop : List String := %(clone_in)s
/-- the statements around the learner (source text) -/
def pipeline : List (String × String) := %(pipeline)s

/-- `_known_functions` -/
def knownFunctions : List (String × String) := %(known)s
/-- arguments resolved by `X = _known_functions.get(X, X)` before the first test -/
def resolved : List String := %(resolves)s
/-- the `if ...: raise/return` statements of `comparable_metric` in source order, and the final `return` -/
def branches : List (Cond × Act) := %(branches)s
def fallthrough : Act := %(fall)s
def comparableDefaults : List (String × String) := %(cm_defaults)s
def r2Defaults : List (String × String) := %(r2_defaults)s
def r2Call : List (String × String) := %(r2_call)s

end MlVerif.Gen.C18
""" % {
        "var_arg": var_arg, "var_arg_q": _q(var_arg), "c_expr": c_expr, "co_rad": co_rad, "co_exp": co_exp,
        "f_cor": upd["frame"]["cor"], "f_mini1": upd["frame"]["miniFirst"], "f_maxi1": upd["frame"]["maxiFirst"],
        "f_mini2": upd["frame"]["miniNext"], "f_maxi2": upd["frame"]["maxiNext"],
        "a_cor": upd["array"]["cor"], "a_mini1": upd["array"]["miniFirst"], "a_maxi1": upd["array"]["maxiFirst"],
        "a_mini2": upd["array"]["miniNext"], "a_maxi2": upd["array"]["maxiNext"],
        "f_first": _q(upd["frame"]["firstTest"]), "a_first": _q(upd["array"]["firstTest"]),
        "fin_minmax": fin["minmax"], "fin_plain": fin["plain"], "tuple_ok": b(fin["tuple_ok"]),
        "frameInit": g["frameInit"], "arrayInit": g["arrayInit"], "frameZeroed": b(g["frameZeroed"]),
        "arrayZeroed": b(g["arrayZeroed"]), "frameFlag": _q(g["frameFlag"]), "arrayFlag": _q(g["arrayFlag"]),
        "frameCopies": b(g["frameCopies"]), "arrayCopies": b(g["arrayCopies"]),
        "loops": "[" + ", ".join(_q(l) for l in loops) + "]",
        "clone_in": "[" + ", ".join('"%s"' % x for x in facts.pop("__clone_in", [])) + "]",
        "pipeline": _table(sorted(facts.items())),
        "known": _table(known), "resolves": "[" + ", ".join(_q(r) for r in resolves) + "]",
        "branches": "[" + ", ".join("(%s, %s)" % (c, a) for c, a in branches) + "]", "fall": fall,
        "cm_defaults": _table(cm_defaults), "r2_defaults": _table(r2_defaults), "r2_call": _table(r2_call),
    }
    return {"MlVerif/Gen/C18.lean": body}


# ------------------------------------------------------------------------------ helpers

def fr(x):
    return Fraction(float(x))


def fs(x):
    x = Fraction(x)
    return "%d/%d" % (x.numerator, x.denominator) if x.denominator != 1 else "%d" % x.numerator


def fl(xs):
    xs = list(xs)
    return ",".join(fs(fr(x)) for x in xs) if xs else "-"


def fm(rows):
    rows = [list(r) for r in rows]
    return ";".join(fl(r) for r in rows) if rows else "-"


class NumpyProxy:
    """Stands for the name `numpy` inside mlinsights.metrics.correlations for the duration of one call:
    forwards everything, records every `var` result and (optionally) replaces it by a scripted exact value."""

    def __init__(self, real, script=None):
        self._real = real
        self._script = script
        self.vars = []

    def __getattr__(self, name):
        return getattr(self._real, name)

    def var(self, a, *args, **kw):
        r = self._real.var(a, *args, **kw)
        if self._script is not None:
            r = self._real.float64(self._script[len(self.vars) % len(self._script)])
        self.vars.append(float(r))
        return r


class SplitRecorder:
    """Records the (train, test) halves returned by train_test_split inside the correlations module."""

    def __init__(self, module):
        self.module = module
        self.splits = []

    def __enter__(self):
        self.orig = self.module.train_test_split

        def tts(*a, **k):
            r = self.orig(*a, **k)
            self.splits.append((r[0].copy(), r[1].copy()))
            return r
        self.module.train_test_split = tts
        return self

    def __exit__(self, *a):
        self.module.train_test_split = self.orig


def _stubs():
    import numpy
    from sklearn.base import BaseEstimator, RegressorMixin

    class Identity(RegressorMixin, BaseEstimator):
        """able to learn the identity: predicts its input column"""

        def fit(self, X, y):
            return self

        def predict(self, X):
            return numpy.asarray(X)[:, 0].copy()

    class Constant(RegressorMixin, BaseEstimator):
        def __init__(self, value=0.0):
            self.value = value

        def fit(self, X, y):
            return self

        def predict(self, X):
            return numpy.full(len(X), float(self.value))

    class Sign(RegressorMixin, BaseEstimator):
        def fit(self, X, y):
            return self

        def predict(self, X):
            return numpy.sign(numpy.asarray(X)[:, 0])
    return {"identity": Identity, "constant": Constant, "sign": Sign}


def _digest(a):
    import numpy
    a = numpy.asarray(a)
    if a.dtype == object:        # a frame with an object column: the bytes of an object array are addresses, not values
        a = numpy.array([[repr(v) for v in row] for row in a.tolist()]) if a.ndim == 2 else numpy.array([repr(v) for v in a.tolist()])
    a = numpy.ascontiguousarray(a)
    return hashlib.sha256(a.tobytes() + str(a.shape).encode() + str(a.dtype).encode()).hexdigest()


# values v with 1 - v a perfect square of a dyadic rational, zero, or negative (clamped)
SCRIPT_VARS = [Fraction(0), Fraction(1), Fraction(7, 16), Fraction(3, 4), Fraction(15, 16), Fraction(39, 64),
               Fraction(55, 64), Fraction(2), Fraction(5, 4), Fraction(63, 64), Fraction(1, 1) - Fraction(49, 64),
               Fraction(1) - Fraction(225, 256), Fraction(1) - Fraction(1, 256), Fraction(3)]


def _call_scripted(mod_cor, data, stub, draws, minmax, script):
    import numpy
    proxy = NumpyProxy(numpy, [float(v) for v in script])
    saved = mod_cor.numpy
    mod_cor.numpy = proxy
    try:
        r = mod_cor.non_linear_correlations(data, stub, draws=draws, minmax=minmax)
        err = None
    except Exception as e:
        r, err = None, type(e).__name__
    finally:
        mod_cor.numpy = saved
    return r, err, proxy.vars


# ------------------------------------------------------------------------------ correspondence

def correspond(ctx):
    ctx.shadow(need_cython=False)
    import numpy
    import pandas
    import warnings
    import mlinsights.metrics.correlations as mod_cor
    from mlinsights.metrics.scoring_metrics import comparable_metric
    corr = Corr()
    corr.rule = RULE
    rng = ctx.rng
    stubs = _stubs()
    lines, expect = [], []

    # ---- (a) accumulation with scripted variances, both branches
    for t in range(ctx.pick(160, 2500)):
        d = rng.choice([1, 1, 2, 2, 3, 4])
        n = rng.randint(4, 9)
        draws = rng.choice([0, 1, 1, 2, 3, 4, 5])
        minmax = rng.random() < 0.7
        frame = rng.random() < 0.5
        X = numpy.array([[rng.randint(-5, 5) for _ in range(d)] for _ in range(n)], dtype=float)
        X[:, 0] += numpy.arange(n)                      # no constant first column (scale is external anyway)
        data = pandas.DataFrame(X, columns=["c%d" % i for i in range(d)]) if frame else X
        script = [rng.choice(SCRIPT_VARS) for _ in range(max(1, draws * d * d))]
        with warnings.catch_warnings():
            warnings.simplefilter("ignore")
            numpy.random.seed(rng.randrange(1 << 30))
            r, err, seen = _call_scripted(mod_cor, data, stubs["constant"](), draws, minmax, script)
        if err is not None:
            impl = "error:" + err
            if not seen:                       # failed before the first draw: the model still gets a full script
                seen = [float(script[k % len(script)]) for k in range(draws * d * d)]
        else:
            mats = list(r) if minmax else [r]
            arrs = [numpy.asarray(m, dtype=float) for m in mats]
            if not all(numpy.isfinite(a).all() for a in arrs):
                impl = "none"
            else:
                impl = "|".join(fm(a.tolist()) for a in arrs)
            if frame and not all(isinstance(m, pandas.DataFrame) and list(m.columns) == list(data.columns)
                                 and list(m.index) == list(data.columns) for m in mats):
                impl += "|labels-lost"
        lines.append("acc %d %d %d %s" % (1 if frame else 0, d, draws, fl(seen)))
        expect.append(("acc", {"frame": frame, "d": d, "draws": draws, "minmax": minmax, "vars": [str(fr(v)) for v in seen],
                               "X": X.tolist()}, impl))
        vals = [fr(v) for v in seen]
        cells = [set(vals[(k * d + i) * d + j] for k in range(draws)) for i in range(d) for j in range(d)] \
            if len(vals) == draws * d * d else []
        corr.case(("acc", frame, d, draws, minmax, tuple(vals)), nontrivial=any(len(c) > 1 for c in cells),
                  sample={"op": "acc", "frame": frame, "d": d, "draws": draws, "minmax": minmax, "vars": fl(seen),
                          "impl": impl} if t < 2 else None)
        corr.hit("acc:frame" if frame else "acc:array")
        corr.hit("acc:d=%d" % d)
        corr.hit("acc:draws=%d" % draws)
        corr.hit("acc:minmax" if minmax else "acc:plain")
        if any(v > 1 for v in vals):
            corr.hit("acc:clamped(1-v<0)")
        if err:
            corr.hit("acc:error:" + err)

    # ---- (b) comparable_metric decisions
    import numpy as np

    def f1(a):
        return np.asarray(a) * 2.0

    def f2(a):
        return np.asarray(a) + 10.0
    y = np.array([1.0, 2.0, 4.0, 8.0])
    p = np.array([0.5, 1.0, 1.5, 2.0])
    cands = {"id": lambda a: np.asarray(a), "numpy.log": np.log, "numpy.exp": np.exp, "f1": f1, "f2": f2,
             "numpy.sqrt": np.sqrt}
    args = [("none", None), ("name:log", "log"), ("name:exp", "exp"), ("name:sqrt", "sqrt"), ("name:", ""),
            ("call:f1", f1), ("call:f2", f2), ("other", 5), ("other", [1, 2])]
    for ta, tv in args:
        for ia, iv in args:
            got = {}

            def metric(a, b, **kw):
                got["a"], got["b"], got["kw"] = np.asarray(a), np.asarray(b), kw
                return 0.0
            try:
                comparable_metric(metric, y, p, tr=tv, inv_tr=iv, marker=1)
                na = [k for k, f in cands.items() if np.array_equal(f(y), got["a"])]
                nb = [k for k, f in cands.items() if np.array_equal(f(p), got["b"])]
                impl = "metric:%s:%s" % (na[0] if len(na) == 1 else "?%s" % na, nb[0] if len(nb) == 1 else "?%s" % nb)
                if got["kw"] != {"marker": 1}:
                    impl += ":kwargs-lost"
            except Exception as e:
                impl = type(e).__name__
            lines.append("cm %s %s" % (ta if ta != "name:" else "name:", ia if ia != "name:" else "name:"))
            expect.append(("cm", {"tr": ta, "inv_tr": ia}, impl))
            corr.case(("cm", ta, ia, repr(tv), repr(iv)), nontrivial=(tv is not None and iv is not None))
            corr.hit("cm:" + (impl.split(":")[0]))

    # ---- (c) stub learners, split recorded, draws = 1: every entry against the recorded variance through squares
    for t in range(ctx.pick(60, 800)):
        d = rng.choice([1, 2, 3, 4])
        n = rng.randint(6, 24)
        kind = rng.choice(["identity", "constant", "sign"])
        frame = rng.random() < 0.5
        X = numpy.array([[rng.randint(-8, 8) + rng.choice([0, 0.5]) for _ in range(d)] for _ in range(n)], dtype=float)
        if d >= 2 and rng.random() < 0.2:
            X[:, 1] = 3.0                                # a constant column
        if d >= 3 and rng.random() < 0.2:
            X[:, 2] = 2 * X[:, 0] - 1                    # a collinear column
        data = pandas.DataFrame(X, columns=["c%d" % i for i in range(d)]) if frame else X.copy()
        before = _digest(X if not frame else data.values)
        proxy = NumpyProxy(numpy)
        saved = mod_cor.numpy
        mod_cor.numpy = proxy
        with warnings.catch_warnings(), SplitRecorder(mod_cor) as sr:
            warnings.simplefilter("ignore")
            numpy.random.seed(rng.randrange(1 << 30))
            try:
                r = mod_cor.non_linear_correlations(data, stubs[kind](), draws=1, minmax=True)
                err = None
            except Exception as e:
                r, err = None, type(e).__name__
            finally:
                mod_cor.numpy = saved
        after = _digest(data if not frame else data.values)
        if err is not None or before != after:
            lines.append("cochk 0 0 0")
            expect.append(("stub", {"kind": kind, "frame": frame, "X": X.tolist()},
                           "error:%s" % err if err else "input-modified"))
            corr.case(("stub", t), nontrivial=False)
            corr.hit("stub:error:%s" % err if err else "stub:input-modified")
            continue
        cor, mini, maxi = (numpy.asarray(m, dtype=float) for m in r)
        inside = False
        for i in range(d):
            for j in range(d):
                v = proxy.vars[i * d + j]
                c = float(cor[i, j])
                same3 = (c == float(mini[i, j]) == float(maxi[i, j]))
                # independent recomputation of the variance from the recorded split (numpy arithmetic, not the model):
                tr_, te_ = sr.splits[0]
                stub = stubs[kind]().fit(tr_[:, i:i + 1], tr_[:, j])
                v_ref = float(numpy.var(stub.predict(te_[:, i:i + 1]) - te_[:, j]))
                lines.append("cochk %s %s %s" % (fs(fr(v)), fs(fr(c)), fs(4 * U)))
                impl = "ok" if (same3 and v == v_ref and math.isfinite(c)) else \
                    "bad same3=%s var=%r var_from_split=%r c=%r" % (same3, v, v_ref, c)
                expect.append(("stub", {"kind": kind, "frame": frame, "i": i, "j": j, "var": v, "c": c, "X": X.tolist()},
                               impl))
                if i != j and 0 < c < 1:
                    inside = True
                if i == j and kind == "identity":
                    corr.hit("stub:identity-diagonal")
        corr.case(("stub", kind, frame, d, n, t), nontrivial=inside,
                  sample={"op": "stub", "kind": kind, "d": d, "n": n, "cor": cor.tolist(), "vars": proxy.vars[:d * d]}
                  if t < 2 else None)
        corr.hit("stub:" + kind)
        corr.hit("stub:frame" if frame else "stub:array")

    out = run_driver(DRIVER, lines)
    for (op, inp, impl), got in zip(expect, out):
        if op == "acc":
            minmax = inp["minmax"]
            g = got
            if "|" in got and not minmax:
                g = got.split("|")[0]
            if impl.startswith("error:"):
                ok = (got == "none")          # the model says: creation of `cor` fails
                if ok:
                    corr.hit("acc:model-none=impl-error")
            elif got in ("none", "irrational", "bad-op") or impl == "none" or "labels-lost" in impl:
                ok = (g == impl)
            else:
                # the sums of the co's are exact dyadic numbers; the final `cor / draws` is one correctly rounded
                # division: compare float(model's exact quotient) with the returned float; mini/maxi exactly
                gm, im = g.split("|"), impl.split("|")
                ok = len(gm) == len(im)
                if ok:
                    a = [float(Fraction(x)) for r_ in gm[0].split(";") for x in r_.split(",")]
                    b_ = [float(Fraction(x)) for r_ in im[0].split(";") for x in r_.split(",")]
                    ok = (a == b_) and gm[1:] == im[1:] and \
                        [len(r_.split(",")) for r_ in gm[0].split(";")] == [len(r_.split(",")) for r_ in im[0].split(";")]
            if not ok:
                corr.disagree(op, inp, got, impl)
        elif got != impl:
            corr.disagree(op, inp, got, impl)
    return corr


# ------------------------------------------------------------------------------ search (oracle from the statement)

def _table_case(cfg):
    """Deterministic numeric table from a config dict."""
    import numpy
    rs = numpy.random.RandomState(cfg["seed"])
    n, d = cfg["n"], cfg["d"]
    X = rs.randn(n, d) * rs.choice([0.1, 1.0, 10.0]) + rs.randn(d)
    if cfg.get("integers"):
        X = numpy.round(X * 3)
    for j in cfg.get("constant", []):
        if j < d:
            X[:, j] = 2.5
    for (a, b) in cfg.get("collinear", []):
        if a < d and b < d and a != b:
            X[:, b] = -3.0 * X[:, a] + 1.0
    return X


def _learner(name):
    from sklearn.linear_model import LinearRegression
    from sklearn.tree import DecisionTreeRegressor
    if name == "linear":
        return LinearRegression()
    if name == "tree":
        return DecisionTreeRegressor(max_depth=3, random_state=0)
    if name == "linear-keeps-first-fit":
        class KeepsFirstFit(LinearRegression):
            """a model whose `fit` is not a full reset (what warm_start=True models do): once fitted, the object keeps
            what it learned first.  A fresh clone is unfitted, so every coefficient computed by its own clone is the
            one LinearRegression gives."""

            def fit(self, X, y, sample_weight=None):
                if hasattr(self, "coef_"):
                    return self
                return LinearRegression.fit(self, X, y)
        return KeepsFirstFit()
    return _stubs()[name]()


def _check_corr(cfg):
    import numpy
    import pandas
    import warnings
    from mlinsights.metrics import non_linear_correlations
    bad = []
    X = _table_case(cfg)
    n, d = X.shape
    cols = ["v%d" % i for i in range(d)]
    draws, seed = cfg["draws"], cfg["np_seed"]
    res = {}
    # integer tables are valid numeric tables too (counts): kept in an integer dtype when the config says so
    frame0 = pandas.DataFrame(X.astype(numpy.int64) if cfg.get("int_dtype") and cfg.get("integers") else X.copy(),
                              columns=cols)
    for kind in ("array", "frame"):
        # "a DataFrame and its array": the array is the frame's own `.values` (same numbers, same memory layout)
        data = frame0.values.copy(order="K") if kind == "array" else frame0.copy()
        if kind == "frame" and cfg.get("object_column") is not None and cfg["object_column"] < d:
            # a numeric column stored with dtype object (Python numbers): still one of the variables of the table
            data[cols[cfg["object_column"]]] = data[cols[cfg["object_column"]]].astype(object)
        h0 = _digest(data if kind == "array" else data.values)
        with warnings.catch_warnings():
            warnings.simplefilter("ignore")
            numpy.random.seed(seed)
            try:
                r = non_linear_correlations(data, _learner(cfg["model"]), draws=draws, minmax=True)
                numpy.random.seed(seed)
                r1 = non_linear_correlations(data, _learner(cfg["model"]), draws=draws)
            except Exception as e:
                bad.append(("%s:raises-%s:%s" % (kind, type(e).__name__, "single-column" if d == 1 else "d>=2"),
                            "non_linear_correlations raises %s on a numeric %s with %d column(s)"
                            % (type(e).__name__, "array" if kind == "array" else "DataFrame", d),
                            "%s: %s" % (type(e).__name__, e), "a %d x %d matrix" % (d, d)))
                continue
        h1 = _digest(data if kind == "array" else data.values)
        if h0 != h1:
            bad.append((kind + ":input-modified", "the input table is modified", "buffer hash changed", "input untouched"))
        mats = [numpy.asarray(m, dtype=float) for m in r]
        res[kind] = (r, mats, numpy.asarray(r1, dtype=float))
        cor, mini, maxi = mats
        for nm, m in (("cor", cor), ("min", mini), ("max", maxi)):
            if m.shape != (d, d):
                bad.append((kind + ":shape", "%s is not %d x %d" % (nm, d, d), list(m.shape), [d, d]))
            elif not (numpy.isfinite(m).all() and (m >= 0).all() and (m <= 1).all()):
                bad.append((kind + ":range", "%s has entries outside [0, 1]" % nm, m.tolist(), "entries in [0, 1]"))
        if cor.shape == mini.shape == maxi.shape == (d, d):
            # mean of k floats vs their min/max: at most k roundings of relative size 2^-53
            tol = 1e-12
            if not ((mini <= cor + tol).all() and (cor <= maxi + tol).all()):
                bad.append((kind + ":min-mean-max", "min <= mean <= max fails entrywise",
                            {"min": mini.tolist(), "mean": cor.tolist(), "max": maxi.tolist()}, "min <= mean <= max"))
            if not numpy.array_equal(cor, res[kind][2]):
                bad.append((kind + ":minmax-changes-mean", "the mean differs between minmax=True and minmax=False (same seed)",
                            {"minmax": cor.tolist(), "plain": res[kind][2].tolist()}, "equal"))
            # LinearRegression learns the identity only from a non-constant training half: continuous data
            if cfg["model"] == "identity" or (cfg["model"] in ("linear", "linear-keeps-first-fit") and not cfg.get("integers")):
                dg = numpy.diag(cor)
                ok = (dg == 1.0).all() if cfg["model"] == "identity" else (numpy.abs(dg - 1.0) <= 1e-9).all()
                if not ok:
                    bad.append((kind + ":diagonal", "diagonal is not 1 for a model able to learn the identity (%s)"
                                % cfg["model"], dg.tolist(), "ones"))
        if kind == "frame":
            for m in r:
                if not (isinstance(m, pandas.DataFrame) and list(m.index) == cols and list(m.columns) == cols):
                    bad.append(("frame:labels", "the DataFrame result does not keep the column labels",
                                [str(type(m).__name__), list(getattr(m, "columns", []))], cols))
                    break
    if "array" in res and "frame" in res:
        for a, b_, nm in zip(res["array"][1], res["frame"][1], ("cor", "min", "max")):
            same = a.shape == b_.shape and numpy.array_equal(a, b_)
            if not same:
                bad.append(("frame-vs-array", "%s differs between a DataFrame and its array under the same seed" % nm,
                            {"array": a.tolist(), "frame": b_.tolist()}, "equal"))
                break
    return bad


def _check_r2(cfg):
    import numpy
    from sklearn.metrics import r2_score
    from mlinsights.metrics import r2_score_comparable
    bad = []
    rs = numpy.random.RandomState(cfg["seed"])
    n = cfg["n"]
    y = rs.rand(n) * 5 + 0.1
    p = y * (1 + 0.3 * rs.randn(n)).clip(0.2, 3) + 0.05
    sc = cfg.get("scale", 1.0)          # "all positive targets/predictions": also very small ones (1e-9 .. 1e-6)
    y, p = y * sc, p * sc
    w = rs.rand(n) + 0.1 if cfg.get("weights") else None

    def sq(a):
        return numpy.asarray(a) ** 2
    fns = {"None": (None, None), "log": ("log", numpy.log), "exp": ("exp", numpy.exp), "sqrt": (numpy.sqrt, numpy.sqrt),
           "square": (sq, sq)}
    for ta, (targ, tf) in fns.items():
        for ia, (iarg, if_) in fns.items():
            kw = {} if w is None else {"sample_weight": w}
            try:
                got = r2_score_comparable(y, p, tr=targ, inv_tr=iarg, **kw)
                err = None
            except Exception as e:
                got, err = None, e
            if targ is None and iarg is None:
                if err is None:
                    bad.append(("r2:both-missing-accepted", "r2_score_comparable accepts tr = inv_tr = None", got,
                                "refused (exception)"))
                continue
            want = r2_score(tf(y) if tf else y, if_(p) if if_ else p, **kw)
            if err is not None:
                bad.append(("r2:raises", "r2_score_comparable(tr=%s, inv_tr=%s) raises %s" % (ta, ia, type(err).__name__),
                            "%s: %s" % (type(err).__name__, err), want))
            elif not (got == want or abs(got - want) <= 1e-12 * max(1.0, abs(want))):
                bad.append(("r2:value:%s:%s" % (ta, ia), "r2_score_comparable(y, p, tr=%s, inv_tr=%s) != r2_score(tr(y), inv_tr(p))"
                            % (ta, ia), got, want))
    # "tr=f" means f: a caller's own function is applied as given even when it is CALLED like one of the known names
    # (def log(x): return numpy.log1p(x)), is a lambda, a functools.partial or a callable object
    import functools
    from mlinsights.metrics import scoring_metrics as _sm
    names = sorted(k for k in getattr(_sm, "_known_functions", {}) if isinstance(k, str) and k.isidentifier()) or ["log", "exp"]

    class Shift:
        def __init__(self, c):
            self.c = c
            self.__name__ = "log"

        def __call__(self, a):
            return numpy.asarray(a) * 2.0 + self.c
    own = []
    for nm in names:
        def f(a):
            return numpy.log1p(numpy.asarray(a)) * 3.0 + 1.0
        f.__name__ = nm
        f.__qualname__ = nm
        own.append(("function named %s" % nm, f))
    own.append(("partial(numpy.power, 2.0)", functools.partial(numpy.power, 2.0)))
    own.append(("callable object with __name__ = 'log'", Shift(0.5)))
    for label, f in own:
        for targ, iarg in ((f, f), (f, None), (None, f), ("log", f)):
            kw = {} if w is None else {"sample_weight": w}
            tf = numpy.log if targ == "log" else targ
            want = r2_score(tf(y) if tf else y, iarg(p) if iarg else p, **kw)
            try:
                got = r2_score_comparable(y, p, tr=targ, inv_tr=iarg, **kw)
            except Exception as e:  # noqa: BLE001
                bad.append(("r2:raises", "r2_score_comparable raises %s for a caller's %s" % (type(e).__name__, label),
                            "%s: %s" % (type(e).__name__, e), want))
                continue
            if not (got == want or abs(got - want) <= 1e-12 * max(1.0, abs(want))):
                bad.append(("r2:value:own-function", "r2_score_comparable(y, p, tr=f, inv_tr=g) != r2_score(f(y), g(p)) when "
                            "f / g is the caller's own %s (tr=%s, inv_tr=%s)"
                            % (label, "f" if callable(targ) else targ, "f" if callable(iarg) else iarg), got, want))
                break
    # several targets per row (a table): the plain call is still r2_score of the transformed tables (its defaults)
    if n >= 4 and not cfg.get("weights"):
        Y = numpy.column_stack([y, y[::-1] * 7.0 + 1.0, (y + 0.3) ** 2])
        P = numpy.column_stack([p, p[::-1] * 7.0 + 2.0, (p + 0.1) ** 2])
        for ta, (targ, tf) in (("log", ("log", numpy.log)), ("sqrt", (numpy.sqrt, numpy.sqrt))):
            try:
                got = r2_score_comparable(Y, P, tr=targ, inv_tr=targ)
                want = r2_score(tf(Y), tf(P))
                if not (got == want or abs(got - want) <= 1e-12 * max(1.0, abs(want))):
                    bad.append(("r2:value:%s:%s:table-of-targets" % (ta, ta), "r2_score_comparable(Y, P, tr=%s, inv_tr=%s) != "
                                "r2_score(tr(Y), inv_tr(P)) for targets with several columns" % (ta, ta), got, want))
            except Exception as e:  # noqa: BLE001
                bad.append(("r2:raises", "r2_score_comparable raises %s on a table of targets" % type(e).__name__,
                            "%s: %s" % (type(e).__name__, e), "the value of r2_score"))
    try:
        r2_score_comparable(y, p)
        bad.append(("r2:both-missing-accepted", "r2_score_comparable(y, p) with both transformations missing is accepted",
                    "returned a value", "refused (exception)"))
    except Exception:
        pass
    return bad


def _corr_configs(ctx, count):
    rng = ctx.rng
    out = []
    for t in range(count):
        d = rng.choice([1, 1, 2, 2, 3, 3, 4, 5])
        cfg = {"seed": rng.randrange(1 << 30), "np_seed": rng.randrange(1 << 30), "n": rng.randint(4, 60), "d": d,
               "draws": rng.choice([1, 1, 2, 3, 5]), "model": rng.choice(["linear", "linear", "tree", "identity", "constant",
                                                                           "sign", "linear-keeps-first-fit"]),
               "integers": rng.random() < 0.3, "int_dtype": rng.random() < 0.5,
               "constant": [],
               "collinear": [(0, d - 1)] if (d >= 2 and rng.random() < 0.3) else []}
        if rng.random() < 0.15:
            cfg["object_column"] = rng.randrange(d)
        if d >= 2 and rng.random() < 0.3 and not (cfg["integers"] and cfg["int_dtype"]):
            cfg["constant"] = [rng.randrange(d)]        # the constant 2.5 is not an integer
        out.append(cfg)
    return out


def search(ctx, hints):
    ctx.shadow(need_cython=False)
    vs, evals, nontriv, samples = [], 0, set(), []
    rng = ctx.rng
    fixed = [{"seed": 1, "np_seed": 1, "n": 8, "d": 1, "draws": 1, "model": "identity", "integers": True, "constant": [],
              "collinear": []},
             {"seed": 2, "np_seed": 2, "n": 10, "d": 3, "draws": 3, "model": "linear", "integers": False, "constant": [1],
              "collinear": [(0, 2)]}]
    for cfg in fixed + _corr_configs(ctx, ctx.pick(150, 2500)):
        bad = _check_corr(cfg)
        evals += 1
        nontriv.add(("corr", cfg["seed"], cfg["n"], cfg["d"], cfg["draws"], cfg["model"]))
        if len(samples) < 2:
            samples.append({"kind": "corr", "config": cfg})
        for key, what, obs, req in bad:
            inp = dict(cfg)
            inp["kind"] = "corr"
            vs.append(Violation("non_linear_correlations:" + key, what, inp, obs, req))
    for t in range(ctx.pick(40, 600)):
        cfg = {"seed": rng.randrange(1 << 30), "n": rng.randint(3, 50), "weights": rng.random() < 0.4, "kind": "r2"}
        if t % 3 == 1:
            cfg["scale"] = rng.choice([1e-9, 1e-7, 1e-4])
        bad = _check_r2(cfg)
        evals += 1
        nontriv.add(("r2", cfg["seed"], cfg["n"], cfg["weights"]))
        if len(samples) < 3:
            samples.append({"kind": "r2", "config": cfg})
        for key, what, obs, req in bad:
            vs.append(Violation("r2_score_comparable:" + key[3:], what, cfg, obs, req))
    best = {}
    for v in vs:
        size = (v.input.get("d", 0), v.input["n"])
        if v.key not in best or size < (best[v.key].input.get("d", 0), best[v.key].input["n"]):
            best[v.key] = v
    return list(best.values()), {"evaluations": evals, "distinct_nontrivial": len(nontriv), "samples": samples}


def replay(ctx, item):
    ctx.shadow(need_cython=False)
    inp = item["input"]
    if inp.get("kind") == "r2":
        bad = [("r2_score_comparable:" + k[3:], w, o, r) for k, w, o, r in _check_r2(inp)]
    else:
        bad = [("non_linear_correlations:" + k, w, o, r) for k, w, o, r in _check_corr(inp)]
    want = item.get("key")
    best = {}
    for key, what, obs, req in bad:
        if want is None or want == key:
            best.setdefault(key, Violation(key, what, inp, obs, req))
    return list(best.values())
