"""C01 — parameter protocol: get_params / set_params / clone round-trip for every exported estimator."""
import ast
import json
import os

from core import Corr, Violation, run_driver
from extract import pyexpr, classes

ID = "C01"
LEAN_TARGETS = ["MlVerif.Gen.C01", "MlVerif.Model.Params", "MlVerif.Lemmas.Params", "MlVerif.Lemmas.ParamsSpec",
                "MlVerif.Lemmas.ParamsTransfer", "MlVerif.Lemmas.ParamsDict",
                "MlVerif.Properties.C01"]
PROPERTY_FILE = "MlVerif/Properties/C01.lean"
DRIVER = "Drivers/C01.lean"
TRUSTED = [
    "scikit-learn's BaseEstimator.get_params/set_params/clone (1.9.1) as transcribed in the `base` protocol: split at the "
    "first '__', unknown head => ValueError, direct keys first then one nested call per head, clone = klass(**clone(shallow params)) "
    "followed by the `is` sanity check",
    "scikit-learn's own estimators store their constructor arguments verbatim",
    "Python str semantics as transcribed on character lists: startswith, k[a:] with clipping, split('__', 1), partition('__'), "
    "int() of an ASCII digit string, f'{i}' of a non-negative int",
    "copy.deepcopy of parameter values that are not estimators (atoms carry no identity in the model)",
]
ASSUMPTIONS = [
    "scope: every public estimator class of mlinsights.sklapi, the exports of mlinsights.mlmodel, every public estimator class "
    "of mlinsights.timeseries; mlinsights.search_rank (needs pandas_streaming) and mlinsights.mlbatch (private scikit-learn API "
    "removed in 1.9) cannot be imported in this sandbox and are out of scope",
    "configurations are alias-free: one estimator object does not occur twice inside the same configuration (the model is a tree "
    "with object ids; feeding get_params(deep=True) of e1 to e2 makes e2 share e1's sub-estimators, which the transfer theorem "
    "states as equality of ids)",
    "values given to SkBaseTransformStacking `models` through set_params are lists of transformers (what get_params reports and "
    "the constructor stores); a learner's `model` is an estimator providing the chosen method; ClassifierAfterKMeans `clus` has transform",
    "stacking indices are written in plain decimal (Python's int() also accepts '-1', '+1', '1_0', surrounding blanks: not modelled)",
    "'behave identically' is checked by the search only: both objects are fitted on a fixed small data set with fixed seeds "
    "and their outputs compared; it is not a theorem",
]
RULE = ("every in-scope class x a menu of constructor configurations (atoms, strings, callables, nested scikit-learn estimators, "
        "stacking lists of 1-15 members) x random op sequences over get_params(deep)/set_params(1-3 keys, advertised, nested, "
        "indexed, unknown)/clone; model and implementation are compared on canonical dumps + return values after every op. "
        "A case is non-trivial when the op changes or reads at least one parameter; distinct = (class, op kind, key shape)")
LEVEL_TEXT = ("Lean proofs, for every nesting depth / list length / key and all six protocols: a single-key set_params on any "
              "advertised key returns self and replaces exactly that slot (sub-keys re-derived); nested/indexed keys are routed by the "
              "extracted string arithmetic to the right member for every index; feeding get_params(deep=True) of one instance to "
              "another of the same shape makes it report the same parameters; clone is a fresh-id unfitted deep copy with equal "
              "parameters; all lifted over op histories. The per-class storage table is regenerated from the source and decided. "
              "Partial: 'behave identically' is tested (fit on fixed data), not proved.")
LEVEL_NOTE = "scikit-learn's BaseEstimator and Python string semantics are transcribed, not verified; behaviour equality is tested only"
TECHNIQUE = ("Lean 4 proof (induction over key length / estimator nesting / op lists) + AST-regenerated slice expressions, prefixes "
             "and per-class constructor-storage table + differential correspondence on op sequences")

LEARNER = "mlinsights/sklapi/sklearn_base_transform_learner.py"
STACKING = "mlinsights/sklapi/sklearn_base_transform_stacking.py"
CAK = "mlinsights/mlmodel/classification_kmeans.py"

PROTO_OF_DEFINER = {
    ("SkBase", "SkBase"): "skbase",
    ("SkBaseTransformLearner", "SkBaseTransformLearner"): "learner",
    ("SkBaseTransformStacking", "SkBaseTransformStacking"): "stacking",
    ("ClassifierAfterKMeans", "ClassifierAfterKMeans"): "cak",
    ("ApproximateNMFPredictor", ""): "anmf",
    ("", ""): "base",
}


# ------------------------------------------------------------------------------ extractor

def chars(s):
    if s is None:
        return "['?', '?', '?']"
    return "[" + ", ".join("'%s'" % (c if c not in "'\\" else "\\" + c) for c in s) + "]"


def _const_str(node):
    return node.value if isinstance(node, ast.Constant) and isinstance(node.value, str) else None


def _startswith_args(fn, var="k"):
    out = []
    for n in ast.walk(fn):
        if isinstance(n, ast.Call) and isinstance(n.func, ast.Attribute) and n.func.attr == "startswith" \
                and isinstance(n.func.value, ast.Name) and n.func.value.id == var and len(n.args) == 1:
            out.append((n.lineno, n.col_offset, _const_str(n.args[0])))
    return [s for _, _, s in sorted(out)]


def _len_const(fn, name):
    """`name = len("...")` -> the string."""
    for a in pyexpr.assignments(fn, name):
        v = a.value
        if isinstance(v, ast.Call) and ast.unparse(v.func) == "len" and len(v.args) == 1:
            return _const_str(v.args[0])
    return None


def _open_slices(fn, var="k"):
    """lower bounds of every `var[<lower>:]` in source order."""
    out = []
    for n in ast.walk(fn):
        if isinstance(n, ast.Subscript) and isinstance(n.value, ast.Name) and n.value.id == var \
                and isinstance(n.slice, ast.Slice) and n.slice.upper is None and n.slice.step is None \
                and n.slice.lower is not None:
            out.append((n.lineno, n.col_offset, n.slice.lower))
    return [e for _, _, e in sorted(out, key=lambda t: (t[0], t[1]))]


def _get_prefixes(fn):
    """string pieces of `res[<prefix expr> + k] = v` in get_params, in source order."""
    out = []
    for n in ast.walk(fn):
        if isinstance(n, ast.Assign) and isinstance(n.targets[0], ast.Subscript) \
                and isinstance(n.targets[0].value, ast.Name) and n.targets[0].value.id == "res":
            s = n.targets[0].slice
            if isinstance(s, ast.BinOp) and isinstance(s.op, ast.Add) and isinstance(s.right, ast.Name):
                left = s.left
                if _const_str(left) is not None:
                    out.append((n.lineno, [_const_str(left)]))
                elif isinstance(left, ast.JoinedStr):
                    parts = []
                    for v in left.values:
                        parts.append(v.value if isinstance(v, ast.Constant) else "{%s}" % ast.unparse(v.value))
                    out.append((n.lineno, parts))
    return [p for _, p in sorted(out)]


def extract(ctx):
    unk = lambda why: '(MlVerif.Gen.unknownInt "%s")' % why
    # --- learner
    lt = ast.parse(ctx.source(LEARNER))
    lset = pyexpr.find_function(lt, "SkBaseTransformLearner.set_params")
    lget = pyexpr.find_function(lt, "SkBaseTransformLearner.get_params")
    l_tests = sorted(set(_startswith_args(lset)))
    l_prefix = l_tests[0] if len(l_tests) == 1 else None
    l_dstr = _len_const(lset, "d")
    tr = pyexpr.Tr({"d": ("d", "int")})
    ls = _open_slices(lset)
    l_from = tr.int_expr(ls[0]) if len(ls) == 1 else unk("learner: %d slices k[..:]" % len(ls))
    lg = _get_prefixes(lget)
    l_get = lg[0][0] if len(lg) == 1 and len(lg[0]) == 1 else None
    # --- stacking
    st = ast.parse(ctx.source(STACKING))
    sset = pyexpr.find_function(st, "SkBaseTransformStacking.set_params")
    sget = pyexpr.find_function(st, "SkBaseTransformStacking.get_params")
    s_tests = sorted(set(_startswith_args(sset)))
    s_prefix = s_tests[0] if len(s_tests) == 1 else None
    s_dstr = _len_const(sset, "d")
    tr2 = pyexpr.Tr({"d": ("d", "int"), "len(si)": ("lenSi", "int"), "len(si[0])": ("lenSi0", "int")})
    ss = _open_slices(sset)
    if len(ss) == 2:
        s_split_from, s_sub_from = tr2.int_expr(ss[0]), tr2.int_expr(ss[1])
    else:
        s_split_from = s_sub_from = unk("stacking: %d slices k[..:]" % len(ss))
    # the split call: si = k[d:].split("__", 1)
    sep, maxsplit = None, None
    for a in pyexpr.assignments(sset, "si"):
        v = a.value
        if isinstance(v, ast.Call) and isinstance(v.func, ast.Attribute) and v.func.attr == "split" and len(v.args) == 2:
            sep = _const_str(v.args[0])
            maxsplit = v.args[1].value if isinstance(v.args[1], ast.Constant) else None
    sg = _get_prefixes(sget)
    if len(sg) == 1 and len(sg[0]) == 3 and sg[0][1] == "{i}":
        s_get_a, s_get_b = sg[0][0], sg[0][2]
    else:
        s_get_a = s_get_b = None
    # --- ClassifierAfterKMeans
    ct = ast.parse(ctx.source(CAK))
    cset = pyexpr.find_function(ct, "ClassifierAfterKMeans.set_params")
    cget = pyexpr.find_function(ct, "ClassifierAfterKMeans.get_params")
    c_tests = _startswith_args(cset)
    cs = _open_slices(cset)
    tr3 = pyexpr.Tr({})
    # which prefix feeds which sub-estimator: `pe[k[2:]] = v` under startswith("e_") ... self.estimator.set_params(**pe)
    c_est = c_clus = None
    c_from_e = c_from_c = unk("cak slice")
    for n in ast.walk(cset):
        if isinstance(n, ast.If):
            t = n.test
            if isinstance(t, ast.Call) and isinstance(t.func, ast.Attribute) and t.func.attr == "startswith" and t.args:
                pfx = _const_str(t.args[0])
                tgt = [b.targets[0].value.id for b in n.body if isinstance(b, ast.Assign)
                       and isinstance(b.targets[0], ast.Subscript) and isinstance(b.targets[0].value, ast.Name)]
                sl = _open_slices(ast.Module(body=n.body, type_ignores=[]))
                if tgt == ["pe"] and len(sl) == 1:
                    c_est, c_from_e = pfx, tr3.int_expr(sl[0])
                if tgt == ["pc"] and len(sl) == 1:
                    c_clus, c_from_c = pfx, tr3.int_expr(sl[0])
    src = ast.unparse(cset)
    if "self.estimator.set_params(**pe)" not in src:
        c_est = None
    if "self.clus.set_params(**pc)" not in src:
        c_clus = None
    cg = {}
    for n in ast.walk(cget):
        if isinstance(n, ast.For) and isinstance(n.iter, ast.Call):
            it = ast.unparse(n.iter)
            p = _get_prefixes(n)
            if len(p) == 1 and len(p[0]) == 1:
                if it.startswith("self.clus.get_params("):
                    cg["clus"] = p[0][0]
                if it.startswith("self.estimator.get_params("):
                    cg["estimator"] = p[0][0]
    cak_shallow = []
    for n in ast.walk(cget):
        if isinstance(n, ast.Assign) and isinstance(n.targets[0], ast.Name) and n.targets[0].id == "res" \
                and isinstance(n.value, ast.Dict):
            for k, v in zip(n.value.keys, n.value.values):
                if _const_str(k) is not None and ast.unparse(v) == "self." + _const_str(k):
                    cak_shallow.append(_const_str(k))

    # --- behaviour flags of the hand-written set_params bodies
    def rejects_own(fn):
        for n in ast.walk(fn):
            if isinstance(n, ast.If) and isinstance(n.test, ast.UnaryOp) and isinstance(n.test.op, ast.Not) \
                    and "startswith" in ast.unparse(n.test) and any(isinstance(b, ast.Raise) for b in n.body):
                return True
        return False
    bt = ast.parse(ctx.source("mlinsights/sklapi/sklearn_base.py"))
    bset = pyexpr.find_function(bt, "SkBase.set_params")
    bsrc = ast.unparse(bset)
    # `self.P = SkLearnParameters(**values)` rebuilds from the given keys only; an update merges into to_dict()
    skbase_updates = ("self.P.to_dict()" in bsrc and ".update(values)" in bsrc) or "setattr(self.P" in bsrc
    flags = dict(skbase_updates="true" if skbase_updates else "false",
                 l_rejects="true" if rejects_own(lset) else "false",
                 s_rejects="true" if rejects_own(sset) else "false")

    # --- class table
    table = classes.collect(ctx.repo)
    rows = []
    for info in classes.in_scope(table):
        pm = info.facts["protocol_methods"]
        definer = (pm["get_params"] if pm["get_params"] != "ApproximateNMFPredictor" else "ApproximateNMFPredictor",
                   pm["set_params"])
        proto = PROTO_OF_DEFINER.get(definer, "unknownProto")
        store = info.facts["ctor_storage"]
        sig = info.facts["ctor_params"]
        ps = []
        for p, _ in sig["params"]:
            kind, why = store.get(p, ("unknown", "not analysed"))
            why = why.replace('"', "'").replace("\\", "/").replace("\n", " ")[:160]
            if kind in ("normalised", "unknown"):
                ps.append('⟨"%s", .%s "%s"⟩' % (p, kind, why))
            else:
                ps.append('⟨"%s", .%s⟩' % (p, kind))
        kwk = store.get("**", ("none", ""))[0]
        rs, rs_why = info.facts["set_params_returns_self"]
        rows.append('  { name := "%s", pkg := "%s", exported := %s, proto := .%s,\n    params := [%s],\n'
                    '    varKw := .%s, customGet := %s, customSet := %s, setReturnsSelf := %s }'
                    % (info.name, info.pkg, "true" if info.exported else "false", proto, ", ".join(ps),
                       {"none": "none", "P": "toP", "setattr": "setattr", "set_params": "setParams", "super": "toSuper",
                        "dropped": "dropped"}.get(kwk, "dropped"),
                       "true" if pm["get_params"] else "false", "true" if pm["set_params"] else "false",
                       "true" if rs else "false"))

    def returns_self(cls):
        return "true" if cls in table and table[cls].facts["set_params_returns_self"][0] else "false"

    body = pyexpr.HEADER + """import MlVerif.Gen.Base
namespace MlVerif.Gen.C01
open MlVerif.Gen

/-! fixed vocabulary (types only) -/
inductive Proto | base | skbase | learner | stacking | cak | anmf | unknownProto
deriving DecidableEq, Repr
inductive Storage | verbatim | defaulted | normalised (expr : String) | dropped | readonly | unknown (why : String)
deriving DecidableEq, Repr
inductive VarKw | none | toP | setattr | setParams | toSuper | dropped
deriving DecidableEq, Repr
structure CtorParam where
  name : String
  storage : Storage
deriving DecidableEq, Repr
structure ClassRow where
  name : String
  pkg : String
  exported : Bool
  proto : Proto
  params : List CtorParam
  varKw : VarKw
  customGet : Bool
  customSet : Bool
  setReturnsSelf : Bool
deriving Repr

/-! `SkBaseTransformLearner.set_params` / `get_params` -/
/-- `k.startswith(%(l_prefix)r)` -/
def learnerPrefixTest : List Char := %(l_prefix_c)s
/-- `d = len(%(l_dstr)r)` -/
def learnerD : Int := %(l_d)s
/-- lower bound of `k[...:]` (the sub-key handed to the model) -/
def learnerSubkeyFrom (d : Int) : Int := %(l_from)s
/-- `res[%(l_get)r + k]` in get_params -/
def learnerGetPrefix : List Char := %(l_get_c)s

/-! `SkBaseTransformStacking.set_params` / `get_params` -/
/-- `k.startswith(%(s_prefix)r)` -/
def stackingPrefixTest : List Char := %(s_prefix_c)s
/-- `d = len(%(s_dstr)r)` -/
def stackingD : Int := %(s_d)s
/-- `si = k[<this>:].split(%(sep)r, %(maxsplit)r)` -/
def stackingSplitFrom (d : Int) : Int := %(s_split_from)s
def stackingSplitSep : List Char := %(sep_c)s
def stackingSplitMax : Int := %(maxsplit_l)s
/-- lower bound of the slice that yields the member's sub-key; `lenSi = len(si)`, `lenSi0 = len(si[0])` -/
def stackingSubkeyFrom (d lenSi lenSi0 : Int) : Int := %(s_sub_from)s
/-- `res[f"%(s_get_a)s{i}%(s_get_b)s" + k]` in get_params -/
def stackingGetPrefix : List Char := %(s_get_a_c)s
def stackingGetSep : List Char := %(s_get_b_c)s

/-! `ClassifierAfterKMeans.set_params` / `get_params` -/
def cakEstPrefixTest : List Char := %(c_est_c)s
def cakClusPrefixTest : List Char := %(c_clus_c)s
def cakEstSubkeyFrom : Int := %(c_from_e)s
def cakClusSubkeyFrom : Int := %(c_from_c)s
def cakGetEstPrefix : List Char := %(cg_est_c)s
def cakGetClusPrefix : List Char := %(cg_clus_c)s
/-- keys `get_params` reports for the two sub-estimators themselves (`res = {"estimator": self.estimator, ...}`) -/
def cakShallowKeys : List (List Char) := [%(cak_shallow)s]

/-- `SkBase.set_params` merges the given keys into the stored parameters (false: it rebuilds them from the given keys only) -/
def skbaseSetUpdates : Bool := %(skbase_updates)s
/-- a key without the `model__` / `models_` prefix (the wrapper's own stored parameter) is rejected with ValueError -/
def learnerRejectsOwnKeys : Bool := %(l_rejects)s
def stackingRejectsOwnKeys : Bool := %(s_rejects)s

/-- does the class's `set_params` return `self` on every path (custom protocols; scikit-learn's does) -/
def setReturnsSelf : Proto → Bool
  | .base => true
  | .anmf => true
  | .skbase => %(rs_skbase)s
  | .learner => %(rs_learner)s
  | .stacking => %(rs_stacking)s
  | .cak => %(rs_cak)s
  | .unknownProto => false

/-- one row per in-scope estimator class (walk of the `__init__` exports and class definitions) -/
def classes : List ClassRow := [
%(rows)s
]

/-- everything a constructor of an in-scope class does besides storing its parameters: attributes that are not
constructor parameters (derived flags, private copies) and calls on `self` -/
def ctorSideState : List String := [
%(side)s
]

end MlVerif.Gen.C01
""" % dict(side=",\n".join('  "%s"' % x for x in _ctor_side_state(table)),
        l_prefix=l_prefix, l_prefix_c=chars(l_prefix), l_dstr=l_dstr,
        l_d=("(%d : Int)" % len(l_dstr)) if l_dstr is not None else unk("learner d"),
        l_from=l_from, l_get=l_get, l_get_c=chars(l_get),
        s_prefix=s_prefix, s_prefix_c=chars(s_prefix), s_dstr=s_dstr,
        s_d=("(%d : Int)" % len(s_dstr)) if s_dstr is not None else unk("stacking d"),
        sep=sep, maxsplit=maxsplit, s_split_from=s_split_from, sep_c=chars(sep),
        maxsplit_l=("(%d : Int)" % maxsplit) if isinstance(maxsplit, int) else unk("maxsplit"),
        s_sub_from=s_sub_from, s_get_a=s_get_a, s_get_b=s_get_b, s_get_a_c=chars(s_get_a), s_get_b_c=chars(s_get_b),
        c_est_c=chars(c_est), c_clus_c=chars(c_clus), c_from_e=c_from_e, c_from_c=c_from_c,
        cg_est_c=chars(cg.get("estimator")), cg_clus_c=chars(cg.get("clus")),
        cak_shallow=", ".join(chars(s) for s in cak_shallow),
        rs_skbase=returns_self("SkBase"), rs_learner=returns_self("SkBaseTransformLearner"),
        rs_stacking=returns_self("SkBaseTransformStacking"), rs_cak=returns_self("ClassifierAfterKMeans"),
        rows=",\n".join(rows), **flags)
    return {"MlVerif/Gen/C01.lean": body}


# ------------------------------------------------------------------------------ real objects: menus, dumps

def _f_half(x):
    return x / 2


def _f_double(x):
    return x * 2


def _san(s, n=60):
    s = "".join(c if (c.isalnum() or c in "._-+()[]<>=:'") else "~" for c in s)
    return s[:n] or "~"


def _mods():
    import numpy
    import sklearn.base
    from sklearn.linear_model import LinearRegression, LogisticRegression, Ridge
    from sklearn.tree import DecisionTreeRegressor, DecisionTreeClassifier
    from sklearn.preprocessing import StandardScaler, MinMaxScaler
    from sklearn.cluster import KMeans
    import mlinsights.sklapi as ms
    import mlinsights.sklapi.sklearn_base as msb
    import mlinsights.sklapi.sklearn_base_transform as msbt
    import mlinsights.mlmodel as mm
    import mlinsights.timeseries.base as tb
    import mlinsights.timeseries.dummies as td
    import mlinsights.timeseries.preprocessing as tp
    import mlinsights.timeseries.ar as ta
    ns = dict(numpy=numpy, clone=sklearn.base.clone, LinearRegression=LinearRegression,
              LogisticRegression=LogisticRegression, Ridge=Ridge, DecisionTreeRegressor=DecisionTreeRegressor,
              DecisionTreeClassifier=DecisionTreeClassifier, StandardScaler=StandardScaler, MinMaxScaler=MinMaxScaler,
              KMeans=KMeans)
    cls = {}
    for mod in (ms, msb, msbt, mm, tb, td, tp, ta):
        for n, c in vars(mod).items():
            if isinstance(c, type) and c.__module__.startswith("mlinsights") and hasattr(c, "get_params"):
                cls[n] = c
    ns["cls"] = cls
    return ns


def proto_of(obj, ns):
    c = ns["cls"]
    if isinstance(obj, c["SkBaseTransformLearner"]):
        return "learner"
    if isinstance(obj, c["SkBaseTransformStacking"]):
        return "stacking"
    if isinstance(obj, c["SkBase"]):
        return "skbase"
    if isinstance(obj, c["ClassifierAfterKMeans"]):
        return "cak"
    if isinstance(obj, c["ApproximateNMFPredictor"]):
        return "anmf"
    return "base"


def is_est(v):
    return hasattr(v, "get_params") and not isinstance(v, type)


def state_of(obj, ns):
    """Stored parameters read from the attributes (not through get_params, which is under test)."""
    p = proto_of(obj, ns)
    if p == "skbase":
        return dict(obj.P.to_dict())
    if p == "learner":
        d = dict(obj.P.to_dict())
        d["model"] = obj.model
        d["method"] = obj.method
        return d
    if p == "stacking":
        d = dict(obj.P.to_dict())
        d["models"] = obj.models
        d["method"] = obj.method
        return d
    if p == "cak":
        return {"estimator": obj.estimator, "clus": obj.clus}
    names = type(obj)._get_param_names()
    if p == "anmf":
        return {k: getattr(obj, k) for k in names if hasattr(obj, k)}
    return {k: getattr(obj, k) for k in names}


def is_fitted(obj):
    return any(k.endswith("_") and not k.startswith("_") and k != "method_" for k in vars(obj))


class Registry:
    """alias ids for object identity"""

    def __init__(self):
        self.ids = {}
        self.keep = []

    def of(self, obj):
        if id(obj) not in self.ids:
            self.ids[id(obj)] = len(self.ids)
            self.keep.append(obj)
        return self.ids[id(obj)]

    def known(self, obj):
        return id(obj) in self.ids


def atom_of(v):
    if isinstance(v, str):
        return "s", _san(v)
    if callable(v):
        return "f", _san(getattr(v, "__name__", type(v).__name__))
    return "o", _san(repr(v))


def tokens_of(v, ns, reg):
    """prefix token stream of a value for the Lean driver"""
    if is_est(v):
        st = state_of(v, ns)
        out = ["E", str(reg.of(v)), type(v).__name__, proto_of(v, ns), "1" if is_fitted(v) else "0", str(len(st))]
        for k in sorted(st):
            out.append(k)
            out += tokens_of(st[k], ns, reg)
        return out
    if isinstance(v, list) and v and all(is_est(x) for x in v):
        out = ["L", str(len(v))]
        for x in v:
            out += tokens_of(x, ns, reg)
        return out
    k, t = atom_of(v)
    return ["A", k, t]


def full_dump(v, ns, reg, with_ids=True):
    if is_est(v):
        st = state_of(v, ns)
        items = ",".join("%s=%s" % (k, full_dump(st[k], ns, reg, with_ids)) for k in sorted(st))
        return "%s%s/%s%s{%s}" % (type(v).__name__, "#%d" % reg.of(v) if with_ids else "", proto_of(v, ns),
                                  "/fitted" if is_fitted(v) else "", items)
    if isinstance(v, list) and v and all(is_est(x) for x in v):
        return "[" + ",".join(full_dump(x, ns, reg, with_ids) for x in v) + "]"
    return "%s:%s" % atom_of(v)


def short_val(v, reg):
    if is_est(v):
        return "%s#%d" % (type(v).__name__, reg.of(v))
    if isinstance(v, list) and v and all(is_est(x) for x in v):
        return "[" + ",".join(short_val(x, reg) for x in v) + "]"
    return "%s:%s" % atom_of(v)


def show_params(d, reg):
    if not d:
        return "-"
    return ";".join("%s=%s" % (k, short_val(d[k], reg)) for k in sorted(d))


ERR = {"ValueError": "ValueError", "KeyError": "KeyError", "TypeError": "TypeError", "AttributeError": "AttributeError",
       "IndexError": "IndexError", "RuntimeError": "RuntimeError", "SkException": "SkException"}


def err_name(e):
    return ERR.get(type(e).__name__, "Other:" + type(e).__name__)


def configs(ns):
    """name -> list of zero-argument factories (every call builds fresh objects)."""
    c = ns["cls"]
    LR, LG, RG = ns["LinearRegression"], ns["LogisticRegression"], ns["Ridge"]
    DTR, DTC, SS, MMS, KM = (ns["DecisionTreeRegressor"], ns["DecisionTreeClassifier"], ns["StandardScaler"],
                             ns["MinMaxScaler"], ns["KMeans"])
    np = ns["numpy"]
    L, S = c["SkBaseTransformLearner"], c["SkBaseTransformStacking"]
    cfg = {}
    for n in ("SkBase", "SkBaseTransform", "SkBaseLearner", "SkBaseClassifier", "SkBaseRegressor"):
        cfg[n] = [lambda n=n: c[n](), lambda n=n: c[n](a=1, b="s"), lambda n=n: c[n](pa=2.5, fn=_f_half, est=LR()),
                  lambda n=n: c[n](a=5, b="t"), lambda n=n: c[n](pa=0.5, fn=_f_double, est=RG(alpha=2.0))]
    cfg["SkBaseTransformLearner"] = [
        lambda: L(LR()), lambda: L(LG(C=2.0), method="predict_proba", alpha=3),
        lambda: L(DTR(max_depth=2), method="predict"), lambda: L(SS()), lambda: L(LG(), method=_f_half, w="x"),
        lambda: L(L(LR(fit_intercept=False)), method="transform"), lambda: L(KM(n_clusters=2, n_init=1)),
        lambda: L(RG(alpha=0.5), method="predict", alpha=4), lambda: L(LG(C=0.5), method=_f_double, w="y"),
    ]

    def members(k, kind):
        out = []
        for i in range(k):
            j = (i + kind) % 4
            out.append([LR(), DTR(max_depth=2), SS(), L(RG(alpha=0.5), "predict")][j]
                       if kind != 9 else LR(fit_intercept=(i % 2 == 0)))
        return out
    cfg["SkBaseTransformStacking"] = [
        lambda: S([LR()]), lambda: S(members(2, 0), alpha=1), lambda: S(members(3, 1), method="predict"),
        lambda: S(members(11, 9)), lambda: S(members(12, 2), tag="t"), lambda: S(members(15, 0)),
        lambda: S([SS(), MMS()]), lambda: S([LG(), DTC(max_depth=2)], method="predict_proba"),
        lambda: S([S([LR(), SS()]), LR()]), lambda: S([RG(alpha=2.0), SS(with_mean=False)], alpha=7),
    ]
    K = c["ClassifierAfterKMeans"]
    from sklearn.svm import SVC
    cfg["ClassifierAfterKMeans"] = [lambda: K(), lambda: K(estimator=DTC(max_depth=3)),
                                    lambda: K(clus=KM(n_clusters=3, n_init=1)), lambda: K(c_n_clusters=3, e_max_iter=50),
                                    # parameter names that contain the prefix characters again (cache_size)
                                    lambda: K(estimator=SVC(probability=True, cache_size=100))]
    A = c["ApproximateNMFPredictor"]
    cfg["ApproximateNMFPredictor"] = [lambda: A(), lambda: A(n_components=2), lambda: A(force_positive=True, alpha_W=0.5)]
    cfg["CategoriesToIntegers"] = [lambda: c["CategoriesToIntegers"](), lambda: c["CategoriesToIntegers"](columns="a"),
                                   lambda: c["CategoriesToIntegers"](columns=["a", "b"], single=True)]
    cfg["ConstraintKMeans"] = [lambda: c["ConstraintKMeans"](), lambda: c["ConstraintKMeans"](n_clusters=3, strategy="distance")]
    cfg["DecisionTreeLogisticRegression"] = [lambda: c["DecisionTreeLogisticRegression"](),
                                             lambda: c["DecisionTreeLogisticRegression"](estimator=LG(C=0.5), max_depth=3)]
    cfg["ExtendedFeatures"] = [lambda: c["ExtendedFeatures"](), lambda: c["ExtendedFeatures"](poly_degree=3)]
    cfg["FunctionReciprocalTransformer"] = [lambda: c["FunctionReciprocalTransformer"]("log"),
                                            lambda: c["FunctionReciprocalTransformer"](_f_half, _f_double)]
    cfg["IntervalRegressor"] = [lambda: c["IntervalRegressor"](LR()), lambda: c["IntervalRegressor"](DTR(max_depth=2), n_estimators=3)]
    cfg["KMeansL1L2"] = [lambda: c["KMeansL1L2"](), lambda: c["KMeansL1L2"](n_clusters=2, norm="L1")]
    cfg["PermutationReciprocalTransformer"] = [lambda: c["PermutationReciprocalTransformer"](),
                                               lambda: c["PermutationReciprocalTransformer"](random_state=1, closest=True)]
    for n, est in (("PiecewiseClassifier", LG), ("PiecewiseRegressor", LR)):
        cfg[n] = [lambda n=n: c[n](), lambda n=n: c[n]("bins"), lambda n=n, est=est: c[n](estimator=est(), n_jobs=1)]
    cfg["PiecewiseTreeRegressor"] = [lambda: c["PiecewiseTreeRegressor"](), lambda: c["PiecewiseTreeRegressor"](max_depth=3)]
    cfg["PredictableTSNE"] = [lambda: c["PredictableTSNE"](), lambda: c["PredictableTSNE"](normalizer=SS(), estimator=LR())]
    cfg["QuantileLinearRegression"] = [lambda: c["QuantileLinearRegression"](), lambda: c["QuantileLinearRegression"](quantile=0.3)]
    cfg["QuantileMLPRegressor"] = [lambda: c["QuantileMLPRegressor"](), lambda: c["QuantileMLPRegressor"](hidden_layer_sizes=(3,), max_iter=5)]
    cfg["TraceableCountVectorizer"] = [lambda: c["TraceableCountVectorizer"](), lambda: c["TraceableCountVectorizer"](ngram_range=(1, 2))]
    cfg["TraceableTfidfVectorizer"] = [lambda: c["TraceableTfidfVectorizer"]()]
    cfg["TransferTransformer"] = [lambda: c["TransferTransformer"](LR()), lambda: c["TransferTransformer"](SS(), trainable=True)]
    cfg["TransformedTargetClassifier2"] = [lambda: c["TransformedTargetClassifier2"](),
                                           lambda: c["TransformedTargetClassifier2"](classifier=LG(), transformer="permute")]
    cfg["TransformedTargetRegressor2"] = [lambda: c["TransformedTargetRegressor2"](),
                                          lambda: c["TransformedTargetRegressor2"](regressor=LR(), transformer="log")]
    cfg["ARTimeSeriesRegressor"] = [lambda: c["ARTimeSeriesRegressor"](), lambda: c["ARTimeSeriesRegressor"](estimator=LR(), past=2)]
    cfg["BaseReciprocalTimeSeriesTransformer"] = [lambda: c["BaseReciprocalTimeSeriesTransformer"](),
                                                  lambda: c["BaseReciprocalTimeSeriesTransformer"](context_length=2)]
    cfg["BaseTimeSeries"] = [lambda: c["BaseTimeSeries"](), lambda: c["BaseTimeSeries"](past=3, delay1=2, delay2=4)]
    cfg["DummyTimeSeriesRegressor"] = [lambda: c["DummyTimeSeriesRegressor"](), lambda: c["DummyTimeSeriesRegressor"](past=2)]
    cfg["TimeSeriesDifference"] = [lambda: c["TimeSeriesDifference"](), lambda: c["TimeSeriesDifference"](2)]
    cfg["TimeSeriesDifferenceInv"] = [lambda: c["TimeSeriesDifferenceInv"](c["TimeSeriesDifference"](2))]
    return cfg


def _ctor_side_state(table):
    """`self.x = ...` with x not a constructor parameter, and `self.m(...)` calls, in the constructor in effect of every
    in-scope class.  scikit-learn's contract (clone, set_params) is that `__init__` only stores its arguments: state
    derived from them there is not refreshed by set_params."""
    out = []
    for info in classes.in_scope(table):
        c, init = info.find_method(table, "__init__")
        if init is None:
            continue
        sig = info.facts.get("ctor_params")
        params = {p for p, _ in sig["params"]} if isinstance(sig, dict) else set()
        for n in ast.walk(init):
            if isinstance(n, (ast.Assign, ast.AugAssign, ast.AnnAssign)):
                tg = n.targets if isinstance(n, ast.Assign) else [n.target]
                for t in tg:
                    if isinstance(t, ast.Attribute) and isinstance(t.value, ast.Name) and t.value.id == "self" \
                            and t.attr not in params:
                        out.append("%s (in %s): self.%s =" % (info.name, c.name, t.attr))
            if isinstance(n, ast.Expr) and isinstance(n.value, ast.Call) and isinstance(n.value.func, ast.Attribute) \
                    and isinstance(n.value.func.value, ast.Name) and n.value.func.value.id == "self":
                out.append("%s (in %s): call self.%s" % (info.name, c.name, n.value.func.attr))
    return out


def scope_names(ctx):
    table = classes.collect(ctx.repo)
    return [i.name for i in classes.in_scope(table)]


def new_value(key, cur, obj, ns, rng, registry=None):
    """A value different from `cur`, of the same sort (so that the configuration stays a valid one)."""
    import copy
    LR, SS = ns["LinearRegression"], ns["StandardScaler"]
    last = key.split("__")[-1]
    if is_est(cur):
        return copy.deepcopy(cur)
    if key == "columns" and type(obj).__name__ == "CategoriesToIntegers":
        return (list(cur) if isinstance(cur, list) else []) + ["zz"]      # the constructor's normal form is a list
    if isinstance(cur, list) and cur and all(is_est(x) for x in cur):
        return [copy.deepcopy(x) for x in cur][: max(1, len(cur) - rng.randrange(2))]
    if last == "method" or key == "method":
        if isinstance(cur, str) and cur in ("predict", "predict_proba", "decision_function", "transform"):
            owner = _owner_model(obj, key, ns)
            cands = [m for m in ("predict", "predict_proba", "decision_function", "transform")
                     if m != cur and (owner is None or hasattr(owner, m))]
            return rng.choice(cands) if cands else _f_double
        return _f_double if cur is not _f_double else _f_half
    if isinstance(cur, bool):
        return not cur
    if isinstance(cur, int):
        return cur + 1
    if isinstance(cur, float):
        return cur + 0.5
    if isinstance(cur, str):
        return cur + "x"
    if callable(cur):
        return _f_double if cur is not _f_double else _f_half
    if cur is None:
        return 7
    if isinstance(cur, tuple):
        return cur + (2,)
    if isinstance(cur, list):
        return list(cur) + ["z"]
    return "other"


def _owner_model(obj, key, ns):
    """the model whose bound method a `...method` key selects (None when the key is a stacking's own)."""
    parts = key.split("__")[:-1]
    o = obj
    try:
        for p in parts:
            if p.startswith("models_"):
                o = o.models[int(p[len("models_"):])]
            elif p.startswith("e_") and proto_of(o, ns) == "cak":
                o = o.estimator
            else:
                o = getattr(o, p)
    except Exception:
        return None
    return getattr(o, "model", None) if proto_of(o, ns) == "learner" else None


# ------------------------------------------------------------------------------ correspondence

def gen_ops(obj, ns, rng, n_ops, reg):
    """Run a random history on the real object; returns (driver tokens of the ops, expected outputs)."""
    toks, expect, kinds = [], [], []
    for _ in range(n_ops):
        r = rng.random()
        if r < 0.25:
            deep = rng.random() < 0.7
            toks += ["G", "1" if deep else "0"]
            try:
                d = obj.get_params(deep=deep)
                expect.append("P " + show_params(d, reg))
            except Exception as e:
                expect.append("P raises " + err_name(e))
                kinds.append("get-raises")
                break
            kinds.append("get")
        elif r < 0.4:
            toks += ["C"]
            try:
                c = ns["clone"](obj)
                fresh = not any(reg.known(x) for x in _walk(c, ns))
                expect.append("C %s fresh=%s unfitted=%s" % (full_dump(c, ns, Registry(), False),
                                                             "true" if fresh else "false",
                                                             "true" if not any(is_fitted(x) for x in _walk(c, ns)) else "false"))
            except Exception as e:
                if not valid_config(obj, ns):
                    # the stored values are rejected by the constructor itself: not a valid configuration
                    toks.pop()
                    kinds.append("invalid-config")
                    break
                expect.append("C raises " + err_name(e))
                kinds.append("clone-raises")
                break
            kinds.append("clone")
        else:
            try:
                adv = obj.get_params(deep=True)
            except Exception:
                adv = {}
            keys = sorted(adv)
            kv = {}
            shape = []
            for _j in range(rng.choice([1, 1, 1, 2, 3])):
                q = rng.random()
                if keys and q < 0.8:
                    k = rng.choice(keys)
                    kv[k] = new_value(k, adv[k], obj, ns, rng)
                    shape.append("nested" if "__" in k or k[:2] in ("e_", "c_") else "direct")
                elif q < 0.9:
                    k = rng.choice(["zz", "zz__a", "models_99__x", "models_x__y", "_bad", "bad_", "model__zz", "e_zz",
                                    "models_1", "models___a"] + ([rng.choice(keys) + "__zz"] if keys else []))
                    kv[k] = 1
                    shape.append("unknown")
                else:
                    kv["newkey"] = rng.choice([5, "v", None])
                    shape.append("new")
            toks += ["S", str(len(kv))]
            for k, v in kv.items():
                toks.append(k)
                toks += tokens_of(v, ns, reg)
            try:
                ret = obj.set_params(**kv)
                expect.append("S ok %s %s" % ("self" if ret is obj else ("None" if ret is None else "other"),
                                              full_dump(obj, ns, reg)))
                kinds.append("set:" + "+".join(sorted(set(shape))))
            except Exception as e:
                expect.append("S err " + err_name(e))
                kinds.append("set-err:" + err_name(e))
                break
    return toks, expect, kinds


def valid_config(obj, ns):
    """does the constructor accept the stored parameter values (read from the attributes)?"""
    try:
        for x in _walk(obj, ns):
            if type(x).__module__.startswith("mlinsights"):
                type(x)(**state_of(x, ns))
        return True
    except Exception:
        return False


def _walk(v, ns):
    if is_est(v):
        yield v
        try:
            st = state_of(v, ns)
        except Exception:
            st = {}
        for x in st.values():
            yield from _walk(x, ns)
    elif isinstance(v, list):
        for x in v:
            if is_est(x):
                yield from _walk(x, ns)


def correspond(ctx):
    ctx.shadow(need_cython=True)
    import warnings
    warnings.filterwarnings("ignore")
    ns = _mods()
    corr = Corr()
    corr.rule = RULE
    rng = ctx.rng
    cfg = configs(ns)
    names = scope_names(ctx)
    lines, cases = [], []
    # (1) class table facts vs the live classes
    for n in names:
        lines.append("table " + n)
        c = ns["cls"].get(n)
        cases.append(("table", n, None, None))
    # (2) routing of indexed keys, every index 0..15
    for i in list(range(16)) + [99]:
        for sub in ("a", "model__b_c", ""):
            lines.append("route models_%d__%s 16" % (i, sub))
            want = "%d %s" % (i, sub or "-") if i < 16 else "IndexError"
            cases.append(("route", "models_%d__%s" % (i, sub), want, None))
    # (3) histories
    reps = ctx.pick(6, 40)
    max_ops = ctx.pick(12, 40)
    for n in names:
        if n not in cfg or n not in ns["cls"]:
            corr.hit("no-config:" + n)
            continue
        for ci, fac in enumerate(cfg[n]):
            for rep in range(reps):
                try:
                    obj = fac()
                except Exception as e:
                    corr.hit("construct-raises:%s" % n)
                    break
                reg = Registry()
                try:
                    head = tokens_of(obj, ns, reg)
                except Exception as e:
                    corr.hit("state-unreadable:%s" % n)
                    break
                n_ops = rng.randint(1, max_ops)
                ops, expect, kinds = gen_ops(obj, ns, rng, n_ops, reg)
                nxt = len(reg.ids) + 1000
                lines.append("hist %d %s" % (nxt, "|".join(head + ops)))
                cases.append(("hist", (n, ci), expect, kinds))
    out = run_driver(DRIVER, lines)
    for (kind, key, want, kinds), got in zip(cases, out):
        if kind == "table":
            corr.case(("table", key), nontrivial=True)
            c = ns["cls"].get(key)
            if c is None:
                corr.disagree("table", key, got, "class not importable")
                continue
            proto = got.split(" ")[0]
            try:
                o = cfg[key][0]() if key in cfg else c()
                real = proto_of(o, ns)
            except Exception:
                real = proto
            if proto != real:
                corr.disagree("table-proto", key, got, real)
            # constructor parameter names of the table vs inspect.signature
            import inspect
            try:
                sig = [p.name for p in inspect.signature(c.__init__).parameters.values()
                       if p.name != "self" and p.kind not in (p.VAR_KEYWORD, p.VAR_POSITIONAL)]
            except (TypeError, ValueError):
                sig = None
            tab = [x.split(":")[0] for x in got.split(" ")[3].split(",")] if got.split(" ")[3] != "-" else []
            has_init = "__init__" in vars(c) or any("__init__" in vars(b) for b in c.__mro__[1:]
                                                     if b.__module__.startswith("mlinsights"))
            if sig is not None and has_init and sorted(tab) != sorted(sig):
                corr.disagree("table-params", key, tab, sig)
            corr.hit("proto:" + proto)
        elif kind == "route":
            corr.case(("route", key), nontrivial=True, sample={"op": "route", "key": key, "model": got} if key.endswith("11__a") else None)
            if got != want:
                corr.disagree("route", key, got, want)
            corr.hit("route-index>=10" if key.split("_")[1] not in list("0123456789") else "route-index<10")
        else:
            got_l = got.split(" ## ")
            n_cmp = len(want)
            for j in range(n_cmp):
                g = got_l[j] if j < len(got_l) else "<missing>"
                knd = kinds[j] if j < len(kinds) else "?"
                corr.case((key[0], key[1], knd, want[j][:160]), nontrivial=True,
                          sample={"class": key[0], "op": knd, "impl": want[j][:160]} if len(corr.samples) < 6 and knd.startswith("set:") else None)
                corr.hit("op:" + knd.split(":")[0])
                if knd.startswith("set"):
                    corr.hit(knd)
                if g != want[j]:
                    corr.disagree("hist:%s:%s" % (key[0], knd), {"class": key[0], "config": key[1], "step": j,
                                                                "history": [k for k in kinds[: j + 1]]}, g[:600], want[j][:600])
                    break
            corr.hit("hist-len:%s" % ("1-4" if n_cmp <= 4 else "5-12" if n_cmp <= 12 else "13-40"))
    return corr


# ------------------------------------------------------------------------------ search (oracle from the statement)

def definer(obj, meth):
    for b in type(obj).__mro__:
        if meth in vars(b):
            return b.__name__ if b.__module__.startswith("mlinsights") else type(obj).__name__
    return type(obj).__name__


def key_shape(k):
    import re
    m = re.match(r"^models_(\d+)__", k)
    if m:
        return "models_<i>__*:i%s" % (">=10" if int(m.group(1)) >= 10 else "<10")
    if k.startswith("model__"):
        return "model__*"
    if k[:2] in ("e_", "c_"):
        return k[:2] + "*"
    if "__" in k:
        return "<name>__*"
    if k in ("model", "models", "method", "estimator", "clus"):
        return k
    return "<own>"


def below(k, k2):
    """is k2 a key that is re-derived when k is replaced (nested / prefixed / indexed keys under k)"""
    if k2.startswith(k + "__"):
        return True
    head, _, leaf = k.rpartition("__")
    pre = head + "__" if head else ""
    if leaf == "models" and k2.startswith(k + "_"):
        return True
    if leaf == "estimator" and k2.startswith(pre + "e_"):
        return True
    if leaf == "clus" and k2.startswith(pre + "c_"):
        return True
    # `method` of a stacking/learner chain is a stored option, nothing below it
    return False


def same(a, b):
    """unchanged parameter value: the same object, or equal immutable atoms"""
    if a is b:
        return True
    if is_est(a) or is_est(b) or isinstance(a, list) or isinstance(b, list):
        return False
    try:
        return type(a) is type(b) and bool(a == b)
    except Exception:
        return False


def canon(v, ns, depth=0):
    """value identity-free canonical form used for 'equal parameters'"""
    if is_est(v):
        try:
            ps = v.get_params(deep=False)
        except Exception as e:
            return "%s{get_params raises %s}" % (type(v).__name__, type(e).__name__)
        return "%s{%s}" % (type(v).__name__, ",".join("%s=%s" % (k, canon(ps[k], ns, depth + 1)) for k in sorted(ps)))
    if isinstance(v, (list, tuple)):
        return "[" + ",".join(canon(x, ns, depth + 1) for x in v) + "]"
    if callable(v):
        return "fn:" + getattr(v, "__name__", "?")
    return repr(v)


def canon_params(d, ns):
    return {k: canon(d[k], ns) for k in sorted(d)}


def data(ns):
    np = ns["numpy"]
    X = np.array([[i % 5, (i * 7) % 11] for i in range(24)], dtype=float)
    yr = X[:, 0] * 2 - X[:, 1] + (np.arange(24) % 3)
    yc = (np.arange(24) % 2)
    return X, yr, yc


RECIPES = {
    "SkBaseTransformLearner": ("yr", "transform"), "SkBaseTransformStacking": ("yr", "transform"),
    "ClassifierAfterKMeans": ("yc", "predict_proba"), "QuantileLinearRegression": ("yr", "predict"),
    "ExtendedFeatures": ("yr", "transform"), "PiecewiseRegressor": ("yr", "predict"),
    "TransferTransformer": ("yr", "transform"), "IntervalRegressor": ("yr", "predict"),
}


def behaviour(obj, ns):
    """fit a deep copy on the fixed data set with fixed seeds; the output on the training inputs"""
    import copy
    np = ns["numpy"]
    name = type(obj).__name__
    if name not in RECIPES:
        return None
    ykind, meth = RECIPES[name]
    X, yr, yc = data(ns)
    o = copy.deepcopy(obj)
    for sub in _walk(o, ns):
        if "random_state" in getattr(type(sub), "_get_param_names", lambda: [])():
            try:
                sub.random_state = 0
            except Exception:
                pass
    np.random.seed(0)
    y = {"yr": yr, "yc": yc, None: None}[ykind]
    if name == "TransferTransformer":
        o.estimator.fit(X, y)
    if y is None:
        o.fit(X)
    else:
        o.fit(X, y)
    return np.asarray(getattr(o, meth)(X), dtype=float)


def check_config(name, ci, fac, ns, rng, vs, stats, n_keys, ctx):
    import copy
    np = ns["numpy"]
    clone = ns["clone"]

    def V(key, what, inp, obs, req):
        vs.append(Violation(key, what, dict(inp, **{"class": name, "config": ci}), obs, req))

    try:
        e = fac()
    except Exception as ex:
        V("%s.__init__:raises" % name, "a documented constructor configuration raises %s" % type(ex).__name__,
          {"kind": "construct"}, "%s: %s" % (type(ex).__name__, str(ex)[:120]), "an estimator")
        return
    stats["evaluations"] += 1
    gdef, sdef = definer(e, "get_params"), definer(e, "set_params")
    try:
        adv = e.get_params(deep=True)
        e.get_params(deep=False)
    except Exception as ex:
        V("%s.get_params:raises" % gdef, "get_params raises %s" % type(ex).__name__, {"kind": "get"},
          "%s: %s" % (type(ex).__name__, str(ex)[:120]), "the parameter dictionary")
        return
    # ---- set_params on advertised keys, one at a time, each on a fresh object
    keys = sorted(adv)
    special = [k for k in keys if key_shape(k) != "<own>" and "__" not in k]
    big = [k for k in keys if key_shape(k).endswith(">=10")][:2]
    # keys whose tail contains their own two-character prefix again (`e_cache_size`): prefix stripping must be positional
    big += [k for k in keys if len(k) > 3 and k[1] == "_" and k[:2] in k[2:]][:3]
    pick = list(dict.fromkeys(special + big + rng.sample(keys, min(len(keys), n_keys))))
    for k in pick:
        o = fac()
        before = o.get_params(deep=True)
        if k not in before:
            continue
        v = new_value(k, before[k], o, ns, rng)
        inp = {"kind": "set", "key": k, "value": canon(v, ns)[:80]}
        stats["evaluations"] += 1
        stats["nontrivial"].add((name, "set", key_shape(k)))
        try:
            r = o.set_params(**{k: v})
        except Exception as ex:
            V("%s.set_params:raises:%s" % (sdef, key_shape(k)),
              "set_params raises %s on a key get_params advertises" % type(ex).__name__, inp,
              "%s: %s" % (type(ex).__name__, str(ex)[:120]), "the key is set")
            continue
        if r is not o:
            V("%s.set_params:returns-%s" % (sdef, "None" if r is None else "other"), "set_params does not return the estimator itself",
              inp, repr(r)[:60], "self")
        try:
            after = o.get_params(deep=True)
        except Exception as ex:
            V("%s.get_params:raises-after-set:%s" % (gdef, key_shape(k)), "get_params raises after set_params", inp,
              type(ex).__name__, "the parameter dictionary")
            continue
        if k not in after or after[k] is not v:
            V("%s.set_params:value-not-set:%s" % (sdef, key_shape(k)), "get_params()[k] is not the value given to set_params", inp,
              canon(after.get(k, "<missing>"), ns)[:100], canon(v, ns)[:100])
        if valid_config(o, ns):
            try:
                c = clone(o)
                if canon_params(c.get_params(deep=True), ns) != canon_params(after, ns):
                    V("%s.clone:params-differ-after-set:%s" % (name, key_shape(k)), "after set_params the clone reports other "
                      "parameters", inp, str(canon_params(c.get_params(deep=True), ns))[:160], str(canon_params(after, ns))[:160])
            except Exception as ex:
                V("%s.clone:raises-after-set:%s" % (name, key_shape(k)), "clone raises %s after set_params on an advertised key"
                  % type(ex).__name__, inp, "%s: %s" % (type(ex).__name__, str(ex)[:120]), "an unfitted copy with equal parameters")
        changed = [k2 for k2 in before if k2 != k and not below(k, k2)
                   and (k2 not in after or not same(before[k2], after[k2]))]
        added = [k2 for k2 in after if k2 not in before and not below(k, k2)]
        if changed or added:
            V("%s.set_params:other-keys-changed:%s" % (sdef, key_shape(k)),
              "set_params changes keys it was not given", inp,
              {"changed_or_removed": changed[:6], "added": added[:6]}, "every other key keeps its value")
    # ---- one call giving a replacement object AND a key below it (both orders of the keyword dictionary):
    #      both keys are "given", so afterwards get_params must report the new object and the nested value
    objs = [k for k in keys if is_est(adv[k]) and "__" not in k and any(below(k, k2) and not is_est(adv[k2])
                                                                         and not isinstance(adv[k2], list) for k2 in keys)]
    for p_key in objs[:2]:
        subs = [k2 for k2 in keys if below(p_key, k2) and not is_est(adv[k2]) and not isinstance(adv[k2], list)
                and isinstance(adv[k2], (int, float)) and not isinstance(adv[k2], bool)]
        if not subs:
            continue
        k2 = rng.choice(subs)
        for order in ("nested-first", "object-first"):
            o = fac()
            before = o.get_params(deep=True)
            if p_key not in before or k2 not in before:
                continue
            new_obj = clone(before[p_key])
            v2 = new_value(k2, before[k2], o, ns, rng)
            kw = {k2: v2, p_key: new_obj} if order == "nested-first" else {p_key: new_obj, k2: v2}
            inp = {"kind": "multi", "keys": list(kw), "order": order}
            stats["evaluations"] += 1
            stats["nontrivial"].add((name, "multi", order))
            try:
                o.set_params(**kw)
                after = o.get_params(deep=True)
            except Exception as ex:
                V("%s.set_params:multi-key:raises" % sdef, "set_params(object, key below it) raises %s" % type(ex).__name__,
                  inp, "%s: %s" % (type(ex).__name__, str(ex)[:120]), "both keys are set")
                continue
            if after.get(p_key) is not new_obj or not same(after.get(k2), v2):
                V("%s.set_params:multi-key:object-and-nested-key" % sdef,
                  "one set_params call giving an object and a key below it does not set both", inp,
                  {"object_is_new": after.get(p_key) is new_obj, k2: canon(after.get(k2, "<missing>"), ns)[:60]},
                  {"object_is_new": True, k2: canon(v2, ns)[:60]})
    # ---- clone
    for fitted in (False, True):
        o = fac()
        if fitted:
            if name not in RECIPES or name == "TransferTransformer":
                continue
            X, yr, yc = data(ns)
            y = {"yr": yr, "yc": yc, None: None}[RECIPES[name][0]]
            try:
                np.random.seed(0)
                o.fit(X) if y is None else o.fit(X, y)
            except Exception:
                continue
        stats["evaluations"] += 1
        stats["nontrivial"].add((name, "clone", fitted))
        inp = {"kind": "clone", "fitted": fitted}
        try:
            c = clone(o)
        except Exception as ex:
            V("%s.clone:raises" % name, "sklearn.base.clone raises %s" % type(ex).__name__, inp,
              "%s: %s" % (type(ex).__name__, str(ex)[:120]), "an unfitted copy")
            continue
        if type(c) is not type(o) or canon_params(c.get_params(deep=True), ns) != canon_params(o.get_params(deep=True), ns):
            V("%s.clone:params-differ" % name, "the clone does not report equal parameters", inp,
              str(canon_params(c.get_params(deep=True), ns))[:200], str(canon_params(o.get_params(deep=True), ns))[:200])
        fresh_attrs = set(vars(fac()))
        extra = sorted(a for a in vars(c) if a.endswith("_") and not a.startswith("__") and a not in fresh_attrs)
        if extra:
            V("%s.clone:fitted" % name, "the clone carries fitted attributes", inp, extra[:5], "an unfitted object")
        shared = [type(x).__name__ for x in _walk(c, ns) if any(x is y for y in _walk(o, ns))]
        if shared:
            V("%s.clone:shares-objects" % name, "the clone shares estimator objects with the original", inp, shared[:4],
              "fresh objects")
    return e


def check_transfer(name, i, j, cfgs, ns, vs, stats):
    def V(key, what, inp, obs, req):
        vs.append(Violation(key, what, dict(inp, **{"class": name, "config": i, "config2": j, "kind": "transfer"}), obs, req))
    np = ns["numpy"]
    try:
        e1, e2 = cfgs[i](), cfgs[j]()
        p1 = e1.get_params(deep=True)
    except Exception:
        return
    sdef = definer(e2, "set_params")
    try:
        own2 = set(state_of(e2, ns))
    except Exception:
        return
    if not own2 <= set(p1):
        # "differently configured" = other values for the same parameter names; an instance of a kwargs-driven class
        # that stores names the first one does not have is another shape (set_params never removes a name)
        stats["shape_differs"] = stats.get("shape_differs", 0) + 1
        return
    stats["evaluations"] += 1
    stats["nontrivial"].add((name, "transfer", i, j))
    try:
        r = e2.set_params(**p1)
    except Exception as ex:
        V("%s.transfer:raises" % sdef, "set_params(**other.get_params(deep=True)) raises %s" % type(ex).__name__, {},
          "%s: %s" % (type(ex).__name__, str(ex)[:120]), "the parameters are transferred")
        return
    if r is not e2:
        V("%s.set_params:returns-%s" % (sdef, "None" if r is None else "other"), "set_params does not return the estimator itself",
          {}, repr(r)[:60], "self")
    try:
        c1, c2 = canon_params(e1.get_params(deep=True), ns), canon_params(e2.get_params(deep=True), ns)
    except Exception:
        return
    if c1 != c2:
        diff = sorted(k for k in set(c1) | set(c2) if c1.get(k) != c2.get(k))
        V("%s.transfer:params-differ" % sdef, "after the transfer the second instance reports other parameters", {},
          {k: (c2.get(k, "<missing>")[:60], c1.get(k, "<missing>")[:60]) for k in diff[:4]}, "equal get_params(deep=True)")
        return
    if name not in RECIPES or (j - i) % len(cfgs) != 1:
        return
    try:
        b1 = behaviour(e1, ns)
    except Exception:
        return
    if b1 is None:
        return
    try:
        b2 = behaviour(e2, ns)
    except Exception as ex:
        V("%s.transfer:behaviour-differs" % sdef, "the second instance fails where the first works (%s)" % type(ex).__name__, {},
          "%s: %s" % (type(ex).__name__, str(ex)[:100]), "identical behaviour")
        return
    stats["behaviour_checks"] = stats.get("behaviour_checks", 0) + 1
    if b1.shape != b2.shape or not np.allclose(b1, b2, rtol=1e-9, atol=1e-12, equal_nan=True):
        V("%s.transfer:behaviour-differs" % sdef, "fitted on the same data with the same seeds the two instances differ", {},
          b2.ravel()[:5].tolist(), b1.ravel()[:5].tolist())


def check_learner_rebind(ns, vs, stats):
    """behaviour after set_params(model=...): the wrapper must use the model it reports"""
    np = ns["numpy"]
    L = ns["cls"]["SkBaseTransformLearner"]
    X, yr, yc = data(ns)
    a = ns["LinearRegression"]().fit(X, yr)
    b = ns["LinearRegression"]().fit(X, -yr)
    w = L(a, method="predict")
    stats["evaluations"] += 1
    try:
        w.set_params(model=b)
        out = w.transform(X).ravel()
    except Exception as ex:
        return
    if not np.allclose(out, b.predict(X)):
        vs.append(Violation("SkBaseTransformLearner.set_params:method_-bound-to-old-model",
                            "after set_params(model=m) transform still calls the previous model",
                            {"kind": "rebind", "class": "SkBaseTransformLearner"}, out[:3].tolist(), b.predict(X)[:3].tolist()))


def check_ctor_values(ctx, name, ns, vs, stats):
    """Constructor called with the values the CURRENT source compares its parameters with (`_guided`), one and two at a
    time: get_params reports every given argument verbatim, and clone rebuilds an equal object."""
    from props import _guided
    cls = ns["cls"][name]
    for ov in _guided.overrides(ctx.repo, name, pairs=True, cap=ctx.pick(40, 200)):
        try:
            o = cls(**ov)
            got = o.get_params(deep=False)
        except Exception:  # noqa: BLE001   (required positional arguments, refused combination)
            continue
        stats["evaluations"] += 1
        stats["nontrivial"].add((name, "ctor", tuple(sorted(ov))))
        inp = {"class": name, "kind": "ctor", "kwargs": ov}
        # "get_params reports exactly what rebuilds the object": the object rebuilt from the report reports the same
        # (a constructor may normalise an argument - known finding of DESIGN 12.4 - but then it must be idempotent)
        try:
            got2 = cls(**got).get_params(deep=False)
            bad = [k for k in got if k not in got2 or not (got2[k] is got[k] or same(got2[k], got[k]))]
        except Exception as ex:  # noqa: BLE001
            bad, got2 = ["<constructor raises %s>" % type(ex).__name__], {}
        if bad:
            vs.append(Violation("%s.__init__:get_params-does-not-rebuild:%s" % (name, ",".join(sorted(bad))),
                                "the object built from get_params() of a freshly constructed object reports other parameters",
                                inp, {k: repr(got2.get(k))[:40] for k in bad}, {k: repr(got.get(k))[:40] for k in bad}))
            continue
        try:
            c = ns["clone"](o)
            if canon_params(c.get_params(deep=True), ns) != canon_params(o.get_params(deep=True), ns):
                vs.append(Violation("%s.clone:params-differ" % name, "clone of a freshly constructed object reports other parameters",
                                    inp))
        except Exception as ex:  # noqa: BLE001
            vs.append(Violation("%s.clone:raises" % name, "clone raises %s on a freshly constructed object" % type(ex).__name__,
                                inp, "%s: %s" % (type(ex).__name__, str(ex)[:100]), "an equal unfitted object"))


def _declared_values(obj):
    """Values scikit-learn DECLARES valid for the parameters `obj` shares with the scikit-learn classes it extends or
    borrows its parameters from (`_parameter_constraints`): None where allowed, every string option, both booleans.
    A generator of valid configurations that does not depend on the source under test."""
    cons = {}
    classes_ = [k for k in type(obj).__mro__ if k.__module__.startswith("sklearn.")]
    if type(obj).__name__ == "ApproximateNMFPredictor":       # documented: forwards its keywords to NMF
        from sklearn.decomposition import NMF
        classes_.append(NMF)
    for k in classes_:
        for p, c in (getattr(k, "_parameter_constraints", None) or {}).items():
            cons.setdefault(p, c)
    out = {}
    for p, c in cons.items():
        if not isinstance(c, (list, tuple)):
            continue
        vals = []
        for item in c:
            if item is None:
                vals.append(None)
            elif item == "boolean":
                vals += [True, False]
            elif type(item).__name__ == "StrOptions":
                vals += sorted(v for v in item.options if v not in (getattr(item, "deprecated", None) or ()))
        if vals:
            out[p] = vals
    return out


def check_declared_values(name, ci, fac, ns, vs, stats):
    """set_params(p=v) for every value v scikit-learn declares valid for p, then clone: the key holds v and clone
    yields an object reporting v (a constructor that replaces a valid argument makes clone refuse the object)."""
    try:
        o = fac()
        P = o.get_params(deep=False)
    except Exception:  # noqa: BLE001
        return
    decl = _declared_values(o)
    for k in sorted(P):
        for v in decl.get(k, []):
            if P[k] is v or (P[k] == v and type(P[k]) is type(v)):
                continue
            o = fac()
            inp = {"class": name, "config": ci, "kind": "declared", "key": k, "value": v}
            try:
                r = o.set_params(**{k: v})
            except Exception:  # noqa: BLE001  (a refused value: not a configuration of this class)
                continue
            stats["evaluations"] += 1
            stats["nontrivial"].add((name, "declared", k, repr(v)))
            if r is not o or o.get_params(deep=False).get(k, "<missing>") is not v:
                vs.append(Violation("%s.set_params:declared-value-not-kept" % name, "set_params(%s=%r) does not return the "
                                    "estimator holding that value" % (k, v), inp,
                                    repr(o.get_params(deep=False).get(k, "<missing>"))[:60], repr(v)))
                continue
            try:
                c = ns["clone"](o)
            except RuntimeError as ex:          # scikit-learn's own verdict: the constructor does not keep its argument
                if type(ex) is not RuntimeError or "Cannot clone" not in str(ex):
                    continue                    # (NotImplementedError etc.: the constructor refuses the combination)
                vs.append(Violation("%s.clone:raises-on-declared-value" % name, "clone raises after set_params(%s=%r), a value "
                                    "scikit-learn declares valid for this parameter" % (k, v), inp,
                                    "%s: %s" % (type(ex).__name__, " ".join(str(ex).split())[:140]),
                                    "an unfitted object with equal parameters"))
                continue
            except Exception:  # noqa: BLE001  (the constructor refuses the combination: not a configuration)
                continue
            got = c.get_params(deep=False).get(k, "<missing>")
            if not (got is v or (got == v and type(got) is type(v))):
                vs.append(Violation("%s.clone:declared-value-not-kept" % name, "clone after set_params(%s=%r) reports another "
                                    "value" % (k, v), inp, repr(got)[:60], repr(v)))


def _atom(v):
    return v is None or isinstance(v, (bool, int, float, str))


def check_multi(name, ci, fac, ns, rng, vs, stats, reps=6, only=None):
    """ONE set_params call carrying several advertised keys of different kinds (an own option and keys nested below a
    sub-estimator, prefixed or indexed): every given key holds its value afterwards and no other key moves."""
    for rep in range(reps):
        try:
            o = fac()
            before = o.get_params(deep=True)
        except Exception:  # noqa: BLE001
            return
        atoms = [k for k in sorted(before) if _atom(before[k]) and k != "method" and not k.endswith("__method")]
        own = [k for k in atoms if key_shape(k) == "<own>" and "__" not in k]
        nested = [k for k in atoms if k not in own]
        if only is not None:
            keys = list(only)
        else:
            if not nested or not atoms:
                return
            keys = [rng.choice(nested)]
            if own and rng.random() < 0.8:
                keys.append(rng.choice(own))
            more = [k for k in nested if k not in keys]
            if more and rng.random() < 0.5:
                keys.append(rng.choice(more))
        if any(k not in before for k in keys):
            return
        kv = {k: new_value(k, before[k], o, ns, rng) for k in keys}
        inp = {"class": name, "config": ci, "kind": "multi", "keys": keys}
        stats["evaluations"] += 1
        stats["nontrivial"].add((name, "multi", tuple(sorted(key_shape(k) for k in keys))))
        sdef = definer(o, "set_params")
        shape = "+".join(sorted(set(key_shape(k) for k in keys)))
        try:
            r = o.set_params(**kv)
            after = o.get_params(deep=True)
        except Exception as ex:  # noqa: BLE001
            vs.append(Violation("%s.set_params:multi-key:raises:%s" % (sdef, shape),
                                "set_params raises %s when given several advertised keys at once" % type(ex).__name__, inp,
                                "%s: %s" % (type(ex).__name__, str(ex)[:100]), "every key is set"))
            return
        if r is not o:
            vs.append(Violation("%s.set_params:multi-key:returns-not-self" % sdef, "set_params does not return the estimator",
                                inp, repr(r)[:60], "self"))
        lost = [k for k in keys if k not in after or not same(after[k], kv[k])]
        if lost:
            vs.append(Violation("%s.set_params:multi-key:value-not-set:%s" % (sdef, shape),
                                "one set_params call with several advertised keys: some keep their old value",
                                inp, {k: canon(after.get(k), ns)[:40] for k in lost}, {k: canon(kv[k], ns)[:40] for k in lost}))
            return
        moved = [k for k in before if k not in kv and (k not in after or not same(after[k], before[k]))]
        if moved:
            vs.append(Violation("%s.set_params:multi-key:other-keys-changed:%s" % (sdef, shape),
                                "one set_params call with several advertised keys changes keys it was not given",
                                inp, moved[:6], "only the given keys change"))
            return
        if only is not None:
            return


def check_siblings(name, ns, rng, vs, stats):
    """Instances are separate objects: two instances built by the SAME constructor call (here: all defaults) share no
    parameter object, so set_params on one changes exactly the keys of THAT object - what another instance, or a
    later default-built one, reports does not move.  (A default argument evaluated once at definition time breaks this.)"""
    cls = ns["cls"][name]
    try:
        a, b = cls(), cls()
        pa = a.get_params(deep=True)
        before = canon_params(b.get_params(deep=True), ns)
    except Exception:
        return
    for k in sorted(pa):
        try:
            cur = a.get_params(deep=True)
            if k not in cur:
                continue
            a.set_params(**{k: new_value(k, cur[k], a, ns, rng)})
        except Exception:
            continue
        stats["evaluations"] += 1
        stats["nontrivial"].add((name, "siblings", key_shape(k)))
        try:
            after = canon_params(b.get_params(deep=True), ns)
            later = canon_params(cls().get_params(deep=True), ns)
        except Exception:
            continue
        for who, got in (("another-instance", after), ("a-later-default-instance", later)):
            if got != before:
                diff = sorted(x for x in set(got) | set(before) if got.get(x) != before.get(x))
                vs.append(Violation("%s.__init__:instances-share-a-parameter-object:%s" % (name, who),
                                    "set_params(%s=...) on one default-built instance changes what %s reports" % (k, who.replace("-", " ")),
                                    {"kind": "siblings", "class": name, "key": k}, {"changed_keys": diff[:6]},
                                    "instances are independent: set_params changes only the object it is called on"))
                return


PRIORITY = [
    "SkBase.set_params:other-keys-changed", "SkBaseTransformLearner.set_params:returns-None",
    "SkBaseTransformLearner.set_params:value-not-set:method", "SkBaseTransformLearner.set_params:method_-bound-to-old-model",
    "SkBaseTransformLearner.set_params:raises:<own>", "SkBaseTransformStacking.set_params:returns-None",
    "SkBaseTransformStacking.set_params:raises:models_<i>__*:i>=10", "ClassifierAfterKMeans.clone:raises",
    "ClassifierAfterKMeans.set_params:returns-None", "SkBaseTransformStacking.clone:raises-after-set:method",
]


def _priority(key):
    for i, p in enumerate(PRIORITY):
        if key.startswith(p):
            return i
    return len(PRIORITY)


def search(ctx, hints):
    ctx.shadow(need_cython=True)
    import warnings
    warnings.filterwarnings("ignore")
    ns = _mods()
    rng = ctx.rng
    cfg = configs(ns)
    vs = []
    stats = {"evaluations": 0, "nontrivial": set()}
    names = scope_names(ctx)
    for n in names:
        if n not in cfg:
            continue
        if n not in ns["cls"]:
            vs.append(Violation("%s:not-importable" % n, "class of the table cannot be imported", {"class": n, "kind": "import"}))
            continue
        for ci, fac in enumerate(cfg[n]):
            check_config(n, ci, fac, ns, rng, vs, stats, ctx.pick(10, 60), ctx)
        k = len(cfg[n])
        for i in range(k):
            for j in range(k):
                if i != j:
                    check_transfer(n, i, j, cfg[n], ns, vs, stats)
    check_learner_rebind(ns, vs, stats)
    for n in names:
        if n in ns["cls"]:
            check_siblings(n, ns, rng, vs, stats)
            check_ctor_values(ctx, n, ns, vs, stats)
        if n in cfg and n in ns["cls"]:
            for ci, fac in enumerate(cfg[n]):
                check_multi(n, ci, fac, ns, rng, vs, stats, reps=ctx.pick(6, 40))
                check_declared_values(n, ci, fac, ns, vs, stats)
    # histories on the real objects: single-key sets on advertised keys interleaved with clone / get
    for n in names:
        if n not in cfg or n not in ns["cls"]:
            continue
        for ci, fac in enumerate(cfg[n]):
            for rep in range(ctx.pick(2, 12)):
                try:
                    o = fac()
                    o.get_params(deep=True)
                except Exception:
                    break
                hist = []
                for stepno in range(rng.randint(2, ctx.pick(12, 40))):
                    try:
                        before = o.get_params(deep=True)
                    except Exception:
                        break
                    if rng.random() < 0.25:
                        hist.append("clone")
                        if not valid_config(o, ns):
                            break
                        try:
                            c = ns["clone"](o)
                            ok = canon_params(c.get_params(deep=True), ns) == canon_params(before, ns)
                        except Exception as ex:
                            vs.append(Violation("%s.clone:raises-in-history" % n, "clone raises %s after a history of set_params on "
                                                "advertised keys" % type(ex).__name__,
                                                {"class": n, "config": ci, "kind": "history", "history": list(hist)},
                                                "%s: %s" % (type(ex).__name__, str(ex)[:100]), "an unfitted copy"))
                            break
                        if not ok:
                            vs.append(Violation("%s.clone:params-differ" % n, "clone differs after a history",
                                                {"class": n, "config": ci, "kind": "history", "history": list(hist)}))
                            break
                        continue
                    if not before:
                        break
                    k = rng.choice(sorted(before))
                    v = new_value(k, before[k], o, ns, rng)
                    hist.append(["set", k, canon(v, ns)[:60]])
                    stats["evaluations"] += 1
                    try:
                        r = o.set_params(**{k: v})
                        after = o.get_params(deep=True)
                    except Exception as ex:
                        vs.append(Violation("%s.set_params:raises:%s" % (definer(o, "set_params"), key_shape(k)),
                                            "set_params raises %s on an advertised key" % type(ex).__name__,
                                            {"class": n, "config": ci, "kind": "history", "history": list(hist)},
                                            "%s: %s" % (type(ex).__name__, str(ex)[:100]), "the key is set"))
                        break
                    if r is not o or after.get(k) is not v:
                        break   # reported by the single-step oracle with a smaller input
                stats["nontrivial"].add((n, "history", len(hist) > 3))
    vs.extend(probe_non_normalised())
    best = {}
    for v in vs:
        size = len(json.dumps(v.input, default=str))
        if v.key not in best or size < best[v.key][0]:
            best[v.key] = (size, v)
    out = [v for _, v in sorted(best.values(), key=lambda t: (_priority(t[1].key), t[1].key))]
    return out, {"evaluations": stats["evaluations"], "distinct_nontrivial": len(stats["nontrivial"]),
                 "behaviour_checks": stats.get("behaviour_checks", 0), "samples": []}


def probe_non_normalised():
    """KNOWN-FINDING probe (input class excluded by ASSUMPTIONS from the generated histories): a value that is a
    valid constructor argument but not in the constructor's normal form, given through set_params."""
    from sklearn.base import clone
    from sklearn.linear_model import LinearRegression
    import mlinsights.mlmodel as M
    out = []
    for label, make, k, v in (
            ("CategoriesToIntegers.columns", lambda: M.CategoriesToIntegers(columns=["a"]), "columns", "a"),
            ("PiecewiseRegressor.binner", lambda: M.PiecewiseRegressor("bins", estimator=LinearRegression()),
             "binner", "bins")):
        try:
            o = make()
            o.set_params(**{k: v})
            clone(o)
        except Exception as ex:  # noqa: BLE001
            out.append(Violation("set_params:non-normalised-constructor-value:clone-raises",
                                 "clone raises after set_params with a valid but non-normalised constructor value",
                                 {"class": label, "kind": "probe", "key": k, "value": v},
                                 "%s: %s" % (type(ex).__name__, str(ex)[:120]), "clone yields an equal unfitted object"))
    return out[:1]


def replay(ctx, item):
    ctx.shadow(need_cython=True)
    import warnings
    import random
    warnings.filterwarnings("ignore")
    ns = _mods()
    cfg = configs(ns)
    inp = item["input"]
    name = inp["class"]
    vs = []
    stats = {"evaluations": 0, "nontrivial": set()}
    kind = inp.get("kind")
    if kind == "rebind":
        check_learner_rebind(ns, vs, stats)
    elif kind == "probe":
        vs.extend(probe_non_normalised())
    elif kind == "siblings":
        check_siblings(name, ns, random.Random(0), vs, stats)
    elif kind == "ctor":
        from props import _guided
        class _C:            # replay through the same function, restricted to the recorded keyword arguments
            repo = ctx.repo

            @staticmethod
            def pick(a, b):
                return 10 ** 6
        orig = _guided.overrides
        _guided.overrides = lambda *a, **k: [inp["kwargs"]]
        try:
            check_ctor_values(_C, name, ns, vs, stats)
        finally:
            _guided.overrides = orig
    elif kind == "declared":
        check_declared_values(name, inp["config"], cfg[name][inp["config"]], ns, vs, stats)
    elif kind == "multi":
        check_multi(name, inp["config"], cfg[name][inp["config"]], ns, random.Random(0), vs, stats, reps=1, only=inp["keys"])
    elif kind == "transfer":
        check_transfer(name, inp["config"], inp["config2"], cfg[name], ns, vs, stats)
    elif kind == "history":
        o = cfg[name][inp["config"]]()
        try:
            for h in inp["history"]:
                if h == "clone":
                    ns["clone"](o)
                else:
                    cur = o.get_params(deep=True)
                    o.set_params(**{h[1]: new_value(h[1], cur[h[1]], o, ns, random.Random(0))})
        except Exception as ex:
            vs.append(Violation(item["key"], "the recorded history raises %s" % type(ex).__name__, inp,
                                "%s: %s" % (type(ex).__name__, str(ex)[:100]), item.get("required")))
    else:
        for seed in range(3):
            check_config(name, inp["config"], cfg[name][inp["config"]], ns, random.Random(seed), vs, stats, 200, ctx)
    return [v for v in vs if v.key == item["key"]][:1]
