"""Register finished properties: root imports of lean/MlVerif.lean + MANIFEST.json."""
import os, re, subprocess, sys
V = os.path.dirname(os.path.dirname(os.path.abspath(__file__)))
props = sorted(l.strip() for l in open(os.path.join(V, "harness/registered.txt")) if l.strip())
with open(os.path.join(V, "lean/MlVerif.lean"), "w") as f:
    f.write("-- Root of the MlVerif library: executable models (import-free), regenerated definitions,\n"
            "-- helper lemmas and one property file per property.  (written by harness/register.py)\n"
            "import MlVerif.Model.Proto\n")
    for p in props:
        f.write("import MlVerif.Properties.%s\n" % p)
print("root imports:", props)
subprocess.run(["/venv/bin/python", os.path.join(V, "harness/mkmanifest.py")], check=True)
