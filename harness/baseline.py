"""Run the repository's pinned test suite with the verification guard OFF and compare the set
of passing tests with /root/.vp/BASELINE.json (stable_pass).  Exit 0 iff every stable test passes."""
import json
import os
import subprocess
import sys
import tempfile
import xml.etree.ElementTree as ET

base = json.load(open("/root/.vp/BASELINE.json"))
env = dict(os.environ)
env.pop("SDPYTHON_MLINSIGHTS_VERIF", None)
fd, xml = tempfile.mkstemp(suffix=".junit.xml")
os.close(fd)
cmd = base["cmd"].replace("<file>", xml)
p = subprocess.run(cmd, shell=True, env=env, stdout=subprocess.PIPE, stderr=subprocess.STDOUT, text=True)
passed = set()
try:
    for tc in ET.parse(xml).getroot().iter("testcase"):
        if not any(c.tag in ("failure", "error", "skipped") for c in tc):
            passed.add("%s::%s" % (tc.get("classname"), tc.get("name")))
finally:
    os.unlink(xml)
missing = [t for t in base["stable_pass"] if t not in passed]
print(p.stdout[-600:])
print("baseline: %d/%d stable tests pass" % (len(base["stable_pass"]) - len(missing), len(base["stable_pass"])))
for t in missing:
    print("MISSING", t)
sys.exit(1 if missing else 0)
