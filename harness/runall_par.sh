#!/bin/bash
# run every registered check, 4 at a time: harness/runall_par.sh <tier> <seed>   (one line per check + violation lines)
cd "$(dirname "$0")/.."
export TIER=${1:-quick} SEED=${2:-0}
run() { p=$1; s=$(date +%s); out=$(VERIF_SEED=$SEED ./check $p --tier $TIER 2>&1); rc=$?; e=$(date +%s)
  echo "$p rc=$rc $((e-s))s $(echo "$out" | grep -E '^(OK|FAIL|VIOLATION|HARNESS)' | head -2 | tr '\n' ' ' | cut -c1-200)"
  echo "$out" | grep "^  - " | head -4; }
export -f run
cat harness/registered.txt | tr ' ' '\n' | grep . | xargs -P 4 -I{} bash -c 'run {}'
