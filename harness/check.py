"""Entry point: ./check <Cxx> [--tier quick|thorough] [--replay file]"""
import argparse
import importlib
import os
import sys
import traceback

HARNESS = os.path.dirname(os.path.abspath(__file__))
sys.path.insert(0, HARNESS)
import core  # noqa: E402


def main():
    ap = argparse.ArgumentParser()
    ap.add_argument("prop")
    ap.add_argument("--tier", default=os.environ.get("VERIF_TIER", "quick"), choices=["quick", "thorough"])
    ap.add_argument("--replay", default=None)
    a = ap.parse_args()
    try:
        seed = int(os.environ.get("VERIF_SEED", "0"))
    except ValueError:
        seed = 0
    try:
        mod = importlib.import_module("props." + a.prop.lower())
        rc = core.run_check(mod, a.tier, seed, a.replay)
    except SystemExit:
        raise
    except BaseException:
        traceback.print_exc()
        print("HARNESS-ERROR property=%s (exit 2)" % a.prop)
        rc = 2
    sys.stdout.flush()
    os._exit(rc) if rc == 2 else sys.exit(rc)


if __name__ == "__main__":
    main()
