"""Shadow build of /repo's *working tree*.

The repository ships no compiled extension and ``mlinsights.mlmodel`` does not import
under scikit-learn 1.9 (``sklearn.utils._joblib`` is gone).  Every check therefore runs the
real code from a *shadow package*:

* ``/repo/mlinsights`` (working tree, not HEAD) is copied to a scratch directory outside
  /repo and /verif, removed at interpreter exit;
* the six ``.pyx`` files are compiled out of tree with Cython + gcc against the installed
  scikit-learn; the resulting ``.so`` files are cached under ``/verif/.cache/so/<key>`` where
  ``key`` is the SHA-256 of every ``.pyx``/``.pxd`` plus the versions of Cython, numpy and
  scikit-learn, so a changed ``.pyx`` is always recompiled;
* a harness-side shim provides ``sklearn.utils._joblib`` (``Parallel``/``delayed`` from joblib).

Nothing here edits /repo.  ``REPO`` can be overridden with ``VERIF_REPO`` (used by the
seeded-change validation to point the same checks at a scratch worktree).
"""
import atexit
import fcntl
import hashlib
import os
import shutil
import subprocess
import sys
import sysconfig
import tempfile
import types

VERIF = os.path.dirname(os.path.dirname(os.path.abspath(__file__)))
REPO = os.environ.get("VERIF_REPO", "/repo")
CACHE = os.path.join(VERIF, ".cache", "so")
GUARD = "SDPYTHON_MLINSIGHTS_VERIF"

PYX = [
    ("mlinsights.mlmodel.direct_blas_lapack", "mlinsights/mlmodel/direct_blas_lapack.pyx"),
    ("mlinsights.mlmodel._piecewise_tree_regression_common",
     "mlinsights/mlmodel/_piecewise_tree_regression_common.pyx"),
    ("mlinsights.mlmodel.piecewise_tree_regression_criterion",
     "mlinsights/mlmodel/piecewise_tree_regression_criterion.pyx"),
    ("mlinsights.mlmodel.piecewise_tree_regression_criterion_fast",
     "mlinsights/mlmodel/piecewise_tree_regression_criterion_fast.pyx"),
    ("mlinsights.mlmodel.piecewise_tree_regression_criterion_linear",
     "mlinsights/mlmodel/piecewise_tree_regression_criterion_linear.pyx"),
    ("mlinsights.mltree._tree_digitize", "mlinsights/mltree/_tree_digitize.pyx"),
]

_SETUP = r'''
import sys, numpy
from setuptools import setup, Extension
from Cython.Build import cythonize
exts = [Extension(name, [path], include_dirs=[numpy.get_include()],
                  define_macros=[("NPY_NO_DEPRECATED_API", "NPY_1_7_API_VERSION")],
                  extra_compile_args=["-O1", "-w"])
        for name, path in %r]
setup(name="mlshadow", ext_modules=cythonize(exts, language_level=3, quiet=True,
      compiler_directives={"boundscheck": False, "wraparound": False, "cdivision": True}),
      script_args=["build_ext", "--inplace", "-j", "8", "-q"])
'''


def _install_shim():
    if "sklearn.utils._joblib" in sys.modules:
        return
    try:
        import sklearn.utils._joblib  # noqa: F401
        return
    except Exception:
        pass
    import joblib
    shim = types.ModuleType("sklearn.utils._joblib")
    shim.Parallel = joblib.Parallel
    shim.delayed = joblib.delayed
    shim.__verif_shim__ = True
    sys.modules["sklearn.utils._joblib"] = shim


def _pyx_key(root):
    import Cython
    import numpy
    import sklearn
    h = hashlib.sha256()
    h.update(("%s|%s|%s|%s" % (Cython.__version__, numpy.__version__, sklearn.__version__,
                               sys.version)).encode())
    for sub in ("mlmodel", "mltree"):
        d = os.path.join(root, "mlinsights", sub)
        for fn in sorted(os.listdir(d)):
            if fn.endswith((".pyx", ".pxd")):
                h.update(fn.encode())
                with open(os.path.join(d, fn), "rb") as f:
                    h.update(f.read())
    return h.hexdigest()[:24]


def _so_suffix():
    return sysconfig.get_config_var("EXT_SUFFIX")


def _compile(shadow_root, key):
    """Compile the .pyx of shadow_root in place; on success store the .so in the cache."""
    setup_py = os.path.join(shadow_root, "_verif_setup.py")
    with open(setup_py, "w") as f:
        f.write(_SETUP % (PYX,))
    env = dict(os.environ)
    env.pop(GUARD, None)
    p = subprocess.run([sys.executable, setup_py], cwd=shadow_root, env=env,
                       stdout=subprocess.PIPE, stderr=subprocess.STDOUT, text=True)
    if p.returncode != 0:
        raise RuntimeError("cython build of the working tree failed:\n" + p.stdout[-4000:])
    dst = os.path.join(CACHE, key)
    tmp = dst + ".tmp%d" % os.getpid()
    os.makedirs(tmp, exist_ok=True)
    for name, path in PYX:
        so = os.path.join(shadow_root, os.path.splitext(path)[0] + _so_suffix())
        if not os.path.exists(so):
            raise RuntimeError("missing build output " + so)
        shutil.copy2(so, os.path.join(tmp, name + _so_suffix()))
    if os.path.exists(dst):
        shutil.rmtree(tmp)
    else:
        os.rename(tmp, dst)
    # keep the cache small: drop all but the 4 most recent keys
    keys = sorted((os.path.getmtime(os.path.join(CACHE, k)), k) for k in os.listdir(CACHE)
                  if not k.endswith(".lock") and ".tmp" not in k)
    for _, k in keys[:-4]:
        shutil.rmtree(os.path.join(CACHE, k), ignore_errors=True)


_STATE = {}


def build(need_cython=True, verbose=False):
    """Create the shadow package, put it first on sys.path, install the shim.

    Returns the shadow root (the directory containing ``mlinsights``)."""
    if "root" in _STATE and (_STATE["cython"] or not need_cython):
        return _STATE["root"]
    if "root" not in _STATE:
        root = tempfile.mkdtemp(prefix="mlshadow_")
        atexit.register(shutil.rmtree, root, True)
        shutil.copytree(os.path.join(REPO, "mlinsights"), os.path.join(root, "mlinsights"),
                        ignore=shutil.ignore_patterns("__pycache__", "*.so", "*.pyc"))
        _STATE["root"] = root
        _STATE["cython"] = False
    root = _STATE["root"]
    if need_cython:
        key = _pyx_key(root)
        os.makedirs(CACHE, exist_ok=True)
        with open(os.path.join(CACHE, key + ".lock"), "w") as lk:
            fcntl.flock(lk, fcntl.LOCK_EX)
            dst = os.path.join(CACHE, key)
            if not os.path.isdir(dst):
                if verbose:
                    print("[shadow] compiling cython extensions (key %s)" % key, flush=True)
                _compile(root, key)
            for name, path in PYX:
                so = os.path.join(dst, name + _so_suffix())
                tgt = os.path.join(root, os.path.splitext(path)[0] + _so_suffix())
                if not os.path.exists(tgt):
                    shutil.copy2(so, tgt)
            try:
                os.utime(dst, None)
            except OSError:
                pass
        _STATE["cython"] = True
        _STATE["key"] = key
    _install_shim()
    if root not in sys.path:
        sys.path.insert(0, root)
    for m in [m for m in sys.modules if m == "mlinsights" or m.startswith("mlinsights.")]:
        f = getattr(sys.modules[m], "__file__", "") or ""
        if not f.startswith(root):
            del sys.modules[m]
    return root


def source(relpath):
    """Text of a file of the *current working tree* of the repository."""
    with open(os.path.join(REPO, relpath), "r", encoding="utf-8") as f:
        return f.read()


if __name__ == "__main__":
    import time
    t = time.time()
    r = build(need_cython=True, verbose=True)
    import mlinsights.mlmodel  # noqa
    import mlinsights.mltree  # noqa
    import mlinsights.timeseries  # noqa
    from mlinsights.mlmodel.piecewise_tree_regression_criterion import SimpleRegressorCriterion  # noqa
    print("shadow ok in %.1fs at %s" % (time.time() - t, r))
