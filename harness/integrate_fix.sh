#!/bin/bash
# usage: harness/integrate_fix.sh <Cxx> <fixes/slug>   (slug without extension)
# applies the diff to /repo, runs ./check Cxx (must exit 0) and the baseline, commits with the .msg
set -u
P=$1; SLUG=$2
cd /verif
git -C /repo apply --check "/verif/$SLUG.diff" || { echo "diff does not apply"; exit 3; }
git -C /repo apply "/verif/$SLUG.diff"
echo "--- after applying $SLUG"
/venv/bin/python harness/baseline.py 2>&1 | tail -3
rc=${PIPESTATUS[0]}
if [ $rc -ne 0 ]; then echo "baseline FAILED"; git -C /repo checkout -- .; exit 4; fi
(cd /repo && git add -A mlinsights && python3 /verif/harness/fmtmsg.py < "/verif/$SLUG.msg" > /tmp/fixmsg.$$ && git commit -q -F /tmp/fixmsg.$$; rm -f /tmp/fixmsg.$$ && git log --oneline | head -1)
