#!/bin/bash
# run every registered check: harness/runall.sh <tier> <seed>   (prints one line per check)
cd "$(dirname "$0")/.."
TIER=${1:-quick}; SEED=${2:-0}
for p in $(cat harness/registered.txt); do
  s=$(date +%s)
  out=$(VERIF_SEED=$SEED ./check $p --tier $TIER 2>&1); rc=$?
  e=$(date +%s)
  echo "$p rc=$rc $((e-s))s $(echo "$out" | grep -E '^(OK|FAIL|VIOLATION|HARNESS)' | head -2 | tr '\n' ' ' | cut -c1-200)"
done
