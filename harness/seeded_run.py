"""Validate a seeded change and run the checks against it.

usage:  /venv/bin/python harness/seeded_run.py <dir with patch.diff, demo.py, meta.json> [--tier quick|thorough|both]

Steps (all against /repo itself, as the brief prescribes; /repo is restored afterwards):
  1. clean tree: demo.py /repo must exit 0
  2. git -C /repo apply patch.diff ; demo.py must exit != 0 ; the 46 pinned tests must still pass
  3. ./check <property> (quick, then thorough if quick misses) -> verdict, VIOLATION line, replay
  4. git -C /repo checkout -- . ; ./check <property> quick must exit 0 again (also restores Gen/*.lean)
The outcome is written into <dir>/result.json.
"""
import json
import os
import re
import subprocess
import sys
import time

V = os.path.dirname(os.path.dirname(os.path.abspath(__file__)))


def sh(cmd, timeout=3600, env=None):
    p = subprocess.run(cmd, shell=True, stdout=subprocess.PIPE, stderr=subprocess.STDOUT, text=True,
                       timeout=timeout, env=env)
    return p.returncode, p.stdout


def main():
    d = os.path.abspath(sys.argv[1])
    tier = "both"
    if "--tier" in sys.argv:
        tier = sys.argv[sys.argv.index("--tier") + 1]
    meta = json.load(open(os.path.join(d, "meta.json")))
    prop = meta["property"]
    res = {"property": prop, "dir": d, "at": time.strftime("%Y-%m-%d %H:%M:%S")}
    rc, out = sh("git -C /repo status --porcelain")
    if out.strip():
        print("REFUSING: /repo is not clean:\n" + out)
        return 2
    env = dict(os.environ)
    env.pop("VERIF_REPO", None)
    try:
        rc, out = sh("/venv/bin/python %s/demo.py /repo" % d, timeout=900, env=env)
        res["demo_clean_rc"] = rc
        rc, out = sh("git -C /repo apply %s/patch.diff" % d)
        if rc != 0:
            res["error"] = "patch does not apply: " + out[-300:]
            return finish(d, res)
        rc, out = sh("/venv/bin/python %s/demo.py /repo" % d, timeout=900, env=env)
        res["demo_patched_rc"] = rc
        res["demo_patched_tail"] = out[-400:]
        rc, out = sh("/venv/bin/python %s/harness/baseline.py" % V, timeout=1800, env=env)
        res["tests_46_pass"] = (rc == 0)
        res["checks"] = []
        for t in (["quick", "thorough"] if tier == "both" else [tier]):
            t0 = time.time()
            rc, out = sh("cd %s && ./check %s --tier %s" % (V, prop, t), timeout=7200, env=env)
            lines = [l for l in out.split("\n") if l.startswith(("VIOLATION", "KNOWN-FINDING", "OK ", "FAIL ", "  - ", "HARNESS"))]
            entry = {"tier": t, "rc": rc, "wall_s": round(time.time() - t0, 1), "lines": [l[:400] for l in lines[:8]]}
            m = re.search(r"replay=(\S+)", out)
            if m:
                entry["replay"] = m.group(1)
                try:
                    rp = json.load(open(os.path.join(V, m.group(1))))
                    entry["violation_keys"] = [v["key"] for v in rp.get("violations", [])][:8]
                    entry["no_longer_checks"] = [b["kind"] + ":" + b["name"][:80] for b in rp.get("no_longer_checks", rp.get("broken", []))][:6]
                except Exception:  # noqa: BLE001
                    pass
            entry["detected"] = (rc == 1)
            entry["with_failing_input"] = (rc == 1 and "no-failing-input-found" not in out)
            res["checks"].append(entry)
            if rc == 1 and "no-failing-input-found" not in out:
                break
        # when the property's own check has no failing input: do the global lifecycle checks see it?
        if not any(c.get("with_failing_input") for c in res["checks"]):
            res["other_checks"] = []
            for other in ("C02", "C03"):
                if other == prop:
                    continue
                rc, out = sh("cd %s && ./check %s --tier quick" % (V, other), timeout=3600, env=env)
                m = re.search(r"replay=(\S+)", out)
                keys = []
                if m:
                    try:
                        rp = json.load(open(os.path.join(V, m.group(1))))
                        keys = [v["key"] for v in rp.get("violations", [])][:6] or \
                               [b["kind"] + ":" + b["name"][:60] for b in rp.get("no_longer_checks", [])][:4]
                    except Exception:  # noqa: BLE001
                        pass
                res["other_checks"].append({"property": other, "rc": rc, "keys": keys,
                                            "no_failing_input": "no-failing-input-found" in out})
    finally:
        sh("git -C /repo checkout -- .")
    rc, out = sh("cd %s && ./check %s --tier quick" % (V, prop), timeout=3600, env=env)
    res["clean_after_rc"] = rc
    for oc in res.get("other_checks", []):
        sh("cd %s && ./check %s --tier quick" % (V, oc["property"]), timeout=3600, env=env)   # restores Gen/*.lean
    return finish(d, res)


def finish(d, res):
    with open(os.path.join(d, "result.json"), "w") as f:
        json.dump(res, f, indent=1)
    print(json.dumps(res, indent=1)[:3000])
    return 0


if __name__ == "__main__":
    sys.exit(main())
