"""Developer tool: markdown table of the seeded changes of one round, from seeded/<id>/{meta,result,result_first_pass}.json.

usage: python harness/seeded_table.py 3        (round 1 = C??_1,2 ; 2 = C??_3,4 ; 3 = C??_5,6 ; 4 = C??_7,8 ; 5 = C??_9 ; 6 = C??_a ; 7 = C??_b, ten properties)
"""
import glob
import json
import os
import sys

V = os.path.dirname(os.path.dirname(os.path.abspath(__file__)))


def verdict(res):
    if res is None:
        return "?"
    out = []
    for c in res.get("checks", []):
        if c.get("with_failing_input"):
            keys = c.get("violation_keys") or []
            out.append("%s: key `%s`" % (c["tier"], keys[0] if keys else "?"))
            break
        if c.get("detected"):
            out.append("%s: broken obligation only" % c["tier"])
        else:
            out.append("%s: not reported" % c["tier"])
    if not any(c.get("with_failing_input") for c in res.get("checks", [])):
        for o in res.get("other_checks", []):
            if o.get("rc") == 1:
                out.append("%s: %s" % (o["property"], ("key `%s`" % o["keys"][0]) if o.get("keys") and not o.get("no_failing_input")
                                       else "broken obligation"))
    # collapse "quick: X; thorough: X"
    if len(out) >= 2 and out[0].split(": ", 1)[1] == out[1].split(": ", 1)[1] and out[0].startswith("quick") \
            and out[1].startswith("thorough"):
        out = ["quick+thorough: " + out[0].split(": ", 1)[1]] + out[2:]
    return "; ".join(out)


def main():
    rnd = int(sys.argv[1])
    ks = {1: "12", 2: "34", 3: "56", 4: "78", 5: "9", 6: "a", 7: "b"}[rnd]
    rows = []
    stats = {"first": {"input": 0, "obligation": 0, "missed": 0}, "final": {"input": 0, "obligation": 0, "missed": 0}}
    for d in sorted(glob.glob(os.path.join(V, "seeded", "C??_[%s]" % ks))):
        meta = json.load(open(os.path.join(d, "meta.json")))
        res = json.load(open(os.path.join(d, "result.json"))) if os.path.exists(os.path.join(d, "result.json")) else None
        fp = os.path.join(d, "result_first_pass.json")
        first = json.load(open(fp)) if os.path.exists(fp) else None
        for tag, r in (("first", first or res), ("final", res)):
            ch = (r or {}).get("checks", [])
            if any(c.get("with_failing_input") for c in ch):
                stats[tag]["input"] += 1
            elif any(c.get("detected") for c in ch):
                stats[tag]["obligation"] += 1
            else:
                stats[tag]["missed"] += 1
        fv = verdict(first) if first is not None else "(as final)"
        if first is not None and verdict(first) == verdict(res):
            fv = "(as final)"

        def cell(s, n):
            return str(s).replace("|", "/").replace("\n", " ")[:n]
        rows.append("| %s | %s | %s | %s | %s |" % (os.path.basename(d), cell(meta.get("summary", ""), 140),
                                                   cell(meta.get("needs_to_manifest", ""), 110), fv, verdict(res)))
    print("**Round %d**  (first pass: %s; final: %s)\n" % (rnd, stats["first"], stats["final"]))
    print("| id | change | needs | first pass | final |")
    print("|----|--------|-------|-----------|-------|")
    print("\n".join(rows))


if __name__ == "__main__":
    main()
