"""Maintain the `fixed` entries of known_findings.json: (property, key, subject of the fix commit in /repo,
what failed).  Run by hand after a fix commit; resolves the commit hash from the subject.  `finding` entries
are kept as they are.  (The checks never write known_findings.json.)"""
import json, os, subprocess
V = os.path.dirname(os.path.dirname(os.path.abspath(__file__)))
FIXED = [
 ("C17", "IntervalRegressor.fit:row-never-drawn", "IntervalRegressor draws bootstrap rows",
  "numpy.random.randint(0, n-1, size) never drew the last training row and raised for n=1 (theorem draw_domain_is_all_rows failed on the regenerated bounds; replay n=1 and n=2)"),
 ("C06", "KMeansL1L2.fit[L1]:raises-with-k-distinct-points", "keeps the relocated centre",
  "kmeans_l1._centers_dense overwrote the relocated centre of an emptied cluster with the NaN median of an empty slice, so fit(norm='L1') raised 'Input contains NaN' (or returned NaN centres) on data with >= k distinct points (replay X=[[0],[2]], k=2, init=[[1],[1]])"),
 ("C13", "FunctionReciprocalTransformer[exp(x)-1]:roundtrip", 'pair "exp(x)-1" with its inverse',
  "available_fcts paired 'exp(x)-1' with inverse name 'log' (round trip y=-0.875 -> nan); table_checks failed on the regenerated table"),
 ("C13", "TransformedTargetClassifier2.classes_:not-aligned-with-proba-columns", "classes_ follows the column order",
  "classes_ returned the inverse-permuted classifier classes in classifier order while predict_proba orders columns by sorted original label (classes_[argmax proba] != predict for a non-monotone permutation). NOTE: the upstream test ut_mlmodel/test_target_predictors.py::test_target_classifier_proba (not runnable in this sandbox, not in the pinned 46) encodes the old misalignment"),
 ("C13", "PermutationReciprocalTransformer[str labels]:roundtrip-raises", "keeps the type of the permuted values",
  "PermutationReciprocalTransformer.transform wrote integer codes into an array of y's (string) dtype, so string labels raised in the inverse lookup"),
 ("C14", "TraceableCountVectorizer[stop_words]:analyzer-key-not-flat-tuple", "removes stop words before wrapping",
  "NGramsMixin._word_ngrams compared 1-tuples with the stop-word strings (nothing removed) and wrapped the tuples again (keys like (('cat',),)); matrices differed from CountVectorizer/TfidfVectorizer whenever stop_words was set"),
 ("C12", "tree_node_range:single-node-tree-raises", "tree_node_range returns a (n_features, 2) box",
  "tree_node_range raised 'negative dimensions' on a single-leaf tree (row count taken from max feature on the path, -2 for a leaf); theorem box_rows_ok failed on the regenerated row count; replay: tree fitted on X=[[0.0]]"),
 ("C16", "pipeline2dot:input-column-missing:list", "keeps the columns when the data is given as a list of names",
  "pipeline2dot dropped a list-of-names schema: sch0 had no port, inputs absent, outputs unreachable"),
 ("C16", "pipeline2dot:remainder-columns", "the passthrough remainder of a ColumnTransformer is drawn",
  "merged.union(d) result discarded (and built from the last transformer only): the remainder Identity was fed by columns a transformer consumes"),
 ("C16", "pipeline2dot:output-unreachable:port-without-edge", "'passthrough' step with a single",
  "a 'passthrough' step assigned a string to info['outputs'], drawn as ports -|v|-|0; final outputs unreachable"),
 ("C16", "pipeline2dot:output-unreachable:step-without-input", "integer columns applied to a list of names",
  "while len(new_data) < mx kept max(vs) names instead of max(vs)+1: a ColumnTransformer([(t,[0])]) after another step had no incoming edge"),
 ("C16", "pipeline2dot:raises:AttributeError", "no longer raises for a ColumnTransformer(remainder='passthrough')",
  "data.items() on a list: pipeline2dot raised for ColumnTransformer(remainder='passthrough') that is not the first step"),
 ("C16", "debug:not-recorded:ColumnTransformer-child", "yields the fitted transformers of a fitted ColumnTransformer",
  "enumerate_pipeline_models walked the unfitted pipe.transformers, so alter_pipeline_for_debugging never instrumented the clones a fitted ColumnTransformer runs"),
 ("C05", "QuantileLinearRegression.score:unweighted", "score uses the pinball loss of its own quantile",
  "score used mult where fit uses 1-mult (scored the pinball loss of 1-q) and divided by n instead of the weight sum"),
 ("C18", "non_linear_correlations:array:raises-TypeError:single-column", "accepts a numpy array with a single column",
  "numpy.corrcoef returns a 0-d scalar for one column: non_linear_correlations raised TypeError on a one-column array (square_shape unprovable)"),
 ("C20", "ts_mape:zero-denominator-raises-AttributeError", "ts_mape returns numpy.inf",
  "ts_mape used numpy.infty (removed in numpy 2): AttributeError instead of +inf when the naive-forecast denominator is 0 and the error is not (replay expected=[0,0], predicted=[0,2]); theorem mape_consts failed"),
 ("C19", "CategoriesToIntegers.transform:skip_errors-stale-indicator", "CategoriesToIntegers.transform skips an unseen category",
  "with skip_errors=True an unseen category fell through to res[i, p] = 1.0 with the previous cell's stale p (or UnboundLocalError on the first cell); theorem unseen_branch_never_writes failed"),
 ("C02", "PermutationReciprocalTransformer.fit:does-not-return-self", "PermutationReciprocalTransformer.fit returns self",
  "fit fell off the end and returned None (all_fit_return_self failed on the regenerated table)"),
 ("C02", "ConstraintKMeans.fit:hyperparam-changed-on-failure:max_iter", "ConstraintKMeans.fit restores max_iter",
  "max_iter left halved when the initial k-means raised (e.g. NaN in X): the skeleton of fit was rejected by the verified hyper-parameter analysis (write max_iter; call; restore without finally); replay: bad-data nan, max_iter 40 -> 20"),
 ("C02", "PiecewiseTreeRegressor.fit:hyperparam-changed-on-failure:criterion", "PiecewiseTreeRegressor.fit restores the criterion name",
  "criterion left as a Criterion object when DecisionTreeRegressor.fit raised; a later fit skipped the leaf regressions (refit differs from a fresh instance); skeleton rejected by the verified analysis"),
 ("C07", "constraint_kmeans:gain:unbalanced:n_mod_k>=2", "keeps the per-cluster allowance consistent",
  "strategy 'gain': loopf updated sumi with the wrong sign (and the allowance was not clipped), so cluster sizes left {floor(n/k), ceil(n/k)} when n mod k >= 2 with an unbalanced start (Lean witness n=5, k=3, start 4,1,0 -> 3,1,1; gain_counterexample)"),
 ("C07", "constraint_kmeans:gain:random-start:fit-raises-AssertionError", "finishes with a pass of plain transfers",
  "strategy 'gain', kmeans0=False: swapped points were never reconsidered, a cluster could stay over quota and fit raised AssertionError 'The algorithm failed' (n=k=5, ~5% of seeds)"),
 ("C08", "PiecewiseClassifier.predict:labels-not-in-classes_", "PiecewiseClassifier.predict returns labels of classes_",
  "predict scattered labels into a float64 buffer and cast to int32: string labels raised, large ints wrapped"),
 ("C08", "PiecewiseClassifier.fit:shared-random-state-thread-schedule", "gives every bucket task its own seeded generator",
  "one RandomState shared by all bucket tasks (threads): borrowed examples, hence fitted models, depended on the thread schedule / n_jobs"),
 ("C04", "CommonRegressorCriterion.pickle:fitted-model-holding-a-criterion-cannot-be-unpickled", "Cython regression criteria can be unpickled",
  "criteria pickled to an empty state without __reduce__: pickle.loads raised TypeError (__cinit__ takes exactly 2 positional arguments) for a fitted estimator holding a criterion instance"),
 ("C09", "LinearRegressorCriterion.impurity_improvement:child-weights-ignore-the-split", "LinearRegressorCriterion updates weighted_n_left",
  "LinearRegressorCriterion inherited the no-op _update_weights: weighted_n_left/right never updated, impurity_improvement ignored the split (witness n=2, w=[3,0], pos=1: 0.0 instead of -1)"),
 ("C03", "PermutationReciprocalTransformer:refit:fitted-state-differs:knn_,knn_perm_", "drops the nearest-neighbour index of the previous fit",
  "the lazily built NearestNeighbors cache (knn_, knn_perm_) survived a refit; the fit skeleton under closest=True was rejected by the verified definite-rewrite analysis; replay fit(A); transform(unseen); fit(B) vs fresh"),
 ("C01", "SkBase.set_params:other-keys-changed:<own>", "SkBase.set_params updates the given parameters",
  "SkBase.set_params replaced all parameters: SkBase(a=1,b='s').set_params(a=2) dropped b"),
 ("C01", "SkBaseTransformLearner.set_params:returns-None", "SkBaseTransformLearner.set_params returns self",
  "SkBaseTransformLearner.set_params returned None, never stored `method`, left method_ bound to the old model, rejected its own keys"),
 ("C01", "SkBaseTransformStacking.set_params:returns-None", "SkBaseTransformStacking.set_params returns self",
  "SkBaseTransformStacking.set_params returned None and sliced models_<i>__<name> with d+1+len(si): wrong for i >= 10 (stacking_indexed_key_routes_to_member failed on the regenerated slice)"),
 ("C01", "SkBaseTransformStacking.clone:raises-after-set:method", "keeps an SkBaseTransformLearner member as it is",
  "the stacking constructor re-wrapped learner members, so clone raised RuntimeError after set_params on advertised keys"),
 ("C01", "ClassifierAfterKMeans.clone:raises", "ClassifierAfterKMeans.get_params reports",
  "ClassifierAfterKMeans.get_params omitted estimator/clus (clone of a non-default estimator raised); set_params returned None"),
 ("C01", "ApproximateNMFPredictor.transfer:raises", "ApproximateNMFPredictor always carries every NMF parameter",
  "ApproximateNMFPredictor.get_params only reported the NMF parameters passed in: transfer between differently configured instances raised / differed"),
 ("C01", "DummyTimeSeriesRegressor.get_params:raises", "DummyTimeSeriesRegressor stores its",
  "DummyTimeSeriesRegressor never stored its `estimator` constructor argument: get_params raised AttributeError"),
 ("C01", "ARTimeSeriesRegressor.__init__:raises", "ARTimeSeriesRegressor stores an estimator other than",
  "ARTimeSeriesRegressor only stored `estimator` when it was 'dummy': constructor raised AttributeError otherwise"),
 ("C01", "TimeSeriesDifference.set_params:raises:<own>", "TimeSeriesDifference.degree can be set",
  "TimeSeriesDifference.degree was a read-only property: set_params(degree=...) raised"),
 ("C15", "TransferTransformer.fit:raises:copy_estimator=True", "TransferTransformer.fit with copy_estimator=True no longer raises",
  "TransferTransformer.fit(copy_estimator=True) raised AssertionError for fitted trees: assert_estimator_equal compared tree_ objects with =="),
 ("C03", "ClassifierAfterKMeans:refit:observer-differs:predict", "ClassifierAfterKMeans fits a clone of its estimator",
  "ClassifierAfterKMeans.fit trained the given estimator object in place and predicted with it: with a stateful classifier (warm_start) a refit differed from a fresh clone's fit, and two instances built from the same classifier object overwrote each other (found by the shared-components and refit histories)"),
 ("C03", "KMeansL1L2:reconfigured:observer-differs:transform", "KMeansL1L2 with norm='L1' records n_features_in_",
  "the L1 fit never set n_features_in_: after fit(norm='L2') on p columns, set_params(norm='L1') and fit on q != p columns, predict/transform raised (stale attribute of the earlier fit); found by the reconfigured history"),
 ("C03", "PiecewiseTreeRegressor:reconfigured:observer-differs:auto:predict_leaves", "drops the leaf regressions of a former criterion='mselin' fit",
  "fit(criterion='mselin'); set_params(criterion='simple'); fit: leaves_index_/leaves_mapping_/betas_ of the first tree survived, predict_leaves indexed the new tree with the old leaves (a fresh estimator raises). Found statically when the required set of C03 was extended to attributes written under ANY valuation of the hyper-parameter conditions (all_fits_fresh failed), with the reconfigured history (all public methods observed) as failing input"),
 ("C03", "DummyTimeSeriesRegressor:reconfigured:observer-differs:auto:has_preprocessing", "BaseTimeSeries resets preprocessing_",
  "fit with a preprocessing; set_params(preprocessing=None); fit: preprocessing_ of the first fit survived, has_preprocessing() answered True and predict applied the stale transformer. Same origin as the entry above"),
 ("C03", "ConstraintKMeans:reconfigured:observer-differs:predict", "ConstraintKMeans(kmeans0=False) records n_features_in_",
  "same leak for ConstraintKMeans: fit with kmeans0=True then set_params(kmeans0=False) and fit on data of another width left the stale n_features_in_ and predict/transform raised"),
]
log = subprocess.run(["git", "-C", "/repo", "log", "--format=%h\t%s"], stdout=subprocess.PIPE, text=True).stdout.split("\n")
def find(sub):
    for l in log:
        if "\t" in l and sub in l.split("\t", 1)[1]:
            return l.split("\t")[0]
    raise SystemExit("no fix commit with subject containing %r" % sub)
p = os.path.join(V, "known_findings.json")
d = json.load(open(p))
keep = [e for e in d["entries"] if e.get("status") != "fixed"]
for prop, key, sub, what in FIXED:
    h = find(sub)
    keep.append({"property": prop, "status": "fixed", "commit": h, "key": key,
                 "what": "fixed: property=%s %s %s" % (prop, h, what)})
d["entries"] = keep
json.dump(d, open(p, "w"), indent=1)
print("%d fixed, %d findings" % (len(FIXED), len(keep) - len(FIXED)))
