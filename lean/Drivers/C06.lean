import MlVerif.Model.Proto
import MlVerif.Gen.C06
import MlVerif.Model.KMedians
open MlVerif MlVerif.Proto MlVerif.KMedians

/-- every row has exactly `d` coordinates -/
def rect (d : Nat) (m : List (List Rat)) : Bool := m.all (fun r => r.length == d)

def showErr : Err → String
  | .nan => "error:nan"
  | .index => "error:index"
  | .value => "error:value"

def showCentre : Option Point → String
  | none => "nan"
  | some c => showRats c

def showCentres (cs : List (Option Point)) : String :=
  if cs.isEmpty then "-" else ";".intercalate (cs.map showCentre)

/-- `dists>far|dists>far|...` : recorded values of `distances.argsort()[::-1]` -/
def parseFarTable (s : String) : Option (List (List Rat × List Nat)) :=
  if s == "-" then some [] else
  (s.splitOn "|").mapM (fun e =>
    match e.splitOn ">" with
    | [a, b] => do
      let ds ← parseRats? a
      let far ← parseNats? b
      some (ds, far)
    | _ => none)

def farFromTable (tab : List (List Rat × List Nat)) (ds : List Rat) : List Nat :=
  match tab.find? (fun e => e.1 == ds) with
  | some e => e.2
  | none => farStable ds

def parseInits (d : Nat) (s : String) : Option (List (List Point)) :=
  if s == "-" then some [] else
  (s.splitOn "|").mapM (fun m => do
    let c ← parseMat? parseRat? m
    if rect d c then some c else none)

def parseCentres (d : Nat) (s : String) : Option (List (Option Point)) :=
  if s == "-" then some [] else
  (s.splitOn ";").mapM (fun r =>
    if r == "nan" then some none else do
      let p ← parseRats? r
      if p.length == d then some (some p) else none)

def step : List String → String
  | ["fit", d, k, maxIter, tol, x, inits, fartab] =>
    match parseNat? d, parseNat? k, parseNat? maxIter, parseRat? tol, parseMat? parseRat? x with
    | some d, some k, some mi, some tol, some X =>
      match parseInits d inits, parseFarTable fartab with
      | some inits, some tab =>
        if !rect d X then "bad-op" else
        let cfg : Cfg := ⟨d, k, mi, tol, Gen.C06.medianLoopSkipsEmpty, farFromTable tab⟩
        match fitL1 cfg X inits with
        | .error e => showErr e
        | .ok r => s!"ok labels={showNats r.labels} centers={showCentres r.centers} inertia={showRat r.inertia} niter={r.nIter} shift={showOpt showRat r.shift}"
      | _, _ => "bad-op"
    | _, _, _, _, _ => "bad-op"
  | ["mstep", d, k, x, labels, dists, far] =>
    match parseNat? d, parseNat? k, parseMat? parseRat? x, parseNats? labels, parseRats? dists, parseNats? far with
    | some d, some k, some X, some labels, some dists, some far =>
      if !rect d X || labels.length != X.length || dists.length != X.length then "bad-op" else
      let cfg : Cfg := ⟨d, k, 1, 0, Gen.C06.medianLoopSkipsEmpty, fun _ => far⟩
      match centersDense cfg X labels dists with
      | .error e => showErr e
      | .ok cs => showCentres cs
    | _, _, _, _, _, _ => "bad-op"
  | ["predict", d, c, x] =>
    match parseNat? d, parseMat? parseRat? x with
    | some d, some X =>
      match parseCentres d c with
      | some cs =>
        if !rect d X then "bad-op" else
        match predictL1 d cs X with
        | .error e => showErr e
        | .ok l => showNats l
      | none => "bad-op"
    | _, _ => "bad-op"
  | ["transform", d, c, x] =>
    match parseNat? d, parseMat? parseRat? x with
    | some d, some X =>
      match parseCentres d c with
      | some cs =>
        if !rect d X then "bad-op" else
        match transformL1 d cs X with
        | .error e => showErr e
        | .ok m => showMat showRat m
      | none => "bad-op"
    | _, _ => "bad-op"
  | ["estep", d, c, x] =>
    match parseNat? d, parseMat? parseRat? x with
    | some d, some X =>
      match parseCentres d c with
      | some cs =>
        if !rect d X then "bad-op" else
        match labelsInertia d X cs with
        | .error e => showErr e
        | .ok es => s!"{showNats es.labels}|{showRats es.dists}|{showRat es.inertia}"
      | none => "bad-op"
    | _, _ => "bad-op"
  | ["tol", d, x] =>
    match parseNat? d, parseMat? parseRat? x with
    | some d, some X => if !rect d X || X.isEmpty then "bad-op" else showRat (tolerance d X)
    | _, _ => "bad-op"
  | ["median", l] =>
    match parseRats? l with
    | some l => if l.isEmpty then "nan" else showRat (median l)
    | none => "bad-op"
  | _ => "bad-op"

def main : IO Unit := loop step
