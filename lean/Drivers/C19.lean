import MlVerif.Model.Proto
import MlVerif.Gen.C19
import MlVerif.Model.Categories
open MlVerif MlVerif.Proto MlVerif.Categories

/-
Wire format (no spaces/commas inside a token):
  string   = "e" (empty) or code points in decimal joined by "."
  cell     = "M" (missing) | "N<int>" | "S<string>"
  cols     = comma list of "O<string>" (object dtype) / "X<string>" (any other dtype)
  index    = comma list of ints ("-" = empty)
  rows     = rows joined by ";" , cells by "," ("-" = no row)
  names    = comma list of <string> ("-" = empty list), or "none"
Ops:
  run <columns> <remove> <skip 0/1> <single 0/1> <fcols> <findex> <frows> <tcols> <tindex> <trows>
  toomany <nb> <n>
-/

def decStr? (s : String) : Option String :=
  if s == "e" then some "" else
    ((s.splitOn ".").mapM (fun (t : String) => t.toNat?)).map (fun l => String.ofList (l.map Char.ofNat))

def encStr (s : String) : String :=
  if s.isEmpty then "e" else ".".intercalate (s.toList.map (fun c => toString c.toNat))

def decCell? (s : String) : Option Cell :=
  match s.toList with
  | 'M' :: [] => some .missing
  | 'N' :: rest => (String.ofList rest).toInt?.map Cell.num
  | 'S' :: rest => (decStr? (String.ofList rest)).map Cell.str
  | _ => none

def encCell : Cell → String
  | .missing => "M"
  | .num n => "N" ++ toString n
  | .str s => "S" ++ encStr s

def decCol? (s : String) : Option (String × Bool) :=
  match s.toList with
  | 'O' :: rest => (decStr? (String.ofList rest)).map (fun n => (n, true))
  | 'X' :: rest => (decStr? (String.ofList rest)).map (fun n => (n, false))
  | _ => none

def decBool? (s : String) : Option Bool :=
  if s == "1" then some true else if s == "0" then some false else none

def decFrame? (cols index rows : String) : Option Frame := do
  let cs ← parseList? decCol? cols
  let ix ← parseInts? index
  let rs ← parseMat? decCell? rows
  if rs.all (fun r => r.length == cs.length) && ix.length == rs.length then
    some ⟨cs, ix, rs.map (fun r => (cs.map (·.1)).zip r)⟩
  else none

def decNames? (s : String) : Option (Option (List String)) :=
  if s == "none" then some none else (parseList? decStr? s).map some

def errName : Err → String
  | .valueError => "ValueError"
  | .keyError => "KeyError"
  | .indexError => "IndexError"
  | .unboundLocal => "UnboundLocalError"
  | .unsupported => "Unsupported"

def encOut : Out → String
  | .nan => "nan"
  | .one => "1"
  | .rank n => "r" ++ toString n
  | .keep c => encCell c

def step : List String → String
  | ["run", columns, remove, skip, single, fc, fi, fr, tc, ti, tr] =>
    match decNames? columns, parseList? decStr? remove, decBool? skip, decBool? single,
          decFrame? fc fi fr, decFrame? tc ti tr with
    | some columns, some remove, some skip, some single, some X, some Y =>
      let cfg : Config := ⟨columns, remove, skip, single⟩
      match fit cfg X with
      | .error e => "fitE:" ++ errName e
      | .ok st =>
        match transform st cfg Y with
        | .error e => "trE:" ++ errName e
        | .ok Z => s!"ok {showList encStr Z.cols} {showInts Z.index} {showMat encOut Z.rows}"
    | _, _, _, _, _, _ => "bad-op"
  | ["toomany", nb, n] =>
    match parseInt? nb, parseInt? n with
    | some nb, some n => if Gen.C19.tooMany nb n then "1" else "0"
    | _, _ => "bad-op"
  | _ => "bad-op"

def main : IO Unit := loop step
