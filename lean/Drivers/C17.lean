import MlVerif.Model.Proto
import MlVerif.Gen.C17
import MlVerif.Model.Interval
open MlVerif MlVerif.Proto MlVerif.Interval

def showOptInts (l : List (Option Int)) : String :=
  showList (fun o => match o with | some v => toString v | none => "IndexError") l

def step : List String → String
  | ["randargs", n, alpha] =>
    match parseInt? n, parseRat? alpha with
    | some n, some a =>
      s!"{Gen.C17.randLo n a} {Gen.C17.randHi n a} {Gen.C17.randSize n a}"
    | _, _ => "bad-op"
  | ["gather", idx, x, y, w] =>
    match parseNats? idx, parseMat? parseInt? x, parseInts? y with
    | some idx, some X, some y =>
      let wv : Option (Option (List Int)) := if w == "none" then some none else (parseInts? w).map some
      match wv with
      | none => "bad-op"
      | some w =>
        let (xr, yr, sr) := resample X y w idx
        let xs := if xr.isEmpty then "-" else ";".intercalate (xr.map (fun o => match o with
            | some r => showInts r | none => "IndexError"))
        let ws := match sr with | none => "none" | some s => showOptInts s
        s!"{xs}|{showOptInts yr}|{ws}"
    | _, _, _ => "bad-op"
  | ["agg", m] =>
    match parseMat? parseRat? m with
    | some M => s!"{showRats (predict M)}|{showMat showRat (predictSorted M)}"
    | none => "bad-op"
  | _ => "bad-op"

def main : IO Unit := loop step
