import MlVerif.Model.Proto
import MlVerif.Gen.C01
import MlVerif.Model.Params
open MlVerif MlVerif.Proto MlVerif.Params MlVerif.Gen.C01

/-! Line protocol of C01.  One line = one history:
`hist <next> <nOps> <tokens separated by '|'>` where the token stream is `<obj> <op>*` in prefix form
  value  := A|<s/f/o>|<txt>  |  E|<id>|<cls>|<proto>|<0/1 fitted>|<n>|(<key>|<value>)*n  |  L|<n>|<value>*n
  op     := G|<0/1>  |  S|<n>|(<key>|<value>)*n  |  C
Output: the per-op results joined by " ## ".  `table` prints the class table facts, `route` the stacking routing. -/

def protoOfStr : String → Option Proto
  | "base" => some .base | "skbase" => some .skbase | "learner" => some .learner
  | "stacking" => some .stacking | "cak" => some .cak | "anmf" => some .anmf | _ => none

def strOfProto : Proto → String
  | .base => "base" | .skbase => "skbase" | .learner => "learner" | .stacking => "stacking"
  | .cak => "cak" | .anmf => "anmf" | .unknownProto => "unknown"

def kindOfStr : String → Option AKind
  | "s" => some .str | "f" => some .fn | "o" => some .other | _ => none

def strOfKind : AKind → String
  | .str => "s" | .fn => "f" | .other => "o"

mutual
  partial def parseVal : List String → Option (PVal × List String)
    | "A" :: k :: t :: rest => (kindOfStr k).map (fun k => (.atom k t, rest))
    | "E" :: id :: cls :: p :: f :: n :: rest => do
        let id ← id.toNat?
        let p ← protoOfStr p
        let n ← n.toNat?
        let (kw, rest) ← parseKw n rest
        some (.est id cls p (f == "1") kw, rest)
    | "L" :: n :: rest => do
        let n ← n.toNat?
        let (l, rest) ← parseList n rest
        some (.ests l, rest)
    | _ => none
  partial def parseKw : Nat → List String → Option (KW × List String)
    | 0, rest => some ([], rest)
    | n + 1, k :: rest => do
        let (v, rest) ← parseVal rest
        let (kw, rest) ← parseKw n rest
        some ((k.toList, v) :: kw, rest)
    | _, _ => none
  partial def parseList : Nat → List String → Option (List PVal × List String)
    | 0, rest => some ([], rest)
    | n + 1, rest => do
        let (v, rest) ← parseVal rest
        let (l, rest) ← parseList n rest
        some (v :: l, rest)
end

partial def parseOps : List String → Option (List Op)
  | [] => some []
  | "G" :: d :: rest => (parseOps rest).map (fun l => Op.get (d == "1") :: l)
  | "C" :: rest => (parseOps rest).map (fun l => Op.clone :: l)
  | "S" :: n :: rest => do
      let n ← n.toNat?
      let (kw, rest) ← parseKw n rest
      let l ← parseOps rest
      some (Op.set kw :: l)
  | _ => none

def sortKw (kw : List (String × String)) : List (String × String) :=
  (kw.toArray.qsort (fun a b => a.1 < b.1)).toList

/-- short form of a value inside a parameter dictionary: identity and class only -/
partial def shortVal : PVal → String
  | .atom k t => strOfKind k ++ ":" ++ t
  | .est id cls _ _ _ => cls ++ "#" ++ toString id
  | .ests l => "[" ++ ",".intercalate (l.map shortVal) ++ "]"

/-- full canonical dump of a state (parameters sorted by key) -/
partial def fullVal (withIds : Bool) : PVal → String
  | .atom k t => strOfKind k ++ ":" ++ t
  | .est id cls p f kw =>
      let items := sortKw (kw.map (fun kv => (String.ofList kv.1, fullVal withIds kv.2)))
      cls ++ (if withIds then "#" ++ toString id else "") ++ "/" ++ strOfProto p ++ (if f then "/fitted" else "") ++
        "{" ++ ",".intercalate (items.map (fun kv => kv.1 ++ "=" ++ kv.2)) ++ "}"
  | .ests l => "[" ++ ",".intercalate (l.map (fullVal withIds)) ++ "]"

def showParams (ps : KW) : String :=
  let items := sortKw (ps.map (fun kv => (String.ofList kv.1, shortVal kv.2)))
  if items.isEmpty then "-" else ";".intercalate (items.map (fun kv => kv.1 ++ "=" ++ kv.2))

def showErr : Err → String
  | .value => "ValueError" | .key => "KeyError" | .type => "TypeError" | .attribute => "AttributeError"
  | .index => "IndexError" | .runtime => "RuntimeError" | .skexc => "SkException" | .fuel => "Fuel"

def showOut (before : State) (after : State) : Out → String
  | .params ps => "P " ++ showParams ps
  | .setOk r => "S ok " ++ (if r then "self" else "None") ++ " " ++ fullVal true after.obj
  | .setErr e => "S err " ++ showErr e
  | .cloned c =>
      let is := ids c
      let fresh := is.all (fun i => before.next ≤ i && i < after.next) && is.eraseDups.length == is.length
      "C " ++ fullVal false c ++ " fresh=" ++ toString fresh ++ " unfitted=" ++ toString (!anyFitted c)

def runShow (s : State) : List Op → List String
  | [] => []
  | op :: ops =>
      let r := step s op
      showOut s r.1 r.2 :: runShow r.1 ops

def showStorage : Storage → String
  | .verbatim => "verbatim" | .defaulted => "defaulted" | .normalised _ => "normalised"
  | .dropped => "dropped" | .readonly => "readonly" | .unknown _ => "unknown"

def step' : List String → String
  | ["hist", next, payload] =>
    match next.toNat?, parseVal (payload.splitOn "|") with
    | some next, some (obj, rest) =>
      match parseOps rest with
      | some ops => " ## ".intercalate (runShow { obj := obj, next := next } ops)
      | none => "bad-op"
    | _, _ => "bad-op"
  | ["table", cls] =>
    match classes.find? (fun c => c.name == cls) with
    | some c => strOfProto c.proto ++ " " ++ (if c.setReturnsSelf then "self" else "None") ++ " " ++
        (if c.ctorStorageOk then "ok" else "not-ok") ++ " " ++
        showList (fun p => p.name ++ ":" ++ showStorage p.storage) c.params
    | none => "no-such-class"
  | ["route", key, n] =>
    -- routing of one stacking key among n members: index and sub-key
    match n.toNat? with
    | some n =>
      let models := PVal.ests (List.replicate n (.est 0 "M" .base false []))
      match planStacking [(kModels, models), (kMethod, .atom .str "predict")] [(key.toList, .atom .other "v")] with
      | .ok pl => match pl.groups with
          | [(.idx _ i, [(sub, _)])] => toString i ++ " " ++ (if sub.isEmpty then "-" else String.ofList sub)
          | _ => "own"
      | .error e => showErr e
    | none => "bad-op"
  | _ => "bad-op"

def main : IO Unit := loop step'
