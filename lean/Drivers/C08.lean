import MlVerif.Model.Proto
import MlVerif.Gen.C08
import MlVerif.Model.Piecewise
open MlVerif MlVerif.Proto MlVerif.Piecewise MlVerif.Gen.C08

def showPairs (m : List (Nat × Nat)) : String := showList (fun (p : Nat × Nat) => s!"{p.1}:{p.2}") m

def parsePair? (s : String) : Option (Nat × Nat) :=
  match s.splitOn ":" with
  | [a, b] => do let x ← a.toNat?; let y ← b.toNat?; pure (x, y)
  | _ => none

def parseOptInts? (s : String) : Option (Option (List Int)) :=
  if s == "none" then some none else (parseInts? s).map some

def parseLabel? (s : String) : Option Label :=
  match s.splitOn ":" with
  | ["i", v] => v.toInt?.map Label.int
  | ["f", v] => (parseRat? v).map Label.flt
  | ["s", v] => some (Label.str v)
  | _ => none

def showLabel : Label → String
  | .int v => s!"i:{v}"
  | .flt r => s!"f:{showRat r}"
  | .str s => s!"s:{s}"

def showFit : FitResult Nat Int Int → String
  | .unfitted => "unfitted"
  | .diverges => "diverges"
  | .error e => s!"error:{e}"
  | .fitted t b =>
    let w := match t.w with | none => "none" | some w => showInts w
    s!"fitted {showNats t.X}|{showInts t.y}|{w}|{showNats b}"

def step : List String → String
  | ["leaves", cl, cr] =>
    match parseInts? cl, parseInts? cr with
    | some cl, some cr => showNats (treeLeaves cl cr)
    | _, _ => "bad-op"
  | ["traintree", leaves, keys] =>
    match parseNats? leaves, parseNats? keys with
    | some l, some k =>
      let r := mappingTrainTree l k
      s!"{showInts r.1}|{showPairs r.2}"
    | _, _ => "bad-op"
  | ["trainbins", keys] =>
    match parseMat? parseInt? keys with
    | some k =>
      let r := mappingTrainBins k
      s!"{showInts r.1}|{showMat toString (r.2.1.map (·.1))}|{showNats (r.2.1.map (·.2))}|{showMat toString r.2.2}"
    | none => "bad-op"
  | ["tbtree", leaves, mapping, keys] =>
    match parseNats? leaves, parseList? parsePair? mapping, parseNats? keys with
    | some l, some m, some k => showInts (transformBinsTree l m k)
    | _, _, _ => "bad-op"
  | ["tbcells", mkeys, mids, keys] =>
    match parseMat? parseInt? mkeys, parseNats? mids, parseMat? parseInt? keys with
    | some mk, some mi, some k =>
      if mk.length != mi.length then "bad-op" else showInts (transformBinsCells (mk.zip mi) k)
    | _, _, _ => "bad-op"
  | ["fit", i, y, w, assoc, nb, addition] =>
    match i.toNat?, parseInts? y, parseOptInts? w, parseInts? assoc, parseNats? addition with
    | some i, some y, some w, some assoc, some add =>
      let nbv : Option (Option Nat) := if nb == "none" then some none else nb.toNat?.map some
      match nbv with
      | none => "bad-op"
      | some nb => showFit (fitBucket i (List.range y.length) y w assoc nb add)
    | _, _, _, _, _ => "bad-op"
  | ["apply", selIdx, nEst, tags, meantag, xs, assoc] =>
    match selIdx.toNat?, nEst.toNat?, parseInts? tags, meantag.toInt?, parseInts? xs, parseInts? assoc with
    | some si, some n, some tags, some mt, some xs, some assoc =>
      match predictSelections[si]? with
      | none => "bad-op"
      | some (_, sel, _) =>
        match tags.length == n with
        | false => "bad-op"
        | true =>
          let P : Nat → List Int → List Int := fun i b => b.map (fun x => x * 1000 + tags.getD i 0)
          match applyPredict sel n P (fun b => b.map (fun x => x * 1000 + mt)) 0 xs assoc with
          | none => "none"
          | some out => showInts out
    | _, _, _, _, _, _ => "bad-op"
  | ["cpredict", nEst, classes, tags, meantag, xs, assoc] =>
    match nEst.toNat?, parseList? parseLabel? classes, parseNats? tags, meantag.toNat?, parseNats? xs, parseInts? assoc with
    | some n, some cls, some tags, some mt, some xs, some assoc =>
      if cls.isEmpty || tags.length != n then "bad-op" else
      let lab (t : Nat) (x : Nat) : Label := cls.getD ((x + t) % cls.length) (.int 0)
      let P : Nat → List Nat → List Label := fun i b => b.map (lab (tags.getD i 0))
      match classifierPredict n P (fun b => b.map (lab mt)) xs assoc with
      | .ok ls => "ok " ++ showList showLabel ls
      | .error e => "err " ++ e
    | _, _, _, _, _, _ => "bad-op"
  | _ => "bad-op"

def main : IO Unit := loop step
