import MlVerif.Model.Proto
import MlVerif.Gen.C10
import MlVerif.Model.DTLR
open MlVerif MlVerif.Proto MlVerif.DTLR

/-
ops (one line each):
  query <c0> <c1> <nNodes> <tree> <P0> <P1> <rows>
     tree : nodes in pre-order (node, above side, below side) separated by `;`, each `index,threshold,depth,hasAbove,hasBelow`
     P0/P1: one matrix row per node (same order): column 0 / column 1 of that node classifier's predict_proba
            for the query rows 0..m-1
     rows : the batch, as row ids
     -> proba | predict | dense decision path | leaves index | tree depth
  fit <maxDepth> <minSamplesSplit> <minSamplesLeaf> <minWeightFractionLeaf> <totalN> <plan>
     plan : pre-order, each `nRows,cA,mA,nA,knownA,cB,mB,nB,knownB`
     -> n_nodes | index,depth,hasAbove,hasBelow;...      (or `none`)
-/

structure Spec where
  index : Int
  thr : Rat
  depth : Int
  hasA : Bool
  hasB : Bool

def parseBool? (s : String) : Option Bool :=
  if s == "1" then some true else if s == "0" then some false else none

def parseSpec? (s : String) : Option Spec :=
  match s.splitOn "," with
  | [i, t, d, a, b] => do
    let i ← parseInt? i
    let t ← parseRat? t
    let d ← parseInt? d
    let a ← parseBool? a
    let b ← parseBool? b
    some ⟨i, t, d, a, b⟩
  | _ => none

def lookup (P : List (List Rat)) (k r : Nat) : Rat := ((P[k]?).bind (·[r]?)).getD 0   -- dimensions are validated first

/-- rebuild the tree from its pre-order listing; returns the node, the remaining specs, the next position -/
def build (P0 P1 : List (List Rat)) : Nat → List Spec → Nat → Option (Node Nat × List Spec × Nat)
  | 0, _, _ => none
  | _ + 1, [], _ => none
  | fuel + 1, s :: rest, k =>
    let ra : Option (Option (Node Nat) × List Spec × Nat) :=
      if s.hasA then (build P0 P1 fuel rest (k + 1)).map (fun r => (some r.1, r.2.1, r.2.2))
      else some (none, rest, k + 1)
    match ra with
    | none => none
    | some (a, rest, k1) =>
      let rb : Option (Option (Node Nat) × List Spec × Nat) :=
        if s.hasB then (build P0 P1 fuel rest k1).map (fun r => (some r.1, r.2.1, r.2.2))
        else some (none, rest, k1)
      match rb with
      | none => none
      | some (b, rest, k2) =>
        some (⟨s.index, s.thr, s.depth, fun r => lookup P0 k r, fun r => lookup P1 k r, a, b⟩, rest, k2)

def showProba (l : List Proba) : String :=
  showMat showRat (l.map (fun q => [q.1, q.2]))

def query (c0 c1 : Int) (nNodes : Nat) (specs : List Spec) (P0 P1 : List (List Rat)) (rows : List Nat) : String :=
  let m := match P0 with | r :: _ => r.length | [] => 0
  let okDims := P0.length == specs.length && P1.length == specs.length &&
    P0.all (·.length == m) && P1.all (·.length == m) && rows.all (· < m)
  if !okDims then "bad-op" else
  match build P0 P1 (specs.length + 1) specs 0 with
  | some (tree, [], _) =>
    let proba := predictProba tree rows
    let pred := predict tree (c0, c1) rows
    let path := match decisionPath tree nNodes rows with
      | some D => showMat toString D
      | none => "IndexError"
    let predS := showList (fun o => match o with | some v => toString v | none => "IndexError") pred
    s!"{showProba proba}|{predS}|{path}|{showInts (getLeavesIndex tree)}|{treeDepth tree}"
  | _ => "bad-op"

structure PSpec where
  nRows : Int
  sa : SideStat
  knownA : Bool
  sb : SideStat
  knownB : Bool

def parsePSpec? (s : String) : Option PSpec :=
  match s.splitOn "," with
  | [n, cA, mA, nA, kA, cB, mB, nB, kB] => do
    let n ← parseInt? n
    let cA ← parseInt? cA
    let mA ← parseInt? mA
    let nA ← parseInt? nA
    let kA ← parseBool? kA
    let cB ← parseInt? cB
    let mB ← parseInt? mB
    let nB ← parseInt? nB
    let kB ← parseBool? kB
    some ⟨n, ⟨cA, mA, nA⟩, kA, ⟨cB, mB, nB⟩, kB⟩
  | _ => none

def buildPlan : Nat → List PSpec → Option (Plan Nat × List PSpec)
  | 0, _ => none
  | _ + 1, [] => none
  | fuel + 1, s :: rest =>
    let ra : Option (Plan Nat × List PSpec) := if s.knownA then buildPlan fuel rest else some (.unknown, rest)
    match ra with
    | none => none
    | some (pa, rest) =>
      let rb : Option (Plan Nat × List PSpec) := if s.knownB then buildPlan fuel rest else some (.unknown, rest)
      match rb with
      | none => none
      | some (pb, rest) => some (.mk s.nRows (fun _ => 0) (fun _ => 0) s.sa pa s.sb pb, rest)

def showNode (n : Node Nat) : String :=
  s!"{n.index},{n.depth},{if n.childAbove.isSome then 1 else 0},{if n.childBelow.isSome then 1 else 0}"

def step : List String → String
  | ["query", c0, c1, nn, tree, p0, p1, rows] =>
    match parseInt? c0, parseInt? c1, parseNat? nn, (tree.splitOn ";").mapM parseSpec?,
          parseMat? parseRat? p0, parseMat? parseRat? p1, parseNats? rows with
    | some c0, some c1, some nn, some specs, some P0, some P1, some rows => query c0 c1 nn specs P0 P1 rows
    | _, _, _, _, _, _, _ => "bad-op"
  | ["fit", maxDepth, minSplit, minLeaf, mwfl, totalN, plan] =>
    match parseInt? maxDepth, parseInt? minSplit, parseInt? minLeaf, parseRat? mwfl, parseInt? totalN,
          (plan.splitOn ";").mapM parsePSpec? with
    | some md, some ms, some ml, some mw, some tn, some specs =>
      match buildPlan (specs.length + 1) specs with
      | some (pl, []) =>
        match fit ⟨md, ms, ml, mw, tn⟩ pl with
        | some (tree, nn) => s!"{nn}|{";".intercalate ((nodes tree).map showNode)}"
        | none => "none"
      | _ => "bad-op"
    | _, _, _, _, _, _ => "bad-op"
  | _ => "bad-op"

def main : IO Unit := loop step
