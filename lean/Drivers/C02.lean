import MlVerif.Model.Proto
import MlVerif.Gen.C02
import MlVerif.Model.Lifecycle
open MlVerif MlVerif.Proto MlVerif.Lifecycle MlVerif.Lifecycle.Trace

/-- `P3` / `A5` / `D2` -/
def parseEv (s : String) : Option Ev :=
  match s.toList with
  | 'P' :: r => (String.ofList r).toNat?.map Ev.P
  | 'A' :: r => (String.ofList r).toNat?.map Ev.A
  | 'D' :: r => (String.ofList r).toNat?.map Ev.D
  | _ => none

/-- `trace <method index> <events | ->` : can the regenerated skeleton of that method emit the observed
sequence of assignments?  Output: `accept` / `reject` / `bad-op`. -/
def step : List String → String
  | ["trace", idx, evs] =>
    match idx.toNat?, (if evs == "-" then some [] else (evs.splitOn ",").mapM parseEv) with
    | some i, some es =>
      match Gen.C02.methods[i]? with
      | some m => if accepts m.traceProg es then "accept" else "reject"
      | none => "bad-op"
    | _, _ => "bad-op"
  | _ => "bad-op"

def main : IO Unit := loop step
