import MlVerif.Model.Proto
import MlVerif.Gen.C11
import MlVerif.Model.Poly
import MlVerif.Model.Itertools
open MlVerif MlVerif.Proto MlVerif.Poly MlVerif.Itertools

def parseBool? (s : String) : Option Bool :=
  if s == "1" then some true else if s == "0" then some false else none

def showMonos (o : Option (List Mono)) : String :=
  match o with
  | none => "none"
  | some l => if l.isEmpty then "[]" else ";".intercalate (l.map (showList toString))

def step : List String → String
  | ["iall", n, d, b] =>
    match parseNat? n, parseNat? d, parseBool? b with
    | some n, some d, some b => showMonos (transformIall monoOps n d b)
    | _, _, _ => "bad-op"
  | ["ionly", n, d, b] =>
    match parseNat? n, parseNat? d, parseBool? b with
    | some n, some d, some b => showMonos (transformIonly monoOps n d b)
    | _, _, _ => "bad-op"
  | ["namesraw", n, d, io, b] =>
    match parseNat? n, parseNat? d, parseBool? io, parseBool? b with
    | some n, some d, some io, some b => showMonos (namesRaw monoOps n d io b)
    | _, _, _, _ => "bad-op"
  | ["slow", n, d, io, b] =>
    match parseNat? n, parseNat? d, parseBool? io, parseBool? b with
    | some n, some d, some io, some b => showMonos (combinationsPoly n d io b)
    | _, _, _, _ => "bad-op"
  | ["spec", n, d, io, b] =>
    match parseNat? n, parseNat? d, parseBool? io, parseBool? b with
    | some n, some d, some io, some b => showMonos (some (polySpec n d io b))
    | _, _, _, _ => "bad-op"
  -- the transcription of scikit-learn's `_combinations(n, 0, degree, io, bias)` over the itertools transcriptions
  | ["sklearn", n, d, io, b] =>
    match parseNat? n, parseNat? d, parseBool? io, parseBool? b with
    | some n, some d, some io, some b => showMonos (sklearnCombinations n d io b)
    | _, _, _, _ => "bad-op"
  -- `_combinations(n, min_degree, max_degree, io, bias)`
  | ["sklearnmm", n, lo, hi, io, b] =>
    match parseNat? n, parseNat? lo, parseNat? hi, parseBool? io, parseBool? b with
    | some n, some lo, some hi, some io, some b => showMonos (sklearnCombinationsMinMax n lo hi io b)
    | _, _, _, _, _ => "bad-op"
  -- `itertools.combinations(pool, r)` / `combinations_with_replacement(pool, r)` on an explicit pool
  | ["itcomb", pool, r] =>
    match parseNats? pool, parseNat? r with
    | some pool, some r => showMonos (combinations pool r)
    | _, _ => "bad-op"
  | ["itcwr", pool, r] =>
    match parseNats? pool, parseNat? r with
    | some pool, some r => showMonos (combinationsWithReplacement pool r)
    | _, _ => "bad-op"
  | ["names", n, d, io, b, feats] =>
    match parseNat? n, parseNat? d, parseBool? io, parseBool? b with
    | some n, some d, some io, some b =>
      let fs := if feats == "-" then [] else feats.splitOn ","
      if fs.length ≠ n then "bad-op" else
      match featureNamesPoly (fun i => fs.getD i "?") n d io b with
      | none => "none"
      | some l => if l.isEmpty then "-" else "|".intercalate l
    | _, _, _, _ => "bad-op"
  | ["vals", n, d, io, b, xs] =>
    match parseNat? n, parseNat? d, parseBool? io, parseBool? b, parseInts? xs with
    | some n, some d, some io, some b, some xs =>
      if xs.length ≠ n then "bad-op" else
      match transformPoly (valOps (fun a b : Int => a * b) 1 (fun i => xs.getD i 0)) n d io b with
      | none => "none"
      | some l => showInts l
    | _, _, _, _, _ => "bad-op"
  | _ => "bad-op"

def main : IO Unit := loop step
