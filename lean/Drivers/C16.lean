import MlVerif.Model.Proto
import MlVerif.Gen.C16
import MlVerif.Model.Pipeline
open MlVerif MlVerif.Proto MlVerif.Pipeline

def kind? : String → Option Kind
  | "T" => some .transformer | "C" => some .classifier | "R" => some .regressor | "B" => some .other
  | _ => none

def cols? (s : String) : Option Cols :=
  if s.startsWith "n:" then
    let body := (s.drop 2).toString
    some (.names (if body == "-" then [] else body.splitOn ","))
  else if s.startsWith "i:" then
    ((s.drop 2).toString.splitOn ",").mapM String.toNat? |>.map .ints
  else none

mutual
partial def parsePipe : List String → Option (Pipe × List String)
  | "E" :: k :: cls :: rest => (kind? k).map (fun k => (.est k cls, rest))
  | "I" :: rest => some (.passthrough, rest)
  | "D" :: rest => some (.drop, rest)
  | "P" :: n :: rest => do
    let (l, r) ← parseMany (← n.toNat?) rest
    some (.pipeline l, r)
  | "U" :: n :: rest => do
    let (l, r) ← parseMany (← n.toNat?) rest
    some (.union l, r)
  | "C" :: rem :: n :: rest => do
    let rem ← (if rem == "drop" then some Remainder.drop else if rem == "passthrough" then some .passthrough else none)
    let (l, r) ← parseCols (← n.toNat?) rest
    some (.columns l rem, r)
  | _ => none
partial def parseMany : Nat → List String → Option (List Pipe × List String)
  | 0, rest => some ([], rest)
  | n + 1, rest => do
    let (p, r) ← parsePipe rest
    let (ps, r') ← parseMany n r
    some (p :: ps, r')
partial def parseCols : Nat → List String → Option (List (Pipe × Cols) × List String)
  | 0, rest => some ([], rest)
  | n + 1, c :: rest => do
    let c ← cols? c
    let (p, r) ← parsePipe rest
    let (ps, r') ← parseCols n r
    some ((p, c) :: ps, r')
  | _, _ => none
end

def parseWhole (toks : List String) : Option Pipe :=
  match parsePipe toks with
  | some (p, []) => some p
  | _ => none

def showCoord (c : List Nat) : String := ".".intercalate (c.map toString)

def showCols : Option Cols → String
  | none => "-"
  | some (.names l) => "n=" ++ ",".intercalate l
  | some (.ints l) => "i=" ++ ",".intercalate (l.map toString)

def showEntry (e : Entry) : String := s!"{showCoord e.coord}:{e.label}:{showCols e.cols}"

def showStep (s : Step) : String :=
  let ins := if s.ins.isEmpty then "-" else ",".intercalate (s.ins.map Src.text)
  let outs := if s.outs.isEmpty then "-" else ",".intercalate (s.outs.map (portText s.idx))
  s!"node{s.idx}={s.label}~{s.color}~{ins}~sch{s.idx}={"|".intercalate s.ports}~{outs}"

def showDot (g : Dot) : String :=
  " ; ".intercalate (("sch0=" ++ "|".intercalate g.inputs) :: g.steps.map showStep)

def showTable (t : Table) : String := showMat toString t.rows

def step : List String → String
  | "enum" :: toks =>
    match parseWhole toks with
    | none => "bad-op"
    | some p => match enumerateE p with
      | .error e => e.name
      | .ok l => ";".intercalate (l.map showEntry)
  | "str" :: toks =>
    match parseWhole toks with
    | none => "bad-op"
    | some p => if p.supported then "|".intercalate (pipeline2strLines p) else Err.typeError.name
  | "dot" :: schema :: toks =>
    match parseWhole toks with
    | none => "bad-op"
    | some p => match pipeline2dot p (if schema == "-" then [] else schema.splitOn ",") with
      | .error e => e.name
      | .ok g => showDot g
  | "dothyp" :: schema :: toks =>
    match parseWhole toks with
    | none => "bad-op"
    | some p => match pipeline2dot p (if schema == "-" then [] else schema.splitOn ",") with
      | .error e => e.name
      | .ok g =>
        let lastFed := match g.steps.getLast? with | some s => !s.ins.isEmpty | none => false
        s!"wellFed={g.wellFed} lastFed={lastFed}"
  | "run" :: names :: mat :: toks =>
    match parseWhole toks, parseMat? parseInt? mat with
    | some p, some rows =>
      let t : Table := ⟨if names == "-" then none else some (names.splitOn ","), rows⟩
      let r := runI tableSem p Gen.C16.rootCoord t
      let plain := run tableSem p t
      let same := if showTable plain == showTable r.1 then "same" else "DIFFERENT"
      s!"{same} {showTable r.1} " ++ ";".intercalate (r.2.map (fun rc => s!"{showCoord rc.coord}:{showTable rc.inp}>{showTable rc.out}"))
    | _, _ => "bad-op"
  | _ => "bad-op"

def main : IO Unit := loop step
