import MlVerif.Model.Proto
import MlVerif.Gen.C05
import MlVerif.Model.Quantile
open MlVerif MlVerif.Proto MlVerif.Quantile

def parseBool? (s : String) : Option Bool :=
  if s == "1" then some true else if s == "0" then some false else none

def mkObs : List Rat → List Rat → List Rat → Option (List (Obs Rat))
  | [], [], [] => some []
  | y :: ys, f :: fs, w :: ws => (mkObs ys fs ws).map (fun t => ⟨y, f, w⟩ :: t)
  | _, _, _ => none

def step : List String → String
  -- _epsilon(y_true, y_pred, quantile, sample_weight): "eps q y_true y_pred w|none"
  | ["eps", q, yt, yp, w] =>
    match parseRat? q, parseRats? yt, parseRats? yp with
    | some q, some yt, some yp =>
      let wv : Option (Option (List Rat)) := if w == "none" then some none else (parseRats? w).map some
      match wv with
      | none => "bad-op"
      | some wv =>
        let wlen : Nat := match wv with
          | some w => w.length
          | none => yt.length
        if yt.length ≠ yp.length ∨ wlen ≠ yt.length then "bad-op"
        else
          let ws : List (Option Rat) := match wv with
            | some w => w.map some
            | none => yt.map (fun _ => none)
          let rows := (ws.zip (yt.zip yp)).map (fun p => epsilonRow q p.1 p.2.1 p.2.2)
          let ms := rows.map (·.2)
          let mtxt := if ms.all (·.isSome) && !ms.isEmpty then showRats (ms.filterMap id)
            else if ms.all (·.isNone) then "none" else "mixed"
          s!"{showRats (rows.map (·.1))}|{mtxt}"
    | _, _, _ => "bad-op"
  -- score: "score q weighted(0/1) y f w"
  | ["score", q, wt, y, f, w] =>
    match parseRat? q, parseBool? wt, parseRats? y, parseRats? f, parseRats? w with
    | some q, some wt, some y, some f, some w =>
      match mkObs y f w with
      | some obs => match score q wt obs with
        | some s => showRat s
        | none => "nonfinite"
      | none => "bad-op"
    | _, _, _, _, _ => "bad-op"
  -- design matrix: "design fi X"
  | ["design", fi, x] =>
    match parseBool? fi, parseMat? parseRat? x with
    | some fi, some X => showMat showRat (X.map (designRow fi))
    | _, _ => "bad-op"
  -- the IRLS loop: "irls q delta fi weighted maxIter X y sw betas"
  | ["irls", q, delta, fi, wt, mi, x, y, sw, betas] =>
    match parseRat? q, parseRat? delta, parseBool? fi, parseBool? wt, parseNat? mi with
    | some q, some delta, some fi, some wt, some mi =>
      match parseMat? parseRat? x, parseRats? y, parseRats? sw, parseMat? parseRat? betas with
      | some X, some y, some sw, some betas =>
        if X.length ≠ y.length ∨ sw.length ≠ y.length then "bad-op" else
        match irls q delta fi wt mi X y sw betas with
        | .ok t =>
          let (coef, icpt) := finish fi t.beta
          s!"{t.nIter}|{showRats coef}|{showRat icpt}|{showRats t.es}|{showMat showRat t.ws}"
        | .error e => e
      | _, _, _, _ => "bad-op"
    | _, _, _, _, _ => "bad-op"
  | _ => "bad-op"

def main : IO Unit := loop step
