import MlVerif.Model.Proto
import MlVerif.Model.FctTable
import MlVerif.Gen.C13
import MlVerif.Model.Perm
open MlVerif MlVerif.Proto MlVerif.FctTable MlVerif.Perm

/-- labels on the wire: `n:<rational>` (ints and floats), `s:<string>`; `nan` is NaN -/
inductive Lab where
  | num (r : Rat)
  | str (s : String)
deriving DecidableEq

/-- numpy's order inside one array (one kind of label per array) -/
def Lab.le : Lab → Lab → Bool
  | .num a, .num b => decide (a ≤ b)
  | .str a, .str b => decide (a ≤ b)
  | .num _, .str _ => true
  | .str _, .num _ => false

def Lab.show : Lab → String
  | .num r => "n:" ++ showRat r
  | .str s => "s:" ++ s

def parseLab? (t : String) : Option Lab :=
  match t.splitOn ":" with
  | ["n", r] => (parseRat? r).map Lab.num
  | ["s", x] => some (Lab.str x)
  | _ => none

/-- a cell of a float array: `nan` or a label -/
def parseCell? (t : String) : Option (Option Lab) :=
  if t == "nan" then some none else (parseLab? t).map some

def parseOptNat? (t : String) : Option (Option Nat) :=
  if t == "nan" then some none else (parseNat? t).map some

def showOptLab : Option Lab → String
  | none => "nan"
  | some l => l.show

def showOptNat : Option Nat → String
  | none => "nan"
  | some n => toString n

def showE {α} (f : α → String) : Except Err α → String
  | .ok a => f a
  | .error e => e.show

def showFwd (d : Dict Lab Nat) : String := showList (fun p => p.1.show ++ "=" ++ toString p.2) d
def showInv (d : Dict Nat Lab) : String := showList (fun p => toString p.1 ++ "=" ++ p.2.show) d

def showEntry (t : Table) (e : Entry) : String :=
  let gi := match fctGetInv t e.name with
    | some (n, g, gi) => n ++ "|" ++ showChain g ++ "|" ++ gi
    | none => "none|none|none"
  let rc := match regressorChains t e.name with
    | some (f, g) => showChain f ++ "|" ++ showChain g
    | none => "none|none"
  e.name ++ "|" ++ showChain e.fct ++ "|" ++ e.inv ++ "|" ++ gi ++ "|" ++ rc

/-- `closest=True`: the search used by the driver — numeric labels by absolute difference, first
best key in dictionary order (the real `_find_closest` refuses string labels) -/
def labCloser (u k best : Lab) : Bool :=
  match u, k, best with
  | .num u, .num k, .num b => decide ((k - u) * (k - u) < (b - u) * (b - u))
  | _, _, _ => false

def nearLab {β : Type} (d : Dict Lab β) (u : Lab) : Lab := nearest labCloser d u
def nearNat (d : Dict Nat Lab) (u : Nat) : Nat :=
  nearest (fun u k best => decide (((k : Int) - u).natAbs < ((best : Int) - u).natAbs)) d u

/-- `perm` (closest=False) and `permc` (closest=True) -/
def permStep (closest : Bool) (kind y lin q : String) : String :=
    match parseNats? lin with
    | none => "bad-op"
    | some lin =>
      if kind == "F" then
        match parseList? parseCell? y, parseList? parseCell? q with
        | some y, some q =>
          match fit y lin with
          | .error e => e.show
          | .ok fwd =>
            let inv := getFctInv fwd
            let qT := if closest then transformLabelsC nearLab fwd q else transformLabels fwd q
            let back := match qT with
              | .ok t => showE (showList showOptLab)
                  (if closest then transformLabelsC nearNat inv t else transformLabels inv t)
              | .error _ => "-"
            s!"{showFwd fwd}|{showE (showList showOptNat) qT}|{showInv inv}|{back}"
        | _, _ => "bad-op"
      else if kind == "P" then
        match parseList? parseLab? y, parseList? parseLab? q with
        | some y, some q =>
          match fit (y.map some) lin with
          | .error e => e.show
          | .ok fwd =>
            let inv := getFctInv fwd
            let qT := if closest then transformPlainC nearLab fwd q else transformPlain fwd q
            let back := match qT with
              | .ok t => showE (showList Lab.show)
                  (if closest then transformPlainC nearNat inv t else transformPlain inv t)
              | .error _ => "-"
            s!"{showFwd fwd}|{showE showNats qT}|{showInv inv}|{back}"
        | _, _ => "bad-op"
      else "bad-op"

def step : List String → String
  | ["table"] => ";".intercalate (Gen.C13.table.map (showEntry Gen.C13.table))
  -- perm F <y> <lin> <q>: float arrays (NaN allowed); perm P <y> <lin> <q>: integer / string arrays
  | ["perm", kind, y, lin, q] => permStep false kind y lin q
  -- the same with closest=True (the transformer and the one returned by get_fct_inv)
  | ["permc", kind, y, lin, q] => permStep true kind y lin q
  -- clf <ys> <lin> <inner classes_> <inner predict> <inner predict_proba (opaque cells)>
  | ["clf", ys, lin, icls, ipred, iproba] =>
    match parseList? parseLab? ys, parseNats? lin, parseNats? icls, parseNats? ipred,
        parseMat? (fun s => some s) iproba with
    | some ys, some lin, some icls, some ipred, some iproba =>
      match fit (ys.map some) lin with
      | .error e => e.show
      | .ok fwd =>
        let inv := getFctInv fwd
        let p := showE (showList Lab.show) (predict inv ipred)
        let pp := showE (showMat id) (predictProba Lab.le inv iproba)
        let c := showE (showList Lab.show) (classes Lab.le inv icls)
        let cu := showE (showList Lab.show) (classesUnsorted inv icls)
        s!"{p}|{pp}|{c}|{cu}"
    | _, _, _, _, _ => "bad-op"
  | _ => "bad-op"

def main : IO Unit := loop step
