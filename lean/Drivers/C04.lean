import MlVerif.Model.Proto
import MlVerif.Model.RowWise
open MlVerif MlVerif.Proto MlVerif.RowWise

/-- one node line `idx:above:below` (-1 = None) -/
def parseNode? (s : String) : Option (Nat × Int × Int) :=
  match s.splitOn ":" with
  | [a, b, c] => do let i ← a.toNat?; let x ← b.toInt?; let y ← c.toInt?; pure (i, x, y)
  | _ => none

def parseCell? (s : String) : Option (Option Rat) :=
  if s == "x" then some none else (parseRat? s).map some

/-- build the node tree from the index table; `tab[node][row]` = recorded P(class 1) or none.
A missing entry (row never evaluated at this node by the real code) yields provenance 1000000+idx. -/
def build (nodes : List (Nat × Int × Int)) (thr : List Rat) (tab : List (List (Option Rat))) :
    Nat → Int → DT Nat (Nat × Rat)
  | 0, _ => .nil
  | fuel + 1, idx =>
    if idx < 0 then .nil else
    match nodes.find? (fun n => (n.1 : Int) == idx) with
    | none => .nil
    | some (i, a, b) =>
      let row := tab.getD i []
      let t := thr.getD i 0
      .node (fun rows => rows.map (fun r => match row.getD r none with
          | some p => (i, p)
          | none => (1000000 + i, 0)))
        (fun v => decide (v.2 > t)) (build nodes thr tab fuel a) (build nodes thr tab fuel b)

def step : List String → String
  | ["dt", nodes, thr, tab, n] =>
    match parseList? parseNode? nodes, parseRats? thr, parseMat? parseCell? tab, n.toNat? with
    | some nodes, some thr, some tab, some n =>
      let T := build nodes thr tab (nodes.length + 1) 0
      if T.isNode then showNats ((T.predict (List.range n)).map (·.1)) else "bad-op"
    | _, _, _, _ => "bad-op"
  | ["pleaves", li, paths] =>
    match parseNats? li, parseMat? parseNat? paths with
    | some li, some paths => showNats (predictLeaves li paths)
    | _, _ => "bad-op"
  | ["lookup", xs, leaves] =>
    match parseNats? xs, parseNats? leaves with
    | some xs, some lv =>
      match lookupLoop (fun x li => x * 1000 + li) xs lv (xs.map fun _ => 0) with
      | some out => showNats out
      | none => "IndexError"
    | _, _ => "bad-op"
  | ["gather", xs, idx] =>
    match parseInts? xs, parseNats? idx with
    | some xs, some idx => showInts (gather xs idx)
    | _, _ => "bad-op"
  | _ => "bad-op"

def main : IO Unit := loop step
