import MlVerif.Model.Proto
import MlVerif.Gen.C15
import MlVerif.Model.Wrappers
open MlVerif MlVerif.Proto MlVerif.Wrappers MlVerif.Gen.C15

/-! Line protocol of C15.  `scn <tok|tok|...>`: a scenario = object constructions and operations in order, on an
initially empty store; output = one result per token group joined by " ## ".
  M|cls|caps|fitY|fitW|a                 new recording model (caps comma separated or -)
  NL|model|spec                          SkBaseTransformLearner(model, method)      spec: - | n:<name> | c:<tag>
  NS|n|id..|method                       SkBaseTransformStacking([..], method)
  NT|est|spec|copy|trainable             TransferTransformer(est, method, copy_estimator, trainable)
  LF|id|X|y|kw  LT|id|X  LM|id|new       learner fit / transform / set_params(model=new)
  SF|id|X|y|kw  ST|id|X                  stacking fit / transform
  TF|id|X|y|w   TT|id|X                  transfer fit / transform
X: rows `;` ints `,`; y,w: `none` or ints; kw: `-` or name=ints&name=ints -/

def parseOptVec (s : String) : Option (Option Vec) :=
  if s == "none" then some none else (parseInts? s).map some

def parseKw (s : String) : Option (List (String × Vec)) :=
  if s == "-" then some [] else
  (s.splitOn "&").mapM (fun item => match item.splitOn "=" with
    | [k, v] => (parseInts? v).map (fun v => (k, v))
    | _ => none)

def showOut : Out → String
  | .vec v => "v:" ++ showInts v
  | .mat m => "m:" ++ showMat toString m

def showErr : Err → String
  | .attribute => "AttributeError" | .value => "ValueError" | .type => "TypeError"
  | .assertion => "AssertionError" | .notFitted => "AttributeError" | .missing => "Missing"

def showCall (c : FitCall) : String :=
  "X=" ++ showMat toString c.X ++ "/y=" ++ (match c.y with | none => "none" | some y => showInts y) ++
  "/yk=" ++ (if c.yKeyword then "1" else "0") ++ "/kw=" ++
  (if c.kw.isEmpty then "-" else "&".intercalate (c.kw.map (fun kv => kv.1 ++ "=" ++ showInts kv.2)))

def snapshot (st : Store) : String :=
  let ms := st.objs.filterMap (fun io => match io.2 with
    | .model r => some (io.1, r)
    | _ => none)
  let ms := (ms.toArray.qsort (fun a b => a.1 < b.1)).toList
  " ".intercalate (ms.map (fun ir => s!"{ir.1}:{ir.2.cls}:{ir.2.a}:[" ++ " , ".intercalate (ir.2.fits.map showCall) ++ "]"))

def capsOf (st : Store) (id : Nat) : Option (List String) :=
  match st.get id with
  | some (.model r) => some r.caps
  | _ => none

def parseSpec (s : String) : Option (Option MethodSel) :=
  if s == "-" then some none
  else if s.startsWith "n:" then some (some (.name (s.drop 2).toString))
  else if s.startsWith "c:" then some (some (.callable (s.drop 2).toString))
  else none

partial def runScn (st : Store) : List String → List String
  | [] => []
  | "M" :: cls :: caps :: fy :: fw :: a :: rest =>
    match a.toInt? with
    | some a =>
      let caps := if caps == "-" then [] else caps.splitOn ","
      let (st', id) := st.alloc (.model { cls := cls, caps := caps, fitY := fy == "1", fitW := fw == "1", a := a, fits := [] })
      s!"new {id}" :: runScn st' rest
    | none => ["bad-op"]
  | "NL" :: m :: spec :: rest =>
    match m.toNat?, parseSpec spec with
    | some m, some sel =>
      let resolved : Except String MethodSel := match sel with
        | some (.name n) => match resolveMethod n with
            | some attr => match capsOf st m with
                | some caps => if caps.contains attr then .ok (.name n) else .error "AttributeError"
                | none => .error "Missing"
            | none => .error "ValueError"
        | some (.callable t) => .ok (.callable t)
        | none => match capsOf st m with
            | some caps => match learnerDefault caps with
                | some n => .ok (.name n)
                | none => .error "ValueError"
            | none => .error "Missing"
      match resolved with
      | .ok sel =>
        let (st', id) := st.alloc (.learner m sel m)
        let nm := match sel with | .name n => "n:" ++ n | .callable t => "c:" ++ t
        s!"new {id} {nm}" :: runScn st' rest
      | .error e => s!"err {e}" :: runScn st rest
    | _, _ => ["bad-op"]
  | "NS" :: n :: rest =>
    match n.toNat? with
    | some n =>
      match (rest.take n).mapM String.toNat?, rest.drop n with
      | some ids, method :: rest' =>
        match stackingBuild st ids method with
        | .ok (st', id) =>
          let ms := match st'.get id with | some (.stacking ms) => ms | _ => []
          s!"new {id} members={showNats ms}" :: runScn st' rest'
        | .error e => s!"err {showErr e}" :: runScn st rest'
      | _, _ => ["bad-op"]
    | none => ["bad-op"]
  | "NT" :: e :: spec :: cp :: tr :: rest =>
    match e.toNat?, parseSpec spec with
    | some e, some sel =>
      let meth : Except String String := match sel with
        | some (.name n) => match capsOf st e with
            | some caps => if caps.contains n then .ok n else .error "AssertionError"
            | none => .error "Missing"
        | some (.callable _) => .error "TypeError"
        | none => match capsOf st e with
            | some caps => match transferDefault caps with
                | some n => .ok n
                | none => .error "AttributeError"
            | none => .error "Missing"
      match meth with
      | .ok m =>
        let (st', id) := st.alloc (.transfer e m (cp == "1") (tr == "1") none)
        s!"new {id} {m}" :: runScn st' rest
      | .error e => s!"err {e}" :: runScn st rest
    | _, _ => ["bad-op"]
  | op :: args =>
    let fin := fun (st' : Store) (r : Except Err (Option Out)) (rest : List String) =>
      ((match r with
        | .ok none => "ok"
        | .ok (some o) => showOut o
        | .error e => "err " ++ showErr e) ++ " # " ++ snapshot st') :: runScn st' rest
    match op, args with
    | "LF", id :: x :: y :: kw :: rest =>
      match id.toNat?, parseMat? parseInt? x, parseOptVec y, parseKw kw with
      | some id, some X, some y, some kw => let r := step stdBeh st (.lFit id X y kw); fin r.1 r.2 rest
      | _, _, _, _ => ["bad-op"]
    | "SF", id :: x :: y :: kw :: rest =>
      match id.toNat?, parseMat? parseInt? x, parseOptVec y, parseKw kw with
      | some id, some X, some y, some kw => let r := step stdBeh st (.sFit id X y kw); fin r.1 r.2 rest
      | _, _, _, _ => ["bad-op"]
    | "TF", id :: x :: y :: w :: rest =>
      match id.toNat?, parseMat? parseInt? x, parseOptVec y, parseOptVec w with
      | some id, some X, some y, some w => let r := step stdBeh st (.tFit id X y w); fin r.1 r.2 rest
      | _, _, _, _ => ["bad-op"]
    | "LT", id :: x :: rest =>
      match id.toNat?, parseMat? parseInt? x with
      | some id, some X => let r := step stdBeh st (.lTransform id X); fin r.1 r.2 rest
      | _, _ => ["bad-op"]
    | "ST", id :: x :: rest =>
      match id.toNat?, parseMat? parseInt? x with
      | some id, some X => let r := step stdBeh st (.sTransform id X); fin r.1 r.2 rest
      | _, _ => ["bad-op"]
    | "TT", id :: x :: rest =>
      match id.toNat?, parseMat? parseInt? x with
      | some id, some X => let r := step stdBeh st (.tTransform id X); fin r.1 r.2 rest
      | _, _ => ["bad-op"]
    | "MF", id :: x :: y :: yk :: kw :: rest =>
      match id.toNat?, parseMat? parseInt? x, parseOptVec y, parseKw kw with
      | some id, some X, some y, some kw =>
        match fitModel st id { X := X, y := y, yKeyword := yk == "1", kw := kw } with
        | .ok st' => fin st' (.ok none) rest
        | .error e => fin st (.error e) rest
      | _, _, _, _ => ["bad-op"]
    | "LM", id :: new :: rest =>
      match id.toNat?, new.toNat? with
      | some id, some new => let r := step stdBeh st (.lSetModel id new); fin r.1 r.2 rest
      | _, _ => ["bad-op"]
    | _, _ => ["bad-op"]

def step' : List String → String
  | ["scn", payload] => " ## ".intercalate (runScn { next := 0, objs := [] } (payload.splitOn "|"))
  | ["tables"] =>
    "set_method=" ++ showList (fun p => p.1 ++ ">" ++ p.2) setMethodTable ++
    " learner_default=" ++ showList id learnerDefaultOrder ++ (if learnerDefaultLastWins then "/last" else "/first") ++
    " transfer_default=" ++ showList id transferDefaultOrder
  | _ => "bad-op"

def main : IO Unit := loop step'
