import MlVerif.Model.Proto
import MlVerif.Gen.C14
import MlVerif.Model.NGrams
open MlVerif MlVerif.Proto MlVerif.NGrams MlVerif.Gen.C14

def parseToks (s : String) : List Tok :=
  if s == "-" then [] else (s.splitOn ",").map String.toList

def parseStop (s : String) : Option (Tok → Bool) :=
  if s == "none" then none else
  let l := parseToks s
  some (fun t => l.contains t)

def showStrs (l : List String) : String := if l.isEmpty then "-" else "|".intercalate l

/-- tuples separated by `;`, tokens by `,` (`()` is the empty tuple) -/
def parseTuples (s : String) : List (List Tok) :=
  if s == "-" then [] else (s.splitOn ";").map (fun t => if t == "()" then [] else parseToks t)

def ltB {α} [LT α] [DecidableLT α] (a b : α) : Bool := decide (a < b)

/-- indices that sort `l` increasingly (stable) -/
def sortPerm {α} [LT α] [DecidableLT α] (l : List α) : List Nat :=
  (((List.range l.length).zip l).mergeSort (fun a b => !ltB b.2 a.2)).map (·.1)

def step : List String → String
  | ["ml", stop, minN, maxN, toks] =>
    match parseNat? minN, parseNat? maxN with
    | some a, some b => showStrs ((wordNgramsML (parseStop stop) a b (parseToks toks)).map keyShow)
    | _, _ => "bad-op"
  | ["sk", stop, minN, maxN, toks] =>
    match parseNat? minN, parseNat? maxN with
    | some a, some b => showStrs ((wordNgramsSK (parseStop stop) a b (parseToks toks)).map String.ofList)
    | _, _ => "bad-op"
  | ["mljoin", stop, minN, maxN, toks] =>
    match parseNat? minN, parseNat? maxN with
    | some a, some b => showStrs ((wordNgramsML (parseStop stop) a b (parseToks toks)).map
        (fun k => String.ofList (joinKey k)))
    | _, _ => "bad-op"
  | ["order", tuples] =>
    let ts := parseTuples tuples
    s!"{showNats (sortPerm ts)}|{showNats (sortPerm (ts.map join))}"
  | _ => "bad-op"

def main : IO Unit := loop step
