import MlVerif.Model.Proto
import MlVerif.Gen.C09
import MlVerif.Model.Criterion
open MlVerif MlVerif.Proto MlVerif.Criterion MlVerif.Gen.C09

/-
Line protocol (one scenario per line, replayed on a freshly allocated criterion object):

  crit <simple|fast|lin> <n> <nf> <y> <w|none> <samples> <wN> <X|-> <ops>
     ops (comma separated): iA:B init(A,B) · uP update(P) · R reset · V node_value · I node_impurity ·
     C children_impurity · M impurity_improvement at (1,0,0),(0,1,0),(0,0,1) · P proxy (nan/value) ·
     B node_beta (lin only): rank;normal-equations-hold;beta;fitted values A·beta of the packed (weighted) system
  dgelss <row> <col> <A column-major> <B>      -> rank|ne|beta|residual
  fit <nf> <X> <y> <predLeaves> <nLeaves> <Xq> <leavesQ>  -> ranks|predictions
  simple <y> <w|none> <leafOfRow> <nLeaves> <leavesQ>     -> values|predictions
-/

def poison (i : Int) : Rat := ((1000003 + i : Int) : Rat)

/-- a C array: the given cells, anything else is foreign memory -/
def arr (l : List Rat) : Int → Rat := fun i => if i < 0 then poison i else l.getD i.toNat (poison i)
def iarr (l : List Int) : Int → Int := fun i => if i < 0 then 1000003 + i else l.getD i.toNat (1000003 + i)
/-- calloc(size): zeros inside, foreign memory outside -/
def calloc (size : Int) : Buf := fun i => if 0 ≤ i ∧ i < size then 0 else poison i
def mat (rows : List (List Rat)) : Int → Int → Rat :=
  fun i c => if i < 0 ∨ c < 0 then poison (i + c) else
    match rows[i.toNat]? with
    | some r => r.getD c.toNat (poison c)
    | none => poison i

def zeroCore : Core := ⟨0, 0, 0, 0, 0, 0, 0⟩

inductive Obj where
  | simple (s : Simple)
  | fast (s : Fast)
  | lin (s : Linear)

def freshObj (kind : String) (n nf : Int) (X : Int → Int → Rat) : Option Obj :=
  if kind == "simple" then
    some (.simple ⟨zeroCore, fun i => poison i, calloc n, calloc n, fun i => if 0 ≤ i ∧ i < n then 0 else 1000003 + i, 0, 0⟩)
  else if kind == "fast" then
    some (.fast ⟨zeroCore, n, fun i => poison i, calloc n, calloc n, calloc n⟩)
  else if kind == "lin" then
    let nb := nf + 1
    some (.lin { core := zeroCore, nbvar := nb, X := X, y := fun i => poison i,
                 sample_w := calloc n, sample_wy := calloc n, sample_y := calloc n,
                 sample_f := calloc (n * nb), sample_i := fun i => if 0 ≤ i ∧ i < n then 0 else 1000003 + i,
                 sum_wy := 0, sum_w := 0, f_buffer := calloc (n * nb), pC := calloc (max n nb) })
  else none

def junk : Rat := 987654321

def showOptRat : Option Rat → String
  | none => "nan"
  | some r => showRat r

def improvements {σ} (o : Ops σ) (s : σ) : String :=
  showRats [impurityImprovement o s 1 0 0, impurityImprovement o s 0 1 0, impurityImprovement o s 0 0 1]

/-- run one op; returns the new object and an optional output -/
def runOp (d : Data) (o : Obj) (op : String) : Option (Obj × Option String) :=
  let q {σ} (ops : Ops σ) (s : σ) (wrap : σ → Obj) : Option (Obj × Option String) :=
    if op == "R" then some (wrap (reset ops s), none)
    else if op == "V" then some (wrap s, some (showRat (nodeValue ops s junk)))
    else if op == "I" then some (wrap s, some (showRat (nodeImpurity ops s junk)))
    else if op == "C" then
      let c := childrenImpurity ops s junk junk
      some (wrap s, some (showRats [c.1, c.2]))
    else if op == "M" then some (wrap s, some (improvements ops s))
    else if op == "P" then
      let r := proxyImpurityImprovement ops s
      some (wrap r.2, some (showOptRat r.1))
    else if op.startsWith "u" then
      match parseInt? (op.drop 1).toString with
      | some p => some (wrap (update ops s p), none)
      | none => none
    else none
  if op.startsWith "i" then
    match ((op.drop 1).toString.splitOn ":").map parseInt? with
    | [some a, some b] =>
      match o with
      | .simple s => some (.simple (Simple.initWithX s d a b), none)
      | .fast s => some (.fast (Fast.initWithX s d a b), none)
      | .lin s => some (.lin (Linear.initWithX exactSolver s d a b), none)
    | _ => none
  else if op == "B" then
    match o with
    | .lin s =>
      let a := s.core.start
      let b := s.core.stop
      let beta := Linear.nodeBeta exactSolver s
      let rk := (exactLS (b - a) s.nbvar (Linear.pack s a b).1 (b - a) (Linear.rhs s a b)).2
      let ne := normalEqHolds (b - a) s.nbvar (Linear.pack s a b).1 (b - a) (Linear.rhs s a b) beta
      let cols := (List.range s.nbvar.toNat).map (fun (j : Nat) => (j : Int))
      let fitted := (List.range (b - a).toNat).map (fun (t : Nat) =>
        (cols.map (fun j => s.sample_f ((a + t) * s.nbvar + j) * s.sample_w (a + t) * beta j)).sum)
      some (.lin s, some s!"{rk};{if ne then 1 else 0};{showRats (cols.map beta)};{showRats fitted}")
    | _ => none
  else
    match o with
    | .simple s => q Simple.ops s .simple
    | .fast s => q Fast.ops s .fast
    | .lin s => q (Linear.ops exactSolver) s .lin

def runOps (d : Data) : Obj → List String → List String → Option (List String)
  | _, [], acc => some acc.reverse
  | o, op :: rest, acc =>
    match runOp d o op with
    | none => none
    | some (o', none) => runOps d o' rest acc
    | some (o', some out) => runOps d o' rest (out :: acc)

def parseW (w : String) : Option (Option (List Rat)) :=
  if w == "none" then some none else (parseRats? w).map some

def colMajor (l : List Rat) : Buf := arr l

def step : List String → String
  | ["crit", kind, n, nf, y, w, samples, wN, X, ops] =>
    match parseInt? n, parseInt? nf, parseRats? y, parseW w, parseInts? samples, parseRat? wN,
          parseMat? parseRat? X with
    | some n, some nf, some y, some w, some samples, some wN, some X =>
      let d : Data := { y := arr y, sw := w.map arr, samples := iarr samples, wN := wN }
      match freshObj kind n nf (mat X) with
      | none => "bad-op"
      | some o =>
        match runOps d o (ops.splitOn ",") [] with
        | some outs => "|".intercalate outs
        | none => "bad-op"
    | _, _, _, _, _, _, _ => "bad-op"
  | ["dgelss", row, col, A, B] =>
    match parseInt? row, parseInt? col, parseRats? A, parseRats? B with
    | some row, some col, some A, some B =>
      if row ≤ 0 ∨ col ≤ 0 ∨ (A.length : Int) ≠ row * col ∨ (B.length : Int) ≠ row then "bad-op" else
      let r := exactLS row col (arr A) row (arr B)
      let cols := (List.range col.toNat).map (fun (j : Nat) => (j : Int))
      let ne := normalEqHolds row col (arr A) row (arr B) r.1
      s!"{r.2}|{if ne then 1 else 0}|{showRats (cols.map r.1)}|{showRat (lapackResid row col (arr A) row (arr B) r.1)}"
    | _, _, _, _ => "bad-op"
  | ["fit", nf, X, y, pl, nLeaves, Xq, lq] =>
    match parseNat? nf, parseMat? parseRat? X, parseRats? y, parseNats? pl, parseNat? nLeaves,
          parseMat? parseRat? Xq, parseNats? lq with
    | some nf, some X, some y, some pl, some nLeaves, some Xq, some lq =>
      let betas := fitReglin exactSolver nf X y pl nLeaves
      let ranks := (List.range nLeaves).map (fun l =>
        let ind := pl.map (fun k => k == l)
        let rows := maskRows X ind
        let ys := maskRows y ind
        let c := Linear.create exactSolver nf rows ys
        (exactLS (ys.length : Int) c.nbvar (Linear.pack c 0 ys.length).1 (ys.length : Int)
          (Linear.rhs c 0 ys.length)).2)
      s!"{showNats ranks}|{showRats (predictReglin betas lq Xq)}"
    | _, _, _, _, _, _, _ => "bad-op"
  | ["simple", y, w, leafOfRow, nLeaves, lq] =>
    match parseRats? y, parseW w, parseNats? leafOfRow, parseNat? nLeaves, parseNats? lq with
    | some y, some w, some lr, some nLeaves, some lq =>
      let n : Int := y.length
      let values := (List.range nLeaves).map (fun l =>
        let rowsOf : List Int := ((List.range y.length).filter (fun i => lr.getD i nLeaves == l)).map
          (fun (i : Nat) => (i : Int))
        let d : Data := { y := arr y, sw := w.map arr, samples := iarr rowsOf, wN := 0 }
        let fresh : Fast := ⟨zeroCore, n, fun i => poison i, calloc n, calloc n, calloc n⟩
        nodeValue Fast.ops (Fast.initWithX fresh d 0 (rowsOf.length : Int)) junk)
      s!"{showRats values}|{showRats (predictSimple values lq)}"
    | _, _, _, _, _ => "bad-op"
  | _ => "bad-op"

def main : IO Unit := loop step
