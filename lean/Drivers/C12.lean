import MlVerif.Model.Proto
import MlVerif.Gen.C12
import MlVerif.Model.TreeStruct
import MlVerif.Model.Digitize
open MlVerif MlVerif.Proto MlVerif.TreeStruct MlVerif.Digitize

def showErrD : Digitize.Err → String
  | .runtime => "RuntimeError"
  | .assertion => "AssertionError"
  | .index => "IndexError"
  | .notImplemented => "NotImplementedError"
  | .recursion => "RecursionError"
  | .unsupported => "unsupported"

def showErrT : TreeStruct.Err → String
  | .valueError => "ValueError"
  | .indexError => "IndexError"
  | .loops => "loops"

def showOptInt : Option Int → String
  | some v => toString v
  | none => "nan"

def showOptRat : Option Rat → String
  | some v => showRat v
  | none => "nan"

def showTree (a : ATree × List (Option Int)) : String :=
  let t := a.1
  s!"{showInts (t.map (·.left))}|{showInts (t.map (·.right))}|{showInts (t.map (·.feature))}|{showRats (t.map (·.threshold))}|{showList showOptInt a.2}"

def parseTree? (cl cr fe th : String) : Option ATree := do
  let cl ← parseInts? cl
  let cr ← parseInts? cr
  let fe ← parseInts? fe
  let th ← parseRats? th
  ofArrays cl cr fe th

def parseBool? : String → Option Bool
  | "1" => some true
  | "0" => some false
  | _ => none

def showBox (b : List Row) : String :=
  if b.isEmpty then "-" else ";".intercalate (b.map fun r => s!"{showOptRat r.1},{showOptRat r.2}")

def step : List String → String
  -- digitize2tree(bins, right): arrays of the built tree + predictions for the query values
  | ["digitize", bins, right, xs] =>
    match parseRats? bins, parseBool? right, parseRats? xs with
    | some bins, some right, some xs =>
      match digitize2tree bins right with
      | .error e => s!"error:{showErrD e}"
      | .ok T =>
        let a := toArrays T
        let preds := xs.map (fun x => showOptInt (predictArrays a x))
        let evals := xs.map (fun x => toString (T.eval x))
        s!"{showTree a}|{",".intercalate preds}|{",".intercalate evals}"
    | _, _, _ => "bad-op"
  -- tree utilities on a scikit-learn tree: wf, leaves, parents, then per point apply / predict_leaves / path
  | ["tree", d, cl, cr, fe, th, pts] =>
    match parseNat? d, parseTree? cl cr fe th, parseMat? parseRat? pts with
    | some d, some t, some X =>
      let wf := if wfb t d then "wf" else "not-wf"
      let leaves := showNats (treeLeaveIndex t)
      let par := treeNodeParents t
      let keys := ((List.range t.length).map (fun (k : Nat) => (k : Int))).filter (fun k => (dictGet par k).isSome)
      let pars := showList (fun k => s!"{k}:{showOptInt (dictGet par k)}") keys
      let ap := showList (fun x => showOpt toString (TreeStruct.apply t x)) X
      let pl := showOpt showNats (predictLeaves t X)
      let dp := if X.isEmpty then "-" else ";".intercalate (X.map fun x => showOpt showNats (decisionPath t x))
      s!"{wf}|{leaves}|{pars}|{ap}|{pl}|{dp}"
    | _, _, _ => "bad-op"
  -- tree_node_range(tree, i) + tree_find_path_to_root + membership of the points in the box
  | ["range", d, cl, cr, fe, th, i, pts] =>
    match parseNat? d, parseTree? cl cr fe th, parseNat? i, parseMat? parseRat? pts with
    | some d, some t, some i, some X =>
      let path := showOpt showNats (treeFindPathToRoot (treeNodeParents t) i)
      match treeNodeRange t d i with
      | .error e => s!"{path}|error:{showErrT e}|-"
      | .ok box =>
        let ins := showList (fun x => if inBoxB box x then "1" else "0") X
        s!"{path}|{showBox box}|{ins}"
    | _, _, _, _ => "bad-op"
  | _ => "bad-op"

def main : IO Unit := loop step
