import MlVerif.Model.Proto
import MlVerif.Gen.C20
import MlVerif.Model.TimeSeries
open MlVerif MlVerif.Proto MlVerif.TimeSeries

def showCell : Cell → String
  | none => "nan"
  | some v => toString v

def showTable (T : Table) : String :=
  showMat showCell ((List.range T.rows).map T.row)

def showErr : Err → String
  | .valueError => "ValueError"
  | .indexError => "IndexError"
  | .assertionError => "AssertionError"
  | .attributeError => "AttributeError"

def parseOptRat? (s : String) : Option (Option Rat) :=
  if s == "nan" then some none else (parseRat? s).map some

/-- `none` or `<ncol>:<rows>` -/
def parseX? (s : String) : Option (Option (List (List Int)) × Nat) :=
  if s == "none" then some (none, 0) else
  match s.splitOn ":" with
  | [c, m] => do
    let c ← parseNat? c
    let M ← parseMat? parseInt? m
    some (some M, c)
  | _ => none

def parseOptInts? (s : String) : Option (Option (List Int)) :=
  if s == "none" then some none else (parseInts? s).map some

def step : List String → String
  | ["build", same, past, d1, d2, x, y, w] =>
    match parseNat? same, parseInt? past, parseInt? d1, parseInt? d2, parseX? x, parseInts? y, parseOptInts? w with
    | some same, some past, some d1, some d2, some (X, ncol), some y, some w =>
      if same > 1 then "bad-op" else
      match buildTsXy (if same = 1 then sameB else plainB) X ncol y w past d1 d2 with
      | .error e => showErr e
      | .ok (TX, TY, W) => s!"ok|{showTable TX}|{showTable TY}|{showOpt showInts W}"
    | _, _, _, _, _, _, _ => "bad-op"
  | ["mape", e, p, w] =>
    let wv : Option (Option (List Rat)) := if w == "none" then some none else (parseRats? w).map some
    match parseRats? e, parseList? parseOptRat? p, wv with
    | some e, some p, some w =>
      match tsMape e p w with
      | .num q => s!"num {showRat q}"
      | .inf => "inf"
      | .masked => "masked"
      | .err er => s!"err:{showErr er}"
    | _, _, _ => "bad-op"
  | _ => "bad-op"

def main : IO Unit := loop step
