import MlVerif.Model.Proto
import MlVerif.Gen.C07
import MlVerif.Model.Balance
open MlVerif MlVerif.Proto MlVerif.Balance

def arrOf {α} (l : List α) (d : α) : Arr α :=
  let A := l.toArray
  { get := fun i => A.getD i d, size := A.size }

def matOf (m : List (List Int)) : Mat :=
  arrOf (m.map (fun r => arrOf r 0)) (arrOf [] 0)

def showLab (n : Nat) (lab : Arr Nat) : String := showNats ((List.range n).map lab.get)

/-- is `order` a permutation of `range m` along which `w` is non-decreasing? -/
def isArgsort (m : Nat) (w : Nat → Int) (order : List Nat) : Bool :=
  order.length == m && order.all (· < m) && order.eraseDups.length == m &&
  (order.zip (order.drop 1)).all (fun p => decide (w p.1 ≤ w p.2))

def b2s (b : Bool) : String := if b then "1" else "0"

def step : List String → String
  | ["limits", n, k] =>
    match parseInt? n, parseInt? k with
    | some n, some k =>
      s!"{Gen.C07.limit n k} {Gen.C07.leftover n k} {Gen.C07.limitP n k} {Gen.C07.leftoverP n k}"
    | _, _ => "bad-op"
  | ["predictpath", w, b] =>
    match parseNat? w, parseNat? b with
    | some w, some b => toString (Gen.C07.predictPath (w != 0) (b != 0))
    | _, _ => "bad-op"
  | ["dist", which, n, k, d, prefs, orders, rands, eps, perm] =>
    match parseNat? n, parseNat? k, parseMat? parseInt? d, parseMat? parseNat? prefs,
          parseMat? parseNat? orders, parseMat? parseRat? rands, parseRat? eps, parseNats? perm with
    | some n, some k, some d, some prefs, some orders, some rands, some eps, some perm =>
      if orders.length != rands.length || !(which == "fit" || which == "pred") then "bad-op" else
      let D := matOf d
      let limit := if which == "fit" then Gen.C07.limit n k else Gen.C07.limitP n k
      let leftover := if which == "fit" then Gen.C07.leftover n k else Gen.C07.leftoverP n k
      let passes := (orders.zip rands).map (fun p => ({ order := arrOf p.1 0, rand := arrOf p.2 0 } : PassIn))
      let P := arrOf prefs []
      let okPrefs := (List.range n).all (fun i => isArgsort k (D.get i).get (P.get i))
      let okOrder := match orders with
        | [] => true
        | o :: _ => isArgsort n (fun i => rowMin k (D.get i)) o
      match assocDistance n k limit leftover D P passes eps perm with
      | none => "none"
      | some lab => s!"{showLab n lab}|{b2s okPrefs}{b2s okOrder}"
    | _, _, _, _, _, _, _, _ => "bad-op"
  | ["gain", cfg, which, n, k, labP, lab0, d, order, draws, perm] =>
    match parseNat? n, parseNat? k, parseNat? labP, parseNats? lab0, parseMat? parseInt? d,
          parseNats? order, parseNats? draws, parseNats? perm with
    | some n, some k, some labP, some lab0, some d, some order, some draws, some perm =>
      if !(cfg == "gen" || cfg == "snapshot") || !(which == "fit" || which == "pred") || k == 0 then "bad-op" else
      let c := if cfg == "gen" then genCfg else snapshotCfg
      let D := matOf d
      let limit := if which == "fit" then Gen.C07.limit n k else Gen.C07.limitP n k
      let L0 := if labP != 0 then tabulate n (fun i => argminRow (D.get i).get k) else arrOf lab0 0
      let pairs := order.map (fun r => (r / k, r % k))
      let okOrder := isArgsort (n * k) (fun r => D.at (r / k) (r % k) - D.at (r / k) (L0.get (r / k))) order
      match assocGain c n k limit D (labP != 0) (arrOf lab0 0) pairs draws perm with
      | .error .assertion => "AssertionError"
      | .error .draws => "draws-exhausted"
      | .ok lab => s!"{showLab n lab}|{b2s okOrder}"
    | _, _, _, _, _, _, _, _ => "bad-op"
  | ["outer", iter0, maxIter, inertias] =>
    match parseInt? iter0, parseInt? maxIter, parseRats? inertias with
    | some iter0, some maxIter, some ins =>
      -- abstract association: labels are irrelevant here, `assoc` is the identity
      match outerLoop (α := Unit) (fun lab _ => some lab) maxIter (ins.map (fun r => ((), r))) (Arr.const 0 0) iter0 none with
      | none => "none"
      | some (none, it) => s!"unbound {it}"
      | some (some b, it) => s!"{b.iter} {it}"
    | _, _, _ => "bad-op"
  | _ => "bad-op"

def main : IO Unit := loop step
