import MlVerif.Model.Proto
import MlVerif.Gen.C18
import MlVerif.Model.Corr
open MlVerif MlVerif.Proto MlVerif.Corr

def parseBool? (s : String) : Option Bool :=
  if s == "1" then some true else if s == "0" then some false else none

/-- exact non-negative square root of a rational, when it exists (checked by squaring) -/
def ratSqrt? (x : Rat) : Option Rat :=
  if x < 0 then none else
    let c : Rat := (Nat.sqrt x.num.natAbs : Rat) / (Nat.sqrt x.den : Rat)
    if 0 ≤ c ∧ c * c = x then some c else none

/-- `co` for a variance, exactly: the unique value satisfying `IsCo` when it is rational -/
def co? (v : Rat) : Option Rat := ratSqrt? (radicand v)

def parseArg? (s : String) : Option Arg :=
  if s == "none" then some .none
  else if s == "other" then some .other
  else match s.splitOn ":" with
    | ["name", n] => some (.name n)
    | ["call", n] => some (.callable n)
    | _ => none

def showOutcome : Outcome → String
  | .typeError => "TypeError"
  | .valueError => "ValueError"
  | .notCallable => "TypeError"
  | .unknown => "unknown"
  | .metric a b => s!"metric:{a.getD "id"}:{b.getD "id"}"

def step : List String → String
  -- accumulation: "acc frame d draws vars"   (vars in call order: k, i, j)
  | ["acc", frame, d, draws, vs] =>
    match parseBool? frame, parseNat? d, parseNat? draws, parseRats? vs with
    | some frame, some d, some draws, some vs =>
      if vs.length ≠ draws * d * d then "bad-op" else
      match vs.mapM co? with
      | none => "irrational"
      | some cos =>
        let co : Nat → Nat → Nat → Rat := fun k i j => cos.getD ((k * d + i) * d + j) 0
        match correlations frame d draws co with
        | none => "none"
        | some M =>
          let sh := fun (f : Cell Rat → Rat) => showMat showRat (M.map (fun row => row.map f))
          s!"{sh (·.cor)}|{sh (·.mini)}|{sh (·.maxi)}"
    | _, _, _, _ => "bad-op"
  -- one entry against its recorded variance, through squares: "cochk v c rel"
  --   ok iff 0 ≤ c and (c(1-rel))² ≤ max(1 - v, 0) ≤ (c(1+rel))²
  | ["cochk", v, c, rel] =>
    match parseRat? v, parseRat? c, parseRat? rel with
    | some v, some c, some rel =>
      let r := radicand v
      if 0 ≤ c ∧ 0 ≤ rel ∧ rel < 1 ∧ (c * (1 - rel)) * (c * (1 - rel)) ≤ r ∧ r ≤ (c * (1 + rel)) * (c * (1 + rel)) then "ok"
      else s!"bad radicand={showRat r}"
    | _, _, _ => "bad-op"
  -- comparable_metric decision: "cm tr inv"
  | ["cm", tr, inv] =>
    match parseArg? tr, parseArg? inv with
    | some tr, some inv => showOutcome (comparableMetric tr inv)
    | _, _ => "bad-op"
  | _ => "bad-op"

def main : IO Unit := loop step
