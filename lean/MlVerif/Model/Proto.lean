/-
Line-protocol helpers shared by every driver (core Lean only, no imports).
Tokens are separated by single spaces; lists are comma separated (`-` is the empty list);
rationals are `p/q` or `p`.  Printers are flat (Lean's `repr` wraps long lists).
-/
namespace MlVerif.Proto

def parseInt? (s : String) : Option Int := s.toInt?

def parseNat? (s : String) : Option Nat := s.toNat?

def parseList? {α} (p : String → Option α) (s : String) : Option (List α) :=
  if s == "-" then some [] else (s.splitOn ",").mapM p

def parseInts? : String → Option (List Int) := parseList? parseInt?
def parseNats? : String → Option (List Nat) := parseList? parseNat?

def parseRat? (s : String) : Option Rat :=
  match s.splitOn "/" with
  | [a] => (a.toInt?).map (fun n => (n : Rat))
  | [a, b] => do
      let n ← a.toInt?
      let d ← b.toNat?
      if d = 0 then none else some ((n : Rat) / (d : Rat))
  | _ => none

def parseRats? : String → Option (List Rat) := parseList? parseRat?

/-- matrix: rows separated by `;` -/
def parseMat? {α} (p : String → Option α) (s : String) : Option (List (List α)) :=
  if s == "-" then some [] else (s.splitOn ";").mapM (parseList? p)

def showRat (r : Rat) : String :=
  if r.den = 1 then toString r.num else toString r.num ++ "/" ++ toString r.den

def showList {α} (f : α → String) (l : List α) : String :=
  if l.isEmpty then "-" else ",".intercalate (l.map f)

def showInts (l : List Int) : String := showList toString l
def showNats (l : List Nat) : String := showList toString l
def showRats (l : List Rat) : String := showList showRat l
def showMat {α} (f : α → String) (m : List (List α)) : String :=
  if m.isEmpty then "-" else ";".intercalate (m.map (showList f))

def showOpt {α} (f : α → String) : Option α → String
  | none => "none"
  | some a => f a

def tokens (line : String) : List String :=
  (line.trimAscii.toString.splitOn " ").filter (· ≠ "")

/-- generic stdin/stdout loop: one output line per input line -/
partial def loop (step : List String → String) : IO Unit := do
  let stdin ← IO.getStdin
  let stdout ← IO.getStdout
  let rec go : IO Unit := do
    let line ← stdin.getLine
    if line.isEmpty then return ()
    stdout.putStrLn (step (tokens line))
    go
  go
  stdout.flush

end MlVerif.Proto
