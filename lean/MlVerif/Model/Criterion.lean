/-
C09 — the three compiled split criteria of PiecewiseTreeRegressor and the leaf dispatch of
`piecewise_tree_regression.py`, executable model over exact rationals.  Core Lean only.

Transcribed from
  mlinsights/mlmodel/_piecewise_tree_regression_common.pyx      (CommonRegressorCriterion)
  mlinsights/mlmodel/piecewise_tree_regression_criterion.pyx    (SimpleRegressorCriterion)
  mlinsights/mlmodel/piecewise_tree_regression_criterion_fast.pyx   (SimpleRegressorCriterionFast)
  mlinsights/mlmodel/piecewise_tree_regression_criterion_linear.pyx (LinearRegressorCriterion)
  mlinsights/mlmodel/piecewise_tree_regression.py               (_fit_reglin / _predict_reglin)

Conventions
* A C buffer (`float64_t*`) is a total function `Int → Rat`.  Cells the code never wrote hold
  *arbitrary* values: every `init_with_X` starts from an arbitrary previous object state
  (`prev`), and the theorems quantify over it, so a read of a stale or out-of-range cell
  (`start-1`, `-1`, a cell of a previous node) cannot go unnoticed.
* Indices are `Int` (`intp_t`), so `start - 1` at `start = 0` is `-1`, not a truncated `0`.
* Every range, index expression, `_update_weights` body and the improvement/proxy formulas
  come from `MlVerif.Gen.C09`, regenerated from the `.pyx` sources on every run.
* `dgelss` is a parameter (`Solver`); `_mean` leaves `weight[0]` untouched when
  `start == end`, which is modelled by threading the previous content of the out-parameter.
-/
import MlVerif.Gen.C09
namespace MlVerif.Criterion
open MlVerif.Gen MlVerif.Gen.C09

abbrev Buf := Int → Rat
abbrev IBuf := Int → Int

/-- `b[i] = v` -/
def bset {α} (b : Int → α) (i : Int) (v : α) : Int → α := fun j => if j = i then v else b j

/-- `n` iterations of `for k in range(k0, k0 + n)` -/
def loopN {σ} : Nat → Int → (Int → σ → σ) → σ → σ
  | 0, _, _, s => s
  | n + 1, k, body, s => loopN n (k + 1) body (body k s)

/-- `for k in range(r.1, r.2): s = body k s` -/
def loop {σ} (r : Int × Int) (body : Int → σ → σ) (s : σ) : σ :=
  loopN (r.2 - r.1).toNat r.1 body s

/-! ### inputs and the textbook quantities the statement speaks about -/

/-- arguments of `Criterion.init` -/
structure Data where
  y : Int → Rat              -- y[ks, 0]
  sw : Option (Int → Rat)    -- sample_weight, `None` ⇒ 1.
  samples : Int → Int        -- sample_indices
  wN : Rat                   -- weighted_n_samples

/-- `sample_weight[ks] if sample_weight is not None else 1.` -/
def Data.w (d : Data) (ks : Int) : Rat :=
  match d.sw with
  | some f => f ks
  | none => 1

/-- Σ_{i < n} f (lo + i) -/
def rsumN (f : Int → Rat) (lo : Int) : Nat → Rat
  | 0 => 0
  | n + 1 => rsumN f lo n + f (lo + n)

/-- Σ_{lo ≤ k < hi} f k -/
def rsum (f : Int → Rat) (lo hi : Int) : Rat := rsumN f lo (hi - lo).toNat

/-- weight of the k-th sample of the node -/
def Data.wk (d : Data) (k : Int) : Rat := d.w (d.samples k)
/-- target of the k-th sample of the node -/
def Data.yk (d : Data) (k : Int) : Rat := d.y (d.samples k)

/-- W = Σ w over samples[lo:hi] -/
def Data.W (d : Data) (lo hi : Int) : Rat := rsum d.wk lo hi
/-- Σ w·y over samples[lo:hi] -/
def Data.WY (d : Data) (lo hi : Int) : Rat := rsum (fun k => d.wk k * d.yk k) lo hi
/-- weighted mean of y over samples[lo:hi] (0 when the total weight is 0) -/
def Data.wmean (d : Data) (lo hi : Int) : Rat :=
  if d.W lo hi = 0 then 0 else d.WY lo hi / d.W lo hi
/-- weighted mean squared residual of the constant fit over samples[lo:hi] -/
def Data.wmse (d : Data) (lo hi : Int) : Rat :=
  if d.W lo hi = 0 then 0
  else rsum (fun k => d.wk k * (d.yk k - d.wmean lo hi) ^ 2) lo hi / d.W lo hi

/-! ### CommonRegressorCriterion -/

/-- the fields of scikit-learn's `Criterion` the code uses -/
structure Core where
  start : Int
  pos : Int
  stop : Int
  wN : Rat        -- weighted_n_samples
  wNode : Rat     -- weighted_n_node_samples
  wL : Rat        -- weighted_n_left
  wR : Rat        -- weighted_n_right

/-- the virtual methods a criterion class provides -/
structure Ops (σ : Type) where
  core : σ → Core
  withCore : σ → Core → σ
  /-- `_mean(start, end, &mean, &weight)`; third argument: previous content of `weight` -/
  mean : σ → Int → Int → Rat → Rat × Rat
  /-- `_mse(start, end, mean, weight)` -/
  mse : σ → Int → Int → Rat → Rat → Rat
  /-- `_update_weights(start, end, old_pos, new_pos)` acting on the `Criterion` fields -/
  updateWeights : σ → Int → Int → Int → Int → Core

/-- `_update_weights` as the regenerated `UpdSpec` describes it; `wbuf` is the weight buffer
the class's body reads (`sample_w`, resp. the cumulated `sample_w_left`). -/
def applyUpd (u : UpdSpec) (wbuf : Buf) (c : Core) (start stop oldPos newPos : Int) : Core :=
  match u.kind with
  | UpdKind.inherited => c
  | UpdKind.loops =>
    let c1 := { c with wR := 0, wL := 0 }
    let c2 := loop (u.leftLo start stop oldPos newPos, u.leftHi start stop oldPos newPos)
      (fun k (c : Core) => { c with wL := c.wL + wbuf k }) c1
    loop (u.rightLo start stop oldPos newPos, u.rightHi start stop oldPos newPos)
      (fun k (c : Core) => { c with wR := c.wR + wbuf k }) c2
  | UpdKind.prefix =>
    if u.cond start stop oldPos newPos then
      { c with wL := 0, wR := wbuf (u.thenRight start stop oldPos newPos) }
    else
      { c with wL := wbuf (u.elseLeft start stop oldPos newPos),
               wR := wbuf (u.elseRightHi start stop oldPos newPos)
                     - wbuf (u.elseRightLo start stop oldPos newPos) }
  | UpdKind.unknown =>
    { c with wL := ((unknownInt "_update_weights" : Int) : Rat),
             wR := ((unknownInt "_update_weights" : Int) : Rat) }

section common
variable {σ : Type} (o : Ops σ)

/-- `reset` -/
def reset (s : σ) : σ :=
  let c := o.core s
  let a := resetArgs c.start c.stop c.pos
  let c' := o.updateWeights s a.1 a.2.1 a.2.2.1 a.2.2.2
  o.withCore s { c' with pos := resetPos c.start c.stop c.pos }

/-- `update(new_pos)` -/
def update (s : σ) (newPos : Int) : σ :=
  let c := o.core s
  let a := updateArgs c.start c.stop c.pos newPos
  let c' := o.updateWeights s a.1 a.2.1 a.2.2.1 a.2.2.2
  o.withCore s { c' with pos := updatePos c.start c.stop c.pos newPos }

/-- `children_impurity_weights`; `wlPrev`, `wrPrev`: previous content of the two weight
out-parameters.  Returns (impurity_left, impurity_right, weight_left, weight_right). -/
def childrenImpurityWeights (s : σ) (wlPrev wrPrev : Rat) : Rat × Rat × Rat × Rat :=
  let c := o.core s
  let ml := o.mean s (chMeanL c.start c.pos c.stop).1 (chMeanL c.start c.pos c.stop).2 wlPrev
  let mr := o.mean s (chMeanR c.start c.pos c.stop).1 (chMeanR c.start c.pos c.stop).2 wrPrev
  (o.mse s (chMseL c.start c.pos c.stop).1 (chMseL c.start c.pos c.stop).2 ml.1 ml.2,
   o.mse s (chMseR c.start c.pos c.stop).1 (chMseR c.start c.pos c.stop).2 mr.1 mr.2,
   ml.2, mr.2)

/-- `node_impurity`; `junk`: content of the uninitialised local `weight` -/
def nodeImpurity (s : σ) (junk : Rat) : Rat :=
  let c := o.core s
  let mw := o.mean s (nodeImpMean c.start c.pos c.stop).1 (nodeImpMean c.start c.pos c.stop).2 junk
  o.mse s (nodeImpMse c.start c.pos c.stop).1 (nodeImpMse c.start c.pos c.stop).2 mw.1 mw.2

/-- `children_impurity`; `junk1`, `junk2`: the uninitialised locals `wl`, `wr` -/
def childrenImpurity (s : σ) (junk1 junk2 : Rat) : Rat × Rat :=
  let r := childrenImpurityWeights o s junk1 junk2
  (r.1, r.2.1)

/-- `node_value` -/
def nodeValue (s : σ) (junk : Rat) : Rat :=
  let c := o.core s
  (o.mean s (nodeValMean c.start c.pos c.stop).1 (nodeValMean c.start c.pos c.stop).2 junk).1

/-- `proxy_impurity_improvement`: `none` is NAN.  The weights of the children are written
into `weighted_n_left/right` (they are the out-parameters), hence the new state. -/
def proxyImpurityImprovement (s : σ) : Option Rat × σ :=
  let c := o.core s
  let r := childrenImpurityWeights o s c.wL c.wR
  let s' := o.withCore s { c with wL := r.2.2.1, wR := r.2.2.2 }
  if proxyNan c.start c.pos c.stop then (none, s')
  else (some (proxy r.2.2.1 r.2.2.2 r.1 r.2.1), s')

/-- `impurity_improvement(impurity_parent, impurity_left, impurity_right)` -/
def impurityImprovement (s : σ) (ip il ir : Rat) : Rat :=
  let c := o.core s
  improvement c.wN c.wNode c.wL c.wR ip il ir

end common

/-! ### SimpleRegressorCriterion -/

structure Simple where
  core : Core
  y : Int → Rat
  sample_w : Buf
  sample_wy : Buf
  sample_i : IBuf
  sum_wy : Rat
  sum_w : Rat

namespace Simple

def mean (s : Simple) (start stop : Int) (wPrev : Rat) : Rat × Rat :=
  if start = stop then (0, wPrev)
  else
    let mw := loop (simpleMeanRange start stop)
      (fun k (mw : Rat × Rat) => (mw.1 + s.sample_wy k, mw.2 + s.sample_w k)) (0, 0)
    (if mw.2 = 0 then 0 else mw.1 / mw.2, mw.2)

def mse (s : Simple) (start stop : Int) (mean weight : Rat) : Rat :=
  if start = stop then 0
  else
    let squ := loop (simpleMseRange start stop)
      (fun k (a : Rat) => a + (s.y (s.sample_i k) - mean) ^ 2 * s.sample_w k) 0
    if weight = 0 then 0 else squ / weight

def ops : Ops Simple where
  core := fun s => s.core
  withCore := fun s c => { s with core := c }
  mean := mean
  mse := mse
  updateWeights := fun s a b c d => applyUpd simpleUpd s.sample_w s.core a b c d

/-- body of the "Filling accumulators" loop -/
def initBody (d : Data) (ki : Int) (s : Simple) : Simple :=
  let ks := d.samples ki
  let sw := bset s.sample_w ki (d.w ks)
  let swy := bset s.sample_wy ki (sw ki * d.y ks)
  { s with sample_i := bset s.sample_i ki ks, sample_w := sw, sample_wy := swy,
           sum_wy := s.sum_wy + d.y ks * sw ki, sum_w := s.sum_w + sw ki }

/-- `init_with_X` on an object in an arbitrary previous state -/
def initWithX (prev : Simple) (d : Data) (start stop : Int) : Simple :=
  let s0 : Simple := { prev with
    core := { prev.core with start := start, pos := start, stop := stop, wN := d.wN },
    y := d.y, sum_wy := 0, sum_w := 0 }
  let s1 := loop (simpleInitRange start stop) (initBody d) s0
  let s2 : Simple := { s1 with core := { s1.core with wNode := s1.sum_w } }
  reset ops s2

end Simple

/-! ### SimpleRegressorCriterionFast -/

structure Fast where
  core : Core
  nSamples : Int
  y : Int → Rat
  w_left : Buf
  wy_left : Buf
  wy2_left : Buf

namespace Fast

/-- `buf[hi] - (buf[lo] if guard else 0)` -/
def pread (p : PrefixRead) (b : Buf) (start stop : Int) : Rat :=
  b (p.hi start stop) - (if p.guard start stop then b (p.lo start stop) else 0)

def mean (s : Fast) (start stop : Int) (wPrev : Rat) : Rat × Rat :=
  if start = stop then (0, wPrev)
  else
    let m := pread fastMeanM s.wy_left start stop
    let w := pread fastMeanW s.w_left start stop
    (if w = 0 then 0 else m / w, w)

def mse (s : Fast) (start stop : Int) (mean weight : Rat) : Rat :=
  if start = stop then 0
  else
    let squ := pread fastMseS s.wy2_left start stop
    if weight = 0 then 0 else squ / weight - mean ^ 2

def ops : Ops Fast where
  core := fun s => s.core
  withCore := fun s c => { s with core := c }
  mean := mean
  mse := mse
  updateWeights := fun s a b c d => applyUpd fastUpd s.w_left s.core a b c d

def zeroBody (i : Int) (s : Fast) : Fast :=
  { s with w_left := bset s.w_left i 0, wy_left := bset s.wy_left i 0,
           wy2_left := bset s.wy2_left i 0 }

def firstBody (d : Data) (ki : Int) (s : Fast) : Fast :=
  let ks := d.samples ki
  let w := d.w ks
  let y_ := d.y ks
  { s with w_left := bset s.w_left ki w, wy_left := bset s.wy_left ki (w * y_),
           wy2_left := bset s.wy2_left ki (w * y_ * y_) }

def restBody (d : Data) (ki : Int) (s : Fast) : Fast :=
  let ks := d.samples ki
  let w := d.w ks
  let y_ := d.y ks
  { s with w_left := bset s.w_left ki (s.w_left (fastPrevW ki) + w),
           wy_left := bset s.wy_left ki (s.wy_left (fastPrevWY ki) + w * y_),
           wy2_left := bset s.wy2_left ki (s.wy2_left (fastPrevWY2 ki) + w * y_ * y_) }

def initWithX (prev : Fast) (d : Data) (start stop : Int) : Fast :=
  let s0 : Fast := { prev with
    core := { prev.core with start := start, pos := start, stop := stop, wN := d.wN },
    y := d.y }
  let s1 := loop (fastZeroRange s0.nSamples) zeroBody s0
  let s2 := loop (fastFirstRange start stop) (firstBody d) s1
  let s3 := loop (fastRestRange start stop) (restBody d) s2
  let s4 : Fast := { s3 with core := { s3.core with wNode := s3.w_left (fastNodeIdx start stop) } }
  reset ops s4

end Fast

/-! ### LinearRegressorCriterion -/

/-- LAPACK `dgelss(row, col, nrhs = 1, A, lda, B, ldb, …)`: returns the new content of `B`
(the solution is in its first `col` cells).  A parameter of the model. -/
abbrev Solver := (row col : Int) → (A : Buf) → (lda : Int) → (B : Buf) → (ldb : Int) → Buf

structure Linear where
  core : Core
  nbvar : Int                -- n_features + 1
  X : Int → Int → Rat        -- sample_X[ks, c]
  y : Int → Rat
  sample_w : Buf
  sample_wy : Buf
  sample_y : Buf
  sample_f : Buf
  sample_i : IBuf
  sum_wy : Rat
  sum_w : Rat
  f_buffer : Buf             -- scratch, content from earlier calls
  pC : Buf                   -- scratch, content from earlier calls

namespace Linear

def mean (s : Linear) (start stop : Int) (wPrev : Rat) : Rat × Rat :=
  if start = stop then (0, wPrev)
  else
    let mw := loop (linMeanRange start stop)
      (fun k (mw : Rat × Rat) => (mw.1 + s.sample_wy k, mw.2 + s.sample_w k)) (0, 0)
    (if mw.2 = 0 then 0 else mw.1 / mw.2, mw.2)

/-- the column-major packing loop of `_reglin`: state is (buffer, pos) -/
def pack (s : Linear) (start stop : Int) : Buf × Int :=
  loop (linPackCols s.nbvar)
    (fun j (bp : Buf × Int) =>
      let r := loop (linPackRows start stop)
        (fun i (st : Buf × Int × Int) =>      -- (buffer, pos, idx)
          let w := s.sample_w i
          (bset st.1 st.2.1 (s.sample_f st.2.2 * w), st.2.1 + linPackPosStep,
           st.2.2 + linPackIdxStep s.nbvar))
        (bp.1, bp.2, linPackIdx0 start s.nbvar j)
      (r.1, r.2.1))
    (s.f_buffer, 0)

/-- `pC[i-start] = sample_wy[i]` -/
def rhs (s : Linear) (start stop : Int) : Buf :=
  loop (linRhsRange start stop) (fun i (b : Buf) => bset b (linRhsIdx i start) (s.sample_wy i)) s.pC

/-- `_reglin(start, end, low_rank)`: the new content of `sample_pC` -/
def reglin (solve : Solver) (s : Linear) (start stop : Int) (lowRank : Bool) : Buf :=
  let A := (pack s start stop).1
  let B := rhs s start stop
  let col := s.nbvar
  let row := stop - start
  if row < col then
    if lowRank then solve row col A row B col else B
  else solve row col A row B row

def mse (solve : Solver) (s : Linear) (start stop : Int) (_mean weight : Rat) : Rat :=
  if linMseSkip start stop s.nbvar then 0
  else
    let pC := reglin solve s start stop false
    let r := loop (linMseRows start stop)
      (fun k (st : Rat × Int) =>              -- (squ, idx)
        let di := loop (linMseCols s.nbvar)
          (fun j (di : Rat × Int) => (di.1 + s.sample_f di.2 * pC j, di.2 + linMseIdxStep))
          (0, st.2)
        let d := di.1 - s.sample_y k
        (st.1 + d * d * s.sample_w k, di.2))
      (0, linMseIdx0 start s.nbvar)
    if weight = 0 then 0 else r.1 / weight

def ops (solve : Solver) : Ops Linear where
  core := fun s => s.core
  withCore := fun s c => { s with core := c }
  mean := mean
  mse := mse solve
  updateWeights := fun s a b c d => applyUpd linearUpd s.sample_w s.core a b c d

/-- body of the "Filling accumulators" loop; state is (object, idx) -/
def initBody (d : Data) (ki : Int) (si : Linear × Int) : Linear × Int :=
  let s := si.1
  let ks := d.samples ki
  let sw := bset s.sample_w ki (d.w ks)
  let s1 : Linear := { s with
    sample_i := bset s.sample_i ki ks, sample_w := sw,
    sample_wy := bset s.sample_wy ki (sw ki * d.y ks),
    sample_y := bset s.sample_y ki (d.y ks),
    sum_wy := s.sum_wy + d.y ks * sw ki, sum_w := s.sum_w + sw ki }
  let fi := loop (linInitCols s.nbvar)
    (fun c (fi : Buf × Int) => (bset fi.1 fi.2 (s.X ks c), fi.2 + linInitIdxStep))
    (s1.sample_f, si.2)
  ({ s1 with sample_f := bset fi.1 fi.2 1 }, fi.2 + linInitIdxStep)

/-- `init_with_X` (the `ValueError` on a null node weight is not modelled: the theorems are
about what the accessors return) -/
def initWithX (solve : Solver) (prev : Linear) (d : Data) (start stop : Int) : Linear :=
  let s0 : Linear := { prev with
    core := { prev.core with start := start, pos := start, stop := stop, wN := d.wN },
    y := d.y, sum_wy := 0, sum_w := 0 }
  let s1 := (loop (linInitRange start stop) (initBody d) (s0, linInitIdx0 start s0.nbvar)).1
  let s2 : Linear := { s1 with core := { s1.core with wNode := s1.sum_w } }
  reset (ops solve) s2

/-- `node_beta`: `_reglin(self.start, self.end, 1)` then the first `nbvar` cells of `sample_pC` -/
def nodeBeta (solve : Solver) (s : Linear) : Buf :=
  reglin solve s s.core.start s.core.stop true

end Linear

/-! ### what "least-squares linear fit" means, and the assumption on `dgelss` -/

/-- the design matrix with the intercept column the criterion appends:
`X[ks, j]` for `j < nbvar - 1`, `1` for `j = nbvar - 1` -/
def xone (X : Int → Int → Rat) (nbvar : Int) (ks j : Int) : Rat :=
  if j = nbvar - 1 then 1 else X ks j

/-- Σ over samples[lo:hi] of (x_k·b − y_k)², x_k the feature row with intercept -/
def Data.lsResid (d : Data) (X : Int → Int → Rat) (nbvar : Int) (b : Int → Rat) (lo hi : Int) : Rat :=
  rsum (fun k => (rsum (fun j => xone X nbvar (d.samples k) j * b j) 0 nbvar - d.yk k) ^ 2) lo hi

/-- residual of the column-major system handed to LAPACK: Σ_t (Σ_j A[j*lda + t]·b_j − B[t])² -/
def lapackResid (row col : Int) (A : Buf) (lda : Int) (B : Buf) (b : Int → Rat) : Rat :=
  rsum (fun t => (rsum (fun j => A (j * lda + t) * b j) 0 col - B t) ^ 2) 0 row

/-- ASSUMPTION on LAPACK `dgelss` (trusted, exercised by the correspondence run): called with
`lda = row` and a legal `ldb ≥ max(row, col)` it leaves in `B[0:col]` a minimiser of the
residual (the minimum-norm one; only minimality is used). -/
def IsLeastSquares (solve : Solver) : Prop :=
  ∀ (row col : Int) (A B : Buf) (ldb : Int), 0 < row → 0 < col → row ≤ ldb → col ≤ ldb →
    ∀ b' : Int → Rat,
      lapackResid row col A row B (solve row col A row B ldb) ≤ lapackResid row col A row B b'

/-! ### a reference instance of the `dgelss` parameter: exact normal-equation solve

Used by the driver so that the correspondence run can compare LAPACK's floating-point output
with an exact rational minimiser.  Nothing is proved about the elimination itself: its output
is certified case by case with `normalEqHolds` (and `normal_equations_minimise` in the
property file shows that a vector passing this test is a least-squares minimiser). -/

/-- Gauss–Jordan elimination of an augmented matrix; returns the reduced matrix and the pivots
(row, column), last first -/
def gaussJordan (M : Array (Array Rat)) (ncols : Nat) : Array (Array Rat) × List (Nat × Nat) := Id.run do
  let mut M := M
  let mut r := 0
  let mut piv : List (Nat × Nat) := []
  for c in [0:ncols] do
    if r < M.size then
      let mut p : Option Nat := none
      for i in [r:M.size] do
        if p.isNone && (M[i]!)[c]! ≠ 0 then p := some i
      match p with
      | none => pure ()
      | some i =>
        let ri := M[i]!
        let rr := M[r]!
        M := (M.set! i rr).set! r ri
        let pv := (M[r]!)[c]!
        M := M.set! r ((M[r]!).map (· / pv))
        for k in [0:M.size] do
          if k ≠ r then
            let f := (M[k]!)[c]!
            if f ≠ 0 then
              M := M.set! k (((M[k]!).zip (M[r]!)).map (fun ab => ab.1 - f * ab.2))
        piv := (r, c) :: piv
        r := r + 1
  return (M, piv)

/-- the normal equations `AᵀA x = AᵀB` of the column-major system, as an augmented matrix -/
def normalSystem (row col : Int) (A : Buf) (lda : Int) (B : Buf) : Array (Array Rat) :=
  ((List.range col.toNat).map (fun (j : Nat) =>
    (((List.range col.toNat).map (fun (j' : Nat) =>
      rsum (fun t => A ((j : Int) * lda + t) * A ((j' : Int) * lda + t)) 0 row))
     ++ [rsum (fun t => A ((j : Int) * lda + t) * B t) 0 row]).toArray)).toArray

/-- exact solution of the normal equations (free variables 0) and the rank -/
def exactLS (row col : Int) (A : Buf) (lda : Int) (B : Buf) : (Int → Rat) × Nat :=
  let (M, piv) := gaussJordan (normalSystem row col A lda B) col.toNat
  (fun j => match piv.find? (fun rc => (rc.2 : Int) = j) with
            | some rc => (M[rc.1]!)[col.toNat]!
            | none => 0,
   piv.length)

/-- the reference solver: `B[0:col]` is overwritten by the solution -/
def exactSolver : Solver := fun row col A lda B _ldb =>
  let x := (exactLS row col A lda B).1
  fun j => if 0 ≤ j ∧ j < col then x j else B j

/-- `Aᵀ(A x − B) = 0`, checked exactly -/
def normalEqHolds (row col : Int) (A : Buf) (lda : Int) (B : Buf) (x : Int → Rat) : Bool :=
  (List.range col.toNat).all (fun (j : Nat) =>
    rsum (fun t => A ((j : Int) * lda + t) *
      (rsum (fun j' => A (j' * lda + t) * x j') 0 col - B t)) 0 row == 0)

/-! ### `_fit_reglin` / `_predict_reglin` (piecewise_tree_regression.py) -/

/-- a matrix given by rows as a C array -/
def matFn (rows : List (List Rat)) : Int → Int → Rat :=
  fun i c => if i < 0 ∨ c < 0 then 0 else (rows.getD i.toNat []).getD c.toNat 0

def vecFn (v : List Rat) : Int → Rat := fun i => if i < 0 then 0 else v.getD i.toNat 0

/-- `X[ind, :]` for a boolean mask -/
def maskRows {α} : List α → List Bool → List α
  | x :: xs, true :: ms => x :: maskRows xs ms
  | _ :: xs, false :: ms => maskRows xs ms
  | _, _ => []

/-- `LinearRegressorCriterion.create(xs, ys, None)`: identity sample order, unit weights,
`init(ys, None, n, arange(n), 0, n)` on a freshly calloc'ed object -/
def Linear.create (solve : Solver) (nFeatures : Nat) (xs : List (List Rat)) (ys : List Rat) : Linear :=
  let z : Buf := fun _ => 0
  let fresh : Linear := {
    core := ⟨0, 0, 0, 0, 0, 0, 0⟩, nbvar := (nFeatures : Int) + 1, X := matFn xs, y := vecFn ys,
    sample_w := z, sample_wy := z, sample_y := z, sample_f := z, sample_i := fun _ => 0,
    sum_wy := 0, sum_w := 0, f_buffer := z, pC := z }
  let d : Data := { y := vecFn ys, sw := none, samples := fun i => i, wN := (ys.length : Rat) }
  Linear.initWithX solve fresh d 0 (ys.length : Int)

/-- `_fit_reglin`: row `i` of `betas_` is `node_beta` of the criterion created on the training
rows selected by `ind = pred_leaves == <fitLeaf i>` (`predLeaves` is scikit-learn's output, a
parameter; `fitLeaf` is regenerated from the source) -/
def fitReglin (solve : Solver) (nFeatures : Nat) (X : List (List Rat)) (y : List Rat)
    (predLeaves : List Nat) (nLeaves : Nat) : List (List Rat) :=
  (List.range nLeaves).map (fun (i : Nat) =>
    let ind := predLeaves.map (fun l => l == (fitLeaf (i : Int)).toNat)
    let c := Linear.create solve nFeatures (maskRows X ind) (maskRows y ind)
    let b := Linear.nodeBeta solve c
    (List.range (nFeatures + 1)).map (fun (j : Nat) => b (j : Int)))

def dot : List Rat → List Rat → Rat
  | a :: as, b :: bs => a * b + dot as bs
  | _, _ => 0

/-- `_predict_reglin`: `li = leaves[<predLeafIdx i>]; pred[i] = dot(Xone[<predXRow i>, :],
betas_[<predBetaRow i li>, :])`, index expressions regenerated from the source -/
def predictReglin (betas : List (List Rat)) (leaves : List Nat) (Xq : List (List Rat)) : List Rat :=
  (List.range Xq.length).map (fun (i : Nat) =>
    let leaf := leaves.getD (predLeafIdx (i : Int)).toNat 0
    dot (Xq.getD (predXRow (i : Int)).toNat [] ++ [1])
      (betas.getD (predBetaRow (i : Int) (leaf : Int)).toNat []))

/-- `DecisionTreeRegressor.predict` with criterion 'simple': `tree_.value[leaf]`, the value the
builder stored from `node_value` of the criterion initialised on the leaf's sample range -/
def predictSimple (values : List Rat) (leaves : List Nat) : List Rat :=
  leaves.map (fun l => values.getD l 0)

end MlVerif.Criterion
