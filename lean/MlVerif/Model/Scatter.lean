/-
Scatter model shared by C04 / C08 / C10 (core Lean only): the numpy idiom
  p = f(X[mask]);  pred[mask] = p
over lists, and a dispatch pass over buckets as `_apply_predict_method` writes it.
-/
namespace MlVerif.Scatter

/-- X[ind] : keep the rows whose mask bit is true -/
def maskGet {α} : List α → List Bool → List α
  | x :: xs, true :: ms => x :: maskGet xs ms
  | _ :: xs, false :: ms => maskGet xs ms
  | _, _ => []

/-- pred[ind] = p : write the j-th element of p at the j-th true position -/
def maskSet {β} : List β → List Bool → List β → List β
  | _ :: os, true :: ms, p :: ps => p :: maskSet os ms ps
  | o :: os, true :: ms, [] => o :: maskSet os ms []        -- numpy would raise; unreachable in the lemmas
  | o :: os, false :: ms, ps => o :: maskSet os ms ps
  | os, _, _ => os

def zw3 {α β γ δ} (f : β → γ → α → δ) : List β → List γ → List α → List δ
  | o :: os, m :: ms, x :: xs => f o m x :: zw3 f os ms xs
  | _, _, _ => []

/-- One dispatch pass as in `_apply_predict_method`: for each bucket i (in the order given),
    mask = (assoc == i), pred[mask] = g_i applied row-wise to X[mask]. -/
def dispatch {α β} (g : Nat → α → β) (xs : List α) (assoc : List Nat) : List Nat → List β → List β
  | [], pred => pred
  | i :: rest, pred =>
    let mask := assoc.map (· == i)
    dispatch g xs assoc rest (maskSet pred mask ((maskGet xs mask).map (g i)))

end MlVerif.Scatter
