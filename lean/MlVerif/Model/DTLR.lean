/-
C10 — DecisionTreeLogisticRegression (mlinsights/mlmodel/decision_tree_logreg.py), executable model.
Core Lean only.  Every node's binary classifier is a PARAMETER: `prob0 r` / `prob r` are the two columns
`estimator.predict_proba` returns for row `r`.  The comparisons, guards and index arithmetic are the
definitions REGENERATED from the source (`MlVerif.Gen.C10`); the batch traversals are written as the
code writes them: masks `above` / `below`, recursion on the sub-batches `X[above]`, `X[below]`, results
scattered back (`prob[above] = ...`) or marked in the shared matrix (`mat[indices, self.index] = 1`).
(The children are called `childAbove` / `childBelow`: `Node.below` is a name Lean generates itself.)
-/
import MlVerif.Model.Scatter
import MlVerif.Gen.C10
namespace MlVerif.DTLR
open MlVerif.Scatter MlVerif.Gen.C10

/-- `_DecisionTreeLogisticRegressionNode` -/
structure Node (ρ : Type) where
  index : Int
  threshold : Rat
  depth : Int
  /-- column 0 of the node classifier's `predict_proba` for a row -/
  prob0 : ρ → Rat
  /-- column 1 (probability of class 1): what the routing looks at -/
  prob : ρ → Rat
  childAbove : Option (Node ρ)
  childBelow : Option (Node ρ)

/-- one row of a `predict_proba` result -/
abbrev Proba := Rat × Rat

/-- `mask.sum()` -/
def countTrue (m : List Bool) : Int := ((m.filter id).length : Nat)

/-! ### predict_proba (batch form) -/

/-- `_DecisionTreeLogisticRegressionNode.predict_proba(X)` -/
def predictProbaNode {ρ} : Node ρ → List ρ → List Proba
  | ⟨_, thr, _, p0, p1, a, b⟩, X =>
    let prob := X.map (fun r => (p0 r, p1 r))            -- prob = self.estimator.predict_proba(X)
    let above := prob.map (fun q => probaAbove q.2 thr)   -- above = prob[:, 1] > self.threshold
    let below := above.map probaBelow                     -- below = ~above
    let nAbove := countTrue above
    let nBelow := countTrue below
    let prob :=
      match a with
      | some c => if probaGuardAbove true nAbove then maskSet prob above (predictProbaNode c (maskGet X above))
                  else prob
      | none => prob
    let prob :=
      match b with
      | some c => if probaGuardBelow true nBelow then maskSet prob below (predictProbaNode c (maskGet X below))
                  else prob
      | none => prob
    prob

/-- `DecisionTreeLogisticRegression.predict_proba` -/
def predictProba {ρ} (tree : Node ρ) (X : List ρ) : List Proba := predictProbaNode tree X

/-- node `predict`: `(prob[:, 1] >= 0.5).astype(int32)` -/
def predictLabels {ρ} (tree : Node ρ) (X : List ρ) : List Nat :=
  (predictProbaNode tree X).map (fun q => if predictLabel q.2 then 1 else 0)

/-- `numpy.take(self.classes_, labels)` with `classes_ = [c0, c1]` (`none` = IndexError, unreachable) -/
def predict {ρ γ} (tree : Node ρ) (classes : γ × γ) (X : List ρ) : List (Option γ) :=
  (predictLabels tree X).map (fun l => [classes.1, classes.2][l]?)

/-! ### decision_path (batch form) -/

/-- the allocated `lil_matrix`: its width and, per row, the columns marked so far -/
structure Mat where
  width : Nat
  rows : List (List Int)

/-- `mat[indices, j] = 1`; `none` = IndexError (column outside the width -- a negative column, which numpy
would wrap, is rejected too -- or a row index outside the matrix) -/
def markCol (mat : Mat) (indices : List Nat) (j : Int) : Option Mat :=
  if 0 ≤ j ∧ j < (mat.width : Int) ∧ indices.all (fun i => decide (i < mat.rows.length)) then
    some { mat with rows := mat.rows.mapIdx (fun i row => if indices.contains i then j :: row else row) }
  else none

/-- `_DecisionTreeLogisticRegressionNode.decision_path(X, mat, indices)`; an IndexError propagates -/
def decisionPathNode {ρ} : Node ρ → List ρ → List Nat → Mat → Option Mat
  | ⟨idx, thr, _, _, p1, a, b⟩, X, indices, mat =>
    (markCol mat indices idx).bind fun mat =>             -- mat[indices, self.index] = 1
      let prob := X.map p1                                -- prob[:, 1]
      let above := prob.map (fun q => pathAbove q thr)
      let below := above.map pathBelow
      let nAbove := countTrue above
      let nBelow := countTrue below
      let indicesAbove := maskGet indices above
      let indicesBelow := maskGet indices below
      (match a with
        | some c => if pathGuardAbove true nAbove then decisionPathNode c (maskGet X above) indicesAbove mat
                    else some mat
        | none => some mat).bind fun mat =>
      match b with
        | some c => if pathGuardBelow true nBelow then decisionPathNode c (maskGet X below) indicesBelow mat
                    else some mat
        | none => some mat

/-- indicator row of width `w` of a list of columns -/
def indicator (w : Nat) (cols : List Int) : List Nat :=
  (List.range w).map (fun (j : Nat) => if (j : Int) ∈ cols then 1 else 0)

/-- `csr_matrix(mat).todense()` -/
def dense (mat : Mat) : List (List Nat) := mat.rows.map (indicator mat.width)

/-- `DecisionTreeLogisticRegression.decision_path(X)` (dense): `lil_matrix((X.shape[0], n_nodes_))`,
`indices = numpy.arange(X.shape[0])` -/
def decisionPath {ρ} (tree : Node ρ) (nNodes : Nat) (X : List ρ) : Option (List (List Nat)) :=
  (decisionPathNode tree X (List.range X.length) ⟨nNodes, List.replicate X.length []⟩).map dense

/-! ### enumerate_leaves_index, get_leaves_index, tree_depth_ -/

def enumerateLeavesIndex {ρ} : Node ρ → List Int
  | ⟨idx, _, _, _, _, a, b⟩ =>
    (if leafCond a.isNone b.isNone then [idx] else [])
      ++ (match a with | some c => enumerateLeavesIndex c | none => [])
      ++ (match b with | some c => enumerateLeavesIndex c | none => [])

/-- `numpy.array(sorted(indices))` -/
def getLeavesIndex {ρ} (tree : Node ρ) : List Int :=
  (enumerateLeavesIndex tree).mergeSort (fun a b => decide (a ≤ b))

def treeDepth {ρ} : Node ρ → Int
  | ⟨_, _, d, _, _, a, b⟩ =>
    let dt := d
    let dt := match a with | some c => depthCombineAbove dt (treeDepth c) | none => dt
    let dt := match b with | some c => depthCombineBelow dt (treeDepth c) | none => dt
    dt

/-! ### fit: index and depth assignment over an abstract split-decision tree -/

/-- what `_fit_side` looks at for one side of a node -/
structure SideStat where
  /-- `len(set(y[mask]))` -/
  nClasses : Int
  /-- `mask.shape[0]` -/
  maskLen : Int
  /-- `mask.sum()` -/
  nSide : Int

/-- A training history: for the data reaching a node, the number of rows, the classifier obtained there
(after `fit_improve`), the statistics of both sides and the histories of the two sub-samples.
`unknown` is a sub-sample nobody has looked at: a fit that needs it fails (`none`). -/
inductive Plan (ρ : Type) where
  | unknown : Plan ρ
  | mk (nRows : Int) (prob0 prob : ρ → Rat) (sa : SideStat) (pa : Plan ρ) (sb : SideStat) (pb : Plan ρ) : Plan ρ

structure Cfg where
  maxDepth : Int
  minSamplesSplit : Int
  minSamplesLeaf : Int
  minWeightFractionLeaf : Rat
  totalN : Int

/-- `_DecisionTreeLogisticRegressionNode.fit` with `_fit_side` inlined: returns the node and the last index -/
def fitNode {ρ} (cfg : Cfg) : Plan ρ → Rat → Int → Int → Option (Node ρ × Int)
  | .unknown, _, _, _ => none
  | .mk nRows p0 p1 sa pa sb pb, thr, depth, index =>
    let node : Node ρ := ⟨index, thr, depth, p0, p1, none, none⟩
    if depthGuard depth cfg.maxDepth then some (node, depthGuardLast index)
    else if splitGuard nRows cfg.minSamplesSplit then some (node, splitGuardLast index)
    else
      -- self.above, last = _fit_side(self.index + 1, y_above, above, n_above, "above")
      let i1 := fitIndexAbove index
      let ra : Option (Option (Node ρ) × Int) :=
        if sideGuard sa.nClasses sa.maskLen sa.nSide cfg.totalN cfg.minSamplesLeaf cfg.minWeightFractionLeaf then
          (fitNode cfg pa thr (childDepth depth) (childIndex i1)).map (fun r => (some r.1, r.2))
        else some (none, sideSkippedLast i1)
      match ra with
      | none => none
      | some (a, last) =>
        -- self.below, last = _fit_side(last + 1, y_below, below, n_below, "below")
        let i2 := fitIndexBelow last
        let rb : Option (Option (Node ρ) × Int) :=
          if sideGuard sb.nClasses sb.maskLen sb.nSide cfg.totalN cfg.minSamplesLeaf cfg.minWeightFractionLeaf then
            (fitNode cfg pb thr (childDepth depth) (childIndex i2)).map (fun r => (some r.1, r.2))
          else some (none, sideSkippedLast i2)
        match rb with
        | none => none
        | some (b, last) => some (⟨index, thr, depth, p0, p1, a, b⟩, fitReturn last)

/-- `_fit_parallel`: the root node and `n_nodes_` -/
def fit {ρ} (cfg : Cfg) (plan : Plan ρ) : Option (Node ρ × Int) :=
  (fitNode cfg plan rootThreshold rootDepth rootIndex).map (fun r => (r.1, nNodes r.2))

/-! ### row-by-row descriptions (what the theorems relate the batch forms to) -/

/-- the nodes of the subtree, in the order of the recursion (node, above side, below side) -/
def nodes {ρ} : Node ρ → List (Node ρ)
  | ⟨i, t, d, p0, p1, a, b⟩ =>
    ⟨i, t, d, p0, p1, a, b⟩ :: ((match a with | some c => nodes c | none => []) ++ (match b with | some c => nodes c | none => []))

/-- the path of one row: the root, then at every node the child on the side chosen by
`prob > threshold`, until that side has no child -/
def pathNodes {ρ} : Node ρ → ρ → List (Node ρ)
  | ⟨i, thr, d, p0, p1, a, b⟩, r =>
    ⟨i, thr, d, p0, p1, a, b⟩ :: (if p1 r > thr then (match a with | some c => pathNodes c r | none => [])
          else (match b with | some c => pathNodes c r | none => []))

/-- the node that ends the row's path -/
def terminal {ρ} : Node ρ → ρ → Node ρ
  | ⟨i, thr, d, p0, p1, a, b⟩, r =>
    if p1 r > thr then (match a with | some c => terminal c r | none => ⟨i, thr, d, p0, p1, a, b⟩)
    else (match b with | some c => terminal c r | none => ⟨i, thr, d, p0, p1, a, b⟩)

/-- the output of a node's own classifier for a row -/
def Node.own {ρ} (n : Node ρ) (r : ρ) : Proba := (n.prob0 r, n.prob r)

end MlVerif.DTLR
