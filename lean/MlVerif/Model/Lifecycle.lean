/-
C02 / C03 — the atoms a method body is reduced to, and three instantiations of the generic
abstract interpreter of `Model/Flow.lean` (core Lean only):

* `ParamSafe`  hyper-parameters (constructor parameters) are restored on EVERY exit, including an
               exception raised by any call;
* `Owner`      no in-place write ever reaches an array the caller owns;
* `Fresh`      `fit` never reads, and leaves nothing observable of, what an earlier fit stored.

Names (locals, hyper-parameters, attributes) are numbered by the extractor.
-/
import MlVerif.Model.Flow
namespace MlVerif.Lifecycle
open MlVerif.Flow

inductive Act where
  | nop                                        -- a condition / statement of no interest
  -- hyper-parameters
  | snap (v k : Nat)                           -- local v := self.k
  | kill (v : Nat)                             -- local v := anything else
  | restore (k v : Nat)                        -- self.k := local v
  | write (k : Nat)                            -- self.k := anything else, aug-assignment, del
  -- ownership of arrays
  | bindAlias (v : Nat) (us : List Nat)        -- v may alias any of us (or be fresh)
  | bindFresh (v : Nat)                        -- v := freshly allocated value
  | mutate (v : Nat)                            -- in-place write through v
  -- fitted attributes
  | wattr (a : Nat) (reads : List Nat)         -- self.a_ := f(attributes read)
  | rattr (reads : List Nat)                   -- attributes read by an expression / condition
  | dattr (a : Nat)                            -- del self.a_
deriving Repr, DecidableEq

def upd (f : Nat → Nat) (i v : Nat) : Nat → Nat := fun j => if j = i then v else f j

/-! ## 1. hyper-parameter exception safety -/
namespace ParamSafe

structure St where
  params : Nat → Nat
  locals : Nat → Nat

def sem : Sem Act St where
  step a n s := match a with
    | .snap v k => { s with locals := upd s.locals v (s.params k) }
    | .kill v => { s with locals := upd s.locals v n }
    | .restore k v => { s with params := upd s.params k (s.locals v) }
    | .write k => { s with params := upd s.params k n }
    | _ => s
  test _ n _ := n % 2 = 1

structure Abs where
  dirty : List Nat                 -- hyper-parameters that may differ from their value at entry
  snaps : List (Nat × Nat)         -- (v, k): local v holds the entry value of self.k
deriving Repr, DecidableEq

def dom : Dom Act Abs where
  join a b := ⟨a.dirty ++ b.dirty.filter (fun k => !a.dirty.contains k), a.snaps.filter (fun p => b.snaps.contains p)⟩
  le a b := a.dirty.all (fun k => b.dirty.contains k) && b.snaps.all (fun p => a.snaps.contains p)
  transfer x d := match x with
    | .snap v k =>
      let rest := d.snaps.filter (fun p => p.1 != v)
      ⟨d.dirty, if d.dirty.contains k then rest else (v, k) :: rest⟩
    | .kill v => ⟨d.dirty, d.snaps.filter (fun p => p.1 != v)⟩
    | .restore k v =>
      if d.snaps.contains (v, k) then ⟨d.dirty.filter (fun j => j != k), d.snaps⟩ else ⟨k :: d.dirty, d.snaps⟩
    | .write k => ⟨k :: d.dirty, d.snaps⟩
    | _ => d
  check _ _ := true

def good (d : Abs) : Bool := d.dirty.isEmpty

/-- entry state of the analysis: nothing dirty, no snapshot -/
def entry : Abs := ⟨[], []⟩

end ParamSafe

/-! ## 2. ownership of the caller's arrays -/
namespace Owner

/-- `env` maps names to locations, `heap` locations to contents; locations `< m` belong to the caller -/
structure St where
  env : Nat → Nat
  heap : Nat → Nat
  next : Nat

def sem : Sem Act St where
  step a n s := match a with
    | .bindFresh v => { s with env := upd s.env v s.next, next := s.next + 1 }
    | .bindAlias v us =>
      match us[n]? with
      | some u => { s with env := upd s.env v (s.env u) }
      | none => { s with env := upd s.env v s.next, next := s.next + 1 }
    | .mutate v => { s with heap := upd s.heap (s.env v) n }
    | _ => s
  test _ n _ := n % 2 = 1

/-- abstract state: names that may point into the caller's memory -/
abbrev Abs := List Nat

def dom : Dom Act Abs where
  join a b := a ++ b.filter (fun v => !a.contains v)
  le a b := a.all (fun v => b.contains v)
  transfer x d := match x with
    | .bindFresh v => d.filter (fun u => u != v)
    | .bindAlias v us => if us.any (fun u => d.contains u) then v :: d else d.filter (fun u => u != v)
    | _ => d
  check x d := match x with
    | .mutate v => !d.contains v
    | _ => true

end Owner

/-! ## 3. nothing of an earlier fit is read or left observable -/
namespace Fresh

/-- every attribute carries a taint bit: `true` = (derived from) what an earlier fit stored -/
structure St where
  attrs : Nat → Nat × Bool
  leak : Bool                      -- a stale value was read

def updA (f : Nat → Nat × Bool) (i : Nat) (v : Nat × Bool) : Nat → Nat × Bool :=
  fun j => if j = i then v else f j

def sem : Sem Act St where
  step a n s := match a with
    | .wattr a reads =>
      let t := reads.any (fun r => (s.attrs r).2)
      { attrs := updA s.attrs a (n, t), leak := s.leak || t }
    | .rattr reads => { s with leak := s.leak || reads.any (fun r => (s.attrs r).2) }
    | .dattr a => { s with attrs := updA s.attrs a (0, false) }
    | _ => s
  test _ n _ := n % 2 = 1

/-- abstract state: attributes definitely (re)written or deleted by this run -/
abbrev Abs := List Nat

def dom : Dom Act Abs where
  join a b := a.filter (fun x => b.contains x)
  le a b := b.all (fun x => a.contains x)
  transfer x d := match x with
    | .wattr a _ => a :: d
    | .dattr a => a :: d
    | _ => d
  check x d := match x with
    | .wattr _ reads => reads.all (fun r => d.contains r)
    | .rattr reads => reads.all (fun r => d.contains r)
    | _ => true

/-- every attribute an observer may read has been rewritten -/
def good (required : List Nat) (d : Abs) : Bool := required.all (fun a => d.contains a)

end Fresh

/-! ## 3b. two runs: values computed from what is read

A second, value-level semantics for the attribute atoms: what `fit` writes is a function `mix` of
the oracle (this call's inputs: data, parameters, random draws) AND of the attribute values it
reads; conditions on attributes branch on such a value.  Used for the two-run statement of C03. -/
namespace NI

structure St where
  attrs : Nat → Nat

/-- an arbitrary but fixed way of computing a value from the call's inputs and the values read -/
def mix (n : Nat) (l : List Nat) : Nat := l.foldl (fun acc x => acc * 31 + x + 1) (n + 7)

def sem : Sem Act St where
  step a n s := match a with
    | .wattr a reads => ⟨upd s.attrs a (mix n (reads.map s.attrs))⟩
    | .dattr a => ⟨upd s.attrs a 0⟩
    | _ => s
  test c n s := match c with
    | .rattr reads => mix n (reads.map s.attrs) % 2 = 1
    | .wattr _ reads => mix n (reads.map s.attrs) % 2 = 1
    | _ => n % 2 = 1

end NI

/-! ## 4. trace membership: can the skeleton produce an observed sequence of assignments?

Used by the correspondence of C02/C03: the real code is run with attribute assignment traced; the
ordered events (hyper-parameter assigned, attribute assigned, attribute deleted) must be a sequence
the regenerated skeleton can emit.  The matcher is again an instance of the generic interpreter:
abstract state = the set of positions of the observed sequence reached so far. -/
namespace Trace

inductive Ev where
  | P (k : Nat)      -- self.<hyper-parameter k> assigned (write or restore)
  | A (a : Nat)      -- self.<attribute a> assigned
  | D (a : Nat)      -- del self.<attribute a>
deriving DecidableEq, Repr

/-- the event an atom emits when executed (the others are silent) -/
def evOf : Act → Option Ev
  | .write k => some (.P k)
  | .restore k _ => some (.P k)
  | .wattr a _ => some (.A a)
  | .dattr a => some (.D a)
  | _ => none

/-- concrete state: `some i` = the events emitted so far are exactly the first `i` observed ones;
`none` = the execution emitted something else -/
abbrev St := Option Nat

def sem (evs : List Ev) : Sem Act St where
  step a _ s := match evOf a, s with
    | none, s => s
    | some _, none => none
    | some e, some i => if evs[i]? = some e then some (i + 1) else none
  test _ n _ := n % 2 = 1

/-- abstract state: positions of `evs` that may have been reached -/
abbrev Abs := List Nat

def dom (evs : List Ev) : Dom Act Abs where
  join a b := a ++ b.filter (fun i => !a.contains i)
  le a b := a.all (fun i => b.contains i)
  transfer x d := match evOf x with
    | none => d
    | some e => (d.filter (fun i => evs[i]? = some e)).map (· + 1)
  check _ _ := true
  fuel := evs.length + 2

/-- some execution of `p` may emit exactly `evs` (and the loop heads stabilised) -/
def accepts (p : Prog Act) (evs : List Ev) : Bool :=
  let r := analyze (dom evs) p [0]
  r.ok && ((r.norm.getD []).contains evs.length || (r.exc.getD []).contains evs.length ||
           (r.ret.getD []).contains evs.length || (r.brk.getD []).contains evs.length)

end Trace

end MlVerif.Lifecycle
