/-
C19 — CategoriesToIntegers (mlinsights/mlmodel/categories_to_integers.py), executable model.
Core Lean only.  The model describes the REPAIRED code (an unseen value under
skip_errors=True leaves the cell iteration: `continue`); `transformStale` is a transcription
of the loop as it was written before the repair (variable `p` surviving across cells and rows).

A frame is a list of rows; a row is what `DataFrame.to_dict("records")` yields: the list of
(column name, cell) pairs in column order.  A cell is missing (None / NaN), a string, or a
number (numeric columns pass through).  Errors are outputs (`Except Err`).
-/
import MlVerif.Gen.C19
namespace MlVerif.Categories
open MlVerif.Gen

inductive Cell
  | missing
  | str (s : String)
  | num (n : Int)
deriving DecidableEq, Repr

inductive Err
  | valueError        -- unseen category without skip_errors / too many categories
  | keyError          -- a fitted column is absent from the frame
  | indexError        -- res[i, p] out of bounds
  | unboundLocal      -- `p` read before assignment (stale transcription only)
  | unsupported       -- outside the modelled domain (numeric cell in a fitted column, duplicate fitted names)
deriving DecidableEq, Repr

/-- one cell of the result -/
inductive Out
  | nan
  | one
  | rank (n : Nat)    -- single=True: offset in new_vector
  | keep (c : Cell)   -- a cell that passes through
deriving DecidableEq, Repr

abbrev Row := List (String × Cell)

structure Frame where
  cols : List (String × Bool)   -- (column name, dtype is object)
  index : List Int
  rows : List Row
deriving Repr

structure OutFrame where
  cols : List String
  index : List Int
  rows : List (List Out)
deriving Repr, DecidableEq

structure Config where
  columns : Option (List String)
  remove : List String
  skipErrors : Bool
  single : Bool
deriving Repr

/-- per fitted column: `position[c]`, `new_vector[c]` (value ↦ its offset = index in `vec`) -/
structure ColInfo where
  name : String
  pos : Int
  vec : List String
deriving Repr, DecidableEq

structure Fitted where
  cols : List ColInfo      -- in `_fit_columns` order
  schema : List String
deriving Repr, DecidableEq

deriving instance DecidableEq for Except

/-! ### fit -/

/-- insert into a strictly increasing list, dropping duplicates (`sorted(set(...))`) -/
def insertU (s : String) : List String → List String
  | [] => [s]
  | t :: ts => if s < t then s :: t :: ts else if s = t then t :: ts else t :: insertU s ts

def sortedDistinct (l : List String) : List String := l.foldr insertU []

def strAt (c : String) (r : Row) : Option String :=
  match r.lookup c with
  | some (.str s) => some s
  | _ => none

/-- `sorted(set(X[c].dropna()))` -/
def catsOf (c : String) (X : Frame) : List String := sortedDistinct (X.rows.filterMap (strAt c))

/-- `if self.columns: columns = self.columns else: [c for c, d in zip(X.columns, X.dtypes) if d in (object,)]` -/
def fitColumnsOf (columns : Option (List String)) (X : Frame) : List String :=
  match columns with
  | some (c :: cs) => c :: cs
  | _ => X.cols.filterMap (fun cd => if cd.2 then some cd.1 else none)

def badCell (c : String) (r : Row) : Option Err :=
  match r.lookup c with
  | none => some .keyError
  | some (.num _) => some .unsupported
  | _ => none

/-- what `fit` raises while processing column `c` -/
def colErr (X : Frame) (c : String) : Option Err :=
  if !(X.cols.any (fun cd => cd.1 == c)) then some .keyError
  else match X.rows.findSome? (badCell c) with
    | some e => some e
    | none =>
      if C19.tooMany (catsOf c X).length X.rows.length then some .valueError else none

/-- `_build_schema`, the loop over `self._categories.items()`; `last` is the running position -/
def buildSchema (remove : List String) : List (String × List String) → Int → List ColInfo
  | [], _ => []
  | (c, cats) :: rest, last =>
    let vec := cats.filter (fun v => C19.keepName (remove.contains (C19.schemaName c v)))
    ⟨c, C19.blockStart last vec.length, vec⟩ :: buildSchema remove rest (C19.nextLast last vec.length)

def schemaOf (cis : List ColInfo) : List String :=
  cis.flatMap (fun ci => ci.vec.map (C19.schemaName ci.name))

def fit (cfg : Config) (X : Frame) : Except Err Fitted :=
  let cols := fitColumnsOf cfg.columns X
  if ¬ cols.Nodup then .error .unsupported
  else match cols.findSome? (colErr X) with
    | some e => .error e
    | none =>
      let cis := buildSchema cfg.remove (cols.map (fun c => (c, catsOf c X))) 0
      .ok ⟨cis, schemaOf cis⟩

/-! ### transform -/

def mapE {α β ε} (f : α → Except ε β) : List α → Except ε (List β)
  | [] => .ok []
  | a :: as =>
    match f a with
    | .error e => .error e
    | .ok b =>
      match mapE f as with
      | .error e => .error e
      | .ok bs => .ok (b :: bs)

/-- `vec[k][v]` guarded by `v in vec[k]` -/
def offsetOf (v : String) (vec : List String) : Option Nat :=
  if v ∈ vec then some (vec.idxOf v) else none

/-- `res[i, p] = 1.0` on row `i` with numpy index semantics (negative wraps, out of range raises) -/
def setCell (acc : List Out) (p : Int) : Option (List Out) :=
  let w : Int := acc.length
  if 0 ≤ p ∧ p < w then some (acc.set p.toNat .one)
  else if -w ≤ p ∧ p < 0 then some (acc.set (p + w).toNat .one)
  else none

/-- the cell loop `for k, v in row.items()` of one row (repaired code) -/
def fillRow (skip : Bool) (r : Row) : List ColInfo → List Out → Except Err (List Out)
  | [], acc => .ok acc
  | ci :: cis, acc =>
    match r.lookup ci.name with
    | none => .error .keyError
    | some (.num _) => .error .unsupported
    | some .missing => fillRow skip r cis acc
    | some (.str v) =>
      match offsetOf v ci.vec with
      | none => if skip then fillRow skip r cis acc else .error .valueError
      | some off =>
        match setCell acc (C19.cellIndex ci.pos off) with
        | none => .error .indexError
        | some acc' => fillRow skip r cis acc'

def fittedNames (st : Fitted) : List String := st.cols.map (·.name)

/-- the cells of `dfnum = X[[c for c in X.columns if c not in self._fit_columns]]` -/
def passCells (fitted : List String) (r : Row) : List Out :=
  (r.filter (fun kv => !(fitted.contains kv.1))).map (fun kv => .keep kv.2)

/-- the indicator cells of one row: a row of `res` -/
def indicators (st : Fitted) (skip : Bool) (r : Row) : Except Err (List Out) :=
  fillRow skip r st.cols (List.replicate st.schema.length .nan)

/-- one row of `pandas.concat([dfnum, newdf], axis=1)` -/
def encodeRow (st : Fitted) (skip : Bool) (r : Row) : Except Err (List Out) :=
  match indicators st skip r with
  | .error e => .error e
  | .ok ind => .ok (passCells (fittedNames st) r ++ ind)

/-- single=True: `X[c].apply(lambda v: transform(v, new_vector[c]))` on one cell -/
def encodeCellSingle (st : Fitted) (skip : Bool) (kv : String × Cell) : Except Err Out :=
  match st.cols.find? (fun ci => ci.name == kv.1) with
  | none => .ok (.keep kv.2)
  | some ci =>
    match kv.2 with
    | .missing => .ok .nan
    | .num _ => .error .unsupported
    | .str v =>
      match offsetOf v ci.vec with
      | some off => .ok (.rank off)
      | none => if skip then .ok .nan else .error .valueError

def encodeRowSingle (st : Fitted) (skip : Bool) (r : Row) : Except Err (List Out) :=
  mapE (encodeCellSingle st skip) r

def rowFn (st : Fitted) (cfg : Config) : Row → Except Err (List Out) :=
  if cfg.single then encodeRowSingle st cfg.skipErrors else encodeRow st cfg.skipErrors

def outCols (st : Fitted) (cfg : Config) (Y : Frame) : List String :=
  if cfg.single then Y.cols.map (·.1)
  else (Y.cols.map (·.1)).filter (fun c => !((fittedNames st).contains c)) ++ st.schema

def transform (st : Fitted) (cfg : Config) (Y : Frame) : Except Err OutFrame :=
  if !(st.cols.all (fun ci => Y.cols.any (fun cd => cd.1 == ci.name))) then .error .keyError
  else match mapE (rowFn st cfg) Y.rows with
    | .error e => .error e
    | .ok rows => .ok ⟨outCols st cfg Y, Y.index, rows⟩

def fitTransform (cfg : Config) (X Y : Frame) : Except Err OutFrame :=
  match fit cfg X with
  | .error e => .error e
  | .ok st => transform st cfg Y

/-! ### the loop as written before the repair (documentation of defect D21)

`p` is a local variable of `transform`: unbound until the first seen value, then surviving
across cells *and rows*.  With skip_errors=True an unseen value falls through to
`res[i, p] = 1.0`. -/

def fillRowStale (skip : Bool) (r : Row) :
    List ColInfo → List Out → Option Int → Except Err (List Out × Option Int)
  | [], acc, p => .ok (acc, p)
  | ci :: cis, acc, p =>
    match r.lookup ci.name with
    | none => .error .keyError
    | some (.num _) => .error .unsupported
    | some .missing => fillRowStale skip r cis acc p
    | some (.str v) =>
      let p' : Except Err (Option Int) :=
        match offsetOf v ci.vec with
        | none => if skip then .ok p else .error .valueError
        | some off => .ok (some (C19.cellIndex ci.pos off))
      match p' with
      | .error e => .error e
      | .ok none => .error .unboundLocal
      | .ok (some q) =>
        match setCell acc q with
        | none => .error .indexError
        | some acc' => fillRowStale skip r cis acc' (some q)

def transformStale (st : Fitted) (skip : Bool) : List Row → Option Int → Except Err (List (List Out))
  | [], _ => .ok []
  | r :: rs, p =>
    match fillRowStale skip r st.cols (List.replicate st.schema.length .nan) p with
    | .error e => .error e
    | .ok (ind, p') =>
      match transformStale st skip rs p' with
      | .error e => .error e
      | .ok rest => .ok (ind :: rest)

end MlVerif.Categories
