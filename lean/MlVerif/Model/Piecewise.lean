/-
C08 — piecewise estimators (mlinsights/mlmodel/piecewise_estimator.py), executable model.
Core Lean only.  Written as the code is written: boolean masks over the batch, `X[ind]`,
`pred[ind] = p`, python dicts as association lists in insertion order.

Inputs that come from external components (parameters of the model):
* the bucket key of every row, as the fitted binner reports it (`decision_path` restricted to
  the leaves / the tuple `KBinsDiscretizer.transform` gives) — `keys`;
* the local estimators (`P i` = batch method of the i-th fitted local model, `Pmean` the
  fallback `mean_estimator_`);
* the shuffle drawn by `random_state.shuffle(addition)` in the class-borrowing loop.

Selections, the unseen-bucket value, the fallback guard and the mask bookkeeping operators are
read from `MlVerif.Gen.C08`, which is regenerated from the source on every run.
-/
import MlVerif.Model.Scatter
import MlVerif.Model.RowWise
import MlVerif.Gen.C08
namespace MlVerif.Piecewise
open MlVerif.Scatter MlVerif.Gen.C08
open MlVerif.RowWise (maskFill)

/-! ### evaluation of the regenerated selections -/

def Cmp.eval : Cmp → Int → Int → Option Bool
  | .eq, a, b => some (a == b)
  | .ne, a, b => some (a != b)
  | .lt, a, b => some (decide (a < b))
  | .le, a, b => some (decide (a ≤ b))
  | .gt, a, b => some (decide (a > b))
  | .ge, a, b => some (decide (a ≥ b))
  | .unknown, _, _ => none

/-- `ind = association <cmp> i` (none: the source has a selection the model cannot read) -/
def selMask (s : MaskSel) (assoc : List Int) (i : Int) : Option (List Bool) :=
  if s.array == "association" && s.rhs == "i" then assoc.mapM (fun a => Cmp.eval s.cmp a i) else none

def BOp.eval : BOp → Bool → Bool → Option Bool
  | .or, a, b => some (a || b)
  | .and, a, b => some (a && b)
  | .xor, a, b => some (a != b)
  | .unknown, _, _ => none

def UOp.eval : UOp → Bool → Option Bool
  | .not, a => some (!a)
  | .id, a => some a
  | .unknown, _ => none

/-! ### bucket maps (`_mapping_train`, `transform_bins`) -/

/-- `[i for i in range(len(cl)) if cl[i] <= i and cr[i] <= i]` -/
def treeLeaves (cl cr : List Int) : List Nat :=
  ((cl.zip cr).zipIdx).filterMap (fun (p : (Int × Int) × Nat) =>
    if p.1.1 ≤ (p.2 : Int) ∧ p.1.2 ≤ (p.2 : Int) then some p.2 else none)

/-- `dec_path[:, j] == 1` for the leaf column j, given the leaf each row falls in -/
def keyMask {κ} [BEq κ] (keys : List κ) (j : κ) : List Bool := keys.map (· == j)

/-- the `for j in leaves:` loop of `_mapping_train` (tree branch); state = (association, mapping, ntree) -/
def mappingTrainTreeLoop {κ} [BEq κ] (keys : List κ) :
    List κ → List Int → List (κ × Nat) → Nat → List Int × List (κ × Nat)
  | [], assoc, mapping, _ => (assoc, mapping)
  | j :: rest, assoc, mapping, ntree =>
    let ind := keyMask keys j
    if ind.any id then
      mappingTrainTreeLoop keys rest (maskFill assoc ind (ntree : Int)) (mapping ++ [(j, ntree)]) (ntree + 1)
    else
      mappingTrainTreeLoop keys rest assoc mapping ntree

/-- `_mapping_train`, tree branch: returns (association, mapping_) ; `leaves_` is `leaves` -/
def mappingTrainTree {κ} [BEq κ] (leaves keys : List κ) : List Int × List (κ × Nat) :=
  mappingTrainTreeLoop keys leaves (keys.map fun _ => unseenValue) [] 0

/-- `set(xs)` as the list of distinct values in order of first occurrence -/
def uniq {α} [BEq α] (xs : List α) : List α :=
  xs.foldl (fun acc x => if acc.contains x then acc else acc ++ [x]) []

/-- python tuple order on integer tuples -/
def lexLe : List Int → List Int → Bool
  | [], _ => true
  | _ :: _, [] => false
  | a :: as, b :: bs => if a < b then true else if b < a then false else lexLe as bs

/-- `dict.get(k, default)` on an insertion-ordered dict -/
def dictGet {κ} [BEq κ] (m : List (κ × Nat)) (k : κ) (dflt : Int) : Int :=
  match m.lookup k with
  | some v => (v : Int)
  | none => dflt

/-- `_mapping_train`, transform branch: `leaves = sorted(set(cells))`, `mapping = {le: i}`,
    `association[i] = mapping.get(cell_i, -1)`; returns (association, mapping_, leaves_) -/
def mappingTrainBins (keys : List (List Int)) : List Int × List (List Int × Nat) × List (List Int) :=
  let leaves := (uniq keys).mergeSort lexLe
  let mapping := leaves.zipIdx
  (keys.map (fun d => dictGet mapping d unseenValue), mapping, leaves)

/-- `transform_bins`, tree branch: `for j in self.leaves_: ... association[ind] = self.mapping_.get(j, -1)` -/
def transformBinsTreeLoop {κ} [BEq κ] (mapping : List (κ × Nat)) (keys : List κ) : List κ → List Int → List Int
  | [], assoc => assoc
  | j :: rest, assoc =>
    let ind := keyMask keys j
    if ind.any id then transformBinsTreeLoop mapping keys rest (maskFill assoc ind (dictGet mapping j unseenValue))
    else transformBinsTreeLoop mapping keys rest assoc

def transformBinsTree {κ} [BEq κ] (leaves : List κ) (mapping : List (κ × Nat)) (keys : List κ) : List Int :=
  transformBinsTreeLoop mapping keys leaves (keys.map fun _ => unseenValue)

/-- `transform_bins`, transform branch -/
def transformBinsCells {κ} [BEq κ] (mapping : List (κ × Nat)) (keys : List κ) : List Int :=
  keys.map (fun d => dictGet mapping d unseenValue)

/-! ### training of one bucket (`_fit_piecewise_estimator`) -/

/-- what a local model is fitted on -/
structure TrainSet (ρ τ ω : Type) where
  X : List ρ
  y : List τ
  w : Option (List ω)
deriving Repr, DecidableEq

def slice {ρ τ ω} (X : List ρ) (y : List τ) (w : Option (List ω)) (ind : List Bool) : TrainSet ρ τ ω :=
  ⟨maskGet X ind, maskGet y ind, w.map (fun w => maskGet w ind)⟩

/-- one pass `for ki in addition: if y[ki] not in found: res.append(ki); found.add(y[ki])` -/
def borrowPass {τ} [BEq τ] (y : List τ) : List Nat → List τ → List Nat → Option (List τ × List Nat)
  | [], found, res => some (found, res)
  | ki :: rest, found, res =>
    match y[ki]? with
    | none => none                                  -- IndexError
    | some c =>
      if found.contains c then borrowPass y rest found res
      else borrowPass y rest (found ++ [c]) (res ++ [ki])

/-- `ind[ki] = True` -/
def setTrue (ind : List Bool) (res : List Nat) : List Bool := res.foldl (fun m ki => m.set ki true) ind

inductive FitResult (ρ τ ω : Type) where
  | unfitted                                       -- `return model` (no training row in the bucket)
  | fitted (t : TrainSet ρ τ ω) (borrowed : List Nat)
  | diverges                                       -- the `while` loop can never terminate
  | error (e : String)
deriving Repr, DecidableEq

/-- `_fit_piecewise_estimator(i, model, X, y, sample_weight, association, nb_classes, random_state)`;
`addition` is the array after `random_state.shuffle(addition)` (only read when borrowing happens). -/
def fitBucket {ρ τ ω} [BEq τ] (i : Nat) (X : List ρ) (y : List τ) (w : Option (List ω))
    (assoc : List Int) (nbClasses : Option Nat) (addition : List Nat) : FitResult ρ τ ω :=
  match selMask fitSelection assoc (i : Int) with
  | none => .error "unknown-selection"
  | some ind =>
    if !(ind.any id) then .unfitted
    else
      let t := slice X y w ind
      match nbClasses with
      | none => .fitted t []
      | some nb =>
        if (uniq t.y).length != nb then
          let found := uniq t.y
          let allcl := uniq y
          if found.length < allcl.length then
            match borrowPass y addition found [] with
            | none => .error "IndexError"
            | some (found', res) =>
              if found'.length < allcl.length then .diverges
              else .fitted (slice X y w (setTrue ind res)) res
          else .fitted (slice X y w ind) []
        else .fitted t []

/-! ### prediction (`_apply_predict_method`) -/

/-- `_predict_piecewise_estimator(i, est, X, association)` and its two siblings -/
def predictTask {ρ β} (sel : MaskSel) (P : Nat → List ρ → List β) (X : List ρ) (assoc : List Int) (i : Nat) :
    Option (Option (List Bool × List β)) :=
  match selMask sel assoc (i : Int) with
  | none => none
  | some ind => if !(ind.any id) then some none else some (some (ind, P i (maskGet X ind)))

/-- `for ind, p in indpred: if ind is None: continue; pred[ind] = p; indall = logical_or(indall, ind)` -/
def gatherLoop {β} : List (Option (List Bool × List β)) → List β → List Bool → Option (List β × List Bool)
  | [], pred, indall => some (pred, indall)
  | none :: r, pred, indall => gatherLoop r pred indall
  | some (ind, p) :: r, pred, indall =>
    match (indall.zip ind).mapM (fun (ab : Bool × Bool) => BOp.eval applyAccum ab.1 ab.2) with
    | none => none
    | some indall' => gatherLoop r (maskSet pred ind p) indall'

/-- `_apply_predict_method(X, method, parallelized, dimout)`; `none` = the AssertionError on an empty
`estimators_` or an unreadable source; `sel` is the selection of the `parallelized` task. -/
def applyPredict {ρ β} (sel : MaskSel) (nEst : Nat) (P : Nat → List ρ → List β) (Pmean : List ρ → List β)
    (zero : β) (X : List ρ) (assoc : List Int) : Option (List β) :=
  if nEst = 0 then none else
  match (List.range nEst).mapM (predictTask sel P X assoc) with
  | none => none
  | some indpred =>
    match gatherLoop indpred (X.map fun _ => zero) (X.map fun _ => false) with
    | none => none
    | some (pred, indall) =>
      match indall.mapM (UOp.eval applyFinal) with
      | none => none
      | some missed =>
        let Xm := maskGet X missed
        match Cmp.eval fallbackGuard.1 (Xm.length : Int) fallbackGuard.2 with
        | none => none
        | some true => some (maskSet pred missed (Pmean Xm))
        | some false => some pred

/-! ### labels (`PiecewiseClassifier.predict`) -/

inductive Label where
  | int (v : Int)
  | flt (r : Rat)
  | str (s : String)
deriving DecidableEq, Repr

/-- writing a label into the prediction buffer of the given dtype (`numpy.zeros(..., dtype=dtype)`):
a float buffer converts integers and rejects strings, a buffer of the labels' own dtype keeps them -/
def toBuffer (dtype : String) (l : Label) : Except String Label :=
  if dtype == "float64" then
    match l with
    | .int v => .ok (.flt (v : Rat))
    | .flt r => .ok (.flt r)
    | .str _ => .error "ValueError"
  else if dtype == "classes_.dtype" then .ok l
  else .error "unknown-dtype"

def truncRat (r : Rat) : Int := if 0 ≤ r then r.floor else r.ceil

/-- what `PiecewiseClassifier.predict` applies to the scattered buffer -/
def postLabel : PostOp → Label → Except String Label
  | .identity, l => .ok l
  | .astype ty, l =>
    if ty == "numpy.int32" then
      match l with
      | .int v => .ok (.int v)
      | .flt r => .ok (.int (truncRat r))
      | .str _ => .error "ValueError"
    else .error "unknown-cast"
  | .unknown, _ => .error "unknown-post"

/-- `PiecewiseClassifier.predict`: local label predictions scattered into a buffer of dtype
`predictBufferDtype`, then `predictPost` -/
def classifierPredict {ρ} (nEst : Nat) (P : Nat → List ρ → List Label) (Pmean : List ρ → List Label)
    (X : List ρ) (assoc : List Int) : Except String (List Label) :=
  let conv (f : List ρ → List Label) : List ρ → List (Except String Label) :=
    fun xs => (f xs).map (toBuffer predictBufferDtype)
  match predictSelections.head? with
  | none => .error "no-predict-task"
  | some (_, sel, _) =>
    match applyPredict sel nEst (fun i => conv (P i)) (conv Pmean) (.ok (.flt 0)) X assoc with
    | none => .error "AssertionError"
    | some buf => (buf.mapM id).bind (fun ls => ls.mapM (postLabel predictPost))

/-! ### joblib (`Parallel(prefer='threads')`) -/

/-- Result slots filled by tasks executed in the order `sched` (a thread schedule, serialised);
task `i` is a function of `i` and of inputs it does not modify; joblib hands the slots back in
submission order. -/
def runSchedule {α} (n : Nat) (task : Nat → α) (sched : List Nat) : List (Option α) :=
  sched.foldl (fun slots i => slots.set i (some (task i))) (List.replicate n none)

end MlVerif.Piecewise
