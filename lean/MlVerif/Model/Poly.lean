/-
C11 — ExtendedFeatures polynomial features, executable model (core Lean only).

Source: mlinsights/mlmodel/_extended_features_polynomial.py (`_transform_iall`, `_transform_ionly`,
`_combinations_poly`) and mlinsights/mlmodel/extended_features.py (`_get_feature_names_poly`).

The three recurrences are transcribed statement by statement.  Every *index expression* (slice
bounds, `new_pos`, `dec`, the `break` test, loop ranges, subscripts) is NOT written here: it is
taken from `MlVerif.Gen.C11`, which is regenerated from the source on every run.

The output array `XP` is the flat list of the columns written so far (`XP[:, :pos]`); what a column
*contains* is abstract (`Ops β`): instantiated with monomials (`monoOps`, the index-level model that
the correspondence run compares with the real functions driven by a symbolic `multiply`), with values
of a commutative monoid (one row of `X`), with whole columns, and with token lists (feature names).
Everything the real code would reject (IndexError, numpy shape mismatch of `out=`, negative index
outside this model) is `none`.
-/
import MlVerif.Gen.C11

namespace MlVerif.Poly
open MlVerif.Gen.C11

/-- a monomial: the list of variable indices multiplied, most recently multiplied first -/
abbrev Mono := List Nat

/-- what the recurrence does with columns -/
structure Ops (β : Type) where
  /-- `XP[:, 0] = 1` -/
  one : β
  /-- column `i` of `X` -/
  base : Nat → β
  /-- `multiply(col, X[:, i:i+1])` -/
  mul : β → Nat → β

/-- symbolic instance: a column is the monomial it holds -/
def monoOps : Ops Mono := ⟨[], fun i => [i], fun m i => i :: m⟩

/-- `XP[:, a:e]` for non-negative bounds (clipping like Python) -/
def slice {β} (xp : List β) (a e : Nat) : List β := (xp.drop a).take (e - a)

/-- a non-negative Python int as a `Nat`; negative indices are outside this model -/
def natOf (v : Int) : Option Nat := if 0 ≤ v then some v.toNat else none

/-- `l[k]` with Python semantics (negative wraps once, otherwise IndexError = `none`) -/
def pyIndex (l : List Nat) (k : Int) : Option Nat :=
  if 0 ≤ k then l[k.toNat]?
  else if (-k).toNat ≤ l.length then l[l.length - (-k).toNat]? else none

/-- `range(lo, hi)` as (first value, number of iterations) -/
def pyRange (lo hi : Int) : Option (Nat × Nat) :=
  (natOf lo).map (fun l => (l, (hi - lo).toNat))

/-- a write `XP[:, lo:hi] = blk` / `out=XP[:, lo:hi]`: numpy requires equal widths; the model
only covers writes that extend the written prefix (`lo` = number of columns written so far) -/
def writeAt {β} (xp : List β) (lo hi : Int) (blk : List β) : Option (List β) :=
  if lo = (xp.length : Int) ∧ hi - lo = (blk.length : Int) then some (xp ++ blk) else none

/-- `X[:, lo:hi]` must be the single column `lo` of an `n`-column matrix -/
def colOf (n : Nat) (lo hi : Int) : Option Nat :=
  if 0 ≤ lo ∧ hi = lo + 1 ∧ lo < (n : Int) then some lo.toNat else none

/-- loop state between two degrees: columns written, `pos`, `index` -/
structure St (β : Type) where
  xp : List β
  pos : Nat
  index : List Nat

/-- `for d in range(d0, d0+cnt): s = f d s` -/
def loopD {σ} (f : Nat → σ → Option σ) : Nat → Nat → σ → Option σ
  | _, 0, s => some s
  | d, cnt+1, s => (f d s).bind (loopD f (d+1) cnt)

/-! ### `_transform_iall` -/

/-- `for i in range(...)` body, degree step `d ≥ 1` of `_transform_iall` -/
def iallInner {β} (ops : Ops β) (n : Nat) (index : List Nat) (e : Nat) :
    Nat → Nat → List β → Nat → List Nat → Option (List β × Nat × List Nat)
  | _, 0, xp, pos, ni => some (xp, pos, ni)
  | i, cnt+1, xp, pos, ni => do
    let v : Env := { n := (n : Int), i := (i : Int), pos := (pos : Int), end_ := (e : Int) }
    let a ← pyIndex index (Iall.aSub v)                       -- a = index[i]
    let ni := ni ++ [pos]                                      -- new_index.append(pos)
    let v := { v with a := (a : Int) }
    let newPos ← natOf (Iall.newPos v)                         -- new_pos = pos + end - a
    let v := { v with newPos := (newPos : Int) }
    let lo ← natOf (Iall.srcLo v)
    let hi ← natOf (Iall.srcHi v)
    let col ← colOf n (Iall.colLo v) (Iall.colHi v)
    -- multiply(XP[:, a:end], X[:, i:i+1], XP[:, pos:new_pos])
    let xp' ← writeAt xp (Iall.dstLo v) (Iall.dstHi v) ((slice xp lo hi).map (ops.mul · col))
    iallInner ops n index e (i+1) cnt xp' newPos ni            -- pos = new_pos

/-- body of `for d in range(0, degree)` of `_transform_iall` -/
def iallStep {β} (ops : Ops β) (n degree : Nat) (d : Nat) (s : St β) : Option (St β) :=
  let v : Env := { degree := (degree : Int), n := (n : Int), d := (d : Int), pos := (s.pos : Int) }
  if Iall.isInit v then do
    let xp ← writeAt s.xp (Iall.initDstLo v) (Iall.initDstHi v) ((List.range n).map ops.base)
    let (lo, cnt) ← pyRange (Iall.initIdxLo v) (Iall.initIdxHi v)   -- index = list(range(pos, pos+n))
    let pos ← natOf ((s.pos : Int) + Iall.initPosInc v)              -- pos += n
    some ⟨xp, pos, List.range' lo cnt ++ [pos]⟩                      -- index.append(pos)
  else do
    let e ← pyIndex s.index (Iall.endSub v)                          -- end = index[-1]
    let (i0, cnt) ← pyRange (Iall.varLo v) (Iall.varHi v)
    let (xp, pos, ni) ← iallInner ops n s.index e i0 cnt s.xp s.pos []
    some ⟨xp, pos, ni ++ [pos]⟩                                      -- new_index.append(pos); index = new_index

/-- `_transform_iall(degree, bias, XP, X, multiply, final)`: the columns written, in order -/
def transformIall {β} (ops : Ops β) (n degree : Nat) (bias : Bool) : Option (List β) := do
  let v : Env := { degree := (degree : Int), n := (n : Int) }
  let pos ← natOf (if bias then Iall.posBias v else Iall.posNoBias v)
  let xp0 : List β := if bias then [ops.one] else []
  let (d0, cnt) ← pyRange (Iall.degLo v) (Iall.degHi v)
  let s ← loopD (iallStep ops n degree) d0 cnt ⟨xp0, pos, []⟩
  some s.xp

/-! ### `_transform_ionly` -/

def ionlyInner {β} (ops : Ops β) (n : Nat) (index : List Nat) (e : Nat) :
    Nat → Nat → List β → Nat → List Nat → Option (List β × Nat × List Nat)
  | _, 0, xp, pos, ni => some (xp, pos, ni)
  | i, cnt+1, xp, pos, ni => do
    let v : Env := { n := (n : Int), i := (i : Int), pos := (pos : Int), end_ := (e : Int) }
    let a ← pyIndex index (Ionly.aSub v)                      -- a = index[i]
    let ni := ni ++ [pos]                                      -- new_index.append(pos)
    let v := { v with a := (a : Int) }
    let s0 ← pyIndex index (Ionly.decSub0 v)                   -- dec = index[i + 1] - index[i]
    let s1 ← pyIndex index (Ionly.decSub1 v)
    let v := { v with sub0 := (s0 : Int), sub1 := (s1 : Int) }
    let v := { v with dec := Ionly.dec v }
    let v := { v with newPos := Ionly.newPos v }               -- new_pos = pos + end - a - dec
    if Ionly.breakCond v then some (xp, pos, ni)               -- if new_pos <= pos: break
    else do
      let newPos ← natOf v.newPos
      let lo ← natOf (Ionly.srcLo v)
      let hi ← natOf (Ionly.srcHi v)
      let col ← colOf n (Ionly.colLo v) (Ionly.colHi v)
      -- multiply(XP[:, a + dec : end], X[:, i:i+1], XP[:, pos:new_pos])
      let xp' ← writeAt xp (Ionly.dstLo v) (Ionly.dstHi v) ((slice xp lo hi).map (ops.mul · col))
      ionlyInner ops n index e (i+1) cnt xp' newPos ni

def ionlyStep {β} (ops : Ops β) (n degree : Nat) (d : Nat) (s : St β) : Option (St β) :=
  let v : Env := { degree := (degree : Int), n := (n : Int), d := (d : Int), pos := (s.pos : Int) }
  if Ionly.isInit v then do
    let xp ← writeAt s.xp (Ionly.initDstLo v) (Ionly.initDstHi v) ((List.range n).map ops.base)
    let (lo, cnt) ← pyRange (Ionly.initIdxLo v) (Ionly.initIdxHi v)
    let pos ← natOf ((s.pos : Int) + Ionly.initPosInc v)
    some ⟨xp, pos, List.range' lo cnt ++ [pos]⟩
  else do
    let e ← pyIndex s.index (Ionly.endSub v)
    let (i0, cnt) ← pyRange (Ionly.varLo v) (Ionly.varHi v)
    let (xp, pos, ni) ← ionlyInner ops n s.index e i0 cnt s.xp s.pos []
    some ⟨xp, pos, ni ++ [pos]⟩

def transformIonly {β} (ops : Ops β) (n degree : Nat) (bias : Bool) : Option (List β) := do
  let v : Env := { degree := (degree : Int), n := (n : Int) }
  let pos ← natOf (if bias then Ionly.posBias v else Ionly.posNoBias v)
  let xp0 : List β := if bias then [ops.one] else []
  let (d0, cnt) ← pyRange (Ionly.degLo v) (Ionly.degHi v)
  let s ← loopD (ionlyStep ops n degree) d0 cnt ⟨xp0, pos, []⟩
  some s.xp

/-- `ExtendedFeatures._transform_poly`: dispatch on `poly_interaction_only` -/
def transformPoly {β} (ops : Ops β) (n degree : Nat) (io bias : Bool) : Option (List β) :=
  if io then transformIonly ops n degree bias else transformIall ops n degree bias

/-! ### `_get_feature_names_poly` (names are token lists; `a + " " + b` is concatenation) -/

def namesInner {β} (ops : Ops β) (io : Bool) (n : Nat) (index : List Nat) (e : Nat) :
    Nat → Nat → List β → List Nat → Option (List β × List Nat)
  | _, 0, names, ni => some (names, ni)
  | i, cnt+1, names, ni => do
    let v : Env := { n := (n : Int), i := (i : Int), end_ := (e : Int), io := io,
                     lenNames := (names.length : Int) }
    let a ← pyIndex index (Names.aSub v)                       -- a = index[i]
    let ni := ni ++ [names.length]                             -- new_index.append(len(names))
    let v := { v with a := (a : Int) }
    -- start = a + (index[i + 1] - index[i] if interaction_only else 0)
    let v ← if io then do
        let s0 ← pyIndex index (Names.startSub0 v)
        let s1 ← pyIndex index (Names.startSub1 v)
        some { v with sub0 := (s0 : Int), sub1 := (s1 : Int) }
      else some v
    let lo ← natOf (Names.start v)
    let hi ← natOf (Names.srcHi v)
    let col ← natOf (Names.nameSub v)                          -- input_features[i]
    if col < n then
      -- names.extend([a + " " + input_features[i] for a in names[start:end]])
      namesInner ops io n index e (i+1) cnt (names ++ (slice names lo hi).map (ops.mul · col)) ni
    else none

def namesStep {β} (ops : Ops β) (io : Bool) (n degree : Nat) (d : Nat) (s : St β) : Option (St β) :=
  let v : Env := { degree := (degree : Int), n := (n : Int), d := (d : Int), io := io }
  if Names.isInit v then do
    let pos := s.xp.length                                     -- pos = len(names)
    let names := s.xp ++ (List.range n).map ops.base           -- names.extend(input_features)
    let v := { v with pos := (pos : Int), lenNames := (names.length : Int) }
    let (lo, cnt) ← pyRange (Names.initIdxLo v) (Names.initIdxHi v)
    some ⟨names, names.length, List.range' lo cnt ++ [names.length]⟩
  else do
    let e ← pyIndex s.index (Names.endSub v)
    let (i0, cnt) ← pyRange (Names.varLo v) (Names.varHi v)
    let (names, ni) ← namesInner ops io n s.index e i0 cnt s.xp []
    some ⟨names, names.length, ni ++ [names.length]⟩

/-- the raw names list before `process_name` -/
def namesRaw {β} (ops : Ops β) (n degree : Nat) (io bias : Bool) : Option (List β) := do
  let v : Env := { degree := (degree : Int), n := (n : Int), io := io }
  let names0 : List β := if bias then [ops.one] else []
  let (d0, cnt) ← pyRange (Names.degLo v) (Names.degHi v)
  let s ← loopD (namesStep ops io n degree) d0 cnt ⟨names0, names0.length, []⟩
  some s.xp

/-- names as lists of whitespace-free tokens: `"1"`, `input_features[i]`, `a + " " + input_features[i]` -/
def nameOps (feat : Nat → String) : Ops (List String) :=
  ⟨["1"], fun i => [feat i], fun s i => s ++ [feat i]⟩

def strLe (a b : String) : Bool := decide (a ≤ b)

/-- one iteration of the loop of `process_name` over the sorted tokens -/
def rleStep (res : List (String × Nat)) (c : String) : List (String × Nat) :=
  match res.getLast? with
  | none => res ++ [(c, 1)]
  | some (c', k) => if c' ≠ c then res ++ [(c, 1)] else res.dropLast ++ [(c', k + 1)]

def rle (l : List String) : List (String × Nat) := l.foldl rleStep []

def fmtPow (r : String × Nat) : String := if r.2 > 1 then r.1 ++ "^" ++ toString r.2 else r.1

/-- `process_name` on the tokens of `col.split()` -/
def processName (toks : List String) : String :=
  " ".intercalate ((rle (toks.mergeSort strLe)).map fmtPow)

/-- `_get_feature_names_poly(input_features)` -/
def featureNamesPoly (feat : Nat → String) (n degree : Nat) (io bias : Bool) : Option (List String) :=
  (namesRaw (nameOps feat) n degree io bias).map (·.map processName)

/-! ### specification: scikit-learn's `PolynomialFeatures._combinations` -/

/-- least variable allowed after `i`: `i` (with replacement) or `i + 1` (without) -/
def nxt (io : Bool) (i : Nat) : Nat := if io then i + 1 else i

/-- `itertools.combinations_with_replacement(range(lo, n), d)` (`io = false`) or
`itertools.combinations(range(lo, n), d)` (`io = true`), in itertools' (lexicographic) order -/
def combs (io : Bool) (n : Nat) : Nat → Nat → List Mono
  | 0, _ => [[]]
  | d+1, lo => (List.range' lo (n - lo)).flatMap (fun i => (combs io n d (nxt io i)).map (i :: ·))

/-- bias column first, then degree 1, 2, …, `degree` -/
def polySpec (n degree : Nat) (io bias : Bool) : List Mono :=
  (if bias then [[]] else []) ++ (List.range' 1 degree).flatMap (fun d => combs io n d 0)

/-- `_combinations_poly(n_features, degree, interaction_only, include_bias)`:
`comb = combinations if interaction_only else combinations_w_r; start = int(not include_bias);
chain.from_iterable(comb(range(n_features), i) for i in range(start, degree + 1))` -/
def combinationsPoly (n degree : Nat) (io bias : Bool) : Option (List Mono) :=
  let v : Env := { degree := (degree : Int), n := (n : Int), io := io, bias := bias }
  (pyRange (Slow.start v) (Slow.rangeHi v)).map
    (fun r => (List.range' r.1 r.2).flatMap (fun d => combs (Slow.combIo v) n d 0))

/-- `ExtendedFeatures._transform_poly_slow` on a matrix given as its list of rows:
`XP = numpy.empty((X.shape[0], n_output_features_)); for i, comb in enumerate(comb): XP[:, i] = X[:, comb].prod(1)`.
Result = the list of output COLUMNS, each holding one value per input row.  The model only covers the loop whose
single statement writes the whole column (`SlowFill.wholeColumns`, regenerated from the source); anything else
(row blocks, masks) is not modelled and yields `none`. -/
def transformPolySlow {α} (mul : α → α → α) (one : α) (X : List (Nat → α)) (n degree : Nat) (io bias : Bool) :
    Option (List (List α)) :=
  let v : Env := { degree := (degree : Int), n := (n : Int), io := io, bias := bias }
  if SlowFill.wholeColumns v then
    (combinationsPoly n degree io bias).map (fun ms => ms.map (fun m => X.map (fun x => m.foldl (fun acc i => mul acc (x i)) one)))
  else none

/-- what a column of the symbolic run denotes in any other instance -/
def interp {β} (ops : Ops β) : Mono → β
  | [] => ops.one
  | [i] => ops.base i
  | i :: j :: m => ops.mul (interp ops (j :: m)) i

/-- `X[:, comb].prod(1)` for one row `x`: product in the order of the combination -/
def prodOf {α} (mul : α → α → α) (one : α) (x : Nat → α) (m : Mono) : α :=
  m.foldl (fun acc i => mul acc (x i)) one

/-- one row of values: `multiply(A, B)` is `A * B` -/
def valOps {α} (mul : α → α → α) (one : α) (x : Nat → α) : Ops α :=
  ⟨one, x, fun c i => mul c (x i)⟩

end MlVerif.Poly
