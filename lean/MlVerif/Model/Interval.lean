/-
C17 — IntervalRegressor (mlinsights/mlmodel/interval_regressor.py), executable model.
Core Lean only.  Randomness is an input: the bootstrap index list `idx` is what
`numpy.random.randint(lo, hi, size)` returned; base regressors are parameters (their
predictions on the query batch are given as a matrix, one row per query row).
-/
namespace MlVerif.Interval

/-- numpy fancy indexing `a[idx]` for in-range, non-negative indices (`none` = IndexError) -/
def gather {α} (xs : List α) (idx : List Nat) : List (Option α) := idx.map (fun i => xs[i]?)

/-- one training row as an estimator sees it: features, target, weight -/
structure Row where
  x : List Int
  y : Int
  w : Option Int
deriving Repr, DecidableEq

/-- `Xr = X[rnd]; yr = y[rnd]; sr = sample_weight[rnd] if sample_weight is not None else None` -/
def resample (X : List (List Int)) (y : List Int) (w : Option (List Int)) (idx : List Nat) :
    List (Option (List Int)) × List (Option Int) × Option (List (Option Int)) :=
  (gather X idx, gather y idx, w.map (fun w => gather w idx))

/-- the data set as a list of rows (what "kept together" means) -/
def rows (X : List (List Int)) (y : List Int) (w : Option (List Int)) : List Row :=
  match w with
  | none => (X.zip y).map (fun p => ⟨p.1, p.2, none⟩)
  | some w => ((X.zip y).zip w).map (fun p => ⟨p.1.1, p.1.2, some p.2⟩)

def leB (a b : Rat) : Bool := decide (a ≤ b)

/-- `preds.mean(axis=1)` for one row of `predict_all` -/
def rowMean (r : List Rat) : Rat := r.sum / (r.length : Rat)

/-- `predict`: mean over estimators, per query row -/
def predict (predAll : List (List Rat)) : List Rat := predAll.map rowMean

/-- `predict_sorted`: every row of `predict_all` sorted in non-decreasing order -/
def predictSorted (predAll : List (List Rat)) : List (List Rat) :=
  predAll.map (fun r => r.mergeSort leB)

/-- `predict_all`: column j holds estimator j's predictions (estimators as functions) -/
def predictAll {ρ} (ests : List (ρ → Rat)) (X : List ρ) : List (List Rat) :=
  X.map (fun x => ests.map (fun e => e x))

end MlVerif.Interval
