/-
C07 — ConstraintKMeans (mlinsights/mlmodel/_kmeans_constraint_.py, kmeans_constraint.py), executable model.
Core Lean only.  A numpy array is an `Arr`: a total read function plus its length (an array of length n
is read on `i < n` only; the record has two fields so that the compiler keeps it a value -- a bare
function would be re-evaluated on every read), distances are an integer matrix `D.get i |>.get c`
(point i, cluster c), `argsort` results and random draws are inputs.  Every test / arithmetic expression the balancing hinges on is taken from the REGENERATED
`MlVerif.Gen.C07` (directly in the fill loop, through a `GainCfg` record in the gain strategy so that
the same model can also be instantiated with the snapshot of the unrepaired code).
-/
import MlVerif.Gen.C07
namespace MlVerif.Balance
open MlVerif.Gen

/-! ### arrays -/

structure Arr (α : Type) where
  get : Nat → α
  size : Nat

abbrev Mat := Arr (Arr Int)

/-- `D[i, c]` -/
def Mat.at (D : Mat) (i c : Nat) : Int := (D.get i).get c

/-- constant array (`a[:] = v`) -/
def Arr.const {α} (n : Nat) (v : α) : Arr α := { get := fun _ => v, size := n }

/-- the array holding the entries of a list (`d` beyond its end) -/
def Arr.ofList {α} (l : List α) (d : α) : Arr α := { get := fun i => l.getD i d, size := l.length }

/-- `a[i] = v` -/
def upd {α} (f : Arr α) (i : Nat) (v : α) : Arr α :=
  { get := fun x => if x = i then v else f.get x, size := f.size }

/-- `a[i, c] = v` -/
def upd2 (f : Mat) (i c : Nat) (v : Int) : Mat := upd f i (upd (f.get i) c v)

/-- list-backed copy of the first `size` entries (extensionally the same array; keeps look-ups short) -/
def memo {α} (f : Arr α) : Arr α :=
  let l := ((List.range f.size).map f.get).toArray
  { get := fun i => match l[i]? with
      | some v => v
      | none => f.get i,
    size := f.size }

/-- `numpy.array([g(i) for i in range(n)])` -/
def tabulate {α} (n : Nat) (g : Nat → α) : Arr α := memo { get := g, size := n }

def sumTo (f : Nat → Int) : Nat → Int
  | 0 => 0
  | k+1 => sumTo f k + f k

def countTo (p : Nat → Bool) : Nat → Nat
  | 0 => 0
  | n+1 => countTo p n + (if p n then 1 else 0)

/-- number of points `i < n` with label `c` -/
def hist (lab : Arr Nat) (n c : Nat) : Nat := countTo (fun i => lab.get i == c) n

/-- `a.min()` / `a.max()` over the first `n+1` entries -/
def minTo (f : Nat → Int) : Nat → Int
  | 0 => f 0
  | n+1 => min (minTo f n) (f (n+1))
def maxTo (f : Nat → Int) : Nat → Int
  | 0 => f 0
  | n+1 => max (maxTo f n) (f (n+1))

/-- `numpy.argmin(row)` over `k` columns: first minimum -/
def argminRow (row : Nat → Int) : Nat → Nat
  | 0 => 0
  | k+1 => let b := argminRow row k; if k = 0 then 0 else if row k < row b then k else b

/-! ### `_switch_clusters(labels, distances)` — `perm` is the recorded `numpy.random.permutation` -/

/-- body of the double loop for the pair of points `(i, j) = (perm[i_], perm[j_])`, `i_ < j_` -/
def switchStep (D : Mat) (i j : Nat) (s : Arr Nat × Nat) : Arr Nat × Nat :=
  let c1 := s.1.get i
  let c2 := s.1.get j
  if c1 = c2 then s
  else
    let d11 := D.at i c1
    let d12 := D.at i c2
    let d21 := D.at j c1
    let d22 := D.at j c2
    if d11 * d11 + d22 * d22 > d21 * d21 + d12 * d12 then (upd (upd s.1 i c2) j c1, s.2 + 1) else s

/-- `for j_ in range(i_ + 1, n)` -/
def sweepInner (D : Mat) (i : Nat) : List Nat → Arr Nat × Nat → Arr Nat × Nat
  | [], s => s
  | j :: js, s => sweepInner D i js (switchStep D i j s)

/-- `for i_ in range(n)` over the suffixes of `perm` -/
def sweep (D : Mat) : List Nat → Arr Nat × Nat → Arr Nat × Nat
  | [], s => s
  | i :: rest, s => sweep D rest (sweepInner D i rest s)

/-- `while modif > 0 and niter < 10` (`fuel` = remaining iterations) -/
def switchLoop (D : Mat) (perm : List Nat) : Nat → Arr Nat → Arr Nat
  | 0, lab => lab
  | fuel+1, lab =>
    let r := sweep D perm (lab, 0)
    let lab' := memo r.1
    if r.2 > 0 then switchLoop D perm fuel lab' else lab'

def switchClusters (D : Mat) (perm : List Nat) (lab : Arr Nat) : Arr Nat :=
  switchLoop D perm 10 lab

/-! ### `_randomize_index(index, weights)` — `rand` is the recorded `numpy.random.rand(n)`;
`eps` is the constant `1e-5` (scaled like the weights) -/

structure RSt where
  idx : Arr Nat
  w : Arr Int

/-- `rand[i] >= abs(w2 - w1) / diff * 0.5 + 0.5` -/
def randomizeTest (diff : Rat) (rand : Arr Rat) (i : Nat) (s : RSt) : Bool :=
  let w1 := s.w.get (s.idx.get (i - 1))
  let w2 := s.w.get (s.idx.get i)
  let a : Int := if w2 - w1 < 0 then -(w2 - w1) else w2 - w1
  let ratio : Rat := (a : Rat) / diff * (1 / 2)
  decide (rand.get i ≥ ratio + 1 / 2)

def randomizeStep (diff : Rat) (rand : Arr Rat) (i : Nat) (s : RSt) : RSt :=
  if randomizeTest diff rand i s then
    { idx := upd (upd s.idx (i - 1) (s.idx.get i)) i (s.idx.get (i - 1)),
      w := upd (upd s.w (i - 1) (s.w.get (s.idx.get i))) i (s.w.get (s.idx.get (i - 1))) }
  else s

def randomizeLoop (diff : Rat) (rand : Arr Rat) : List Nat → RSt → RSt
  | [], s => s
  | i :: is, s => randomizeLoop diff rand is (randomizeStep diff rand i s)

/-- returns the randomized index (as a list of length `n`); `n ≥ 1` -/
def randomizeIndex (n : Nat) (index : Arr Nat) (weights : Arr Int) (eps : Rat) (rand : Arr Rat) : List Nat :=
  let maxi := maxTo weights.get (n - 1)
  let mini := minTo weights.get (n - 1)
  let d : Rat := ((maxi - mini : Int) : Rat)
  let diff : Rat := if d < eps then eps else d
  let s := randomizeLoop diff rand (List.range' 1 (n - 1)) { idx := index, w := weights }
  (List.range n).map s.idx.get

/-! ### `_constraint_association_distance` -/

structure FillSt where
  cnt : Arr Int          -- counters
  lc : Arr Int           -- leftclose
  lab : Arr Int          -- labels (-1 = not yet placed)
  nover : Int
  dist : Mat             -- `distances` (entries of placed points are overwritten by `maxi`)

/-- `for c in centers_index[ind, :]` with its two accepting branches; `none` = no cluster accepted -/
def tryAssign (limit maxi : Int) (ind : Nat) (s : FillSt) : List Nat → Option FillSt
  | [] => none
  | c :: cs =>
    if C07.acceptLimit (s.cnt.get c) limit s.nover (s.lc.get c) then
      let e := C07.effectLimit (s.cnt.get c) s.nover (s.lc.get c)
      some { cnt := upd s.cnt c e.1, nover := e.2.1, lc := upd s.lc c e.2.2,
             lab := upd s.lab ind (c : Int), dist := upd2 s.dist ind c maxi }
    else if C07.acceptLeftover (s.cnt.get c) limit s.nover (s.lc.get c) then
      let e := C07.effectLeftover (s.cnt.get c) s.nover (s.lc.get c)
      some { cnt := upd s.cnt c e.1, nover := e.2.1, lc := upd s.lc c e.2.2,
             lab := upd s.lab ind (c : Int), dist := upd2 s.dist ind c maxi }
    else tryAssign limit maxi ind s cs

/-- `for ind in sorted_index` -/
def fillPass (limit maxi : Int) (prefs : Arr (List Nat)) : List Nat → FillSt → FillSt
  | [], s => s
  | ind :: rest, s =>
    if C07.fillSkip (s.lab.get ind) then fillPass limit maxi prefs rest s
    else match tryAssign limit maxi ind s (prefs.get ind) with
      | some s' => fillPass limit maxi prefs rest s'
      | none => fillPass limit maxi prefs rest s

/-- what one pass of the `while` loop takes from outside: `numpy.argsort(mini)` and `numpy.random.rand(n)` -/
structure PassIn where
  order : Arr Nat
  rand : Arr Rat

def rowMin (k : Nat) (row : Arr Int) : Int := minTo row.get (k - 1)

/-- `while labels.min() == -1` (n ≥ 1, k ≥ 1); `none` = the recorded passes are exhausted -/
def fillLoop (n k : Nat) (limit leftover maxi : Int) (eps : Rat) (prefs : Arr (List Nat)) :
    List PassIn → FillSt → Option FillSt
  | [], s => if C07.fillWhile (minTo s.lab.get (n - 1)) then none else some s
  | p :: ps, s =>
    if C07.fillWhile (minTo s.lab.get (n - 1)) then
      let mini := tabulate n (fun i => rowMin k (s.dist.get i))
      let order := randomizeIndex n p.order mini eps p.rand
      let s1 := fillPass limit maxi prefs order { s with nover := C07.fillNover0 leftover }
      fillLoop n k limit leftover maxi eps prefs ps
        { s1 with cnt := memo s1.cnt, lc := memo s1.lc, lab := memo s1.lab }
    else some s

def fillInit (n k : Nat) (D : Mat) : FillSt :=
  { cnt := Arr.const k C07.fillInitCounter, lc := Arr.const k C07.fillInitLeftclose,
    lab := Arr.const n C07.fillInitLabel, nover := 0, dist := D }

/-- `distances.ravel().max() * 2` -/
def maxiOf (n k : Nat) (D : Mat) : Int := maxTo (fun i => maxTo (D.get i).get (k - 1)) (n - 1) * 2

/-- The whole call: labels after `_switch_clusters`.  `prefs.get i` = `centers_index[i, :]` (argsort of row i),
`passes` = one `PassIn` per executed pass of the while loop, `perm` = permutation drawn by `_switch_clusters`. -/
def assocDistance (n k : Nat) (limit leftover : Int) (D : Mat) (prefs : Arr (List Nat))
    (passes : List PassIn) (eps : Rat) (perm : List Nat) : Option (Arr Nat) :=
  if n = 0 ∨ k = 0 then none
  else match fillLoop n k limit leftover (maxiOf n k D) eps prefs passes (fillInit n k D) with
    | none => none
    | some s => some (switchClusters D perm (tabulate n (fun i => (s.lab.get i).toNat)))

/-! ### `_constraint_association_gain` -/

/-- what the gain association takes from the source (regenerated: `genCfg`; as of the unrepaired
snapshot: `snapshotCfg`) -/
structure GainCfg where
  ave : Int → Int
  lc0 : Int → Int → Int
  clip : Int → Int
  nover : Int → Int → Int → Int
  sumi : Int → Int → Int
  adjustGuard : Int → Bool
  negCond : Int → Int → Bool
  posCond : Int → Int → Bool
  neg : Int → Int → Int × Int
  pos : Int → Int → Int × Int
  adjustWhile : Int → Bool
  adjustBreak : Int → Int → Bool
  detBreak : Int → Bool
  quota : Int → Int → Int → Int → Int → Bool
  swap : Int → Int → Bool
  finalPass : Bool
  finalQuota : Int → Int → Int → Int → Int → Bool

def genCfg : GainCfg :=
  { ave := C07.gainAve, lc0 := C07.gainLeftclose0, clip := C07.gainClip, nover := C07.gainNover,
    sumi := C07.gainSumi, adjustGuard := C07.gainAdjustGuard, negCond := C07.loopfNegCond,
    posCond := C07.loopfPosCond, neg := C07.loopfNeg, pos := C07.loopfPos,
    adjustWhile := C07.adjustWhile, adjustBreak := C07.adjustBreak, detBreak := C07.adjustDetBreak,
    quota := C07.quotaMove, swap := C07.swapTest, finalPass := C07.finalPass,
    finalQuota := C07.finalQuota }

/-- `_constraint_association_gain` as of the snapshot 343eda6 (before any repair): `sumi -= leftclose[h]`,
`sumi += 1`, only the clip at 0, no last pass. -/
def snapshotCfg : GainCfg :=
  { ave := fun l => l, lc0 := fun c a => c - a, clip := fun x => if x < 0 then 0 else x,
    nover := fun n a k => n - a * k, sumi := fun nv s => nv - s, adjustGuard := fun s => decide (s ≠ 0),
    negCond := fun s l => decide (s < 0) && decide (l > 0), posCond := fun s l => decide (s > 0) && decide (l = 0),
    neg := fun s l => (s - l, 0), pos := fun s _ => (s + 1, 1),
    adjustWhile := fun s => decide (s ≠ 0), adjustBreak := fun it k => decide (it > k * 2),
    detBreak := fun s => decide (s = 0),
    quota := fun cd cc a ld lcu => decide (cd < a + ld) && decide (cc > a + lcu),
    swap := fun g gn => decide (g + gn < 0), finalPass := false, finalQuota := fun _ _ _ _ _ => false }

/-- `loopf(h, sumi)` acting on `(sumi, leftclose)` -/
def loopf (cfg : GainCfg) (h : Nat) (s : Int × Arr Int) : Int × Arr Int :=
  if cfg.negCond s.1 (s.2.get h) then
    let r := cfg.neg s.1 (s.2.get h)
    (r.1, upd s.2 h r.2)
  else if cfg.posCond s.1 (s.2.get h) then
    let r := cfg.pos s.1 (s.2.get h)
    (r.1, upd s.2 h r.2)
  else s

/-- `while sumi != 0: h = state.randint(0, k); sumi = loopf(h, sumi); it += 1; if it > k*2: break`;
`draws` = the recorded values of `h`; `none` = recorded draws exhausted -/
def adjustRand (cfg : GainCfg) (k : Nat) : List Nat → Int → Int × Arr Int → Option (Int × Arr Int)
  | [], _, s => if cfg.adjustWhile s.1 then none else some s
  | h :: hs, it, s =>
    if cfg.adjustWhile s.1 then
      let s' := loopf cfg h s
      if cfg.adjustBreak (it + 1) k then some s' else adjustRand cfg k hs (it + 1) s'
    else some s

/-- `for h in range(k): if sumi == 0: break; sumi = loopf(h, sumi)` -/
def adjustDet (cfg : GainCfg) : List Nat → Int × Arr Int → Int × Arr Int
  | [], s => s
  | h :: hs, s => if cfg.detBreak s.1 then s else adjustDet cfg hs (loopf cfg h s)

/-- the allowance vector `leftclose` after the adjustment -/
def allowance (cfg : GainCfg) (n k : Nat) (ave : Int) (cnt : Arr Int) (draws : List Nat) : Option (Arr Int) :=
  let lc : Arr Int := tabulate k (fun c => cfg.clip (cfg.lc0 (cnt.get c) ave))
  let nover := cfg.nover n ave k
  let sumi := cfg.sumi nover (sumTo lc.get k)
  if cfg.adjustGuard sumi then
    match adjustRand cfg k draws 0 (sumi, lc) with
    | none => none
    | some s => some (memo (adjustDet cfg (List.range k) s).2)
  else some lc

abbrev Key := Nat × Nat
/-- the `transfer` dictionary: key `(from, to)` → list of `(gain, point)` kept sorted by `bisect.insort` -/
abbrev Transfer := List (Key × List (Int × Nat))

def tget (t : Transfer) (key : Key) : Option (List (Int × Nat)) :=
  match t with
  | [] => none
  | e :: es => if e.1 = key then some e.2 else tget es key

def tset (t : Transfer) (key : Key) (v : List (Int × Nat)) : Transfer :=
  match t with
  | [] => [(key, v)]
  | e :: es => if e.1 = key then (key, v) :: es else e :: tset es key v

/-- `while len(cp) > 0: if distances_close[cp[0][1]]: del cp[0] else: break` -/
def dropMoved (moved : Arr Bool) : List (Int × Nat) → List (Int × Nat)
  | [] => []
  | x :: xs => if moved.get x.2 then dropMoved moved xs else x :: xs

/-- tuple comparison `(g1, i1) < (g2, i2)` -/
def lexLt (a b : Int × Nat) : Bool := decide (a.1 < b.1) || (decide (a.1 = b.1) && decide (a.2 < b.2))

/-- `bisect.insort(l, x)` (insort_right) -/
def insort (x : Int × Nat) : List (Int × Nat) → List (Int × Nat)
  | [] => [x]
  | y :: ys => if lexLt x y then x :: y :: ys else y :: insort x ys

structure GSt where
  lab : Arr Nat
  cnt : Arr Int
  moved : Arr Bool      -- `distances_close[ind] != 0`
  tr : Transfer

/-- body of the main loop for the row `(ind, dest)` of `sorted_distances`; `G` = `strategy_coef` -/
def gainStep (cfg : GainCfg) (ave : Int) (lc : Arr Int) (G : Nat → Nat → Int) (p : Nat × Nat) (s : GSt) : GSt :=
  let ind := p.1
  let dest := p.2
  let gain := G ind dest
  let cur := s.lab.get ind
  if s.moved.get ind then s
  else if cur = dest then s
  else if cfg.quota (s.cnt.get dest) (s.cnt.get cur) ave (lc.get dest) (lc.get cur) then
    { s with lab := upd s.lab ind dest,
             cnt := upd (upd s.cnt cur (s.cnt.get cur - 1)) dest (s.cnt.get dest + 1),
             moved := upd s.moved ind true }
  else
    let add (t : Transfer) : GSt :=
      { s with tr := tset t (cur, dest) (insort (gain, ind) ((tget t (cur, dest)).getD [])) }
    match tget s.tr (dest, cur) with
    | none => add s.tr
    | some cp0 =>
      let cp := dropMoved s.moved cp0
      let t1 := tset s.tr (dest, cur) cp
      match cp with
      | [] => add t1
      | (g, destind) :: rest =>
        if cfg.swap g gain then
          { s with tr := tset t1 (dest, cur) rest, lab := upd (upd s.lab ind dest) destind cur,
                   moved := upd (upd s.moved ind true) destind true }
        else add t1

def gainLoop (cfg : GainCfg) (ave : Int) (lc : Arr Int) (G : Nat → Nat → Int) : List (Nat × Nat) → GSt → GSt
  | [], s => s
  | p :: ps, s => gainLoop cfg ave lc G ps (gainStep cfg ave lc G p s)

/-- body of the last pass (plain transfers), present when `cfg.finalPass` -/
def finalStep (cfg : GainCfg) (ave : Int) (lc : Arr Int) (p : Nat × Nat) (s : Arr Nat × Arr Int) :
    Arr Nat × Arr Int :=
  let ind := p.1
  let dest := p.2
  let cur := s.1.get ind
  if cur = dest then s
  else if cfg.finalQuota (s.2.get dest) (s.2.get cur) ave (lc.get dest) (lc.get cur) then
    (upd s.1 ind dest, upd (upd s.2 cur (s.2.get cur - 1)) dest (s.2.get dest + 1))
  else s

def finalLoop (cfg : GainCfg) (ave : Int) (lc : Arr Int) : List (Nat × Nat) →
    Arr Nat × Arr Int → Arr Nat × Arr Int
  | [], s => s
  | p :: ps, s => finalLoop cfg ave lc ps (finalStep cfg ave lc p s)

inductive GainErr where
  | assertion        -- `assert neg <= 0` fails ("The algorithm failed")
  | draws            -- recorded draws exhausted (harness-side, not a behaviour of the code)
deriving DecidableEq, Repr

/-- labels and counters before `_switch_clusters` -/
def gainCore (cfg : GainCfg) (n k : Nat) (limit : Int) (D : Mat) (lab0 : Arr Nat)
    (pairs : List (Nat × Nat)) (draws : List Nat) : Except GainErr (Arr Nat × Arr Int) :=
  let ave := cfg.ave limit
  let cnt : Arr Int := tabulate k (fun c => (hist lab0 n c : Int))
  match allowance cfg n k ave cnt draws with
  | none => .error .draws
  | some lc =>
    let G : Nat → Nat → Int := fun i c => D.at i c - D.at i (lab0.get i)
    let s := gainLoop cfg ave lc G pairs
      { lab := lab0, cnt := cnt, moved := Arr.const n false, tr := [] }
    let r := if cfg.finalPass then finalLoop cfg ave lc pairs (s.lab, s.cnt) else (s.lab, s.cnt)
    if countTo (fun c => decide (r.2.get c < ave)) k ≤ 0 then .ok r else .error .assertion

/-- The whole call.  `labP = true` is strategy `gain_p` (labels start from the nearest centre),
`pairs` = rows `(ind, dest)` of `sorted_distances` in order, `draws` = values of `state.randint(0, k)`,
`perm` = permutation drawn by `_switch_clusters`. -/
def assocGain (cfg : GainCfg) (n k : Nat) (limit : Int) (D : Mat) (labP : Bool) (lab0 : Arr Nat)
    (pairs : List (Nat × Nat)) (draws : List Nat) (perm : List Nat) : Except GainErr (Arr Nat) :=
  let lab1 := if labP then tabulate n (fun i => argminRow (D.get i).get k) else lab0
  match gainCore cfg n k limit D lab1 pairs draws with
  | .error e => .error e
  | .ok r => .ok (switchClusters D perm (memo r.1))

/-! ### outer loop of `constraint_kmeans` (after the first association):
`assoc` = one association call (centres, distances and draws of that iteration are in `α`),
the inertia of each iteration is an input. -/

structure Best where
  lab : Arr Nat
  inertia : Rat
  iter : Int

def Best.inertiaOf : Option Best → Rat
  | some b => b.inertia
  | none => 0
def Best.iterOf : Option Best → Int
  | some b => b.iter
  | none => 0

/-- `if best_inertia is None or inertia < best_inertia: best_... = ...` -/
def updateBest (best : Option Best) (lab' : Arr Nat) (inertia : Rat) (iter' : Int) : Option Best :=
  if C07.better best.isNone inertia (Best.inertiaOf best) then
    some { lab := lab', inertia := inertia, iter := iter' }
  else best

/-- returns `(best, iter)`; `none` = an association failed or the recorded iterations are exhausted -/
def outerLoop {α} (assoc : Arr Nat → α → Option (Arr Nat)) (maxIter : Int) :
    List (α × Rat) → Arr Nat → Int → Option Best → Option (Option Best × Int)
  | [], _, iter, best => if C07.outerGuard iter maxIter then none else some (best, iter)
  | (a, inertia) :: rest, lab, iter, best =>
    if C07.outerGuard iter maxIter then
      match assoc lab a with
      | none => none
      | some lab' =>
        let iter' := C07.iterNext iter
        let best' := updateBest best lab' inertia iter'
        if C07.earlyStop best'.isNone inertia (Best.inertiaOf best') iter' (Best.iterOf best') then some (best', iter')
        else outerLoop assoc maxIter rest lab' iter' best'
    else some (best, iter)

/-- `constraint_kmeans`: first association, then the loop; the result is `best_labels, iter`
(`none` also when the loop never ran: `best_labels` is unbound in the code). -/
def constraintKMeans {α} (assoc : Arr Nat → α → Option (Arr Nat)) (maxIter : Int) (lab0 : Arr Nat)
    (iter0 : Int) (first : α) (steps : List (α × Rat)) : Option (Arr Nat × Int) :=
  match assoc lab0 first with
  | none => none
  | some lab1 =>
    match outerLoop assoc maxIter steps lab1 iter0 none with
    | some (some b, iter) => some (b.lab, iter)
    | _ => none

/-! ### centres and plain prediction -/

/-- one coordinate of a centre as `_centers_dense` computes it: weighted sum / weight (`none` = 0/0) -/
def centerCoord (sum weight : Int) : Option Rat := if weight = 0 then none else some ((sum : Rat) / (weight : Rat))

/-- `ConstraintKMeans.predict` on one row of squared distances to the centres -/
def predictPlain (k : Nat) (row : Nat → Int) : Nat := argminRow row k

end MlVerif.Balance
