/-
C13 — the `available_fcts()` table of FunctionReciprocalTransformer
(mlinsights/mlmodel/sklearn_transform_inv_fct.py), as plain data.  Core Lean only.

A predefined function is a closed term in one real variable: a *chain* of primitive
unary functions applied to the argument, innermost first
(`lambda x: numpy.log(x + 1)` is `[addC 1, log]`, `numpy.log1p` is `[log1p]`,
the identity is `[]`).  The real-valued interpretation (Mathlib `Real.log`, `Real.exp`)
lives in `Lemmas/FctTable.lean`; here is only what can be computed and decided:
table lookup, the syntactic inverse of a chain, the check that every entry names an entry
whose chain is that syntactic inverse, and the composition performed by
`get_fct_inv` / `TransformedTargetRegressor2.predict`.
-/
namespace MlVerif.FctTable

/-- primitive real functions occurring in the table -/
inductive Prim where
  | log                    -- numpy.log
  | exp                    -- numpy.exp
  | log1p                  -- numpy.log1p      (identified with log(1+x), trusted)
  | expm1                  -- numpy.expm1      (identified with exp(x)-1, trusted)
  | addC (c : Int)         -- x + c  /  c + x  /  x - (-c)
  | unknown (src : String) -- source the extractor could not classify
deriving DecidableEq, Repr

/-- one entry `name: (function, name of the inverse)` of the dictionary literal -/
structure Entry where
  name : String
  fct : List Prim
  inv : String
deriving DecidableEq, Repr

abbrev Table := List Entry

/-- `opts[name]` (`none` = KeyError / "Unknown fct" ValueError of the constructor) -/
def lookup (t : Table) (name : String) : Option Entry := t.find? (fun e => e.name = name)

def Prim.isUnknown : Prim → Bool
  | .unknown _ => true
  | _ => false

/-- the primitive undoing a primitive -/
def invPrim : Prim → Prim
  | .log => .exp
  | .exp => .log
  | .log1p => .expm1
  | .expm1 => .log1p
  | .addC c => .addC (-c)
  | .unknown s => .unknown s

/-- syntactic inverse of a chain: inverse primitives in reverse order -/
def invChain (c : List Prim) : List Prim := (c.map invPrim).reverse

/-- `log1p` and `expm1` written with `log`, `exp` and `+ 1`, `- 1` (the trusted identification):
chains are compared after this expansion, so `"log(1+x)"` may name `"expm1"` as well as `"exp(x)-1"` -/
def expandPrim : Prim → List Prim
  | .log1p => [.addC 1, .log]
  | .expm1 => [.exp, .addC (-1)]
  | p => [p]

def expand (c : List Prim) : List Prim := c.flatMap expandPrim

/-- the entry names an existing entry whose function is, after expansion, the syntactic inverse of
its own -/
def checkEntry (t : Table) (e : Entry) : Bool :=
  match lookup t e.inv with
  | some g => decide (expand g.fct = invChain (expand e.fct)) && !(e.fct.any Prim.isUnknown)
  | none => false

/-- a python dict literal keeps one value per key: the table must not repeat a name -/
def namesDistinct (t : Table) : Bool := decide ((t.map (·.name)).Nodup)

/-! ### FunctionReciprocalTransformer / TransformedTargetRegressor2 with a predefined name -/

/-- `FunctionReciprocalTransformer(name).fit()`: `(fct_, fct_inv_)`; `none` = ValueError -/
def fctFit (t : Table) (name : String) : Option (List Prim × String) :=
  (lookup t name).map (fun e => (e.fct, e.inv))

/-- `get_fct_inv()` of a fitted transformer: a *new* transformer built from the inverse's name,
fitted through the same table. Returns its name, `fct_` and `fct_inv_`. -/
def fctGetInv (t : Table) (name : String) : Option (String × List Prim × String) :=
  match fctFit t name with
  | none => none
  | some (_, invName) => (fctFit t invName).map (fun p => (invName, p.1, p.2))

/-- `TransformedTargetRegressor2(transformer=name)`:
the regressor is trained on `fct_(y)` (first component) and `predict` applies the chain of
`get_fct_inv()` (second component) to what the inner regressor predicts. -/
def regressorChains (t : Table) (name : String) : Option (List Prim × List Prim) :=
  match fctFit t name, fctGetInv t name with
  | some (f, _), some (_, g, _) => some (f, g)
  | _, _ => none

/-! ### flat printers for the driver -/

def Prim.show : Prim → String
  | .log => "log"
  | .exp => "exp"
  | .log1p => "log1p"
  | .expm1 => "expm1"
  | .addC c => "add:" ++ toString c
  | .unknown _ => "unknown"

def showChain (c : List Prim) : String :=
  if c.isEmpty then "id" else ">".intercalate (c.map Prim.show)

end MlVerif.FctTable
