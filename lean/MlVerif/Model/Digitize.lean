/-
C12 — mlinsights/mltree/tree_digitize.py `digitize2tree`, executable model. Core Lean only.

The recursion `add_nodes(parent, i, j, is_left)` is driven by the REGENERATED step function
`Gen.C12.addNodes` (branch conditions, split index, threshold index, leaf values and the
arguments of the two recursive calls are what the source says now); the root by
`Gen.C12.rootIndex/rootAssert/rootThIndex/rootFirst/rootSecond`; the descending case by
`Gen.C12.ascending/descValue`. `tree_add_node` appends a node and hooks it under `parent` on
the side `is_left`, so a call sequence "add n; add_nodes(n, …, True); add_nodes(n, …, False)"
numbers the nodes in preorder: `toArrays` is that numbering.

Bin edges and query values are exact rationals (the float64 thresholds the tree stores and
the float32 value of x that scikit-learn compares with them).
-/
import MlVerif.Gen.C12
import MlVerif.Model.TreeStruct

namespace MlVerif.Digitize
open MlVerif.Gen.C12 MlVerif.TreeStruct

inductive DTree where
  | leaf (v : Int)
  | node (th : Rat) (l r : DTree)
deriving Repr, DecidableEq

/-- decision function of the tree: `x <= threshold` goes left -/
def DTree.eval : DTree → Rat → Int
  | .leaf v, _ => v
  | .node th l r, x => if x ≤ th then l.eval x else r.eval x

def DTree.size : DTree → Nat
  | .leaf _ => 1
  | .node _ l r => 1 + l.size + r.size

def DTree.mapValues (f : Int → Int) : DTree → DTree
  | .leaf v => .leaf (f v)
  | .node th l r => .node th (l.mapValues f) (r.mapValues f)

inductive Err where
  | runtime          -- `right` is False
  | assertion        -- add_root's assert
  | index            -- bins[k] out of range
  | notImplemented   -- add_nodes falls through
  | recursion        -- unbounded recursion (RecursionError)
  | unsupported      -- source the model does not cover (children not added left-then-right, unknown syntax)
deriving Repr, DecidableEq

/-- Python `bins[k]` (negative k counts from the end) -/
def pyIndex (bins : List Rat) (k : Int) : Except Err Rat :=
  let n : Int := bins.length
  let k' := if k < 0 then k + n else k
  if 0 ≤ k' then
    match bins[k'.toNat]? with
    | some b => .ok b
    | none => .error .index
  else .error .index

/-- `add_nodes(parent, i, j, is_left)`: the subtree it creates (`fuel` bounds the recursion depth) -/
def build (bins : List Rat) : Nat → Call → Except Err DTree
  | 0, _ => .error .recursion
  | fuel + 1, c =>
    match addNodes c.i c.j c.isLeft with
    | .leaf v => .ok (.leaf v)
    | .split k c1 c2 =>
      if c1.isLeft && !c2.isLeft then
        match pyIndex bins k, build bins fuel c1, build bins fuel c2 with
        | .ok th, .ok l, .ok r => .ok (.node th l r)
        | .error e, _, _ => .error e
        | _, .error e, _ => .error e
        | _, _, .error e => .error e
      else .error .unsupported
    | .raise => .error .notImplemented
    | .unknown _ => .error .unsupported

/-- recursion budget: Python's frame limit stands in as `2·len(bins) + 3`, more than any
terminating `add_nodes` recursion over `bins[i:j]` needs -/
def fuelFor (bins : List Rat) : Nat := 2 * bins.length + 3

/-- the ascending branch: `add_root(index)`, `add_nodes(0, 0, index, True)`,
`add_nodes(0, index, len(bins), False)` -/
def digitizeAsc (bins : List Rat) : Except Err DTree :=
  let n : Int := bins.length
  let index := rootIndex n
  if !rootAssert n index then .error .assertion
  else
    let c1 := rootFirst n index
    let c2 := rootSecond n index
    if c1.isLeft && !c2.isLeft then
      match pyIndex bins (rootThIndex index), build bins (fuelFor bins) c1, build bins (fuelFor bins) c2 with
      | .ok th, .ok l, .ok r => .ok (.node th l r)
      | .error e, _, _ => .error e
      | _, .error e, _ => .error e
      | _, _, .error e => .error e
    else .error .unsupported

/-- `digitize2tree(bins, right)` -/
def digitize2tree (bins : List Rat) (right : Bool) : Except Err DTree :=
  if rightRequired && !right then .error .runtime
  else
    let n : Int := bins.length
    if ascending n (bins.getD 0 0) (bins.getD 1 0) then digitizeAsc bins
    else if !descReversesBins then .error .unsupported
    else
      let bins2 := bins.reverse
      -- the recursive call `digitize2tree(bins2, right=right)`
      if ascending n (bins2.getD 0 0) (bins2.getD 1 0) then
        (digitizeAsc bins2).map (DTree.mapValues (descValue n))
      else .error .recursion   -- bins2[::-1] is bins again: the recursion never ends

/-! ### the scikit-learn arrays: preorder numbering -/

/-- nodes of `T` numbered in preorder from `off`, with `tree_.value[:, 0, 0]`
(`none` = the `UNUSED` nan of a split node) -/
def flatten : DTree → Nat → List (Node × Option Int)
  | .leaf v, _ => [(⟨-1, -1, -2, -2⟩, some v)]
  | .node th l r, off =>
    (⟨(off + 1 : Nat), (off + 1 + l.size : Nat), 0, th⟩, none) ::
      (flatten l (off + 1) ++ flatten r (off + 1 + l.size))

def toArrays (T : DTree) : ATree × List (Option Int) :=
  let fl := flatten T 0
  (fl.map (·.1), fl.map (·.2))

/-- `cl.predict(x)` for one value: `tree_.value[apply(x)]` -/
def predictArrays (a : ATree × List (Option Int)) (x : Rat) : Option Int := do
  let leaf ← TreeStruct.apply a.1 [x]
  let v ← a.2[leaf]?
  v

/-- `numpy.digitize(x, bins, right=True)` for increasing bins: i with bins[i-1] < x <= bins[i] -/
def countLt (bins : List Rat) (x : Rat) : Nat := (bins.filter (fun b => decide (b < x))).length

/-- `numpy.digitize(x, bins, right=True)` for decreasing bins: i with bins[i-1] >= x > bins[i] -/
def countGe (bins : List Rat) (x : Rat) : Nat := (bins.filter (fun b => decide (x ≤ b))).length

end MlVerif.Digitize
