/-
C16 — executable model of scikit-learn pipelines as PROGRAMS and of what
`mlinsights.helpers.pipeline` / `mlinsights.plotting.visualize` compute from them.
Core Lean only.  `MlVerif.Gen.C16` is regenerated from the source on every run; the model takes
from it the coordinate constructions, the root coordinate, the indent arithmetic, the padding
guard and the default name prefix.

  Pipe            the inductive type of pipelines (nesting depth unbounded)
  enumerate       enumerate_pipeline_models (coordinates, class names, column selections)
  pipeline2str    one line per yielded model
  pipelineInfo    _pipeline_info with its naming context (counter, used names)
  toDot           pipeline2dot as structured nodes / ports / edges
  run / runI      a tiny interpreter and its instrumented version (alter_pipeline_for_debugging)
-/
import MlVerif.Gen.C16

namespace MlVerif.Pipeline
open MlVerif.Gen.C16

/-- which of `TransformerMixin`, `ClassifierMixin`, `RegressorMixin` is met first (the order tested by
`_pipeline_info`); `other` is a `BaseEstimator` that is none of them -/
inductive Kind | transformer | classifier | regressor | other
deriving DecidableEq, Repr

/-- column selection of a ColumnTransformer entry: a list of names or of positions -/
inductive Cols | names (l : List String) | ints (l : List Nat)
deriving DecidableEq, Repr

inductive Remainder | drop | passthrough
deriving DecidableEq, Repr

inductive Pipe where
  | est (k : Kind) (cls : String)
  | pipeline (steps : List Pipe)
  | union (items : List Pipe)
  | columns (items : List (Pipe × Cols)) (rem : Remainder)
  | passthrough
  | drop                      -- the string 'drop' (accepted by scikit-learn, rejected by mlinsights)
deriving Repr

def Cols.strs : Cols → List String
  | .names l => l
  | .ints l => l.map toString

/-! ## enumerate_pipeline_models -/

structure Entry where
  coord : List Nat
  label : String            -- `model.__class__.__name__`
  cols : Option Cols        -- `vs`
deriving DecidableEq, Repr

mutual
/-- the models yielded by `enumerate_pipeline_models(pipe, coor, vs)`, in order -/
def enumerate : Pipe → List Nat → Option Cols → List Entry
  | .est _ cls, coor, vs => [⟨coor, cls, vs⟩]
  | .passthrough, coor, vs => [⟨coor, "PassThrough", vs⟩]
  | .drop, coor, vs => [⟨coor, "str", vs⟩]
  | .pipeline steps, coor, vs => ⟨coor, "Pipeline", vs⟩ :: enumList childCoordPipeline steps coor 0
  | .union items, coor, vs => ⟨coor, "FeatureUnion", vs⟩ :: enumList childCoordUnion items coor 0
  | .columns items _, coor, vs => ⟨coor, "ColumnTransformer", vs⟩ :: enumCols items coor 0
def enumList (cc : List Nat → Nat → List Nat) : List Pipe → List Nat → Nat → List Entry
  | [], _, _ => []
  | p :: ps, coor, i => enumerate p (cc coor i) none ++ enumList cc ps coor (i + 1)
def enumCols : List (Pipe × Cols) → List Nat → Nat → List Entry
  | [], _, _ => []
  | (p, c) :: ps, coor, i => enumerate p (childCoordColumns coor i) (some c) ++ enumCols ps coor (i + 1)
end

mutual
/-- no `'drop'` string anywhere: what `enumerate_pipeline_models` accepts (it raises TypeError otherwise) -/
def Pipe.supported : Pipe → Bool
  | .est _ _ => true
  | .passthrough => true
  | .drop => false
  | .pipeline steps => supportedList steps
  | .union items => supportedList items
  | .columns items _ => supportedCols items
def supportedList : List Pipe → Bool
  | [] => true
  | p :: ps => p.supported && supportedList ps
def supportedCols : List (Pipe × Cols) → Bool
  | [] => true
  | (p, _) :: ps => p.supported && supportedCols ps
end

inductive Err | typeError | notImplemented | attributeError | indexError | valueError | fuel
deriving DecidableEq, Repr

def Err.name : Err → String
  | .typeError => "TypeError" | .notImplemented => "NotImplementedError"
  | .attributeError => "AttributeError" | .indexError => "IndexError"
  | .valueError => "ValueError" | .fuel => "model-fuel-exhausted"

/-- `list(enumerate_pipeline_models(pipe))` -/
def enumerateE (p : Pipe) : Except Err (List Entry) :=
  if p.supported then .ok (enumerate p rootCoord none) else .error .typeError

/-! ### the reference notion: positions in the tree, in pre-order -/

mutual
/-- paths (child indexes from the root) of all nested estimators, parents first -/
def paths : Pipe → List (List Nat)
  | .est _ _ => [[]]
  | .passthrough => [[]]
  | .drop => [[]]
  | .pipeline steps => [] :: pathsList steps 0
  | .union items => [] :: pathsList items 0
  | .columns items _ => [] :: pathsCols items 0
def pathsList : List Pipe → Nat → List (List Nat)
  | [], _ => []
  | p :: ps, i => (paths p).map (i :: ·) ++ pathsList ps (i + 1)
def pathsCols : List (Pipe × Cols) → Nat → List (List Nat)
  | [], _ => []
  | (p, _) :: ps, i => (paths p).map (i :: ·) ++ pathsCols ps (i + 1)
end

/-- direct children of a container, in order -/
def Pipe.children : Pipe → List Pipe
  | .pipeline steps => steps
  | .union items => items
  | .columns items _ => items.map (·.1)
  | _ => []

/-- the estimator nested at a path -/
def Pipe.at? : Pipe → List Nat → Option Pipe
  | p, [] => some p
  | p, i :: rest => match p.children[i]? with
    | some q => q.at? rest
    | none => none

def Pipe.label : Pipe → String
  | .est _ cls => cls
  | .passthrough => "PassThrough"
  | .drop => "str"
  | .pipeline _ => "Pipeline"
  | .union _ => "FeatureUnion"
  | .columns _ _ => "ColumnTransformer"

/-! ## pipeline2str -/

def spaces (n : Int) : String := String.ofList (List.replicate n.toNat ' ')

def lineOf (indent : Int) (e : Entry) : String :=
  spaces (indentWidth indent e.coord.length) ++ e.label ++
    (match e.cols with
     | none => ""
     | some c => "(" ++ ",".intercalate c.strs ++ ")")

/-- the rows of `pipeline2str(pipe, indent)` (joined by newlines in the source) -/
def pipeline2strLines (p : Pipe) (indent : Int := defaultIndent) : List String :=
  (enumerate p rootCoord none).map (lineOf indent)

/-! ## _pipeline_info -/

/-- `data`: an OrderedDict (column name ↦ port text / name) or a list of names -/
inductive Data | dict (kv : List (String × String)) | list (l : List String)
deriving DecidableEq, Repr

/-- what iterating over `data` yields -/
def Data.keys : Data → List String
  | .dict kv => kv.map (·.1)
  | .list l => l

def Data.vals : Data → List String
  | .dict kv => kv.map (·.2)
  | .list l => l

def Data.isDict : Data → Bool
  | .dict _ => true
  | .list _ => false

structure Info where
  name : String
  type : String          -- "transform" | "classifier" | "regressor"
  inputs : Data
  outputs : Data
deriving DecidableEq, Repr

/-- `context = dict(n=..., names=...)` -/
structure NameCtx where
  n : Nat
  names : List String
deriving Repr

/-- `d[k] = v` on an OrderedDict -/
def dictSet : List (String × String) → String → String → List (String × String)
  | [], k, v => [(k, v)]
  | (k', v') :: rest, k, v => if k' = k then (k', v) :: rest else (k', v') :: dictSet rest k v

/-- `while sug in names: n += 1` (bounded: one of `names.length + 1` candidates is free) -/
def findFree (pre : String) (names : List String) : Nat → Nat → Option Nat
  | 0, _ => none
  | fuel + 1, n => if (pre ++ toString n) ∈ names then findFree pre names fuel (n + 1) else some n

/-- `_get_name(context, prefix)` -/
def getName (pre : String) (c : NameCtx) : Except Err (String × NameCtx) :=
  match findFree pre c.names (c.names.length + 1) c.n with
  | none => .error .fuel
  | some n => .ok (pre ++ toString n, ⟨n, (pre ++ toString n) :: c.names⟩)

/-- `[_get_name(context, prefix=o) for o in prefixes]` -/
def getNames : List String → NameCtx → Except Err (List String × NameCtx)
  | [], c => .ok ([], c)
  | o :: rest, c =>
    match getName o c with
    | .error e => .error e
    | .ok (nm, c1) =>
      match getNames rest c1 with
      | .error e => .error e
      | .ok (nms, c2) => .ok (nm :: nms, c2)

/-- integer columns on a list of names: the first `max(vs)+1` names, the last one repeated -/
def padLoop (d : List String) (mx : Nat) : Nat → List String → Except Err (List String)
  | 0, _ => .error .fuel
  | fuel + 1, acc =>
    if padGuard acc.length mx then
      match d[acc.length]? with
      | some x => padLoop d mx fuel (acc ++ [x])
      | none =>
        match d.getLast? with
        | some x => padLoop d mx fuel (acc ++ [x])
        | none => .error .indexError
    else .ok acc

/-- `all(map(lambda o: isinstance(o, int), vs))` -/
def Cols.allInt : Cols → Bool
  | .ints _ => true
  | .names l => l.isEmpty

/-- the `new_data` handed to a transformer of a ColumnTransformer -/
def selectData (cols : Cols) (data : Data) : Except Err Data :=
  if cols.allInt then
    match data with
    | .dict kv => .ok (.list (kv.map (·.2)))
    | .list d =>
      match (match cols with | .ints l => l | .names _ => []).max? with
      | none => .error .valueError
      | some mx => (padLoop d mx (mx + 2) []).map .list
  else
    match data, cols with
    | .dict kv, .names l => .ok (.dict (l.foldl (fun acc v => dictSet acc v ((kv.lookup v).getD v)) []))
    | _, _ => .error .attributeError

/-- column keys selected by the transformers (`merged`); IndexError for a position beyond the keys -/
def mergedKeys (keys : List String) : List Cols → Except Err (List String)
  | [] => .ok []
  | .names l :: rest => (mergedKeys keys rest).map (l ++ ·)
  | .ints l :: rest =>
    match l.mapM (fun v => keys[v]?) with
    | none => .error .indexError
    | some ks => (mergedKeys keys rest).map (ks ++ ·)

/-- the `new_data` of the passthrough remainder -/
def remainderData (data : Data) (cols : List Cols) : Except Err Data :=
  match data with
  | .dict kv =>
    match mergedKeys (kv.map (·.1)) cols with
    | .error e => .error e
    | .ok merged => .ok (.dict (kv.filter (fun p => !(merged.contains p.1))))
  | .list l => .ok (.dict (l.foldl (fun acc k => dictSet acc k k) []))

def unionInfo (inputs : Data) (out : String) : Info :=
  ⟨"union", "transform", inputs, .list [out]⟩

/-- `_pipeline_info("passthrough", data, context)` -/
def passthroughInfo (data : Data) (c : NameCtx) : Except Err (List Info × NameCtx) :=
  let prefixes := if data.isDict && data.keys.length > 1 then data.keys.map (fun _ => namePrefix) else [namePrefix]
  match getNames prefixes c with
  | .error e => .error e
  | .ok (outs, c1) => .ok ([⟨"Identity", "transform", .list data.keys, .list outs⟩], c1)

/-- a leaf estimator -/
def leafInfo (k : Kind) (cls : String) (data : Data) (c : NameCtx) : Except Err (List Info × NameCtx) :=
  match k with
  | .other => .error .notImplemented
  | .transformer =>
    if data.keys.length = 1 then .ok ([⟨cls, "transform", data, data⟩], c)
    else
      match getName namePrefix c with
      | .error e => .error e
      | .ok (i, c1) =>
        match getName namePrefix c1 with
        | .error e => .error e
        | .ok (o, c2) => .ok ([unionInfo data i, ⟨cls, "transform", .list [i], .list [o]⟩], c2)
  | .classifier =>
    let exp := ["PredictedLabel", "Probabilities"]
    if data.keys.length = 1 then .ok ([⟨cls, "classifier", data, .list exp⟩], c)
    else
      match getName namePrefix c with
      | .error e => .error e
      | .ok (i, c1) => .ok ([unionInfo data i, ⟨cls, "classifier", .list [i], .list exp⟩], c1)
  | .regressor =>
    let exp := ["Prediction"]
    if data.keys.length = 1 then .ok ([⟨cls, "regressor", data, .list exp⟩], c)
    else
      match getName namePrefix c with
      | .error e => .error e
      | .ok (i, c1) => .ok ([unionInfo data i, ⟨cls, "regressor", .list [i], .list exp⟩], c1)

/-- replace the outputs of the last info (`info[-1]["outputs"] = new_outputs`) -/
def setLastOutputs : List Info → Data → List Info
  | [], _ => []
  | [i], d => [{ i with outputs := d }]
  | i :: j :: rest, d => i :: setLastOutputs (j :: rest) d

/-- the final `union` node of a ColumnTransformer / FeatureUnion -/
def closeUnion (infos : List Info) (outputs : List String) (c : NameCtx) : Except Err (List Info × NameCtx) :=
  match getName namePrefix c with
  | .error e => .error e
  | .ok (o, c1) => .ok (infos ++ [unionInfo (.list outputs) o], c1)

mutual
/-- `_pipeline_info(pipe, data, context)`: the list of drawn steps and the updated naming context -/
def pipelineInfo : Pipe → Data → NameCtx → Except Err (List Info × NameCtx)
  | .est k cls, data, c => leafInfo k cls data c
  | .passthrough, data, c => passthroughInfo data c
  | .drop, _, _ => .error .notImplemented
  | .pipeline steps, data, c => infoSteps steps data c
  | .union items, data, c =>
    match infoUnion items data c with
    | .error e => .error e
    | .ok (infos, outputs, c1) =>
      if items.length > 1 then closeUnion infos outputs c1 else .ok (infos, c1)
  | .columns items rem, data, c =>
    match infoCols items data c with
    | .error e => .error e
    | .ok (infos, outputs, c1) =>
      match rem with
      | .drop => if items.length > 1 then closeUnion infos outputs c1 else .ok (infos, c1)
      | .passthrough =>
        match remainderData data (items.map (·.2)) with
        | .error e => .error e
        | .ok newData =>
          match passthroughInfo newData c1 with
          | .error e => .error e
          | .ok (info, c2) =>
            match info.getLast? with
            | none => .error .indexError
            | some last => closeUnion (infos ++ info) (outputs ++ last.outputs.keys) c2
/-- the steps of a Pipeline: the outputs of a step are the data of the next one -/
def infoSteps : List Pipe → Data → NameCtx → Except Err (List Info × NameCtx)
  | [], _, c => .ok ([], c)
  | p :: ps, data, c =>
    match pipelineInfo p data c with
    | .error e => .error e
    | .ok (info, c1) =>
      match info.getLast? with
      | none => .error .indexError
      | some last =>
        match infoSteps ps last.outputs c1 with
        | .error e => .error e
        | .ok (infos, c2) => .ok (info ++ infos, c2)
/-- the members of a FeatureUnion: same data, outputs renamed -/
def infoUnion : List Pipe → Data → NameCtx → Except Err (List Info × List String × NameCtx)
  | [], _, c => .ok ([], [], c)
  | p :: ps, data, c =>
    match pipelineInfo p data c with
    | .error e => .error e
    | .ok (info, c1) =>
      match info.getLast? with
      | none => .error .indexError
      | some last =>
        match getNames last.outputs.keys c1 with
        | .error e => .error e
        | .ok (newOuts, c2) =>
          match infoUnion ps data c2 with
          | .error e => .error e
          | .ok (infos, outs, c3) => .ok (setLastOutputs info (.list newOuts) ++ infos, newOuts ++ outs, c3)
/-- the transformers of a ColumnTransformer: each one on its selection of the data -/
def infoCols : List (Pipe × Cols) → Data → NameCtx → Except Err (List Info × List String × NameCtx)
  | [], _, c => .ok ([], [], c)
  | (p, cols) :: ps, data, c =>
    match selectData cols data with
    | .error e => .error e
    | .ok newData =>
      match pipelineInfo p newData c with
      | .error e => .error e
      | .ok (info, c1) =>
        match info.getLast? with
        | none => .error .indexError
        | some last =>
          match infoCols ps data c1 with
          | .error e => .error e
          | .ok (infos, outs, c2) => .ok (info ++ infos, last.outputs.keys ++ outs, c2)
end

mutual
/-- class names of the drawn steps: every estimator that is not a container, 'passthrough' as Identity -/
def leafLabels : Pipe → List String
  | .est _ cls => [cls]
  | .passthrough => ["Identity"]
  | .drop => []
  | .pipeline steps => leafLabelsList steps
  | .union items => leafLabelsList items
  | .columns items _ => leafLabelsCols items
def leafLabelsList : List Pipe → List String
  | [] => []
  | p :: ps => leafLabels p ++ leafLabelsList ps
def leafLabelsCols : List (Pipe × Cols) → List String
  | [] => []
  | (p, _) :: ps => leafLabels p ++ leafLabelsCols ps
end

mutual
/-- every named column used by a ColumnTransformer of the pipeline is a column of the schema -/
def namedIn (S : List String) : Pipe → Bool
  | .est _ _ => true
  | .passthrough => true
  | .drop => true
  | .pipeline steps => namedInList S steps
  | .union items => namedInList S items
  | .columns items _ => namedInCols S items
def namedInList (S : List String) : List Pipe → Bool
  | [] => true
  | p :: ps => namedIn S p && namedInList S ps
def namedInCols (S : List String) : List (Pipe × Cols) → Bool
  | [] => true
  | (p, c) :: ps =>
    (match c with | .names l => l.all (S.contains ·) | .ints _ => true) && namedIn S p && namedInCols S ps
end

/-! ## pipeline2dot -/

def portText (j c : Nat) : String := "sch" ++ toString j ++ ":f" ++ toString c

/-- the `data` built by `pipeline2dot` from a schema (DataFrame columns, `X0..`, or the list of names) -/
def initData (schema : List String) : Data :=
  .dict ((List.range schema.length).zip schema |>.map (fun (k, s) => (s, portText 0 k)))

/-- `names` is seeded with the schema names -/
def initCtx (schema : List String) : NameCtx := ⟨0, schema⟩

/-- source of an edge into a node: a declared port, or the raw text the source would print -/
inductive Src | port (j c : Nat) | raw (s : String)
deriving DecidableEq, Repr

def Src.text : Src → String
  | .port j c => portText j c
  | .raw s => s

structure Step where
  idx : Nat                 -- `node{idx}` and `sch{idx}`
  label : String
  color : String
  ins : List Src            -- one edge `src -> node{idx}` per input, in order
  ports : List String       -- labels of the ports f0.. of `sch{idx}`
  outs : List Nat           -- edges `node{idx} -> sch{idx}:f{c}`
deriving Repr

structure Dot where
  inputs : List String      -- labels of the ports of `sch0`
  steps : List Step
deriving Repr

abbrev ColMap := List (String × (Nat × Nat))

/-- `columns[out] = f"sch{i}:f{c}"` for c, out in enumerate(outputs) (later entries shadow earlier ones) -/
def registerOuts (cols : ColMap) (i : Nat) (outs : List String) : ColMap :=
  ((List.range outs.length).zip outs).foldl (fun acc (c, o) => (o, (i, c)) :: acc) cols

/-- `columns.get(inp, inp)`; a text that is itself a port of `sch0` is recognised as that port -/
def resolve (cols : ColMap) (nsch : Nat) (inp : String) : Src :=
  match cols.lookup inp with
  | some (j, c) => .port j c
  | none =>
    match (List.range nsch).find? (fun k => portText 0 k == inp) with
    | some k => .port 0 k
    | none => .raw inp

/-- keep the first occurrence of every value (`if edge not in exp`) -/
def dedupKeep : List Nat → List Nat
  | [] => []
  | a :: l => a :: (dedupKeep l).filter (· ≠ a)

def stepOf (cols : ColMap) (nsch i : Nat) (info : Info) : Step :=
  let outs := info.outputs.keys
  let cols' := registerOuts cols i outs
  { idx := i, label := info.name,
    color := if info.type = "transform" then "cyan" else "yellow",
    ins := info.inputs.keys.map (resolve cols nsch),
    ports := outs,
    outs := dedupKeep (outs.filterMap (fun o => (cols'.lookup o).map (·.2))) }

def toDotAux (nsch : Nat) : List Info → Nat → ColMap → List Step
  | [], _, _ => []
  | info :: rest, i, cols =>
    stepOf cols nsch i info :: toDotAux nsch rest (i + 1) (registerOuts cols i info.outputs.keys)

def initCols (schema : List String) : ColMap :=
  registerOuts [] 0 schema

def toDot (schema : List String) (infos : List Info) : Dot :=
  ⟨schema, toDotAux schema.length infos 1 (initCols schema)⟩

/-- `pipeline2dot(pipe, data)` for a schema given as the list of column names -/
def pipeline2dot (p : Pipe) (schema : List String) : Except Err Dot :=
  match pipelineInfo p (initData schema) (initCtx schema) with
  | .error e => .error e
  | .ok (infos, _) => .ok (toDot schema infos)

/-! ### the graph of a `Dot` (node level: a record with its ports is one DOT node) -/

inductive Vertex | sch (j : Nat) | node (i : Nat) | rawv (s : String)
deriving DecidableEq, Repr

def Src.vertex : Src → Vertex
  | .port j _ => .sch j
  | .raw s => .rawv s

def Step.edges (s : Step) : List (Vertex × Vertex) :=
  s.ins.map (fun src => (src.vertex, .node s.idx)) ++ s.outs.map (fun _ => (.node s.idx, .sch s.idx))

def Dot.edges (g : Dot) : List (Vertex × Vertex) := g.steps.flatMap Step.edges

/-- is `sch{j}:f{c}` declared? -/
def Dot.portDeclared (g : Dot) (j c : Nat) : Prop :=
  (j = 0 ∧ c < g.inputs.length) ∨ ∃ s ∈ g.steps, s.idx = j ∧ c < s.ports.length

/-! ### port-level reachability -/

/-- vertices of the port-level graph: a port of a record, or the box of a step -/
inductive PV | port (j c : Nat) | box (i : Nat)
deriving DecidableEq, Repr

def Step.pedges (s : Step) : List (PV × PV) :=
  s.ins.filterMap (fun src => match src with
    | .port j c => some (PV.port j c, PV.box s.idx)
    | .raw _ => none) ++
  s.outs.map (fun c => (PV.box s.idx, PV.port s.idx c))

def Dot.pedges (g : Dot) : List (PV × PV) := g.steps.flatMap Step.pedges

/-- reachable from the ports of the input record `sch0` -/
inductive Reach (g : Dot) : PV → Prop
  | input {c} : c < g.inputs.length → Reach g (.port 0 c)
  | edge {u v} : (u, v) ∈ g.pedges → Reach g u → Reach g v

/-- a decidable condition on the drawn graph: every step that has inputs has one that is a declared port
of `sch0` or of the record of a step that itself has inputs, and the port labels of each record are distinct -/
def Dot.wellFed (g : Dot) : Bool :=
  g.steps.all (fun s => s.ins.isEmpty || s.ins.any (fun src => match src with
    | .port j c => (j == 0 && decide (c < g.inputs.length)) ||
        g.steps.any (fun s' => s'.idx == j && !s'.ins.isEmpty && decide (c < s'.ports.length))
    | .raw _ => false)) &&
  g.steps.all (fun s => decide s.ports.Nodup)

/-! ## a tiny interpreter and its instrumentation (alter_pipeline_for_debugging) -/

/-- what the fitted pipeline computes, abstractly: leaves are arbitrary functions, the containers
stack / select columns -/
structure Sem (α : Type) where
  leaf : Kind → String → α → α
  hstack : List α → α
  select : Cols → α → α
  rest : List Cols → α → α          -- the columns selected by none (remainder='passthrough')

mutual
def run {α} (S : Sem α) : Pipe → α → α
  | .est k cls, x => S.leaf k cls x
  | .passthrough, x => x
  | .drop, x => x
  | .pipeline steps, x => runSteps S steps x
  | .union items, x => S.hstack (runAll S items x)
  | .columns items rem, x =>
    S.hstack (runCols S items x ++ (match rem with
      | .passthrough => [S.rest (items.map (·.2)) x]
      | .drop => []))
def runSteps {α} (S : Sem α) : List Pipe → α → α
  | [], x => x
  | p :: ps, x => runSteps S ps (run S p x)
def runAll {α} (S : Sem α) : List Pipe → α → List α
  | [], _ => []
  | p :: ps, x => run S p x :: runAll S ps x
def runCols {α} (S : Sem α) : List (Pipe × Cols) → α → List α
  | [], _ => []
  | (p, c) :: ps, x => run S p (S.select c x) :: runCols S ps x
end

/-- one record of `model._debug`: coordinate of the model, its last input and its last output -/
structure Rec (α : Type) where
  coord : List Nat
  inp : α
  out : α
deriving Repr

/-- a fitted FeatureUnion holds a FunctionTransformer in place of the string 'passthrough': it is a model
and records (Pipeline and ColumnTransformer keep the string, which records nothing) -/
def unionPassRec {α} (p : Pipe) (c : List Nat) (x : α) : List (Rec α) :=
  match p with
  | .passthrough => [⟨c, x, x⟩]
  | _ => []

mutual
/-- the instrumented pipeline: same computation, every model (not the 'passthrough' strings) writes the
input it receives and the output it returns; the record of a container precedes those of its members -/
def runI {α} (S : Sem α) : Pipe → List Nat → α → α × List (Rec α)
  | .est k cls, coor, x => let y := S.leaf k cls x; (y, [⟨coor, x, y⟩])
  | .passthrough, _, x => (x, [])
  | .drop, _, x => (x, [])
  | .pipeline steps, coor, x =>
    let r := runStepsI S steps coor 0 x
    (r.1, ⟨coor, x, r.1⟩ :: r.2)
  | .union items, coor, x =>
    let r := runAllI S items coor 0 x
    let y := S.hstack r.1
    (y, ⟨coor, x, y⟩ :: r.2)
  | .columns items rem, coor, x =>
    let r := runColsI S items coor 0 x
    let y := S.hstack (r.1 ++ (match rem with
      | .passthrough => [S.rest (items.map (·.2)) x]
      | .drop => []))
    (y, ⟨coor, x, y⟩ :: r.2)
def runStepsI {α} (S : Sem α) : List Pipe → List Nat → Nat → α → α × List (Rec α)
  | [], _, _, x => (x, [])
  | p :: ps, coor, i, x =>
    let r := runI S p (childCoordPipeline coor i) x
    let r' := runStepsI S ps coor (i + 1) r.1
    (r'.1, r.2 ++ r'.2)
def runAllI {α} (S : Sem α) : List Pipe → List Nat → Nat → α → List α × List (Rec α)
  | [], _, _, _ => ([], [])
  | p :: ps, coor, i, x =>
    let r := runI S p (childCoordUnion coor i) x
    let r' := runAllI S ps coor (i + 1) x
    (r.1 :: r'.1, unionPassRec p (childCoordUnion coor i) x ++ r.2 ++ r'.2)
def runColsI {α} (S : Sem α) : List (Pipe × Cols) → List Nat → Nat → α → List α × List (Rec α)
  | [], _, _, _ => ([], [])
  | (p, c) :: ps, coor, i, x =>
    let r := runI S p (childCoordColumns coor i) (S.select c x)
    let r' := runColsI S ps coor (i + 1) x
    (r.1 :: r'.1, r.2 ++ r'.2)
end

/-! ### a concrete semantics for the correspondence run: integer tables with optional column names -/

structure Table where
  names : Option (List String)
  rows : List (List Int)
deriving Repr

def Table.pick (t : Table) (idx : List Nat) : Table :=
  ⟨t.names.map (fun ns => idx.filterMap (ns[·]?)), t.rows.map (fun r => idx.filterMap (r[·]?))⟩

def Table.width (t : Table) : Nat := match t.rows with | [] => (t.names.getD []).length | r :: _ => r.length

def colIndex (t : Table) : Cols → List Nat
  | .ints l => l
  | .names l => match t.names with
    | some ns => l.filterMap (fun n => ns.idxOf? n)
    | none => []

def hstackRows : List (List (List Int)) → List (List Int)
  | [] => []
  | [m] => m
  | m :: ms => List.zipWith (· ++ ·) m (hstackRows ms)

def tableSem : Sem Table where
  leaf := fun _ cls t =>
    let f : Int → Int := if cls = "Add1" then (· + 1) else if cls = "Add2" then (· + 2)
      else if cls = "Mul2" then (· * 2) else if cls = "Neg" then (- ·) else id
    if cls = "RowSum" then ⟨none, t.rows.map (fun r => [r.foldl (· + ·) 0])⟩
    else ⟨none, t.rows.map (·.map f)⟩
  hstack := fun ts => ⟨none, hstackRows (ts.map (·.rows))⟩
  select := fun c t => t.pick (colIndex t c)
  rest := fun cs t =>
    let used := cs.flatMap (colIndex t)
    t.pick ((List.range t.width).filter (fun i => !(used.contains i)))

end MlVerif.Pipeline
