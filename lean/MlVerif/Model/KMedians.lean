/-
C06 — KMeansL1L2 with norm='L1' (mlinsights/mlmodel/kmeans_l1.py, _kmeans_022.py): executable model
over exact rationals.  Core Lean only (+ the regenerated `Gen.C06`: the loop bound, the break test,
the best-tracking tests, the final-E-step test and the "median loop skips memberless clusters"
flag are what the source says *now*).

Conventions
* a point is a list of coordinates; the dimension `d` (`X.shape[1]`) is a parameter and coordinate
  `j` of a point is `coord x j` (the driver only ever passes rectangular data);
* a centre is `Option Point`: `none` is a row of NaN (numpy's median of an empty slice);
* everything random or implementation-defined is an INPUT: the initial centres of every run
  (what `_init_centroids` returned) and `farOf`, the permutation `distances.argsort()[::-1]`
  (numpy's argsort is not stable, ties are broken in an implementation-defined way);
* `sample_weight=None` (all weights one); non-uniform weights raise NotImplementedError in the code;
* errors are outputs: `Err.nan` = `ValueError("Input contains NaN")` raised by scikit-learn's input
  validation, `Err.index` = IndexError, `Err.value` = the other ValueErrors (`n < k`, `n_init <= 0`,
  `max_iter <= 0`, wrong number of initial centres, no centre / no sample).
-/
import MlVerif.Gen.C06

namespace MlVerif.KMedians

abbrev Point := List Rat

inductive Err where
  | nan | index | value
deriving DecidableEq, Repr

def absR (a : Rat) : Rat := if 0 ≤ a then a else -a

def coord (x : Point) (j : Nat) : Rat := x.getD j 0

/-- Manhattan distance in dimension `d` -/
def manhattan (d : Nat) (x c : Point) : Rat :=
  ((List.range d).map (fun j => absR (coord x j - coord c j))).sum

/-- first-minimum argmin: `bv` current best value found at index `bi`, `i` index of the next value -/
def argminFrom : Rat → Nat → Nat → List Rat → Nat × Rat
  | bv, bi, _, [] => (bi, bv)
  | bv, bi, i, v :: vs => if v < bv then argminFrom v i (i + 1) vs else argminFrom bv bi (i + 1) vs

/-- `pairwise_distances_argmin_min(metric='manhattan')` for one row: (index of the first nearest
centre, distance to it); the list of centres is `c :: cs` -/
def nearest (d : Nat) (c : Point) (cs : List Point) (x : Point) : Nat × Rat :=
  argminFrom (manhattan d x c) 0 1 (cs.map (manhattan d x))

def allSome {α} : List (Option α) → Option (List α)
  | [] => some []
  | none :: _ => none
  | some a :: r => (allSome r).map (a :: ·)

structure EStep where
  labels : List Nat
  dists : List Rat
  inertia : Rat
deriving Repr

/-- `_labels_inertia` / `_labels_inertia_precompute_dense` with norm 'L1' -/
def labelsInertia (d : Nat) (X : List Point) (cs : List (Option Point)) : Except Err EStep :=
  match allSome cs with
  | none => .error .nan
  | some [] => .error .value
  | some (c :: cs') =>
    if X.isEmpty then .error .value else
    .ok ⟨X.map (fun x => (nearest d c cs' x).1), X.map (fun x => (nearest d c cs' x).2),
         (X.map (fun x => (nearest d c cs' x).2)).sum⟩

/-- `_predict_l1` -/
def predictL1 (d : Nat) (cs : List (Option Point)) (X : List Point) : Except Err (List Nat) :=
  match labelsInertia d X cs with
  | .error e => .error e
  | .ok es => .ok es.labels

/-- `_transform_l1`: `manhattan_distances(X, cluster_centers_)` -/
def transformL1 (d : Nat) (cs : List (Option Point)) (X : List Point) : Except Err (List (List Rat)) :=
  match allSome cs with
  | none => .error .nan
  | some cs' => if X.isEmpty then .error .value else .ok (X.map (fun x => cs'.map (manhattan d x)))

/-! ### M-step -/

/-- insertion into a sorted list / insertion sort (structural recursion, so that concrete instances
reduce in the kernel) -/
def insertR (a : Rat) : List Rat → List Rat
  | [] => [a]
  | b :: l => if a ≤ b then a :: b :: l else b :: insertR a l

def sortR (l : List Rat) : List Rat := l.foldr insertR []

/-- the median of a sorted list: middle element, or mean of the two middle elements -/
def medS (s : List Rat) : Rat :=
  (s.getD ((s.length - 1) / 2) 0 + s.getD (s.length / 2) 0) / 2

/-- `numpy.median` of a non-empty 1-D array -/
def median (l : List Rat) : Rat := medS (sortR l)

/-- `X[labels == j]` -/
def members (X : List Point) (labels : List Nat) (j : Nat) : List Point :=
  ((X.zip labels).filter (fun p => p.2 == j)).map (·.1)

/-- `numpy.median(sub, axis=0)`: NaN row for an empty slice -/
def medianRow (d : Nat) (sub : List Point) : Option Point :=
  if sub.isEmpty then none
  else some ((List.range d).map (fun j => median (sub.map (fun x => coord x j))))

/-- `numpy.where(weight_in_cluster == 0)[0]` -/
def emptyClusters (k : Nat) (labels : List Nat) : List Nat :=
  (List.range k).filter (fun j => labels.all (fun l => l != j))

/-- `for i, cluster_id in enumerate(empty_clusters): centers[cluster_id] = X[far_from_centers[i]]` -/
def relocate (X : List Point) (far : List Nat) : Nat → List Nat → List Point → Except Err (List Point)
  | _, [], cs => .ok cs
  | i, cid :: rest, cs =>
    match far[i]? with
    | none => .error .index
    | some fi =>
      match X[fi]? with
      | none => .error .index
      | some x => relocate X far (i + 1) rest (cs.set cid x)

structure Cfg where
  d : Nat
  k : Nat
  maxIter : Nat
  tol : Rat
  /-- does the median loop skip clusters without members (read from the source: `Gen.C06`) -/
  skipEmpty : Bool
  /-- `distances.argsort()[::-1]` -/
  farOf : List Rat → List Nat

/-- `_centers_dense`: zeros, relocation of the empty clusters, then the median loop exactly as
written: without the guard the relocated centre is overwritten by the median of an empty slice. -/
def centersDense (cfg : Cfg) (X : List Point) (labels : List Nat) (dists : List Rat) :
    Except Err (List (Option Point)) :=
  let zeros : List Point := List.replicate cfg.k (List.replicate cfg.d 0)
  let empties := emptyClusters cfg.k labels
  match (if empties.isEmpty then .ok zeros else relocate X (cfg.farOf dists) 0 empties zeros) with
  | .error e => .error e
  | .ok cs1 =>
    .ok ((List.range cfg.k).map (fun j =>
      if cfg.skipEmpty && (members X labels j).isEmpty then cs1[j]?
      else medianRow cfg.d (members X labels j)))

/-- `numpy.sum(numpy.abs(centers_old - centers).ravel())`; NaN when a centre is NaN -/
def shiftTotal (d : Nat) (old new : List (Option Point)) : Option Rat :=
  match allSome old, allSome new with
  | some o, some n => some ((List.zipWith (manhattan d) o n).sum)
  | _, _ => none

structure Best where
  labels : List Nat
  centers : List (Option Point)
  inertia : Rat
deriving Repr

/-- body of the `for` loop of `_kmeans_single_lloyd`: E-step, M-step, best-tracking, centre shift -/
def lloydIter (cfg : Cfg) (X : List Point) (centers : List (Option Point)) (best : Option Best) :
    Except Err (List (Option Point) × Best × Option Rat) :=
  match labelsInertia cfg.d X centers with
  | .error e => .error e
  | .ok es =>
    match centersDense cfg X es.labels es.dists with
    | .error e => .error e
    | .ok cs' =>
      let b' : Best := match best with
        | none => ⟨es.labels, cs', es.inertia⟩
        | some b => if Gen.C06.bestUpdate es.inertia b.inertia then ⟨es.labels, cs', es.inertia⟩ else b
      .ok (cs', b', shiftTotal cfg.d centers cs')

/-- comparisons with NaN are false -/
def breaks (sh : Option Rat) (tol : Rat) : Bool :=
  match sh with
  | none => false
  | some s => Gen.C06.breakCond s tol

def reruns (sh : Option Rat) (tol : Rat) : Bool :=
  match sh with
  | none => false
  | some s => Gen.C06.rerunCond s tol

/-- the `for i in range(max_iter)` loop; `fuel` = iterations left, result = (best, last shift, n_iter) -/
def lloydLoop (cfg : Cfg) (X : List Point) :
    Nat → Nat → List (Option Point) → Option Best → Except Err (Best × Option Rat × Int)
  | 0, _, _, _ => .error .value
  | fuel + 1, i, centers, best =>
    match lloydIter cfg X centers best with
    | .error e => .error e
    | .ok (cs', b', sh) =>
      if breaks sh cfg.tol || fuel == 0 then .ok (b', sh, Gen.C06.returnedIter (i : Int))
      else lloydLoop cfg X fuel (i + 1) cs' (some b')

structure Run where
  labels : List Nat
  inertia : Rat
  centers : List (Option Point)
  nIter : Int
  /-- `center_shift_total` of the last iteration (`none` = NaN); decides whether the final E-step ran -/
  shift : Option Rat
deriving Repr

/-- `_kmeans_single_lloyd` from the initial centres `init` -/
def kmeansSingleLloyd (cfg : Cfg) (X : List Point) (init : List Point) : Except Err Run :=
  match lloydLoop cfg X (Gen.C06.loopCount (cfg.maxIter : Int)).toNat 0 (init.map some) none with
  | .error e => .error e
  | .ok (b, sh, it) =>
    if reruns sh cfg.tol then
      match labelsInertia cfg.d X b.centers with
      | .error e => .error e
      | .ok es => .ok ⟨es.labels, es.inertia, b.centers, it, sh⟩
    else .ok ⟨b.labels, b.inertia, b.centers, it, sh⟩

/-- the `for seed in seeds` loop of `_fit_l1` -/
def nInitLoop (cfg : Cfg) (X : List Point) : List (List Point) → Option Run → Except Err (Option Run)
  | [], best => .ok best
  | init :: rest, best =>
    match kmeansSingleLloyd cfg X init with
    | .error e => .error e
    | .ok r =>
      let best' : Run := match best with
        | none => r
        | some b => if Gen.C06.fitBestUpdate r.inertia b.inertia then r else b
      nInitLoop cfg X rest (some best')

/-- `KMeansL1L2._fit_l1`; `inits` = the initial centres of the `n_init` runs -/
def fitL1 (cfg : Cfg) (X : List Point) (inits : List (List Point)) : Except Err Run :=
  if inits.isEmpty || cfg.maxIter == 0 || decide (X.length < cfg.k)
      || inits.any (fun c => c.length != cfg.k) then .error .value
  else
    match nInitLoop cfg X inits none with
    | .error e => .error e
    | .ok none => .error .value
    | .ok (some r) => .ok r

/-- `_tolerance('L1', X, tol)`: the `tol` parameter is ignored by the code -/
def tolerance (d : Nat) (X : List Point) : Rat :=
  ((List.range d).map (fun j => (X.map (fun x => absR (coord x j))).sum / (X.length : Rat))).sum

/-! ### the concrete `farOf` used by the driver when no recorded permutation is supplied:
stable ascending argsort, reversed -/

def insertIdx (ds : List Rat) (i : Nat) : List Nat → List Nat
  | [] => [i]
  | j :: js => if ds.getD i 0 < ds.getD j 0 then i :: j :: js else j :: insertIdx ds i js

def argsortStable (ds : List Rat) : List Nat :=
  (List.range ds.length).foldl (fun acc i => insertIdx ds i acc) []

def farStable (ds : List Rat) : List Nat := (argsortStable ds).reverse

end MlVerif.KMedians
