/-
C13 — PermutationReciprocalTransformer (mlinsights/mlmodel/sklearn_transform_inv_fct.py) and
the compositions made by TransformedTargetClassifier2 (mlinsights/mlmodel/target_predictors.py).
Executable model, core Lean only.

* a python `dict` is an association list in insertion order (`Dict`), `d[k] = v` replaces in
  place or appends;
* a float target array is a `List (Option α)`: `none` is NaN (skipped by `fit` and `transform`);
  integer / string arrays have no NaN (`transformPlain`);
* randomness is an input: `lin` is what `numpy.random.permutation(numpy.arange(k))` returned;
* the inner classifier is a parameter: its `classes_`, `predict` and `predict_proba` outputs are
  given to the model;
* what the code rejects is an error here: unseen label with `closest=False` → `runtimeError`,
  a probability column without entry in `new_perm` → `keyError`, a destination column outside
  the matrix → `indexError`.  With `closest=True` the nearest neighbour search (scikit-learn's
  kd-tree) is a parameter `near` of the model (`lookupC`); `nearest` is one concrete choice.
-/
namespace MlVerif.Perm

inductive Err where
  | runtimeError | keyError | indexError
deriving DecidableEq, Repr

def Err.show : Err → String
  | .runtimeError => "RuntimeError"
  | .keyError => "KeyError"
  | .indexError => "IndexError"

/-- `[f(a) for a in l]` where `f` may raise: the first error wins -/
def mapE {α β : Type} (f : α → Except Err β) : List α → Except Err (List β)
  | [] => .ok []
  | a :: as =>
    match f a with
    | .error e => .error e
    | .ok b =>
      match mapE f as with
      | .error e => .error e
      | .ok bs => .ok (b :: bs)

/-- python dict as association list, insertion order, keys distinct -/
abbrev Dict (κ β : Type) := List (κ × β)

namespace Dict
variable {κ β : Type} [DecidableEq κ]

/-- `d.get(k)` -/
def get? (d : Dict κ β) (k : κ) : Option β := (d.find? (fun p => p.1 = k)).map (·.2)

/-- `k in d` -/
def contains (d : Dict κ β) (k : κ) : Bool := d.any (fun p => p.1 = k)

/-- `d[k] = v`: an existing key keeps its position, a new key is appended -/
def insert (d : Dict κ β) (k : κ) (v : β) : Dict κ β :=
  if d.contains k then d.map (fun p => if p.1 = k then (k, v) else p) else d ++ [(k, v)]

def keys (d : Dict κ β) : List κ := d.map (·.1)
def values (d : Dict κ β) : List β := d.map (·.2)

end Dict

section fit
variable {α : Type} [DecidableEq α]

/-- the numbering loop of `fit`:
`for u in y.ravel(): skip NaN; skip known; perm[u] = len(perm)` — first-occurrence order -/
def number (y : List (Option α)) : Dict α Nat :=
  y.foldl (fun perm o =>
    match o with
    | none => perm
    | some u => if perm.contains u then perm else perm.insert u perm.length) []

/-- `for u in perm_keys: perm[u] = lin[perm[u]]` (numpy raises IndexError outside `lin`) -/
def compose (perm : Dict α Nat) (lin : List Nat) : Except Err (Dict α Nat) :=
  mapE (fun p => match lin[p.2]? with
    | some v => .ok (p.1, v)
    | none => .error .indexError) perm

/-- `PermutationReciprocalTransformer.fit(X, y)`: `permutation_`, given the drawn `lin` -/
def fit (y : List (Option α)) (lin : List Nat) : Except Err (Dict α Nat) :=
  compose (number y) lin

end fit

/-- `get_fct_inv()`: `permutation_ = {v: k for k, v in self.permutation_.items()}` -/
def getFctInv {κ β : Type} [DecidableEq β] (d : Dict κ β) : Dict β κ :=
  d.foldl (fun acc p => acc.insert p.2 p.1) []

section transform
variable {κ β : Type} [DecidableEq κ]

/-- one cell of the label branch with `closest=False` -/
def lookupE (d : Dict κ β) (u : κ) : Except Err β :=
  match d.get? u with
  | some v => .ok v
  | none => .error .runtimeError

/-- label branch of `transform` on an integer / string array (no NaN test) -/
def transformPlain (d : Dict κ β) (y : List κ) : Except Err (List β) := mapE (lookupE d) y

/-- label branch of `transform` on a float array: NaN cells are left as they are -/
def transformLabels (d : Dict κ β) (y : List (Option κ)) : Except Err (List (Option β)) :=
  mapE (fun o => match o with
    | none => .ok none
    | some u => match lookupE d u with
      | .ok v => .ok (some v)
      | .error e => .error e) y

end transform

section closest
variable {κ β : Type} [DecidableEq κ]

/-- `_find_closest(u)`, as far as the label branch depends on it: scikit-learn's 1-nearest-neighbour
search over `list(permutation_)` is a parameter `closer u k best` ("key `k` is strictly closer to
`u` than `best`"); the model keeps the first best key in dictionary order.  An empty dictionary
gives the query back (the real code raises inside scikit-learn there). -/
def nearest (closer : κ → κ → κ → Bool) (d : Dict κ β) (u : κ) : κ :=
  match d.keys with
  | [] => u
  | k :: ks => ks.foldl (fun best k' => if closer u k' best then k' else best) k

/-- one cell of the label branch with `closest=True`: a label outside the fitted set is replaced by
`near d u`, then `self.permutation_[cl]` (KeyError when `cl` is not a key) -/
def lookupC (near : Dict κ β → κ → κ) (d : Dict κ β) (u : κ) : Except Err β :=
  match d.get? u with
  | some v => .ok v
  | none =>
    match d.get? (near d u) with
    | some v => .ok v
    | none => .error .keyError

/-- label branch of `transform`, `closest=True`, integer / string array -/
def transformPlainC (near : Dict κ β → κ → κ) (d : Dict κ β) (y : List κ) : Except Err (List β) :=
  mapE (lookupC near d) y

/-- label branch of `transform`, `closest=True`, float array: NaN cells are left as they are -/
def transformLabelsC (near : Dict κ β → κ → κ) (d : Dict κ β) (y : List (Option κ)) :
    Except Err (List (Option β)) :=
  mapE (fun o => match o with
    | none => .ok none
    | some u => match lookupC near d u with
      | .ok v => .ok (some v)
      | .error e => .error e) y

end closest

section proba
variable {β γ : Type} [DecidableEq β]

/-- python's order on the tuples `(label, code)`: first component, then second -/
def lexLe (le : β → β → Bool) (a b : β × Nat) : Bool :=
  if a.1 = b.1 then decide (a.2 ≤ b.2) else le a.1 b.1

/-- `cl = [(v, k) for k, v in permutation_.items()]; cl.sort()` -/
def sortedPairs (le : β → β → Bool) (d : Dict Nat β) : List (β × Nat) :=
  (d.map (fun p => (p.2, p.1))).mergeSort (lexLe le)

/-- `new_perm = {}; for cl, current in cl: new_perm[current] = len(new_perm)` -/
def newPerm (le : β → β → Bool) (d : Dict Nat β) : Dict Nat Nat :=
  (sortedPairs le d).foldl (fun acc p => acc.insert p.2 acc.length) []

/-- destination column `new_perm[i]` of every source column `i in range(n)` -/
def dests (np : Dict Nat Nat) (n : Nat) : Except Err (List Nat) :=
  mapE (fun i => match np.get? i with
    | none => .error .keyError
    | some j => if j < n then .ok j else .error .indexError) (List.range n)

/-- `yp = y.copy(); for i in range(n): yp[new_perm[i]] = y[i]`, for one row -/
def scatter (ds : List Nat) (row : List γ) : List γ :=
  (ds.zip row).foldl (fun acc p => acc.set p.1 p.2) row

/-- probability / raw score branch of `transform` (2-D float array), row by row -/
def transformProba (le : β → β → Bool) (d : Dict Nat β) (rows : List (List γ)) :
    Except Err (List (List γ)) :=
  mapE (fun row => match dests (newPerm le d) row.length with
    | .ok ds => .ok (scatter ds row)
    | .error e => .error e) rows

end proba

/-! ### `transform(X, y)`: features are returned as they came, the branch depends on the array -/

/-- a 1-D target array: float (NaN = `none`) or integer / string (no NaN test) -/
inductive YLab (κ : Type) where
  | labels (y : List (Option κ))
  | plain (y : List κ)
deriving Repr, DecidableEq

/-- what can be passed as `y`: a 1-D array, or a 2-D float array of probabilities / scores -/
inductive YArr (κ γ : Type) where
  | lab (y : YLab κ)
  | matrix (rows : List (List γ))
deriving Repr, DecidableEq

/-- label branch of `transform` on a 1-D array (`closest=False`) -/
def transformLab {κ β : Type} [DecidableEq κ] (d : Dict κ β) : YLab κ → Except Err (YLab β)
  | .labels y => (transformLabels d y).map .labels
  | .plain y => (transformPlain d y).map .plain

/-- `PermutationReciprocalTransformer.transform(X, y)` with a 1-D `y` -/
def transform {ξ κ β : Type} [DecidableEq κ] (d : Dict κ β) (X : ξ) (y : YLab κ) :
    Except Err (ξ × YLab β) :=
  (transformLab d y).map (fun r => (X, r))

/-- `get_fct_inv().transform(X, y)`: the inverse dictionary maps codes (column numbers) to
labels; a 2-D float array goes through the probability-column branch -/
def transformInv {ξ β γ : Type} [DecidableEq β] (le : β → β → Bool) (d : Dict Nat β) (X : ξ) :
    YArr Nat γ → Except Err (ξ × YArr β γ)
  | .lab y => (transformLab d y).map (fun r => (X, .lab r))
  | .matrix rows => (transformProba le d rows).map (fun r => (X, .matrix r))

/-! ### TransformedTargetClassifier2 (transformer = permutation, `closest=False`) -/

section classifier
variable {β γ : Type} [DecidableEq β]

/-- `_apply(X, "predict")`: inverse label lookup of what the inner classifier predicts -/
def predict (inv : Dict Nat β) (innerPred : List Nat) : Except Err (List β) :=
  transformPlain inv innerPred

/-- `_apply(X, "predict_proba")`: the columns of the inner classifier re-ordered -/
def predictProba (le : β → β → Bool) (inv : Dict Nat β) (innerProba : List (List γ)) :
    Except Err (List (List γ)) :=
  transformProba le inv innerProba

/-- `classes_` as the *current tree before the repair* computes it:
`inv.transform(None, classifier_.classes_)` — labels in the order of the inner classifier -/
def classesUnsorted (inv : Dict Nat β) (innerClasses : List Nat) : Except Err (List β) :=
  transformPlain inv innerClasses

/-- `classes_` (repaired): the same labels, sorted — the order of the probability columns -/
def classes (le : β → β → Bool) (inv : Dict Nat β) (innerClasses : List Nat) :
    Except Err (List β) :=
  (classesUnsorted inv innerClasses).map (fun l => l.mergeSort le)

end classifier

/-! ### learners (for the comparison with the plain classifier) -/

/-- A classification learner with the training features fixed: trained on a list of labels (one per
training row), it gives for a query `x` a score for every class and a predicted class.  It is
polymorphic in the label type: the same learner can be trained on original labels or on codes. -/
structure Learner (ι γ : Type) where
  proba : {β : Type} → [DecidableEq β] → List β → ι → β → γ
  predict : {β : Type} → [DecidableEq β] → List β → ι → Option β

/-- label-permutation equivariance: renaming the classes injectively renames the predictions and
moves the scores along -/
def Learner.Equivariant {ι γ : Type} (L : Learner ι γ) : Prop :=
  ∀ {β β' : Type} [DecidableEq β] [DecidableEq β'] (σ : β → β') (ys : List β),
    (∀ a ∈ ys, ∀ b ∈ ys, σ a = σ b → a = b) →
    ∀ x, (∀ b ∈ ys, L.proba (ys.map σ) x (σ b) = L.proba ys x b) ∧
         L.predict (ys.map σ) x = (L.predict ys x).map σ

end MlVerif.Perm
