/-
C18 — non_linear_correlations (mlinsights/metrics/correlations.py) and comparable_metric /
r2_score_comparable (mlinsights/metrics/scoring_metrics.py), executable model.  Core Lean only.

Generic in an ordered field `α` (driver: `α := Rat`).  The learner, `scale`, `train_test_split` and
`numpy.var` are external: the model takes, per draw k and cell (i, j), the variance `v` of the residual
on the test half.  The square root is specified through squares (`IsCo`); the driver computes it
exactly when `max(1 - v, 0)` is the square of a rational and answers `irrational` otherwise.
The arithmetic (clamp, cell updates of both branches, final division) comes from `MlVerif.Gen.C18`.
-/
import MlVerif.Gen.C18

namespace MlVerif.Corr
open Lean.Grind
open MlVerif.Gen.C18 (Init Cond Act maxR minR)

section
variable {α : Type} [Field α] [LE α] [LT α] [DecidableLE α] [DecidableLT α] [DecidableEq α]

/-- the radicand of `co`: `max(1 - var, 0)` as the source writes it -/
def radicand (v : α) : α := Gen.C18.radicandOfC (Gen.C18.cOfVar v)

/-- `co = radicand ** 0.5`: the non-negative square root, specified through squares -/
def IsCo (v co : α) : Prop := 0 ≤ co ∧ co * co = radicand v

/-- one cell (i, j) of the three matrices -/
structure Cell (α : Type) where
  cor : α
  mini : α
  maxi : α
deriving DecidableEq, Repr

/-- the body of the innermost loop for draw `k` (`frame` = the `if iloc:` branch).  With `minmax=False` the
`mini`/`maxi` matrices do not exist; the model carries them anyway and `result` drops them. -/
def stepCell (frame : Bool) (k : Nat) (c : Cell α) (co : α) : Cell α :=
  if frame then
    ⟨Gen.C18.frameCor c.cor co,
     if k = 0 then Gen.C18.frameMiniFirst co else Gen.C18.frameMiniNext c.mini co,
     if k = 0 then Gen.C18.frameMaxiFirst co else Gen.C18.frameMaxiNext c.maxi co⟩
  else
    ⟨Gen.C18.arrayCor c.cor co,
     if k = 0 then Gen.C18.arrayMiniFirst co else Gen.C18.arrayMiniNext c.mini co,
     if k = 0 then Gen.C18.arrayMaxiFirst co else Gen.C18.arrayMaxiNext c.maxi co⟩

/-- draws `k, k+1, ...` applied in order to one cell -/
def runFrom (frame : Bool) : Nat → Cell α → List α → Cell α
  | _, c, [] => c
  | k, c, co :: cos => runFrom frame (k + 1) (stepCell frame k c co) cos

/-- the cell after all draws, starting from the zeroed matrices (`cor[:, :] = 0.0`, copies for mini/maxi) -/
def runCell (frame : Bool) (cos : List α) : Cell α := runFrom frame 0 ⟨0, 0, 0⟩ cos

/-- `draws` as a field element -/
def natTo : Nat → α
  | 0 => 0
  | k + 1 => natTo k + 1

/-- what is returned for one cell: `(cor / draws, mini, maxi)` -/
def finalCell (c : Cell α) (draws : Nat) : Cell α := ⟨Gen.C18.finalMinmax c.cor (natTo draws), c.mini, c.maxi⟩

/-- the returned mean with `minmax=False` -/
def finalPlain (c : Cell α) (draws : Nat) : α := Gen.C18.finalPlain c.cor (natTo draws)

/-- shape of `cor` as created by the two branches, for a table with `d` columns (numpy / pandas semantics, trusted):
`numpy.corrcoef(., rowvar=False)` is d×d for d ≥ 2 but a 0-d scalar for d = 1 (item assignment then fails);
`numpy.atleast_2d` of it, `numpy.zeros((d, d))` and `DataFrame.corr()` are d×d. -/
def initShape : Init → Nat → Option (Nat × Nat)
  | .dfCorr, d => some (d, d)
  | .corrcoef, d => if d = 1 then none else some (d, d)
  | .atleast2dCorrcoef, d => some (d, d)
  | .zerosDD, d => some (d, d)
  | .unknown, _ => none

/-- the whole function on a table with `d` columns: `co k i j` is the value of draw k for cell (i, j).
`none` = the creation of `cor` fails (TypeError) or there is no draw (division 0/0). -/
def correlations (frame : Bool) (d draws : Nat) (co : Nat → Nat → Nat → α) : Option (List (List (Cell α))) :=
  match initShape (if frame then Gen.C18.frameInit else Gen.C18.arrayInit) d with
  | none => none
  | some (r, c) =>
    if draws = 0 then none
    else some ((List.range r).map (fun i => (List.range c).map (fun j =>
      finalCell (runCell frame ((List.range draws).map (fun k => co k i j))) draws)))

/-! ### specification side: what `numpy.var(v - xj_test.ravel())` is -/

/-- `ndarray.sum()` -/
def sumL : List α → α
  | [] => 0
  | x :: xs => x + sumL xs

/-- `numpy.mean`, `numpy.var` (population variance, ddof = 0) -/
def mean (r : List α) : α := sumL r / natTo r.length
def variance (r : List α) : α := sumL (r.map (fun x => (x - mean r) * (x - mean r))) / natTo r.length

/-- `v - xj_test.ravel()` -/
def residual (pred target : List α) : List α := List.zipWith (fun p t => p - t) pred target

/-! ### comparable_metric -/

/-- an argument `tr` / `inv_tr` as the caller passes it -/
inductive Arg where
  | none                      -- None
  | name (s : String)         -- a string
  | callable (id : String)    -- a callable object
  | other                     -- anything else (not None, not a string, not callable)
deriving DecidableEq, Repr

/-- `X = _known_functions.get(X, X)`: a name in the table becomes that (callable) numpy function -/
def resolve (a : Arg) : Arg :=
  match a with
  | .name s => match Gen.C18.knownFunctions.lookup s with
    | some f => .callable f
    | none => .name s
  | a => a

def Arg.isNone : Arg → Bool
  | .none => true
  | _ => false
def Arg.isCallable : Arg → Bool
  | .callable _ => true
  | _ => false

def condHolds (c : Cond) (tr inv : Arg) : Option Bool :=
  match c with
  | .trNotNoneNotCallable => some (!tr.isNone && !tr.isCallable)
  | .invNotNoneNotCallable => some (!inv.isNone && !inv.isCallable)
  | .bothNone => some (tr.isNone && inv.isNone)
  | .trNone => some tr.isNone
  | .invNone => some inv.isNone
  | .unknown => none

/-- outcome: an exception type, or the metric applied to (possibly transformed) targets and predictions;
`some f` = the callable `f` is applied, `none` = the argument is passed unchanged -/
inductive Outcome where
  | typeError | valueError
  | metric (onTrue onPred : Option String)
  | notCallable                -- calling a non-callable / None (TypeError raised by Python itself)
  | unknown
deriving DecidableEq, Repr

def applyAct (a : Act) (tr inv : Arg) : Outcome :=
  match a with
  | .raiseType => .typeError
  | .raiseValue => .valueError
  | .unknown => .unknown
  | .metric t p =>
    let ft : Option (Option String) := if t then (match tr with | .callable f => some (some f) | _ => Option.none) else some Option.none
    let fp : Option (Option String) := if p then (match inv with | .callable f => some (some f) | _ => Option.none) else some Option.none
    match ft, fp with
    | some a, some b => .metric a b
    | _, _ => .notCallable

def runBranches : List (Cond × Act) → Arg → Arg → Outcome
  | [], tr, inv => applyAct Gen.C18.fallthrough tr inv
  | (c, a) :: rest, tr, inv =>
    match condHolds c tr inv with
    | none => .unknown
    | some true => applyAct a tr inv
    | some false => runBranches rest tr inv

/-- `comparable_metric(metric_function, y_true, y_pred, tr, inv_tr)` -/
def comparableMetric (tr inv : Arg) : Outcome :=
  let tr' := if Gen.C18.resolved.contains "tr" then resolve tr else tr
  let inv' := if Gen.C18.resolved.contains "inv_tr" then resolve inv else inv
  runBranches Gen.C18.branches tr' inv'

end
end MlVerif.Corr
