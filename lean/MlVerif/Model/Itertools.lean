/-
C11 — executable transcriptions of the itertools reference algorithms (core Lean only) and of
scikit-learn's `PolynomialFeatures._combinations`, which is built from them.

Sources
* Python documentation, library/itertools.html, "roughly equivalent to" code of
  `itertools.combinations(iterable, r)` and `itertools.combinations_with_replacement(iterable, r)`
  (quoted in full above each definition).
* scikit-learn 1.9.1, `sklearn/preprocessing/_polynomial.py`, `PolynomialFeatures._combinations`
  and the two lines of `fit` that set `_min_degree`, `_max_degree` for an integer `degree`.

Conventions
* A generator is the list of what it yields.  `while True:` is a loop with fuel; running out of fuel
  is `none`, and so is every IndexError the Python code could raise (`indices[i]`, `pool[i]`,
  `indices[j] = …` out of range).  `Lemmas/Itertools.lean` proves that neither ever happens and
  that the yielded list is the lexicographic list `MlVerif.Poly.combs`.
* Comparisons that the Python code makes on (possibly negative) Python ints are made in `Int`
  (`i + n - r`, `n - 1`).
* The transcription is validated on every run against the real `itertools` (driver ops
  `itcomb`, `itcwr`) and the real `PolynomialFeatures._combinations` (driver op `sklearn`).
-/

namespace MlVerif.Itertools

/-- `indices[i] = v` (IndexError = `none`) -/
def setAt (ind : List Nat) (i v : Nat) : Option (List Nat) :=
  if i < ind.length then some (ind.set i v) else none

/-- ```
for i in reversed(range(r)):
    if <brk i indices[i]>:
        break
else:
    return
```
`some (some i)`: left by `break` with this `i`; `some none`: the `else` clause (`return`);
`none`: IndexError.  The argument is the number of values of `i` still to visit (`i = k-1, …, 0`). -/
def scanRev (ind : List Nat) (brk : Nat → Nat → Bool) : Nat → Option (Option Nat)
  | 0 => some none
  | k+1 => do
    let v ← ind[k]?
    if brk k v then some (some k) else scanRev ind brk k

/-- ```
for j in range(j0, j0 + cnt):
    indices[j] = indices[j-1] + 1
``` -/
def fill : Nat → Nat → List Nat → Option (List Nat)
  | _, 0, ind => some ind
  | 0, _+1, _ => none                  -- `indices[-1]` would wrap around: never reached (j ≥ i+1 ≥ 1)
  | j+1, cnt+1, ind => do
    let v ← ind[j]?                    -- indices[j-1]
    let ind ← setAt ind (j+1) (v + 1)
    fill (j+2) cnt ind

/-- `tuple(pool[i] for i in indices)` -/
def tupleOf {α} (pool : List α) (ind : List Nat) : Option (List α) :=
  ind.mapM (fun i => pool[i]?)

/-- ```
while True:
    <indices = next indices, or return>
    yield tuple(pool[i] for i in indices)
```
the list of tuples yielded from here on.  `next ind = some none` is `return`. -/
def whileTrue {β} (next : List Nat → Option (Option (List Nat))) (emit : List Nat → Option β) :
    Nat → List Nat → Option (List β)
  | 0, _ => none                                   -- out of fuel
  | fuel+1, ind => do
    match ← next ind with
    | none => pure []
    | some ind' => do
      let t ← emit ind'
      let rest ← whileTrue next emit fuel ind'
      pure (t :: rest)

/-- fuel given to `while True:`; at least the number of combinations (`C(n, r) ≤ 2^n`,
`C(n+r-1, r) ≤ 2^(n+r)`), proved sufficient in `Lemmas/Itertools.lean` -/
def fuel (n r : Nat) : Nat := 2 ^ (n + r)

/-! ### `itertools.combinations`
```
def combinations(iterable, r):
    pool = tuple(iterable)
    n = len(pool)
    if r > n:
        return
    indices = list(range(r))
    yield tuple(pool[i] for i in indices)
    while True:
        for i in reversed(range(r)):
            if indices[i] != i + n - r:
                break
        else:
            return
        indices[i] += 1
        for j in range(i+1, r):
            indices[j] = indices[j-1] + 1
        yield tuple(pool[i] for i in indices)
```
-/

/-- one turn of the `while True:` body of `combinations`, up to the `yield` -/
def nextComb (n r : Nat) (ind : List Nat) : Option (Option (List Nat)) := do
  -- for i in reversed(range(r)): if indices[i] != i + n - r: break / else: return
  match ← scanRev ind (fun i v => decide ((v : Int) ≠ (i : Int) + (n : Int) - (r : Int))) r with
  | none => pure none
  | some i =>
    let v ← ind[i]?
    let ind ← setAt ind i (v + 1)                   -- indices[i] += 1
    let ind ← fill (i + 1) (r - (i + 1)) ind        -- for j in range(i+1, r): indices[j] = indices[j-1] + 1
    pure (some ind)

def combinations {α} (pool : List α) (r : Nat) : Option (List (List α)) :=
  let n := pool.length
  if r > n then some []                             -- if r > n: return
  else do
    let indices := List.range r                     -- indices = list(range(r))
    let first ← tupleOf pool indices                -- yield tuple(pool[i] for i in indices)
    let rest ← whileTrue (nextComb n r) (tupleOf pool) (fuel n r) indices
    pure (first :: rest)

/-! ### `itertools.combinations_with_replacement`
```
def combinations_with_replacement(iterable, r):
    pool = tuple(iterable)
    n = len(pool)
    if not n and r:
        return
    indices = [0] * r
    yield tuple(pool[i] for i in indices)
    while True:
        for i in reversed(range(r)):
            if indices[i] != n - 1:
                break
        else:
            return
        indices[i:] = [indices[i] + 1] * (r - i)
        yield tuple(pool[i] for i in indices)
```
-/

/-- one turn of the `while True:` body of `combinations_with_replacement`, up to the `yield` -/
def nextCwr (n r : Nat) (ind : List Nat) : Option (Option (List Nat)) := do
  -- for i in reversed(range(r)): if indices[i] != n - 1: break / else: return
  match ← scanRev ind (fun _ v => decide ((v : Int) ≠ (n : Int) - 1)) r with
  | none => pure none
  | some i =>
    let v ← ind[i]?
    -- indices[i:] = [indices[i] + 1] * (r - i)
    pure (some (ind.take i ++ List.replicate (r - i) (v + 1)))

def combinationsWithReplacement {α} (pool : List α) (r : Nat) : Option (List (List α)) :=
  let n := pool.length
  if n = 0 ∧ r ≠ 0 then some []                     -- if not n and r: return
  else do
    let indices := List.replicate r 0               -- indices = [0] * r
    let first ← tupleOf pool indices                -- yield tuple(pool[i] for i in indices)
    let rest ← whileTrue (nextCwr n r) (tupleOf pool) (fuel n r) indices
    pure (first :: rest)

/-! ### scikit-learn
```
@staticmethod
def _combinations(n_features, min_degree, max_degree, interaction_only, include_bias):
    comb = combinations if interaction_only else combinations_w_r
    start = max(1, min_degree)
    iter = chain.from_iterable(
        comb(range(n_features), i) for i in range(start, max_degree + 1)
    )
    if include_bias:
        iter = chain(comb(range(n_features), 0), iter)
    return iter
```
-/

/-- `PolynomialFeatures._combinations(n_features, min_degree, max_degree, interaction_only, include_bias)`
as the list it yields (`none`: one of the itertools generators failed). -/
def sklearnCombinationsMinMax (nFeatures minDegree maxDegree : Nat) (interactionOnly includeBias : Bool) :
    Option (List (List Nat)) := do
  let comb : List Nat → Nat → Option (List (List Nat)) :=
    if interactionOnly then combinations else combinationsWithReplacement
  let start := max 1 minDegree
  -- range(start, max_degree + 1)
  let parts ← (List.range' start (maxDegree + 1 - start)).mapM (fun i => comb (List.range nFeatures) i)
  let iter := parts.flatten                          -- chain.from_iterable(…)
  if includeBias then do
    let zero ← comb (List.range nFeatures) 0
    pure (zero ++ iter)                              -- chain(comb(range(n_features), 0), iter)
  else pure iter

/-- `PolynomialFeatures(degree=degree, interaction_only=io, include_bias=bias)` with an integer
`degree`: `fit` sets `self._min_degree = 0; self._max_degree = self.degree` and `powers_`,
`transform`, `get_feature_names_out` enumerate `_combinations(n_features_in_, 0, degree, io, bias)`.
(`fit` raises ValueError for `degree == 0 and not include_bias`; `_combinations` itself then yields
nothing, which is what this definition returns.) -/
def sklearnCombinations (n degree : Nat) (io bias : Bool) : Option (List (List Nat)) :=
  sklearnCombinationsMinMax n 0 degree io bias

end MlVerif.Itertools
