/-
C15 — learner-to-transformer wrappers, executable model on a heap-lite store.  Core Lean only.

Objects have ids; the store maps ids to records; deep copies allocate fresh ids.  Wrapped models are
*recording models*: a record keeps the hyper-parameter, the capabilities of its class and every `fit` call it
received; what a method returns is a parameter `beh` of the model (external component), a function of the
record, the method name and the input batch.

Transcribed: `SkBaseTransformLearner._set_method / fit / transform / set_params(model=…)`,
`SkBaseTransformStacking.__init__ (convert2transform) / fit / transform`, `TransferTransformer.__init__ / fit /
transform`, `clone_with_fitted_parameters` (as a deep copy).  Tables and guards come from `MlVerif.Gen.C15`.
-/
import MlVerif.Gen.C15

namespace MlVerif.Wrappers
open MlVerif.Gen.C15

abbrev Mat := List (List Int)
abbrev Vec := List Int

inductive Out
  | vec (v : Vec)
  | mat (m : Mat)
deriving DecidableEq, Repr

inductive Err | attribute | value | type | assertion | notFitted | missing
deriving DecidableEq, Repr

/-- one `fit(X, y, **kw)` call as the wrapped model sees it: positional/keyword layout included -/
structure FitCall where
  X : Mat
  y : Option Vec
  yKeyword : Bool            -- was `y` passed as `y=...`
  kw : List (String × Vec)   -- remaining keyword arguments (e.g. sample_weight)
deriving DecidableEq, Repr

/-- a recording model -/
structure Rec where
  cls : String
  caps : List String         -- which of predict / predict_proba / decision_function / transform the class has
  fitY : Bool                -- `fit` has a parameter `y`
  fitW : Bool                -- `fit` has a parameter `sample_weight`
  a : Int                    -- hyper-parameter
  fits : List FitCall        -- every fit call received, oldest first
deriving DecidableEq, Repr

inductive MethodSel
  | name (n : String)
  | callable (tag : String)
deriving DecidableEq, Repr

inductive Obj
  | model (r : Rec)
  | learner (model : Nat) (method : MethodSel) (bound : Nat)
  | stacking (members : List Nat)
  | transfer (est : Nat) (method : String) (copy : Bool) (trainable : Bool) (fitted : Option Nat)
deriving DecidableEq, Repr

structure Store where
  next : Nat
  objs : List (Nat × Obj)
deriving Repr

/-- behaviour of the external components: what method `attr` of a recording model returns on a batch, and what
a user callable returns -/
structure Beh where
  method : Rec → String → Mat → Out
  callable : String → Mat → Out

def Store.get (st : Store) (id : Nat) : Option Obj := st.objs.lookup id

def putObj (id : Nat) (o : Obj) : List (Nat × Obj) → List (Nat × Obj)
  | [] => [(id, o)]
  | (i, o') :: rest => if i == id then (id, o) :: rest else (i, o') :: putObj id o rest

def Store.put (st : Store) (id : Nat) (o : Obj) : Store := { st with objs := putObj id o st.objs }

def Store.alloc (st : Store) (o : Obj) : Store × Nat :=
  ({ next := st.next + 1, objs := putObj st.next o st.objs }, st.next)

/-! ### method resolution -/

/-- `_set_method`: which attribute of the model a method name selects (table regenerated from the source) -/
def resolveMethod (n : String) : Option String := setMethodTable.lookup n

/-- default of `SkBaseTransformLearner(model, method=None)`: loop over the candidates, keep a hit; without a
`break` the *last* hit wins -/
def learnerDefault (caps : List String) : Option String :=
  let hits := learnerDefaultOrder.filter (fun n => caps.contains n)
  if learnerDefaultLastWins then hits.getLast? else hits.head?

/-- default of `TransferTransformer(estimator, method=None)`: `if/elif` chain, the first hit wins -/
def transferDefault (caps : List String) : Option String :=
  (transferDefaultOrder.filter (fun n => caps.contains n)).head?

/-! ### calls on wrapped models -/

def callModel (beh : Beh) (st : Store) (id : Nat) (attr : String) (X : Mat) : Except Err Out :=
  match st.get id with
  | some (.model r) => if r.caps.contains attr then .ok (beh.method r attr X) else .error .attribute
  | _ => .error .missing

/-- `model.fit(...)`: the record gains exactly this call -/
def fitModel (st : Store) (id : Nat) (c : FitCall) : Except Err Store :=
  match st.get id with
  | some (.model r) => .ok (st.put id (.model { r with fits := r.fits ++ [c] }))
  | _ => .error .missing

/-- `res[:, numpy.newaxis]` for a 1-D result -/
def as2D (reshape : Bool) : Out → Out
  | .vec v => if reshape then .mat (v.map (fun x => [x])) else .vec v
  | .mat m => .mat m

/-! ### SkBaseTransformLearner -/

def learnerTransform (beh : Beh) (st : Store) (id : Nat) (X : Mat) : Except Err Out :=
  match st.get id with
  | some (.learner _ (.name n) bound) =>
      match resolveMethod n with
      | some attr => (callModel beh st bound attr X).map (as2D learnerReshapes1D)
      | none => .error .value
  | some (.learner _ (.callable tag) _) => .ok (as2D learnerReshapes1D (beh.callable tag X))
  | _ => .error .missing

/-- `self.model.fit(X, y=y, **kwargs)` -/
def learnerFit (st : Store) (id : Nat) (X : Mat) (y : Option Vec) (kw : List (String × Vec)) : Except Err Store :=
  match st.get id with
  | some (.learner m _ _) => fitModel st m { X := X, y := y, yKeyword := learnerFitYKeyword, kw := kw }
  | _ => .error .missing

/-- `set_params(model=new)`: `method_` is re-bound to the new model iff the source calls `_set_method` on that path -/
def learnerSetModel (st : Store) (id : Nat) (new : Nat) : Except Err Store :=
  match st.get id with
  | some (.learner _ meth bound) =>
      .ok (st.put id (.learner new meth (if learnerSetParamsRebinds then new else bound)))
  | _ => .error .missing

/-! ### SkBaseTransformStacking -/

/-- a member's `transform`: a learner's, or the model's own `transform` -/
def memberTransform (beh : Beh) (st : Store) (id : Nat) (X : Mat) : Except Err Out :=
  match st.get id with
  | some (.learner _ _ _) => learnerTransform beh st id X
  | some (.model _) => callModel beh st id "transform" X
  | _ => .error .missing

def memberFit (st : Store) (id : Nat) (X : Mat) (y : Option Vec) (kw : List (String × Vec)) : Except Err Store :=
  match st.get id with
  | some (.learner _ _ _) => learnerFit st id X y kw
  | some (.model _) => fitModel st id { X := X, y := y, yKeyword := stackingFitYKeyword, kw := kw }
  | _ => .error .missing

def toMat : Out → Mat
  | .vec v => v.map (fun x => [x])
  | .mat m => m

/-- `numpy.hstack` of 2-D blocks with the same number of rows -/
def hstack : List Mat → Mat
  | [] => []
  | [m] => m
  | m :: rest => List.zipWith (· ++ ·) m (hstack rest)

def stackingTransform (beh : Beh) (st : Store) (id : Nat) (X : Mat) : Except Err Out :=
  match st.get id with
  | some (.stacking ms) =>
      match ms.mapM (fun m => memberTransform beh st m X) with
      | .ok outs =>
          let blocks := outs.map toMat
          if blocks.all (fun b => b.length == X.length) then .ok (.mat (hstack blocks)) else .error .value
      | .error e => .error e
  | _ => .error .missing

def stackingFit (st : Store) (id : Nat) (X : Mat) (y : Option Vec) (kw : List (String × Vec)) : Except Err Store :=
  match st.get id with
  | some (.stacking ms) => ms.foldlM (fun s m => memberFit s m X y kw) st
  | _ => .error .missing

/-- `convert2transform`: a learner or a transformer is reused, anything else is wrapped in a new learner with the
stacking's method -/
def stackingBuild (st : Store) (members : List Nat) (method : String) : Except Err (Store × Nat) := do
  let (st', ms) ← members.foldlM (fun (acc : Store × List Nat) m =>
    match acc.1.get m with
    | some (.learner inner meth _) =>
        if stackingRewrapsLearners && meth != .name method then
          let (s, l) := acc.1.alloc (.learner inner (.name method) inner)
          .ok (s, acc.2 ++ [l])
        else .ok (acc.1, acc.2 ++ [m])
    | some (.model r) =>
        if r.caps.contains "transform" then .ok (acc.1, acc.2 ++ [m])
        else match resolveMethod method with
          | some attr =>
              if r.caps.contains attr then
                let (s, l) := acc.1.alloc (.learner m (.name method) m)
                .ok (s, acc.2 ++ [l])
              else .error .attribute
          | none => .error .value
    | _ => .error .missing) (st, [])
  let (st'', id) := st'.alloc (.stacking ms)
  .ok (st'', id)

/-! ### TransferTransformer -/

/-- `clone_with_fitted_parameters`, modelled as a deep copy of the record under a fresh id -/
def deepCopy (st : Store) (id : Nat) : Except Err (Store × Nat) :=
  match st.get id with
  | some (.model r) => .ok (st.alloc (.model r))
  | _ => .error .missing

/-- the arguments `fit` forwards, chosen from the wrapped `fit`'s signature -/
def transferFitCall (r : Rec) (X : Mat) (y : Option Vec) (w : Option Vec) : FitCall :=
  let wkw := match w with | some w => [("sample_weight", w)] | none => [("sample_weight", [])]
  if r.fitY && r.fitW then { X := X, y := y, yKeyword := false, kw := wkw }
  else if r.fitY then { X := X, y := y, yKeyword := false, kw := [] }
  else if r.fitW then { X := X, y := none, yKeyword := false, kw := wkw }
  else { X := X, y := none, yKeyword := false, kw := [] }

def transferFit (st : Store) (id : Nat) (X : Mat) (y : Option Vec) (w : Option Vec) : Except Err Store :=
  match st.get id with
  | some (.transfer est meth copy trainable _) => do
      let (st1, target) ← (if copy && transferCopyBranch then deepCopy st est else .ok (st, est))
      let st2 := st1.put id (.transfer est meth copy trainable (some target))
      if trainable || !transferTrainableGuard then
        match st2.get target with
        | some (.model r) => fitModel st2 target (transferFitCall r X y w)
        | _ => .error .missing
      else .ok st2
  | _ => .error .missing

def transferTransform (beh : Beh) (st : Store) (id : Nat) (X : Mat) : Except Err Out :=
  match st.get id with
  | some (.transfer _ meth _ _ (some target)) => callModel beh st target meth X
  | some (.transfer _ _ _ _ none) => .error .notFitted
  | _ => .error .missing

/-! ### histories -/

inductive Op
  | lFit (id : Nat) (X : Mat) (y : Option Vec) (kw : List (String × Vec))
  | lTransform (id : Nat) (X : Mat)
  | lSetModel (id : Nat) (new : Nat)
  | sFit (id : Nat) (X : Mat) (y : Option Vec) (kw : List (String × Vec))
  | sTransform (id : Nat) (X : Mat)
  | tFit (id : Nat) (X : Mat) (y : Option Vec) (w : Option Vec)
  | tTransform (id : Nat) (X : Mat)

def step (beh : Beh) (st : Store) : Op → Store × Except Err (Option Out)
  | .lFit id X y kw => match learnerFit st id X y kw with
      | .ok s => (s, .ok none) | .error e => (st, .error e)
  | .lTransform id X => (st, (learnerTransform beh st id X).map some)
  | .lSetModel id new => match learnerSetModel st id new with
      | .ok s => (s, .ok none) | .error e => (st, .error e)
  | .sFit id X y kw => match stackingFit st id X y kw with
      | .ok s => (s, .ok none) | .error e => (st, .error e)
  | .sTransform id X => (st, (stackingTransform beh st id X).map some)
  | .tFit id X y w => match transferFit st id X y w with
      | .ok s => (s, .ok none) | .error e => (st, .error e)
  | .tTransform id X => (st, (transferTransform beh st id X).map some)

def run (beh : Beh) (st : Store) : List Op → Store × List (Except Err (Option Out))
  | [] => (st, [])
  | op :: ops =>
      let r := step beh st op
      let r' := run beh r.1 ops
      (r'.1, r.2 :: r'.2)

/-! ### the recording models' arithmetic (what the harness's recording classes compute) -/

def methodOffset : String → Int
  | "predict" => 0
  | "decision_function" => 1000
  | "predict_proba" => 2000
  | "transform" => 3000
  | _ => 9000

def fitSig (r : Rec) : Int :=
  match r.fits.getLast? with
  | none => 0
  | some c => (c.X.length : Int) + (match c.y with | some y => y.sum % 97 | none => 50)

def stdMethod (r : Rec) (attr : String) (X : Mat) : Out :=
  let base := fun (row : List Int) => row.sum * r.a + methodOffset attr + fitSig r
  if attr == "predict_proba" then .mat (X.map (fun row => [base row, base row + 1]))
  else if attr == "transform" then .mat (X.map (fun row => [base row, - base row]))
  else .vec (X.map base)

def stdCallable (tag : String) (X : Mat) : Out :=
  if tag == "col" then .vec (X.map (fun row => row.sum + 7)) else .mat (X.map (fun row => [row.sum, 1]))

def stdBeh : Beh := { method := stdMethod, callable := stdCallable }

end MlVerif.Wrappers
