/-
C01 — parameter protocol (get_params / set_params / clone), executable model.  Core Lean only.

Keys are character lists and the custom protocols are transcribed *with their string arithmetic*:
prefix tests, `k[a:]`, `k[d:].split("__", 1)`, `int(si[0])`, the slice offset of the member sub-key.
Every constant / offset expression used here is a definition of `MlVerif.Gen.C01`, regenerated from the
source on every run.  An estimator is a tree node with an object id (heap-lite: `clone` allocates fresh
ids); configurations are alias-free trees.

Protocols (what each mirrors):
* `base`     scikit-learn `BaseEstimator`: `get_params(deep)` expands every estimator-valued parameter under
             `<name>__`; `set_params` validates the head of `key.partition("__")` against the parameter
             names, applies direct keys first, then one nested call per head.
* `anmf`     `ApproximateNMFPredictor`: scikit-learn's `set_params`, own `get_params` without expansion.
* `skbase`   `SkBase`: parameters live in `SkLearnParameters`; names starting/ending with `_` are rejected.
* `learner`  `SkBaseTransformLearner`: `model`, `method`, own keys, `model__<sub>`.
* `stacking` `SkBaseTransformStacking`: `models`, `method`, own keys, `models_<i>__<sub>`.
* `cak`      `ClassifierAfterKMeans`: `estimator`, `clus`, `e_<sub>`, `c_<sub>`.
-/
import MlVerif.Gen.C01

namespace MlVerif.Params
open MlVerif.Gen.C01

abbrev Key := List Char

inductive Err | value | key | type | attribute | index | runtime | skexc | fuel
deriving DecidableEq, Repr

/-- what a non-estimator parameter value is, as far as the protocol can tell -/
inductive AKind | str | fn | other
deriving DecidableEq, Repr

inductive PVal where
  | atom (kind : AKind) (txt : String)
  | est (id : Nat) (cls : String) (proto : Proto) (fitted : Bool) (kw : List (Key × PVal))
  | ests (l : List PVal)

abbrev KW := List (Key × PVal)

/-! ### Python string operations on character lists -/

/-- `k.startswith(p)` -/
def startsWith (k p : Key) : Bool := p.isPrefixOf k

/-- `k[a:]` (clipping; a negative bound counts from the end) -/
def sliceFrom (k : Key) (a : Int) : Key :=
  if 0 ≤ a then k.drop a.toNat else k.drop (k.length - (-a).toNat)

/-- split at the leftmost occurrence of `sep`: `(before, some after)` or `(k, none)` -/
def splitFirst (sep : Key) : Key → Key × Option Key
  | [] => ([], none)
  | c :: cs =>
    if sep.isPrefixOf (c :: cs) then ([], some ((c :: cs).drop sep.length))
    else
      let r := splitFirst sep cs
      (c :: r.1, r.2)

/-- `k.split(sep, n)` for a non-empty separator -/
def pySplit (sep : Key) : Nat → Key → List Key
  | 0, k => [k]
  | n + 1, k =>
    match splitFirst sep k with
    | (a, none) => [a]
    | (a, some r) => a :: pySplit sep n r

def pySplitI (sep : Key) (m : Int) (k : Key) : List Key :=
  pySplit sep (if m < 0 then k.length else m.toNat) k

/-- `f"{i}"` -/
def showNat (i : Nat) : Key := Nat.toDigits 10 i

/-- `int(s)` for a plain ASCII digit string (anything else: ValueError) -/
def parseNat (cs : Key) : Option Nat :=
  if cs.isEmpty then none
  else if cs.all Char.isDigit then some (cs.foldl (fun a c => a * 10 + (c.toNat - 48)) 0)
  else none

/-- a parameter name that contains no `__` and does not end with `_` (so that `name ++ "__" ++ sub` splits at `name`) -/
def cleanName : Key → Bool
  | [] => true
  | [c] => c != '_'
  | c :: d :: r => !(c == '_' && d == '_') && cleanName (d :: r)

def sep2 : Key := ['_', '_']
def kModel : Key := ['m', 'o', 'd', 'e', 'l']
def kModels : Key := ['m', 'o', 'd', 'e', 'l', 's']
def kMethod : Key := ['m', 'e', 't', 'h', 'o', 'd']
def kEstimator : Key := ['e', 's', 't', 'i', 'm', 'a', 't', 'o', 'r']
def kClus : Key := ['c', 'l', 'u', 's']

/-! ### association lists -/

def keys (kw : KW) : List Key := kw.map (·.1)

/-- `setattr` on an existing slot (first occurrence) -/
def replaceKey (k : Key) (v : PVal) : KW → KW
  | [] => []
  | (k', v') :: rest => if k' == k then (k, v) :: rest else (k', v') :: replaceKey k v rest

/-- dict update: replace the slot or append a new one -/
def upsert (k : Key) (v : PVal) (kw : KW) : KW :=
  if (keys kw).contains k then replaceKey k v kw else kw ++ [(k, v)]

def prefixed (p : Key) (l : KW) : KW := l.map (fun kv => (p ++ kv.1, kv.2))

/-! ### get_params -/

/-- deep parameters of the values of a parameter list, computed once per slot -/
inductive Deep
  | none
  | one (ps : KW)
  | many (pss : List KW)

def nestedOf (proto : Proto) (infos : List (Key × Deep)) : KW :=
  match proto with
  | .base => infos.flatMap (fun kd => match kd.2 with
      | .one ps => prefixed (kd.1 ++ sep2) ps
      | _ => [])
  | .learner => match infos.lookup kModel with
      | some (.one ps) => prefixed learnerGetPrefix ps
      | _ => []
  | .stacking => match infos.lookup kModels with
      | some (.many pss) => pss.zipIdx.flatMap (fun pi =>
          prefixed (stackingGetPrefix ++ showNat pi.2 ++ stackingGetSep) pi.1)
      | _ => []
  | .cak =>
      (match infos.lookup kClus with | some (.one ps) => prefixed cakGetClusPrefix ps | _ => []) ++
      (match infos.lookup kEstimator with | some (.one ps) => prefixed cakGetEstPrefix ps | _ => [])
  | _ => []

/-- `get_params(deep)` given the deep parameters of the slots -/
def assemble (proto : Proto) (kw : KW) (deep : Bool) (infos : List (Key × Deep)) : KW :=
  kw ++ (if deep then nestedOf proto infos else [])

mutual
  def deepKw : List (Key × PVal) → List (Key × Deep)
    | [] => []
    | (k, .atom _ _) :: rest => (k, .none) :: deepKw rest
    | (k, .est _ _ p _ kw') :: rest => (k, .one (assemble p kw' true (deepKw kw'))) :: deepKw rest
    | (k, .ests l) :: rest => (k, .many (deepList l)) :: deepKw rest
  def deepList : List PVal → List KW
    | [] => []
    | .est _ _ p _ kw' :: rest => assemble p kw' true (deepKw kw') :: deepList rest
    | .atom _ _ :: rest => [] :: deepList rest
    | .ests _ :: rest => [] :: deepList rest
end

/-- `e.get_params(deep)`; a value that is not an estimator has no parameters -/
def getParams : PVal → Bool → KW
  | .est _ _ p _ kw, deep => assemble p kw deep (deepKw kw)
  | _, _ => []

/-! ### set_params -/

/-- `SkLearnParameters.validate`: a name must not start or end with `_` -/
def skNameOk (k : Key) : Bool := !(k.head? == some '_') && !(k.getLast? == some '_')

/-- `SkBase.set_params`: merge (or, when the source rebuilds from the given keys only, replace) and re-validate -/
def skbaseSet (kw : KW) (kvs : KW) : Except Err KW :=
  let kw' := if skbaseSetUpdates then kvs.foldl (fun acc kv => upsert kv.1 kv.2 acc) kw else kvs
  if (keys kw').all skNameOk then .ok kw' else .error .skexc

/-- `_set_method` accepts the four method names or a callable -/
def methodCheck : PVal → Except Err Unit
  | .atom .str t =>
      if t == "predict" || t == "predict_proba" || t == "decision_function" || t == "transform" then .ok ()
      else .error .value
  | .atom .fn _ => .ok ()
  | _ => .error .type

/-- the nested calls of one `set_params`: a slot selector and the sub-parameters for it, first-appearance order -/
inductive Sel
  | slot (k : Key)
  | idx (k : Key) (i : Nat)
deriving DecidableEq

def Sel.key : Sel → Key
  | .slot k => k
  | .idx k _ => k

/-- add `(sub, v)` to the group of `s` (groups in first-appearance order, entries in call order) -/
def addTo (s : Sel) (sub : Key) (v : PVal) : List (Sel × KW) → List (Sel × KW)
  | [] => [(s, [(sub, v)])]
  | (s', l) :: rest => if s' = s then (s', l ++ [(sub, v)]) :: rest else (s', l) :: addTo s sub v rest

/-- the plan of one call: parameter list after the direct assignments, and the nested groups -/
structure Plan where
  kw : KW
  groups : List (Sel × KW)

/-- scikit-learn `BaseEstimator.set_params`, one iteration of the first loop -/
def baseStep (names : List Key) (pl : Plan) (kv : Key × PVal) : Except Err Plan :=
  match splitFirst sep2 kv.1 with
  | (head, none) =>
      if names.contains head then .ok { pl with kw := replaceKey head kv.2 pl.kw } else .error .value
  | (head, some sub) =>
      if names.contains head then .ok { pl with groups := addTo (.slot head) sub kv.2 pl.groups }
      else .error .value

/-- scikit-learn `BaseEstimator.set_params`, first loop -/
def planBase (kw : KW) (kvs : KW) : Except Err Plan :=
  kvs.foldlM (baseStep (keys kw)) { kw := kw, groups := [] }

/-- `SkBaseTransformLearner.set_params` up to the nested call -/
def planLearner (kw : KW) (kvs : KW) : Except Err (Plan × PVal) := do
  let kw1 := match kvs.lookup kModel with
    | some m => replaceKey kModel m kw
    | none => kw
  let rest := kvs.filter (fun kv => !(kv.1 == kModel) && !(kv.1 == kMethod))
  let method := match kvs.lookup kMethod with
    | some m => m
    | none => (kw.lookup kMethod).getD (.atom .other "missing")
  let nested := rest.filter (fun kv => startsWith kv.1 learnerPrefixTest)
  let own := rest.filter (fun kv => !startsWith kv.1 learnerPrefixTest)
  let kw2 ← if own.isEmpty then .ok kw1
            else if learnerRejectsOwnKeys then .error .value
            else skbaseSet kw1 own
  let pars := nested.map (fun kv => (sliceFrom kv.1 (learnerSubkeyFrom learnerD), kv.2))
  .ok ({ kw := kw2, groups := [(.slot kModel, pars)] }, method)

/-- routing of one `models_<i>__<sub>` key among `n` members: `si = k[d:].split("__", 1)`, `i = int(si[0])`,
`pars[i][k[<offset>:]]` -/
def stackingRoute (k : Key) (n : Nat) : Except Err (Nat × Key) :=
  let si := pySplitI stackingSplitSep stackingSplitMax (sliceFrom k (stackingSplitFrom stackingD))
  let s0 := si.headD []
  match parseNat s0 with
  | none => .error .value
  | some i =>
    if i < n then .ok (i, sliceFrom k (stackingSubkeyFrom stackingD si.length s0.length))
    else .error .index

/-- one iteration of the routing loop of `SkBaseTransformStacking.set_params` -/
def stackStep (n : Nat) (g : List (Sel × KW)) (kv : Key × PVal) : Except Err (List (Sel × KW)) :=
  (stackingRoute kv.1 n).map (fun r => addTo (.idx kModels r.1) r.2 kv.2 g)

/-- `SkBaseTransformStacking.set_params` up to the nested calls -/
def planStacking (kw : KW) (kvs : KW) : Except Err Plan := do
  let kw1 := match kvs.lookup kModels with
    | some m => replaceKey kModels m kw
    | none => kw
  let kw1 := match kvs.lookup kMethod with
    | some m => replaceKey kMethod m kw1
    | none => kw1
  let rest := kvs.filter (fun kv => !(kv.1 == kModels) && !(kv.1 == kMethod))
  let nested := rest.filter (fun kv => startsWith kv.1 stackingPrefixTest)
  let own := rest.filter (fun kv => !startsWith kv.1 stackingPrefixTest)
  let kw2 ← if own.isEmpty then .ok kw1
            else if stackingRejectsOwnKeys then .error .value
            else skbaseSet kw1 own
  let n ← match kw2.lookup kModels with
    | some (.ests l) => .ok l.length
    | _ => .error .type
  let groups ← nested.foldlM (stackStep n) []
  .ok { kw := kw2, groups := groups }

/-- one iteration of the loop of `ClassifierAfterKMeans.set_params`: (plan, parameters for clus, parameters for estimator) -/
def cakStep (names : List Key) (pl : Plan × KW × KW) (kv : Key × PVal) : Except Err (Plan × KW × KW) :=
  if cakShallowKeys.contains kv.1 && names.contains kv.1 then
    .ok ({ pl.1 with kw := replaceKey kv.1 kv.2 pl.1.kw }, pl.2.1, pl.2.2)
  else if startsWith kv.1 cakEstPrefixTest then
    .ok (pl.1, pl.2.1, pl.2.2 ++ [(sliceFrom kv.1 cakEstSubkeyFrom, kv.2)])
  else if startsWith kv.1 cakClusPrefixTest then
    .ok (pl.1, pl.2.1 ++ [(sliceFrom kv.1 cakClusSubkeyFrom, kv.2)], pl.2.2)
  else .error .value

/-- `ClassifierAfterKMeans.set_params` up to the nested calls -/
def planCak (kw : KW) (kvs : KW) : Except Err Plan := do
  let pl ← kvs.foldlM (cakStep (keys kw)) ({ kw := kw, groups := [] }, [], [])
  .ok { kw := pl.1.kw, groups := [(.slot kClus, pl.2.1), (.slot kEstimator, pl.2.2)] }

/-- replace member `i` of a list -/
def setNth (l : List PVal) (i : Nat) (v : PVal) : List PVal := l.set i v

/-- the object a selector designates -/
def selGet (kw : KW) : Sel → Option PVal
  | .slot k => kw.lookup k
  | .idx k i => match kw.lookup k with
      | some (.ests l) => l[i]?
      | _ => none

def selPut (kw : KW) (s : Sel) (v : PVal) : KW :=
  match s with
  | .slot k => replaceKey k v kw
  | .idx k i => match kw.lookup k with
      | some (.ests l) => replaceKey k (.ests (setNth l i v)) kw
      | _ => kw

/-- first half of one `set_params` call: validation, direct assignments, grouping of the nested keys;
for a learner also the method that `_set_method` re-binds at the end -/
def planOf (proto : Proto) (kw kvs : KW) : Except Err (Plan × Option PVal) :=
  match proto with
  | .base | .anmf => (planBase kw kvs).map (fun p => (p, none))
  | .skbase => (skbaseSet kw kvs).map (fun kw' => ({ kw := kw', groups := [] }, none))
  | .learner => (planLearner kw kvs).map (fun pm => (pm.1, some pm.2))
  | .stacking => (planStacking kw kvs).map (fun p => (p, none))
  | .cak => (planCak kw kvs).map (fun p => (p, none))
  | .unknownProto => .error .runtime

/-- one nested call `child.set_params(**sub)`; with no parameter it is the identity on an estimator and is not made -/
def applyGroup (rec : PVal → KW → Except Err PVal) (kw : KW) (g : Sel × KW) : Except Err KW :=
  match selGet kw g.1 with
  | some (.est i c p f k) =>
      if g.2.isEmpty then .ok kw
      else (rec (.est i c p f k) g.2).map (fun c' => selPut kw g.1 c')
  | some _ => .error .attribute
  | none => .error .attribute

/-- `_set_method(method)` then `self.method = method` (learner only) -/
def finish (kw : KW) : Option PVal → Except Err KW
  | none => .ok kw
  | some m => (methodCheck m).map (fun _ => replaceKey kMethod m kw)

/-- `set_params` with a recursion budget: every nested call strips at least two characters from every key it
forwards, so `maxKeyLen + 1` always suffices (see `setParams`). -/
def setPF : Nat → PVal → KW → Except Err PVal
  | 0, _, _ => .error .fuel
  | _, .atom _ _, _ => .error .attribute
  | _, .ests _, _ => .error .attribute
  | n + 1, .est id cls proto fitted kw, kvs =>
    if kvs.isEmpty then .ok (.est id cls proto fitted kw) else
    (planOf proto kw kvs).bind (fun pm =>
      (pm.1.groups.foldlM (applyGroup (setPF n)) pm.1.kw).bind (fun kw' =>
        (finish kw' pm.2).map (fun kw'' => .est id cls proto fitted kw'')))

def maxKeyLen (kvs : KW) : Nat := kvs.foldl (fun m kv => max m kv.1.length) 0

def protoOf : PVal → Proto
  | .est _ _ p _ _ => p
  | _ => .unknownProto

/-- `e.set_params(**kvs)`: the new state and whether the call returned `self` -/
def setParams (e : PVal) (kvs : KW) : Except Err (PVal × Bool) :=
  (setPF (maxKeyLen kvs + 1) e kvs).map (fun e' => (e', setReturnsSelf (protoOf e)))

/-! ### clone (scikit-learn): rebuild from the shallow parameters, nested estimators cloned, fresh ids, unfitted -/

mutual
  def cloneV : PVal → Nat → PVal × Nat
    | .atom k t, n => (.atom k t, n)
    | .est _ cls p _ kw, n =>
        let r := cloneKw kw (n + 1)
        (.est n cls p false r.1, r.2)
    | .ests l, n =>
        let r := cloneL l n
        (.ests r.1, r.2)
  def cloneKw : List (Key × PVal) → Nat → List (Key × PVal) × Nat
    | [], n => ([], n)
    | (k, v) :: rest, n =>
        let r := cloneV v n
        let r' := cloneKw rest r.2
        ((k, r.1) :: r'.1, r'.2)
  def cloneL : List PVal → Nat → List PVal × Nat
    | [], n => ([], n)
    | v :: rest, n =>
        let r := cloneV v n
        let r' := cloneL rest r.2
        (r.1 :: r'.1, r'.2)
end

/- forget object identity and fitted state -/
mutual
  def strip : PVal → PVal
    | .atom k t => .atom k t
    | .est _ cls p _ kw => .est 0 cls p false (stripKw kw)
    | .ests l => .ests (stripL l)
  def stripKw : List (Key × PVal) → List (Key × PVal)
    | [] => []
    | (k, v) :: rest => (k, strip v) :: stripKw rest
  def stripL : List PVal → List PVal
    | [] => []
    | v :: rest => strip v :: stripL rest
end

mutual
  def ids : PVal → List Nat
    | .atom _ _ => []
    | .est i _ _ _ kw => i :: idsKw kw
    | .ests l => idsL l
  def idsKw : List (Key × PVal) → List Nat
    | [] => []
    | (_, v) :: rest => ids v ++ idsKw rest
  def idsL : List PVal → List Nat
    | [] => []
    | v :: rest => ids v ++ idsL rest
end

mutual
  def anyFitted : PVal → Bool
    | .atom _ _ => false
    | .est _ _ _ f kw => f || anyFittedKw kw
    | .ests l => anyFittedL l
  def anyFittedKw : List (Key × PVal) → Bool
    | [] => false
    | (_, v) :: rest => anyFitted v || anyFittedKw rest
  def anyFittedL : List PVal → Bool
    | [] => false
    | v :: rest => anyFitted v || anyFittedL rest
end

/-! ### well-formed states (what every state reached from a constructor satisfies) -/

def isEst : PVal → Bool
  | .est _ _ _ _ _ => true
  | _ => false

def methodOk (m : PVal) : Bool :=
  match methodCheck m with
  | .ok _ => true
  | .error _ => false

/-- the parameter list has the slots its protocol needs, and names the protocol can route -/
def shapeOk (proto : Proto) (kw : KW) : Bool :=
  decide (keys kw).Nodup &&
  match proto with
  | .base | .anmf => (keys kw).all cleanName
  | .skbase => (keys kw).all skNameOk
  | .learner =>
      (match kw.lookup kModel with | some v => isEst v | none => false) &&
      (match kw.lookup kMethod with | some m => methodOk m | none => false) &&
      (keys kw).all (fun k => k == kModel || k == kMethod || (skNameOk k && !startsWith k learnerPrefixTest))
  | .stacking =>
      (match kw.lookup kModels with | some (.ests l) => l.all isEst | _ => false) &&
      (kw.lookup kMethod).isSome &&
      (keys kw).all (fun k => k == kModels || k == kMethod || (skNameOk k && !startsWith k stackingPrefixTest))
  | .cak =>
      (match kw.lookup kEstimator with | some v => isEst v | none => false) &&
      (match kw.lookup kClus with | some v => isEst v | none => false) &&
      (keys kw).all (fun k => k == kEstimator || k == kClus)
  | .unknownProto => false

mutual
  def wf : PVal → Bool
    | .atom _ _ => true
    | .est _ _ p _ kw => shapeOk p kw && wfKw kw
    | .ests l => wfL l
  def wfKw : List (Key × PVal) → Bool
    | [] => true
    | (_, v) :: rest => wf v && wfKw rest
  def wfL : List PVal → Bool
    | [] => true
    | v :: rest => wf v && wfL rest
end

/-! ### histories -/

inductive Op
  | get (deep : Bool)
  | set (kvs : KW)
  | clone

inductive Out
  | params (ps : KW)
  | setOk (returnsSelf : Bool)
  | setErr (e : Err)
  | cloned (c : PVal)

structure State where
  obj : PVal
  next : Nat

/-- one call on the object under test; a failed `set_params` leaves the model state unchanged (the
harness re-synchronises after an error, a real object may be partially updated) -/
def step (s : State) : Op → State × Out
  | .get deep => (s, .params (getParams s.obj deep))
  | .set kvs => match setParams s.obj kvs with
      | .ok (e', r) => ({ s with obj := e' }, .setOk r)
      | .error e => (s, .setErr e)
  | .clone =>
      let r := cloneV s.obj s.next
      ({ s with next := r.2 }, .cloned r.1)

def run (s : State) : List Op → State × List Out
  | [] => (s, [])
  | op :: ops =>
      let r := step s op
      let r' := run r.1 ops
      (r'.1, r.2 :: r'.2)

/-! ### per-class table -/

/-- constructor parameters normalised by an idempotent rewrite (so that `klass(**get_params())` stores them
unchanged, which is what `sklearn.base.clone` checks): scalar -> one-element list, keyword -> estimator,
learners -> wrapped learners -/
def idempotentNormalisations : List (String × String) :=
  [("SkBaseTransformStacking", "models"), ("CategoriesToIntegers", "columns"),
   ("PiecewiseRegressor", "binner"), ("PiecewiseClassifier", "binner"), ("ARTimeSeriesRegressor", "estimator")]

def storageOk (cls : String) (p : CtorParam) : Bool :=
  match p.storage with
  | .verbatim => true
  | .defaulted => true
  | .normalised _ => idempotentNormalisations.contains (cls, p.name)
  | _ => false

def nameOk (s : String) : Bool :=
  let k := s.toList
  !k.isEmpty && cleanName k

def _root_.MlVerif.Gen.C01.ClassRow.ctorStorageOk (c : ClassRow) : Bool :=
  c.params.all (storageOk c.name) && c.params.all (fun p => nameOk p.name) &&
  c.proto != .unknownProto && c.varKw != .dropped && c.setReturnsSelf

end MlVerif.Params
