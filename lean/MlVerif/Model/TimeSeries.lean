/-
C20 — time-series framing (mlinsights/timeseries/utils.py `build_ts_X_y`, the two
`use_all_past = False` branches) and `ts_mape` (mlinsights/timeseries/metrics.py), executable model.
Core Lean only.  Every slice bound, loop range, shape and column index comes from the REGENERATED
`MlVerif.Gen.C20`; what is written by hand here is numpy's semantics: slicing (negative wrap, clipping),
slice assignment with broadcasting of a length-1 right-hand side, allocation, masked sums.

Tables are kept column-major (`cols[c][r]`), because the code writes whole (partial) columns.
A cell is `none` for NaN / "never written" (`numpy.empty`), `some v` for a value.
-/
import MlVerif.Gen.C20

namespace MlVerif.TimeSeries
open MlVerif.Gen.C20

/-! ### Python / numpy slicing -/

/-- Python's normalisation of one slice bound for a sequence of length `len`:
a negative bound wraps once (`i + len`), then the bound is clipped to `[0, len]`. -/
def normIdx (len : Nat) (i : Int) : Nat :=
  if i < 0 then (i + len).toNat else min i.toNat len

/-- `l[a:b]` -/
def pySlice {α} (l : List α) (a b : Int) : List α :=
  (l.drop (normIdx l.length a)).take (normIdx l.length b - normIdx l.length a)

/-- `l[a:b]` where either bound may be absent -/
def pySliceO {α} (l : List α) (sl : Option Int × Option Int) : List α :=
  pySlice l (sl.1.getD 0) (sl.2.getD l.length)

/-- `range(lo, hi)` -/
def pyRange (lo hi : Int) : List Int := (List.range (hi - lo).toNat).map (fun (k : Nat) => lo + (k : Int))

inductive Err where
  | valueError | indexError | assertionError | attributeError
deriving Repr, DecidableEq

abbrev Cell := Option Int
abbrev Col := List Cell

/-- a 2-D array, column-major -/
structure Table where
  rows : Nat
  cols : List Col
deriving Repr, DecidableEq

/-- `numpy.empty((r, c))` / `numpy.full((r, c), nan)`: a negative dimension is a ValueError -/
def alloc (r c : Int) : Except Err Table :=
  if r < 0 ∨ c < 0 then .error .valueError
  else .ok ⟨r.toNat, List.replicate c.toNat (List.replicate r.toNat none)⟩

/-- `T[rowLo:, c] = rhs`: the column index wraps once when negative and must then be in range
(IndexError); `rhs` must have as many entries as rows addressed, or exactly one (broadcast). -/
def writeCol (T : Table) (rowLo c : Int) (rhs : List Cell) : Except Err Table :=
  let w : Int := T.cols.length
  let c' : Int := if c < 0 then c + w else c
  if c' < 0 ∨ w ≤ c' then .error .indexError
  else
    let first := normIdx T.rows rowLo
    let k := T.rows - first
    let old := (T.cols[c'.toNat]?).getD []
    if rhs.length = k then .ok ⟨T.rows, T.cols.set c'.toNat (old.take first ++ rhs)⟩
    else if rhs.length = 1 then .ok ⟨T.rows, T.cols.set c'.toNat (old.take first ++ List.replicate k (rhs.headD none))⟩
    else .error .valueError

/-- a sequence of column writes `(rowLo, c, rhs)`, in order, stopping at the first error -/
def writeAll : List (Int × Int × List Cell) → Table → Except Err Table
  | [], T => .ok T
  | (rowLo, c, rhs) :: rest, T =>
    match writeCol T rowLo c rhs with
    | .ok T' => writeAll rest T'
    | .error e => .error e

/-- `T[rowLo:, :colHi] = rhs` for a 2-D `rhs` given as rows of `ncol` entries -/
def writeBlock (T : Table) (rowLo colHi : Int) (rhs : List (List Int)) (ncol : Nat) : Except Err Table :=
  let chi := normIdx T.cols.length colHi
  let k := T.rows - normIdx T.rows rowLo
  if chi ≠ ncol ∨ ¬ (rhs.length = k ∨ rhs.length = 1) then .error .valueError
  else writeAll ((pyRange 0 (chi : Int)).map (fun i => (rowLo, i, rhs.map (fun (row : List Int) => row[i.toNat]?)))) T

/-! ### build_ts_X_y -/

/-- the regenerated expressions of one branch, as functions of `n past d1 d2 ncol i` -/
structure Branch where
  nrow : Int → Int → Int → Int → Int → Int → Int
  newXRows : Int → Int → Int → Int → Int → Int → Int
  newXCols : Int → Int → Int → Int → Int → Int → Int
  newYRows : Int → Int → Int → Int → Int → Int → Int
  newYCols : Int → Int → Int → Int → Int → Int → Int
  xDstRow : Int → Int → Int → Int → Int → Int → Int
  xDstColHi : Int → Int → Int → Int → Int → Int → Int
  xSrcLo : Int → Int → Int → Int → Int → Int → Int
  xSrcHi : Int → Int → Int → Int → Int → Int → Int
  lagLo : Int → Int → Int → Int → Int → Int → Int
  lagHi : Int → Int → Int → Int → Int → Int → Int
  lagDstRow : Int → Int → Int → Int → Int → Int → Int
  lagDstCol : Int → Int → Int → Int → Int → Int → Int
  lagSrcLo : Int → Int → Int → Int → Int → Int → Int
  lagSrcHi : Int → Int → Int → Int → Int → Int → Int
  tgtLo : Int → Int → Int → Int → Int → Int → Int
  tgtHi : Int → Int → Int → Int → Int → Int → Int
  tgtDstRow : Int → Int → Int → Int → Int → Int → Int
  tgtDstCol : Int → Int → Int → Int → Int → Int → Int
  tgtSrcLo : Int → Int → Int → Int → Int → Int → Int
  tgtSrcHi : Int → Int → Int → Int → Int → Int → Int
  wLo : Int → Int → Int → Int → Int → Int → Int
  wHi : Int → Int → Int → Int → Int → Int → Int
  wIdentity : Bool

/-- `same_rows=False, use_all_past=False` -/
def plainB : Branch :=
  { nrow := Plain.nrow, newXRows := Plain.newXRows, newXCols := Plain.newXCols,
    newYRows := Plain.newYRows, newYCols := Plain.newYCols,
    xDstRow := Plain.xDstRow, xDstColHi := Plain.xDstColHi, xSrcLo := Plain.xSrcLo, xSrcHi := Plain.xSrcHi,
    lagLo := Plain.lagLo, lagHi := Plain.lagHi, lagDstRow := Plain.lagDstRow, lagDstCol := Plain.lagDstCol,
    lagSrcLo := Plain.lagSrcLo, lagSrcHi := Plain.lagSrcHi,
    tgtLo := Plain.tgtLo, tgtHi := Plain.tgtHi, tgtDstRow := Plain.tgtDstRow, tgtDstCol := Plain.tgtDstCol,
    tgtSrcLo := Plain.tgtSrcLo, tgtSrcHi := Plain.tgtSrcHi,
    wLo := Plain.wLo, wHi := Plain.wHi, wIdentity := Plain.wIdentity }

/-- `same_rows=True, use_all_past=False` -/
def sameB : Branch :=
  { nrow := Same.nrow, newXRows := Same.newXRows, newXCols := Same.newXCols,
    newYRows := Same.newYRows, newYCols := Same.newYCols,
    xDstRow := Same.xDstRow, xDstColHi := Same.xDstColHi, xSrcLo := Same.xSrcLo, xSrcHi := Same.xSrcHi,
    lagLo := Same.lagLo, lagHi := Same.lagHi, lagDstRow := Same.lagDstRow, lagDstCol := Same.lagDstCol,
    lagSrcLo := Same.lagSrcLo, lagSrcHi := Same.lagSrcHi,
    tgtLo := Same.tgtLo, tgtHi := Same.tgtHi, tgtDstRow := Same.tgtDstRow, tgtDstCol := Same.tgtDstCol,
    tgtSrcLo := Same.tgtSrcLo, tgtSrcHi := Same.tgtSrcHi,
    wLo := Same.wLo, wHi := Same.wHi, wIdentity := Same.wIdentity }

/-- the column writes of the lag loop: `for i in range(lagLo, lagHi): new_X[lagDstRow:, lagDstCol] = y[lagSrcLo:lagSrcHi]` -/
def lagWrites (B : Branch) (y : List Int) (n past d1 d2 ncol : Int) : List (Int × Int × List Cell) :=
  (pyRange (B.lagLo n past d1 d2 ncol 0) (B.lagHi n past d1 d2 ncol 0)).map (fun i =>
    (B.lagDstRow n past d1 d2 ncol i, B.lagDstCol n past d1 d2 ncol i,
     (pySlice y (B.lagSrcLo n past d1 d2 ncol i) (B.lagSrcHi n past d1 d2 ncol i)).map some))

/-- the column writes of the target loop -/
def tgtWrites (B : Branch) (y : List Int) (n past d1 d2 ncol : Int) : List (Int × Int × List Cell) :=
  (pyRange (B.tgtLo n past d1 d2 ncol 0) (B.tgtHi n past d1 d2 ncol 0)).map (fun i =>
    (B.tgtDstRow n past d1 d2 ncol i, B.tgtDstCol n past d1 d2 ncol i,
     (pySlice y (B.tgtSrcLo n past d1 d2 ncol i) (B.tgtSrcHi n past d1 d2 ncol i)).map some))

/-- the exogenous block, if any -/
def xStep (B : Branch) (X : Option (List (List Int))) (ncolX : Nat) (n past d1 d2 ncol : Int) (T : Table) :
    Except Err Table :=
  match X with
  | none => .ok T
  | some X => writeBlock T (B.xDstRow n past d1 d2 ncol 0) (B.xDstColHi n past d1 d2 ncol 0)
      (pySlice X (B.xSrcLo n past d1 d2 ncol 0) (B.xSrcHi n past d1 d2 ncol 0)) ncolX

def newWeights (B : Branch) (w : Option (List Int)) (n past d1 d2 ncol : Int) : Option (List Int) :=
  w.map (fun w => if B.wIdentity then w else pySlice w (B.wLo n past d1 d2 ncol 0) (B.wHi n past d1 d2 ncol 0))

/-- number of exogenous columns as the code computes it: `X.shape[1] if X is not None else 0` -/
def ncolOf (X : Option (List (List Int))) (ncolX : Nat) : Int :=
  match X with
  | some _ => (ncolX : Int)
  | none => 0

/-- `new_X` -/
def buildX (B : Branch) (X : Option (List (List Int))) (ncolX : Nat) (y : List Int) (past d1 d2 : Int) :
    Except Err Table :=
  let n : Int := y.length
  let ncol : Int := ncolOf X ncolX
  match alloc (B.newXRows n past d1 d2 ncol 0) (B.newXCols n past d1 d2 ncol 0) with
  | .error e => .error e
  | .ok T0 =>
    match xStep B X ncolX n past d1 d2 ncol T0 with
    | .error e => .error e
    | .ok T1 => writeAll (lagWrites B y n past d1 d2 ncol) T1

/-- `new_y` -/
def buildY (B : Branch) (ncol : Int) (y : List Int) (past d1 d2 : Int) : Except Err Table :=
  let n : Int := y.length
  match alloc (B.newYRows n past d1 d2 ncol 0) (B.newYCols n past d1 d2 ncol 0) with
  | .error e => .error e
  | .ok T0 => writeAll (tgtWrites B y n past d1 d2 ncol) T0

/-- `build_ts_X_y(model, X, y, weights, same_rows)` for `use_all_past = False`:
`X` is `None` or `n` rows of `ncolX` exogenous values. -/
def buildTsXy (B : Branch) (X : Option (List (List Int))) (ncolX : Nat) (y : List Int)
    (w : Option (List Int)) (past d1 d2 : Int) : Except Err (Table × Table × Option (List Int)) :=
  match buildX B X ncolX y past d1 d2 with
  | .error e => .error e
  | .ok TX =>
    match buildY B (ncolOf X ncolX) y past d1 d2 with
    | .error e => .error e
    | .ok TY =>
      .ok (TX, TY, newWeights B w (y.length : Int) past d1 d2 (ncolOf X ncolX))

/-- cell `(r, c)` of a table -/
def Table.cell (T : Table) (r c : Nat) : Option Cell := (T.cols[c]?).bind (·[r]?)

/-- row `r` of a table -/
def Table.row (T : Table) (r : Nat) : List Cell := T.cols.map (fun col => (col[r]?).getD none)

/-! ### ts_mape -/

/-- a masked-array entry: `none` = masked -/
abbrev MV := Option Rat

def rabs (x : Rat) : Rat := if x < 0 then -x else x

/-- `numpy.ma.masked_array(vals, mask=mask)` -/
def mkMasked (vals : List Rat) (mask : List Bool) : List MV :=
  List.zipWith (fun v m => if m then none else some v) vals mask

/-- `numpy.abs(a - b)` on masked arrays of equal length (ValueError otherwise) -/
def absDiff (a b : List MV) : Except Err (List MV) :=
  if a.length = b.length then
    .ok (List.zipWith (fun x y => match x, y with
      | some x, some y => some (rabs (x - y))
      | _, _ => none) a b)
  else .error .valueError

/-- `a * w` with a plain array `w` -/
def mulW (a : List MV) (w : List Rat) : Except Err (List MV) :=
  if a.length = w.length then .ok (List.zipWith (fun x w => x.map (· * w)) a w)
  else .error .valueError

/-- `numpy.sum` of a masked array: the unmasked terms; `masked` when there is none -/
def msum (l : List MV) : MV :=
  if l.all Option.isNone then none else some ((l.map (fun x => x.getD 0)).sum)

/-- `mask2 = mask.copy(); mask2[dst] |= src` for `dst = [k:]` -/
def orInto (mask : List Bool) (dst : Option Int × Option Int) (src : List Bool) : Except Err (List Bool) :=
  match dst.2 with
  | some _ => .error .valueError      -- only `mask2[k:]` is modelled
  | none =>
    let k := normIdx mask.length (dst.1.getD 0)
    if (mask.drop k).length = src.length then .ok (mask.take k ++ List.zipWith (· || ·) (mask.drop k) src)
    else .error .valueError

inductive MapeRes where
  | num (q : Rat) | inf | masked | err (e : Err)
deriving Repr, DecidableEq

/-- value of the constant expression written in the source (numpy >= 2: `numpy.infty` does not exist) -/
def constOf (src : String) : MapeRes :=
  if src = "0" ∨ src = "0.0" then .num 0
  else if src = "numpy.inf" ∨ src = "float('inf')" ∨ src = "math.inf" then .inf
  else .err .attributeError

/-- the sum `numpy.sum(numpy.abs(a[s1] - b[s2]) [* w[s3]])` -/
def term (a b : List MV) (s1 s2 : Option Int × Option Int) (w : Option (List Rat × (Option Int × Option Int))) :
    Except Err MV :=
  match absDiff (pySliceO a s1) (pySliceO b s2) with
  | .error e => .error e
  | .ok d =>
    match w with
    | none => .ok (msum d)
    | some (w, s3) =>
      match mulW d (pySliceO w s3) with
      | .error e => .error e
      | .ok dw => .ok (msum dw)

/-- the masks and masked arrays: `(expected_y masked by mask, predicted_y masked by mask2)` -/
def mapeArrays (e : List Rat) (p : List (Option Rat)) : Except Err (List MV × List MV) :=
  let mask := p.map Option.isNone
  match orInto mask Mape.maskDst (pySliceO mask Mape.maskSrc) with
  | .error e => .error e
  | .ok mask2 => .ok (mkMasked e mask, mkMasked (p.map (fun v => v.getD 0)) mask2)

/-- `dy1`: the naive forecast's error -/
def mapeDen (e : List Rat) (p : List (Option Rat)) (w : Option (List Rat)) : Except Err MV :=
  match mapeArrays e p with
  | .error er => .error er
  | .ok (E, _) =>
    match w with
    | none => term E E Mape.den1 Mape.den2 none
    | some w => term E E Mape.wden1 Mape.wden2 (some (w, Mape.wdenW))

/-- `dy2`: the forecast's error -/
def mapeNum (e : List Rat) (p : List (Option Rat)) (w : Option (List Rat)) : Except Err MV :=
  match mapeArrays e p with
  | .error er => .error er
  | .ok (E, P) =>
    match w with
    | none => term P E Mape.num1 Mape.num2 none
    | some w => term P E Mape.wnum1 Mape.wnum2 (some (w, Mape.wnumW))

/-- the last three lines of `ts_mape` (`masked == 0` is `masked`, which is falsy) -/
def mapeFinal (dy1 dy2 : MV) : MapeRes :=
  match dy1 with
  | none => .masked
  | some d1 =>
    if d1 = 0 then
      (match dy2 with
       | some d2 => if d2 = 0 then constOf Mape.zeroOverZero else constOf Mape.nonzeroOverZero
       | none => constOf Mape.nonzeroOverZero)
    else
      (match dy2 with
       | some d2 => .num (d2 / d1)
       | none => .masked)

/-- `ts_mape(expected_y, predicted_y, sample_weight)`; `none` in `p` is a NaN forecast.
A length mismatch is an AssertionError; a single observation makes `numpy.squeeze` return a 0-d
array whose slicing raises IndexError. -/
def tsMape (e : List Rat) (p : List (Option Rat)) (w : Option (List Rat)) : MapeRes :=
  if e.length ≠ p.length then .err .assertionError
  else if e.length = 1 then .err .indexError
  else
    match mapeDen e p w, mapeNum e p w with
    | .ok dy1, .ok dy2 => mapeFinal dy1 dy2
    | .error er, _ => .err er
    | _, .error er => .err er

/-- the naive previous-value forecast: no forecast for the first observation, then `y[t-1]` -/
def naive (e : List Rat) : List (Option Rat) :=
  match e with
  | [] => []
  | _ :: _ => none :: (e.dropLast.map some)

end MlVerif.TimeSeries
