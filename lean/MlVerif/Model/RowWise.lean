/-
C04 — generic executable models of the three batch-dispatch shapes found in the library
(core Lean only):

 (i)   scatter dispatch       p = f_i(X[mask_i]); pred[mask_i] = p        (`Scatter.dispatch`, `Piecewise.applyPredict`)
 (ii)  recursive mask split   prob = est(X); above = split(prob); prob[above] = child(X[above]) ...   (`DT.predict`)
 (iii) per-row lookup loop    for i in range(n): pred[i] = h(X[i], leaves[i])                     (`lookupLoop`)

plus the sub-batch operators of the property (`gather`: sub-batches, permutations, single rows,
repetitions) and a value-tree model of fitted state for the persistence statements.
-/
import MlVerif.Model.Scatter
namespace MlVerif.RowWise
open MlVerif.Scatter

/-- `buf[mask] = v` (a scalar is broadcast) -/
def maskFill {β} : List β → List Bool → β → List β
  | _ :: os, true :: ms, v => v :: maskFill os ms v
  | o :: os, false :: ms, v => o :: maskFill os ms v
  | os, _, _ => os

/-- numpy fancy indexing `X[idx]` for in-range indices (out-of-range indices are dropped here;
the theorems require them in range) -/
def gather {α} (xs : List α) (idx : List Nat) : List α := idx.filterMap (fun i => xs[i]?)

/-! ### (ii) recursive mask split: `_DecisionTreeLogisticRegressionNode.predict_proba` -/

/-- `nil` is the python `None` child -/
inductive DT (ρ β : Type) where
  | nil : DT ρ β
  | node (P : List ρ → List β) (above : β → Bool) (a b : DT ρ β) : DT ρ β

def DT.isNode {ρ β} : DT ρ β → Bool
  | .nil => false
  | .node .. => true

/-- as the code writes it:
```
prob = self.estimator.predict_proba(X); above = prob[:, 1] > self.threshold; below = ~above
if self.above is not None and n_above > 0: prob[above] = self.above.predict_proba(X[above])
if self.below is not None and n_below > 0: prob[below] = self.below.predict_proba(X[below])
``` -/
def DT.predict {ρ β} : DT ρ β → List ρ → List β
  | .nil, _ => []
  | .node P ab a b, X =>
    let prob := P X
    let above := prob.map ab
    let below := above.map (fun m => !m)
    let prob := if a.isNode && above.any id then maskSet prob above (a.predict (maskGet X above)) else prob
    let prob := if b.isNode && below.any id then maskSet prob below (b.predict (maskGet X below)) else prob
    prob

/-- the per-row reading of the same tree (`p` = the row function of node estimator `P`) -/
inductive DTRow (ρ β : Type) where
  | nil : DTRow ρ β
  | node (p : ρ → β) (above : β → Bool) (a b : DTRow ρ β) : DTRow ρ β

/-- follow one row down the tree; `d` = what the parent computed for it -/
def DTRow.row {ρ β} : DTRow ρ β → ρ → β → β
  | .nil, _, d => d
  | .node p ab a b, x, _ =>
    let v := p x
    if ab v then a.row x v else b.row x v

/-- `t` is the tree of row functions of `T`'s node estimators -/
inductive Reads {ρ β} : DT ρ β → DTRow ρ β → Prop where
  | nil : Reads .nil .nil
  | node {P p ab a b a' b'} (hP : ∀ xs, P xs = xs.map p) (ha : Reads a a') (hb : Reads b b') :
      Reads (.node P ab a b) (.node p ab a' b')

/-! ### (iii) per-row lookup loop: `PiecewiseTreeRegressor._predict_reglin` -/

/-- `for i in range(0, X.shape[0]): li = leaves[i]; pred[i] = h(Xone[i, :], li)`;
`none` = IndexError -/
def lookupStep {ρ β} (h : ρ → Nat → β) (X : List ρ) (leaves : List Nat) (pred : List β) (i : Nat) : Option (List β) :=
  match X[i]?, leaves[i]? with
  | some x, some li => if i < pred.length then some (pred.set i (h x li)) else none
  | _, _ => none

def lookupLoop {ρ β} (h : ρ → Nat → β) (X : List ρ) (leaves : List Nat) (init : List β) : Option (List β) :=
  (List.range X.length).foldlM (lookupStep h X leaves) init

/-- `numpy.argmax(row)`: first position of the maximum (0 on an empty row) -/
def argmaxFirst (row : List Int) : Nat :=
  match row with
  | [] => 0
  | r :: rs => (rs.foldl (fun (acc : Nat × Int × Nat) v =>
      if v > acc.2.1 then (acc.2.2, v, acc.2.2 + 1) else (acc.1, acc.2.1, acc.2.2 + 1)) (0, r, 1)).1

/-- `predict_leaves`: `argmax(decision_path(X)[:, leaves_index_], 1)`, one row of the path matrix
at a time; `paths` = the node ids on each row's decision path -/
def predictLeaves (leavesIndex : List Nat) (paths : List (List Nat)) : List Nat :=
  paths.map (fun path => argmaxFirst (leavesIndex.map (fun j => if path.contains j then 1 else 0)))

/-! ### hstack of per-model transforms: `ClassifierAfterKMeans.transform_features` -/

/-- `numpy.hstack(blocks)` for blocks with the same number of rows -/
def hstack {β} : List (List (List β)) → List (List β)
  | [] => []
  | [b] => b
  | b :: bs => List.zipWith (· ++ ·) b (hstack bs)

/-! ### persistence: fitted state as a value tree -/

/-- what a fitted estimator holds: numbers, strings, arrays, nested lists/dicts/estimators -/
inductive Val where
  | num (r : Rat)
  | str (s : String)
  | none
  | list (vs : List Val)
  | dict (kvs : List (String × Val))
  | est (cls : String) (params : List (String × Val)) (fitted : List (String × Val))

mutual
/-- `pickle.loads(pickle.dumps(v))` / `copy.deepcopy`: a structure-preserving copy -/
def Val.copy : Val → Val
  | .num r => .num r
  | .str s => .str s
  | .none => .none
  | .list vs => .list (Val.copyList vs)
  | .dict kvs => .dict (Val.copyKvs kvs)
  | .est c ps fs => .est c (Val.copyKvs ps) (Val.copyKvs fs)
def Val.copyList : List Val → List Val
  | [] => []
  | v :: vs => v.copy :: Val.copyList vs
def Val.copyKvs : List (String × Val) → List (String × Val)
  | [] => []
  | (k, v) :: kvs => (k, v.copy) :: Val.copyKvs kvs
end

mutual
/-- `clone_with_fitted_parameters`: `clone(est)` keeps the constructor parameters (copied), then
`adjust` walks `est.__dict__` and re-creates every fitted attribute from the original -/
def Val.cloneFitted : Val → Val
  | .num r => .num r
  | .str s => .str s
  | .none => .none
  | .list vs => .list (Val.cloneFittedList vs)
  | .dict kvs => .dict (Val.cloneFittedKvs kvs)
  | .est c ps fs => .est c (Val.cloneFittedKvs ps) (Val.cloneFittedKvs fs)
def Val.cloneFittedList : List Val → List Val
  | [] => []
  | v :: vs => v.cloneFitted :: Val.cloneFittedList vs
def Val.cloneFittedKvs : List (String × Val) → List (String × Val)
  | [] => []
  | (k, v) :: kvs => (k, v.cloneFitted) :: Val.cloneFittedKvs kvs
end

end MlVerif.RowWise
