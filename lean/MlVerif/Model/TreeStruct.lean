/-
C12 — mlinsights/mltree/tree_structure.py over scikit-learn's array-form trees. Core Lean only.

scikit-learn stores a fitted tree as an array `nodes` of records; `children_left`,
`children_right`, `feature`, `threshold` are strided views of that array. `ATree` is that
array; `ofArrays` builds it from the four views (what the driver receives).
A query point is the list of its feature values (the values the tree compares: scikit-learn
casts X to float32 first), thresholds are the stored float64 values, both as exact rationals.
Errors are outputs: `none` / `Except` where Python raises (or, for the scikit-learn traversal,
where the C loop would leave the array).
-/
import MlVerif.Gen.C12

namespace MlVerif.TreeStruct

structure Node where
  left : Int
  right : Int
  feature : Int
  threshold : Rat
deriving Repr, DecidableEq

abbrev ATree := List Node

/-- the four scikit-learn views -> the node array (`none` when the lengths differ) -/
def ofArrays (cl cr fe : List Int) (th : List Rat) : Option ATree :=
  if cl.length = cr.length ∧ cl.length = fe.length ∧ cl.length = th.length then
    some ((cl.zip (cr.zip (fe.zip th))).map fun p => ⟨p.1, p.2.1, p.2.2.1, p.2.2.2⟩)
  else none

/-- `sklearn.tree._tree.TREE_LEAF` -/
def TREE_LEAF : Int := -1

/-- a non-negative Python index as a `Nat` (`none`: negative) -/
def idx? (k : Int) : Option Nat := if 0 ≤ k then some k.toNat else none

/-! ### well-formedness: what every tree built by scikit-learn's builders satisfies
(a child is created after its parent, so its id is larger; every node has at most one
parent; a leaf has both children = TREE_LEAF; split features are valid columns) -/

def Node.isLeaf (nd : Node) : Prop := nd.left = TREE_LEAF
instance (nd : Node) : Decidable nd.isLeaf := by unfold Node.isLeaf; infer_instance

/-- node `i` of a tree with `n` nodes and `d` features is locally sound -/
def nodeOk (n d : Nat) (i : Nat) (nd : Node) : Prop :=
  (nd.left = TREE_LEAF ∧ nd.right = TREE_LEAF ∧ nd.feature = -2) ∨
  ((i : Int) < nd.left ∧ nd.left < n ∧ (i : Int) < nd.right ∧ nd.right < n ∧ nd.left ≠ nd.right ∧
    0 ≤ nd.feature ∧ nd.feature < d)
instance (n d i : Nat) (nd : Node) : Decidable (nodeOk n d i nd) := by unfold nodeOk; infer_instance

/-- two distinct split nodes share no child -/
def disjointKids (a b : Node) : Prop :=
  a.left ≠ b.left ∧ a.left ≠ b.right ∧ a.right ≠ b.left ∧ a.right ≠ b.right
instance (a b : Node) : Decidable (disjointKids a b) := by unfold disjointKids; infer_instance

/-- node `j` is a child of the split node `i` -/
def childOf (t : ATree) (i j : Nat) : Prop :=
  ∃ nd, t[i]? = some nd ∧ ¬ nd.isLeaf ∧ (nd.left = j ∨ nd.right = j)

def childOfB (t : ATree) (i j : Nat) : Bool :=
  match t[i]? with
  | some nd => !decide nd.isLeaf && (decide (nd.left = j) || decide (nd.right = j))
  | none => false

/-- well-formed array tree over `d` features -/
def WF (t : ATree) (d : Nat) : Prop :=
  0 < t.length ∧
  (∀ i, i < t.length → ∀ nd, t[i]? = some nd → nodeOk t.length d i nd) ∧
  (∀ i, i < t.length → ∀ j, j < t.length → ∀ a b, t[i]? = some a → t[j]? = some b → i ≠ j →
      ¬ a.isLeaf → ¬ b.isLeaf → disjointKids a b) ∧
  (∀ j, 0 < j → j < t.length → ∃ i, i < j ∧ childOf t i j)

/-- executable check of `WF` (what the driver evaluates on the real trees) -/
def wfb (t : ATree) (d : Nat) : Bool :=
  decide (0 < t.length) &&
  (List.range t.length).all (fun i => match t[i]? with
    | some nd => decide (nodeOk t.length d i nd)
    | none => false) &&
  (List.range t.length).all (fun i => (List.range t.length).all (fun j =>
    match t[i]?, t[j]? with
    | some a, some b => i == j || decide a.isLeaf || decide b.isLeaf || decide (disjointKids a b)
    | _, _ => false)) &&
  (List.range t.length).all (fun j => j == 0 || (List.range j).any (fun i => childOfB t i j))

/-! ### scikit-learn's traversal (`Tree.apply`, `Tree.decision_path`) -/

/-- nodes visited from node `i` down to a leaf: at a split, `X[feature] <= threshold` goes
to `children_left`, otherwise to `children_right`. `fuel` bounds the number of steps. -/
def descend (t : ATree) (x : List Rat) : Nat → Nat → Option (List Nat)
  | 0, _ => none
  | fuel + 1, i =>
    match t[i]? with
    | none => none
    | some nd =>
      if nd.left = TREE_LEAF then some [i]
      else
        match (idx? nd.feature).bind (x[·]?) with
        | none => none
        | some v =>
          match idx? (if v ≤ nd.threshold then nd.left else nd.right) with
          | none => none
          | some c => (descend t x fuel c).map (i :: ·)

/-- `decision_path(X)` for one row: the nodes on the root-to-leaf path (the row's indicator set) -/
def decisionPath (t : ATree) (x : List Rat) : Option (List Nat) := descend t x t.length 0

/-- `apply(X)` for one row: the leaf the row ends in -/
def apply (t : ATree) (x : List Rat) : Option Nat := (decisionPath t x).bind List.getLast?

/-! ### mlinsights/mltree/tree_structure.py -/

/-- `tree_leave_index`: `[i for i in range(node_count) if children_left[i] == TREE_LEAF]` -/
def treeLeaveIndex (t : ATree) : List Nat :=
  (List.range t.length).filter fun i =>
    match t[i]? with
    | some nd => decide (nd.left = TREE_LEAF)
    | none => false

/-- `tree_node_parents`: the dict as the list of its assignments in execution order
(`parents[children_left[i]] = i; parents[children_right[i]] = -i` for every split node i) -/
def treeNodeParents (t : ATree) : List (Int × Int) :=
  (List.range t.length).flatMap fun i =>
    match t[i]? with
    | some nd => if nd.left = TREE_LEAF then [] else [(nd.left, (i : Int)), (nd.right, -(i : Int))]
    | none => []

/-- `parents[k]` / `k in parents`: the last assignment to key `k` wins -/
def dictGet (d : List (Int × Int)) (k : Int) : Option Int :=
  (d.reverse.find? (fun p => p.1 == k)).map (·.2)

/-- the `while current_i in parents` loop of `tree_find_path_to_root`, nodes appended to
`path_i` (`if current_i < 0: current_i = -current_i` is `natAbs`); `none` when `fuel` steps do
not reach a node without parent -/
def climb (parents : List (Int × Int)) : Nat → Nat → Option (List Nat)
  | 0, _ => none
  | fuel + 1, cur =>
    match dictGet parents (cur : Int) with
    | none => some []
    | some p => (climb parents fuel p.natAbs).map (p.natAbs :: ·)

/-- `tree_find_path_to_root(tree, i, parents)`: `list(reversed(path_i))`, root first, `i` last.
A walk that visits more nodes than the dict has keys never ends (Python loops for ever): the
budget `max(len(parents), i) + 1` is never exhausted by a terminating walk. -/
def treeFindPathToRoot (parents : List (Int × Int)) (i : Nat) : Option (List Nat) :=
  (climb parents (max parents.length i + 1) i).map (fun up => (i :: up).reverse)

inductive Err where
  | valueError      -- numpy.full with a negative dimension
  | indexError      -- an index outside an array
  | loops           -- the parents walk does not terminate
deriving Repr, DecidableEq

/-- one row of the box: `(lower, upper)`, `none` = `nan` = unbounded -/
abbrev Row := Option Rat × Option Rat

/-- loop body of `tree_node_range` for path node `p` followed by `nxt`
(`lr = children_left[p] == path[ind + 1]`; upper bound `min`, lower bound `max`, nan replaced) -/
def rangeStep (t : ATree) (res : List Row) (p nxt : Nat) : Except Err (List Row) :=
  match t[p]? with
  | none => .error .indexError
  | some nd =>
    match (idx? nd.feature).bind (fun f => (res[f]?).map (fun r => (f, r))) with
    | none => .error .indexError
    | some (f, row) =>
      if nd.left = (nxt : Int) then
        .ok (res.set f (row.1, some (match row.2 with | some u => min u nd.threshold | none => nd.threshold)))
      else
        .ok (res.set f (some (match row.1 with | some l => max l nd.threshold | none => nd.threshold), row.2))

/-- `for ind, p in enumerate(path): if p == i: break; ...` -/
def rangeLoop (t : ATree) (i : Nat) : List Nat → List Row → Except Err (List Row)
  | [], res => .ok res
  | [p], res => if p = i then .ok res else .error .indexError   -- `path[ind + 1]` past the end
  | p :: nxt :: rest, res =>
    if p = i then .ok res
    else
      match rangeStep t res p nxt with
      | .error e => .error e
      | .ok res' => rangeLoop t i (nxt :: rest) res'

/-- `[tree.feature[p] for p in path]` -/
def features (t : ATree) : List Nat → Except Err (List Int)
  | [] => .ok []
  | p :: rest =>
    match t[p]?, features t rest with
    | some nd, .ok fs => .ok (nd.feature :: fs)
    | none, _ => .error .indexError
    | _, .error e => .error e

/-- `max([tree.feature[p] for p in path])` (the path is never empty) -/
def maxFeature (t : ATree) (path : List Nat) : Except Err Int :=
  match features t path with
  | .error e => .error e
  | .ok [] => .error .valueError
  | .ok (f :: rest) => .ok (rest.foldl max f)

/-- `tree_node_range(tree, i)`; the number of rows is the REGENERATED expression
`Gen.C12.boxRows mx n_features` -/
def treeNodeRange (t : ATree) (nFeatures : Nat) (i : Nat) : Except Err (List Row) :=
  match treeFindPathToRoot (treeNodeParents t) i with
  | none => .error .loops
  | some path =>
    -- `mx = max([tree.feature[p] for p in path])` is evaluated iff the source computes it
    match (if Gen.C12.boxUsesMx then maxFeature t path else .ok (-2)) with
    | .error e => .error e
    | .ok mx =>
      let rows := Gen.C12.boxRows mx nFeatures
      if rows < 0 then .error .valueError
      else rangeLoop t i path (List.replicate rows.toNat (none, none))

/-- the point satisfies row `f` of the box: `lo < x_f ≤ hi`, `nan` = unbounded -/
def inRow (r : Row) (v : Rat) : Prop :=
  (match r.1 with | some lo => lo < v | none => True) ∧
  (match r.2 with | some hi => v ≤ hi | none => True)
instance (r : Row) (v : Rat) : Decidable (inRow r v) := by
  unfold inRow; cases r.1 <;> cases r.2 <;> infer_instance

/-- the point lies in the box: every row it has a coordinate for is satisfied
(features without a row are unbounded) -/
def inBox (box : List Row) (x : List Rat) : Prop :=
  ∀ f, f < box.length → ∀ r v, box[f]? = some r → x[f]? = some v → inRow r v

def inBoxB (box : List Row) (x : List Rat) : Bool :=
  (List.range box.length).all fun f =>
    match box[f]?, x[f]? with
    | some r, some v => decide (inRow r v)
    | _, _ => true

/-- `numpy.argmax` of a non-empty row: first position of the maximum (`none`: empty row, ValueError) -/
def argmaxFirst : List Nat → Option Nat
  | [] => none
  | a :: rest =>
    match argmaxFirst rest with
    | none => some 0
    | some k => if rest.getD k 0 ≤ a then some 0 else some (k + 1)

/-- `predict_leaves(model, X)` for a model without `get_leaves_index`:
indicator of the decision path restricted to the leaf columns, argmax, mapped back -/
def predictLeaves1 (t : ATree) (x : List Rat) : Option Nat := do
  let leavesIndex := treeLeaveIndex t
  let path ← decisionPath t x
  let row := leavesIndex.map (fun l => if l ∈ path then 1 else 0)
  let r ← argmaxFirst row
  leavesIndex[r]?

def predictLeaves (t : ATree) (X : List (List Rat)) : Option (List Nat) := X.mapM (predictLeaves1 t)

end MlVerif.TreeStruct
