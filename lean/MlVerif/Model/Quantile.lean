/-
C05 — QuantileLinearRegression (mlinsights/mlmodel/quantile_regression.py), executable model.
Core Lean only.  Everything is generic in an ordered field `α` (the driver instantiates `α := Rat`,
the theorems hold for every ordered field, in particular the reals that floats stand for).

The expressions on which the property hinges come from `MlVerif.Gen.C05`, regenerated from the
source on every run: the sign -> multiplier table of `_epsilon`, the factor `fit` applies
(`epsilon *= ..`, `r *= ..`), the factor `score` applies, the divisor of `score`.

The inner `LinearRegression` is a parameter: the coefficient vector it returns at each IRLS
iteration is an input of `irls`.
-/
import MlVerif.Gen.C05

namespace MlVerif.Quantile
open Lean.Grind
open MlVerif.Gen.C05 (Divisor)

section
variable {α : Type} [Field α] [LE α] [LT α] [DecidableLE α] [DecidableLT α] [DecidableEq α]

/-- `ndarray.sum()` -/
def sumL : List α → α
  | [] => 0
  | x :: xs => x + sumL xs

/-- `Xm @ beta` for one row (shorter operand decides, as numpy would refuse otherwise) -/
def dot : List α → List α → α
  | a :: as, b :: bs => a * b + dot as bs
  | _, _ => 0

/-- `numpy.abs` -/
def absR (r : α) : α := if 0 ≤ r then r else -r
/-- `numpy.maximum` -/
def maxR (a b : α) : α := if a ≤ b then b else a

/-- the multiplier `_epsilon` gives a row whose signed error is `r = diff` (three sign classes) -/
def mult (q r : α) : α :=
  if 0 < r then Gen.C05.multPos q else if r < 0 then Gen.C05.multNeg q else Gen.C05.multZero q

/-- `_epsilon(y_true, y_pred, quantile, sample_weight)` for one row: `(epsilon_i, mult_i)`;
`mult` is `None` when the guard fails (quantile == 0.5) -/
def epsilonRow (q : α) (sw : Option α) (yTrue yPred : α) : α × Option α :=
  let r := Gen.C05.diff yTrue yPred
  let e := absR r
  let e := match sw with
    | some w => e * w
    | none => e
  (e, if Gen.C05.hasMult q then some (mult q r) else none)

/-- one observation: target, prediction, sample weight -/
structure Obs (α : Type) where
  y : α
  f : α
  w : α

/-- `X.shape[0]` as a field element -/
def count {β : Type} (l : List β) : α := sumL (l.map (fun _ => (1 : α)))
/-- `numpy.sum(sample_weight)` -/
def weightSum (obs : List (Obs α)) : α := sumL (obs.map (·.w))

/-! ### score -/

/-- per-row value of `epsilon` in `score` after `epsilon *= <scoreFactor mult>` -/
def scoreTerm (q : α) (weighted : Bool) (o : Obs α) : α :=
  let em := epsilonRow q (if weighted then some o.w else none) o.y o.f
  match em.2 with
  | some m => em.1 * Gen.C05.scoreFactor m
  | none => em.1

def divisorValue (d : Divisor) (obs : List (Obs α)) : Option α :=
  match d with
  | .nRows => some (count obs)
  | .weightSum => some (weightSum obs)
  | .unknown => none

/-- `sklearn.metrics.mean_absolute_error(y, pred, sample_weight=w)` (trusted): weighted mean of |y - pred| -/
def mae (weighted : Bool) (obs : List (Obs α)) : α :=
  if weighted then sumL (obs.map (fun o => o.w * absR (o.y - o.f))) / weightSum obs
  else sumL (obs.map (fun o => absR (o.y - o.f))) / count obs

/-- `score(X, y, sample_weight)`; `none` = the divisor is zero (numpy returns nan/inf) or is not understood -/
def score (q : α) (weighted : Bool) (obs : List (Obs α)) : Option α :=
  if Gen.C05.scoreUsesEpsilon q then
    match divisorValue (if weighted then Gen.C05.scoreDivWeighted else Gen.C05.scoreDivUnweighted) obs with
    | some d => if d = 0 then none else some (sumL (obs.map (scoreTerm q weighted)) / d)
    | none => none
  else
    if (if weighted then weightSum obs else count obs) = 0 then none else some (mae weighted obs)

/-! ### fit: one IRLS iteration (`compute_z` + the two `*= sample_weight` lines) -/

/-- for one row: `(W_i, epsilon_i)` — the weight handed to the next inner fit, and the term of `E` -/
def irlsRow (q delta : α) (weighted : Bool) (w y f : α) : α × α :=
  let em := epsilonRow q none y f
  let r := 1 / maxR em.1 delta
  let er := match em.2 with
    | some m => (em.1 * Gen.C05.fitEpsFactor m, r * Gen.C05.fitWFactor m)
    | none => (em.1, r)
  if weighted then (er.2 * w, er.1 * w) else (er.2, er.1)

/-- `E = epsilon.sum()` of one iteration -/
def fitObjective (q delta : α) (weighted : Bool) (obs : List (Obs α)) : α :=
  sumL (obs.map (fun o => (irlsRow q delta weighted o.w o.y o.f).2))

/-- the design matrix: `numpy.hstack([X, ones])` with an intercept, `X` without -/
def designRow (fitIntercept : Bool) (x : List α) : List α := if fitIntercept then x ++ [1] else x

/-- the tail of `fit`: `(coef_, intercept_)` from the last `beta` -/
def finish (fitIntercept : Bool) (beta : List α) : List α × α :=
  if fitIntercept then (beta.dropLast, beta.getLast?.getD 0)
  else (beta, Gen.C05.interceptWithoutFitIntercept)

/-- `LinearRegression.predict` for one row -/
def predictRow (coef : List α) (intercept : α) (x : List α) : α := dot x coef + intercept

structure Trace (α : Type) where
  nIter : Nat                 -- `self.n_iter_`
  beta : List α               -- the last coefficient vector
  es : List α                 -- `E` of every iteration
  ws : List (List α)          -- `W` computed by every iteration (the next inner fit receives it)

/-- the loop of `fit`.  `betas` are the coefficient vectors returned by the successive inner fits
(the solver is a parameter); `i` is the loop index, `fuel = max_iter - i`.  Errors: the loop body never
ran (`beta` unbound in Python) / fewer solver outputs than iterations. -/
def irlsLoop (q delta : α) (weighted : Bool) (Xm : List (List α)) (y sw : List α) :
    Nat → Nat → Option α → List (List α) → Option (Trace α) → Except String (Trace α)
  | _, 0, _, _, some t => .ok t
  | _, 0, _, _, none => .error "UnboundLocalError"
  | _, _ + 1, _, [], _ => .error "need-more-betas"
  | i, fuel + 1, lastE, beta :: betas, acc =>
    let rows := (Xm.zip (y.zip sw)).map (fun p => irlsRow q delta weighted p.2.2 p.2.1 (dot p.1 beta))
    let W := rows.map (·.1)
    let E := sumL (rows.map (·.2))
    let t : Trace α := match acc with
      | some t => ⟨i, beta, t.es ++ [E], t.ws ++ [W]⟩
      | none => ⟨i, beta, [E], [W]⟩
    if lastE = some E then .ok t
    else irlsLoop q delta weighted Xm y sw (i + 1) fuel (some E) betas (some t)

def irls (q delta : α) (fitIntercept weighted : Bool) (maxIter : Nat) (X : List (List α)) (y sw : List α)
    (betas : List (List α)) : Except String (Trace α) :=
  irlsLoop q delta weighted (X.map (designRow fitIntercept)) y sw 0 maxIter none betas none

/-! ### specification side (taken from the property statement) -/

/-- the pinball loss `q·max(y-f,0) + (1-q)·max(f-y,0)` -/
def pinball (q y f : α) : α := q * maxR (y - f) 0 + (1 - q) * maxR (f - y) 0

/-- weighted total pinball loss of a set of observations -/
def pinballSum (q : α) (obs : List (Obs α)) : α := sumL (obs.map (fun o => o.w * pinball q o.y o.f))

/-- a training row: features (design row), target, weight -/
structure Row (α : Type) where
  x : List α
  y : α
  w : α

/-- observations produced by the linear function `beta` on a training set -/
def observe (beta : List α) (rows : List (Row α)) : List (Obs α) :=
  rows.map (fun r => ⟨r.y, dot r.x beta, r.w⟩)

/-- the weight the *next* inner least-squares fit gives row `r` (`W_i` above) -/
def nextWeight (q delta : α) (beta : List α) (r : Row α) : α :=
  (irlsRow q delta true r.w r.y (dot r.x beta)).1

/-- left-hand side of the weighted normal equations in direction `v`:
`Σ_i W_i (x_i·beta − y_i) (x_i·v)`; `v = e_j` gives the j-th normal equation -/
def normalEq (W : Row α → α) (beta v : List α) (rows : List (Row α)) : α :=
  sumL (rows.map (fun r => W r * (dot r.x beta - r.y) * dot r.x v))

/-- the j-th basis vector (as long as needed) -/
def basis : Nat → List α
  | 0 => [1]
  | j + 1 => 0 :: basis j

/-- rows replicated according to integer weights -/
def replicateRows : List (Nat × Row α) → List (Row α)
  | [] => []
  | (k, r) :: rest => List.replicate k r ++ replicateRows rest

/-- `k` as a field element (k-fold sum of 1) -/
def natTo : Nat → α
  | 0 => 0
  | k + 1 => natTo k + 1

/-- the same rows carrying the integer weight times their own weight -/
def weightedRows (l : List (Nat × Row α)) : List (Row α) :=
  l.map (fun p => ⟨p.2.x, p.2.y, natTo p.1 * p.2.w⟩)

/-- total weight of the rows whose target lies strictly below / above the hyperplane -/
def weightBelow (beta : List α) (rows : List (Row α)) : α :=
  sumL (rows.map (fun r => if r.y < dot r.x beta then r.w else 0))
def weightAbove (beta : List α) (rows : List (Row α)) : α :=
  sumL (rows.map (fun r => if dot r.x beta < r.y then r.w else 0))

/-- the objective of the code path without multiplier (`quantile == 0.5`) is `Σ|r|`, twice the pinball loss -/
def objScale (q : α) : α := if Gen.C05.hasMult q then 1 else 2

end
end MlVerif.Quantile
