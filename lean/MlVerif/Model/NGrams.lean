/-
C14 — `NGramsMixin._word_ngrams` (mlinsights/mlmodel/sklearn_text.py) and scikit-learn's
`_VectorizerMixin._word_ngrams` (sklearn 1.9.1, feature_extraction/text.py), executable models.
Core Lean only.

A Python `str` is its list of code points (`Tok = List Char`); Python's `str` order is the
lexicographic order of code points, which is `<` on `List Char`; tuple order is lexicographic over
that, which is `<` on `List Tok`.  A value the override may produce is a `Key` (str or nested tuple),
so that the model can also express what an un-repaired filter produces (`(('cat',),)`).

`wordNgramsML` follows the override statement by statement; the position and shape of the stop-word
filter and every index expression come from `MlVerif.Gen.C14` (regenerated from the source).
`wordNgramsSK` is the hand transcription of scikit-learn's method (validated against the installed
one on every run).  Slices use `Int.toNat`: `Properties.C14.slice_bounds_nonneg` shows no bound is
ever negative, so that totalisation is never exercised.
-/
import MlVerif.Gen.C14

namespace MlVerif.NGrams
open MlVerif.Gen.C14

/-- `range(lo, hi)` -/
def pyRangeL (lo hi : Int) : List Int := (List.range (hi - lo).toNat).map (fun (k : Nat) => lo + (k : Int))

/-- `l[lo:hi]` for non-negative bounds (clipping like Python) -/
def pySlice {α} (l : List α) (lo hi : Int) : List α := (l.drop lo.toNat).take (hi.toNat - lo.toNat)

/-- `" ".join(g)` -/
def join (g : List Tok) : Tok := [' '].intercalate g

/-- `(token,) if isinstance(token, str) else token` -/
def wrap : Key → Key
  | .str s => .tup [.str s]
  | k => k

/-- `space_join`: str -> append, tuple -> extend; `tuple(new_tokens)` -/
def spaceJoin (toks : List Key) : Key :=
  .tup (toks.flatMap (fun t => match t with
    | .str s => [.str s]
    | .tup ks => ks))

/-- `if stop_words is not None: tokens = [ELT for w in tokens if COND]`, at the place the source has it -/
def stopStage (stop : Option (Tok → Bool)) (here : Bool) (ts : List Key) : List Key :=
  match stop with
  | none => ts
  | some isStop => if filterBeforeWrap = here then (ts.filter (filterKeep isStop)).map filterElt else ts

/-- the n-gram part of the override (`min_n, max_n = self.ngram_range; if max_n != 1: …`) -/
def ngramsML (minN maxN : Nat) (toks : List Key) : List Key :=
  let v : Env := { minN := (minN : Int), maxN := (maxN : Int), nTok := (toks.length : Int) }
  if needNgrams v then
    -- original_tokens = tokens
    let init := if copyUnigrams v then toks else []                      -- tokens = list(original_tokens) / []
    let v := if copyUnigrams v then { v with minN := v.minN + minInc v } else v   -- min_n += 1
    init ++ (pyRangeL (nLo v) (nHi v)).flatMap (fun n =>
      (pyRangeL (iLo { v with n := n }) (iHi { v with n := n })).map (fun i =>
        spaceJoin (pySlice toks (sliceLo { v with n := n, i := i }) (sliceHi { v with n := n, i := i }))))
  else toks

/-- `NGramsMixin._word_ngrams(tokens, stop_words)` for `str` tokens -/
def wordNgramsML (stop : Option (Tok → Bool)) (minN maxN : Nat) (tokens : List Tok) : List Key :=
  let t0 := tokens.map Key.str
  let t1 := stopStage stop true t0
  let t2 := t1.map wrap                      -- the wrapping loop (`tokens` is never None here)
  let t3 := stopStage stop false t2
  ngramsML minN maxN t3

/-- scikit-learn 1.9.1 `_VectorizerMixin._word_ngrams(tokens, stop_words)` -/
def wordNgramsSK (stop : Option (Tok → Bool)) (minN maxN : Nat) (tokens : List Tok) : List Tok :=
  let toks := match stop with
    | none => tokens
    | some isStop => tokens.filter (fun w => !isStop w)                  -- [w for w in tokens if w not in stop_words]
  if maxN ≠ 1 then
    let init := if minN = 1 then toks else []
    let lo : Int := if minN = 1 then (minN : Int) + 1 else (minN : Int)
    let len : Int := (toks.length : Int)
    init ++ (pyRangeL lo (min ((maxN : Int) + 1) (len + 1))).flatMap (fun n =>
      (pyRangeL 0 (len - n + 1)).map (fun i => join (pySlice toks i (i + n))))
  else toks

/-- every `str` inside a key, left to right -/
def keyLeaves : Key → List Tok
  | .str s => [s]
  | .tup ks => leavesL ks
where leavesL : List Key → List Tok
  | [] => []
  | k :: ks => keyLeaves k ++ leavesL ks

/-- the space-joined n-gram scikit-learn uses for a key -/
def joinKey (k : Key) : Tok := join (keyLeaves k)

/-- a flat tuple of tokens -/
def flatKey (g : List Tok) : Key := .tup (g.map Key.str)

/-- the n-grams both methods enumerate, as token lists -/
def gramsSpec (minN maxN : Nat) (toks : List Tok) : List (List Tok) :=
  if maxN ≠ 1 then
    let init := if minN = 1 then toks.map (fun t => [t]) else []
    let lo : Int := if minN = 1 then (minN : Int) + 1 else (minN : Int)
    let len : Int := (toks.length : Int)
    init ++ (pyRangeL lo (min ((maxN : Int) + 1) (len + 1))).flatMap (fun n =>
      (pyRangeL 0 (len - n + 1)).map (fun i => pySlice toks i (i + n)))
  else toks.map (fun t => [t])

/-- printable form of a key: `a` / `(a b (c))` -/
def keyShow : Key → String
  | .str s => String.ofList s
  | .tup ks => "(" ++ showL ks ++ ")"
where showL : List Key → String
  | [] => ""
  | k :: ks => keyShow k ++ (if ks.isEmpty then "" else " ") ++ showL ks

end MlVerif.NGrams
