/-
Generic control-flow IR, its nondeterministic semantics, and a generic forward abstract
interpreter (core Lean only).  Used by C02 (hyper-parameter exception safety, ownership of
caller arrays) and C03 (no leak from an earlier fit).

A method body of the Python source is translated (harness/extract/skeleton.py) into a `Prog A`
whose atoms `A` are the few actions a property cares about; everything else is erased.
Nondeterminism (values computed, branches taken, iteration counts, whether a call raises) is an
oracle: a list of naturals consumed left to right, so theorems quantify over ALL executions.
-/
namespace MlVerif.Flow

inductive Prog (A : Type) where
  | skip : Prog A
  | atom : A → Prog A
  | call : Prog A                            -- external call: may raise; tracked state unchanged
  | raise_ : Prog A
  | ret : Prog A
  | brk : Prog A                             -- break / continue: ends the current iteration
  | seq : Prog A → Prog A → Prog A
  | ite : A → Prog A → Prog A → Prog A       -- the atom is the condition (what it reads)
  | loop : Prog A → Prog A
  | tryFinally : Prog A → Prog A → Prog A
  | tryExcept : Prog A → Prog A → Prog A     -- handler may or may not catch
  | scope : Prog A → Prog A                  -- inlined callee: `ret` inside completes normally
deriving Repr

inductive Outcome where
  | norm | exc | ret | brk
deriving DecidableEq, Repr

/-- concrete semantics of atoms: `step` (one oracle value) and `test` for conditions -/
structure Sem (A S : Type) where
  step : A → Nat → S → S
  test : A → Nat → S → Bool

abbrev Oracle := List Nat

def Oracle.next (o : Oracle) : Nat × Oracle :=
  match o with
  | [] => (0, [])
  | n :: r => (n, r)

/-- repeat `f` at most `n` times; `brk` ends an iteration normally, `exc`/`ret` propagate -/
def iterate {S} (f : Oracle → S → Outcome × S × Oracle) : Nat → Oracle → S → Outcome × S × Oracle
  | 0, o, s => (.norm, s, o)
  | n + 1, o, s =>
    match f o s with
    | (.norm, s', o') => iterate f n o' s'
    | (.brk, s', o') => iterate f n o' s'
    | r => r

def exec {A S} (sem : Sem A S) : Prog A → Oracle → S → Outcome × S × Oracle
  | .skip, o, s => (.norm, s, o)
  | .atom a, o, s => let (n, o') := o.next; (.norm, sem.step a n s, o')
  | .call, o, s => let (n, o') := o.next; (if n = 0 then .norm else .exc, s, o')
  | .raise_, o, s => (.exc, s, o)
  | .ret, o, s => (.ret, s, o)
  | .brk, o, s => (.brk, s, o)
  | .seq p q, o, s =>
    match exec sem p o s with
    | (.norm, s', o') => exec sem q o' s'
    | r => r
  | .ite c p q, o, s =>
    let (n, o') := o.next
    if sem.test c n s then exec sem p o' s else exec sem q o' s
  | .loop b, o, s => let (n, o') := o.next; iterate (exec sem b) n o' s
  | .tryFinally b f, o, s =>
    match exec sem b o s with
    | (.norm, s', o') => exec sem f o' s'
    | (out, s', o') =>
      match exec sem f o' s' with
      | (.norm, s'', o'') => (out, s'', o'')        -- finally completed: re-raise / return / break
      | r => r                                       -- finally itself raised / returned
  | .tryExcept b h, o, s =>
    match exec sem b o s with
    | (.exc, s', o') =>
      let (n, o'') := o'.next
      if n = 0 then exec sem h o'' s' else (.exc, s', o'')
    | r => r
  | .scope b, o, s =>
    match exec sem b o s with
    | (.ret, s', o') => (.norm, s', o')
    | (.brk, s', o') => (.norm, s', o')
    | r => r

/-! ### abstract interpreter -/

structure Dom (A D : Type) where
  join : D → D → D
  le : D → D → Bool
  transfer : A → D → D
  check : A → D → Bool         -- precondition of an atom (also applied to conditions)
  assume : A → Bool → D → D := fun _ _ d => d   -- refinement by a condition's outcome (optional)
  fuel : Nat := 8                                -- iterations allowed to reach a loop-head post-fixpoint

structure Res (D : Type) where
  ok : Bool
  norm : Option D
  exc : Option D
  ret : Option D
  brk : Option D

def joinO {D} (j : D → D → D) : Option D → Option D → Option D
  | none, b => b
  | a, none => a
  | some a, some b => some (j a b)

def Res.bot {D} : Res D := ⟨true, none, none, none, none⟩

def Res.merge {D} (j : D → D → D) (a b : Res D) : Res D :=
  ⟨a.ok && b.ok, joinO j a.norm b.norm, joinO j a.exc b.exc, joinO j a.ret b.ret, joinO j a.brk b.brk⟩

def leO {D} (le : D → D → Bool) : Option D → D → Bool
  | none, _ => true
  | some a, b => le a b

/-- loop-head state: iterate `H := H ⊔ norm(body H) ⊔ brk(body H)` until it is a post-fixpoint
(at most `fuel` times).  Returns the head, the analysis of the body at that head, and whether the
head is stable (whatever an iteration ends in is below it). -/
def loopFix {D} (j : D → D → D) (le : D → D → Bool) (f : D → Res D) : Nat → D → D × Res D × Bool
  | 0, h => let r := f h; (h, r, leO le r.norm h && leO le r.brk h)
  | n + 1, h =>
    let r := f h
    if leO le r.norm h && leO le r.brk h then (h, r, true)
    else
      let h1 := match r.norm with | some d => j h d | none => h
      let h2 := match r.brk with | some d => j h1 d | none => h1
      loopFix j le f n h2

def analyze {A D} (dom : Dom A D) : Prog A → D → Res D
  | .skip, d => { Res.bot with norm := some d }
  | .atom a, d => { Res.bot with ok := dom.check a d, norm := some (dom.transfer a d) }
  | .call, d => { Res.bot with norm := some d, exc := some d }
  | .raise_, d => { Res.bot with exc := some d }
  | .ret, d => { Res.bot with ret := some d }
  | .brk, d => { Res.bot with brk := some d }
  | .seq p q, d =>
    let rp := analyze dom p d
    match rp.norm with
    | none => rp
    | some d' => Res.merge dom.join { rp with norm := none } (analyze dom q d')
  | .ite c p q, d =>
    let r := Res.merge dom.join (analyze dom p (dom.assume c true d)) (analyze dom q (dom.assume c false d))
    { r with ok := r.ok && dom.check c d }
  | .loop b, d =>
    let fx := loopFix dom.join dom.le (analyze dom b) dom.fuel d
    -- `fx.1` must be above the entry state and a post-fixpoint of the body
    { ok := fx.2.1.ok && dom.le d fx.1 && fx.2.2,
      norm := some fx.1, exc := fx.2.1.exc, ret := fx.2.1.ret, brk := none }
  | .tryFinally b f, d =>
    let rb := analyze dom b d
    let viaN := match rb.norm with | some x => analyze dom f x | none => Res.bot
    let viaE := match rb.exc with | some x => analyze dom f x | none => Res.bot
    let viaR := match rb.ret with | some x => analyze dom f x | none => Res.bot
    let viaB := match rb.brk with | some x => analyze dom f x | none => Res.bot
    let j := joinO dom.join
    { ok := rb.ok && viaN.ok && viaE.ok && viaR.ok && viaB.ok,
      norm := viaN.norm,
      exc := j (j (j viaN.exc viaE.norm) (j viaE.exc viaR.exc)) viaB.exc,
      ret := j (j (j viaN.ret viaR.norm) (j viaE.ret viaR.ret)) viaB.ret,
      brk := j (j (j viaN.brk viaB.norm) (j viaE.brk viaR.brk)) viaB.brk }
  | .tryExcept b h, d =>
    let rb := analyze dom b d
    match rb.exc with
    | none => rb
    | some x => Res.merge dom.join rb (analyze dom h x)
  | .scope b, d =>
    let rb := analyze dom b d
    { ok := rb.ok, norm := joinO dom.join (joinO dom.join rb.norm rb.ret) rb.brk,
      exc := rb.exc, ret := none, brk := none }

/-- every exit of the method (normal, by exception, by return) satisfies `good` for that kind of exit -/
def exitsGood {D} (good : Outcome → D → Bool) (r : Res D) : Bool :=
  r.ok && (r.norm.all (good .norm)) && (r.exc.all (good .exc)) && (r.ret.all (good .ret)) &&
    (r.brk.all (good .brk))

end MlVerif.Flow
