/-
Hand-written support for the REGENERATED files in this directory (core Lean only).
`unknownInt` is what the extractor emits for source it cannot classify: an opaque constant
about which nothing can be proved, so the dependent obligation fails instead of being guessed.
-/
namespace MlVerif.Gen

opaque unknownInt (src : String) : Int
opaque unknownBool (src : String) : Bool

/-- Python `a // b` on integers (floor division). -/
def pyFloorDiv (a b : Int) : Int := Int.fdiv a b
/-- Python `a % b` on integers (sign of the divisor). -/
def pyMod (a b : Int) : Int := Int.fmod a b
/-- Python `int(x)` on a real number: truncation toward zero. -/
def pyIntOfRat (r : Rat) : Int := if 0 ≤ r then r.floor else r.ceil

theorem pyFloorDiv_pos (a : Int) {b : Int} (h : 0 ≤ b) : pyFloorDiv a b = a / b :=
  Int.fdiv_eq_ediv_of_nonneg a h

theorem pyMod_pos (a : Int) {b : Int} (h : 0 ≤ b) : pyMod a b = a % b :=
  Int.fmod_eq_emod_of_nonneg a h

theorem pyIntOfRat_nonneg {r : Rat} (h : 0 ≤ r) : pyIntOfRat r = r.floor := by
  simp [pyIntOfRat, h]

end MlVerif.Gen
