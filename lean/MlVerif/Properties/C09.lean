/-
C09 — PiecewiseTreeRegressor: per-leaf least squares; the compiled split criteria compute the
true MSE.  Property theorems only.

Every definition of `MlVerif.Gen.C09` (ranges, prefix-sum indices `start-1`/`pos-1`/`end-1`,
the packing index arithmetic, the `_update_weights` bodies, the improvement/proxy formulas) is
regenerated from the `.pyx` sources on every run; the model `MlVerif.Criterion` is built from
them, so these theorems are statements about what the source says *now*.

Quantification.  `prev` is the criterion object in an ARBITRARY previous state (all buffers
hold arbitrary values: stale cells of earlier nodes, uninitialised memory), `d` carries the
target vector `y`, the optional weights `sw`, the sample order `samples` (any function: any
order) and `weighted_n_samples`; `junk…` are the uninitialised C locals.  The state examined
is the one the accessors see after `init(start, end)` followed by `update(pos)`.
-/
import MlVerif.Lemmas.CriterionReach
import MlVerif.Lemmas.CriterionLS

namespace MlVerif.C09
open MlVerif.Gen MlVerif.Gen.C09 MlVerif.Criterion

/-- `0 ≤ start ≤ pos ≤ end ≤ n`, `start < end` -/
structure Triple (start pos stop n : Int) : Prop where
  h0 : 0 ≤ start
  h1 : start ≤ pos
  h2 : pos ≤ stop
  h3 : stop ≤ n
  h4 : start < stop

/-- state after `init(start, end)` then `update(pos)` -/
def simpleAt (prev : Simple) (d : Data) (start pos stop : Int) : Simple :=
  update Simple.ops (Simple.initWithX prev d start stop) pos
def fastAt (prev : Fast) (d : Data) (start pos stop : Int) : Fast :=
  update Fast.ops (Fast.initWithX prev d start stop) pos
def linearAt (solve : Solver) (prev : Linear) (d : Data) (start pos stop : Int) : Linear :=
  update (Linear.ops solve) (Linear.initWithX solve prev d start stop) pos

/-! ### the three states are what the accessors need -/

theorem simple_acc (prev : Simple) (d : Data) {start pos stop n : Int} (t : Triple start pos stop n) :
    AccConst Simple.ops (simpleAt prev d start pos stop) d start pos stop := by
  obtain ⟨hf, hc⟩ := Simple.init_good prev d start stop (by have := t.h4; omega)
  obtain ⟨hf2, hc2⟩ := Simple.update_good pos hf hc t.h1 t.h2
  exact { core := hc2
          mean := fun a b wp h1 h2 h3 => Simple.mean_filled hf2 a b wp h1 h2 h3
          mse := fun a b h1 h2 h3 => Simple.mse_filled hf2 a b h1 h2 h3
          mse_empty := fun a m w => by simp [Simple.ops, Simple.mse] }

theorem fast_acc (prev : Fast) (d : Data) {start pos stop : Int}
    (t : Triple start pos stop prev.nSamples) :
    AccConst Fast.ops (fastAt prev d start pos stop) d start pos stop := by
  obtain ⟨hf, hc⟩ := Fast.init_good prev d start stop t.h0 t.h4 t.h3
  obtain ⟨hf2, hc2⟩ := Fast.update_good pos hf hc t.h0 t.h1 t.h2 t.h4
  exact { core := hc2
          mean := fun a b wp h1 h2 h3 => Fast.mean_filled hf2 a b wp t.h0 h1 h2 h3
          mse := fun a b h1 h2 h3 => Fast.mse_filled hf2 a b t.h0 h1 h2 h3
          mse_empty := fun a m w => by simp [Fast.ops, Fast.mse] }

theorem linear_filled (solve : Solver) (prev : Linear) (d : Data) {start pos stop n : Int}
    (t : Triple start pos stop n) (hnb : 1 ≤ prev.nbvar) :
    Linear.Filled (linearAt solve prev d start pos stop) d start stop ∧
    (linearAt solve prev d start pos stop).nbvar = prev.nbvar ∧
    (linearAt solve prev d start pos stop).X = prev.X ∧
    (linearAt solve prev d start pos stop).core.start = start ∧
    (linearAt solve prev d start pos stop).core.stop = stop := by
  obtain ⟨hf, g1, g2, g3, _, g5⟩ := Linear.init_filled solve prev d start stop
    (by have := t.h4; omega) hnb
  obtain ⟨hf2, k1, k2, k3, k4⟩ := Linear.update_filled solve pos hf
  exact ⟨hf2, k1.trans g1, k2.trans g2, k3.trans g3, k4.trans g5⟩

theorem linear_acc (solve : Solver) (prev : Linear) (d : Data) {start pos stop n : Int}
    (t : Triple start pos stop n) (hnb : 1 ≤ prev.nbvar) :
    Acc (Linear.ops solve) (linearAt solve prev d start pos stop) d start pos stop := by
  obtain ⟨hf, _⟩ := Linear.init_filled solve prev d start stop (by have := t.h4; omega) hnb
  have hc := Linear.init_good solve prev d start stop (by have := t.h4; omega) hnb
  have hc2 := Linear.update_good solve pos hf hc t.h1 t.h2
  obtain ⟨hf2, _⟩ := Linear.update_filled solve pos hf
  exact { core := hc2
          mean := fun a b wp h1 _ h3 => Linear.mean_filled hf2 a b wp h1 h3 }

/-! ### node value -/

/-- All three criteria report the weighted mean of `y` over `samples[start:end]` as node value:
for every target vector, weights, sample order, every stale object state and every triple. -/
theorem node_value_is_weighted_mean (solve : Solver) (ps : Simple) (pf : Fast) (pl : Linear) (d : Data)
    {start pos stop : Int} (t : Triple start pos stop pf.nSamples) (hnb : 1 ≤ pl.nbvar) (junk : Rat) :
    nodeValue Simple.ops (simpleAt ps d start pos stop) junk = d.wmean start stop ∧
    nodeValue Fast.ops (fastAt pf d start pos stop) junk = d.wmean start stop ∧
    nodeValue (Linear.ops solve) (linearAt solve pl d start pos stop) junk = d.wmean start stop :=
  ⟨(simple_acc ps d t).toAcc.nodeValue t.h4 junk, (fast_acc pf d t).toAcc.nodeValue t.h4 junk,
   (linear_acc solve pl d t hnb).nodeValue t.h4 junk⟩

/-- the weighted mean is the weighted mean: m·W = Σ w·y whenever W ≠ 0 -/
theorem wmean_spec (d : Data) (lo hi : Int) (hW : d.W lo hi ≠ 0) :
    d.wmean lo hi * d.W lo hi = d.WY lo hi := by
  unfold Data.wmean; rw [if_neg hW]; exact Rat.div_mul_cancel hW

/-! ### impurity of the constant fit -/

/-- `simple`: node impurity = Σ w (y − m)² / W over `samples[start:end]`. -/
theorem simple_impurity_is_weighted_mse (prev : Simple) (d : Data) {start pos stop n : Int}
    (t : Triple start pos stop n) (junk : Rat) :
    nodeImpurity Simple.ops (simpleAt prev d start pos stop) junk = d.wmse start stop :=
  (simple_acc prev d t).nodeImpurity t.h4 junk

/-- `fast` (Σ w y²/W − m² from prefix-sum differences, including the zero fill and the
`start-1` cell) equals `simple`, hence the weighted MSE, on every triple. -/
theorem fast_equals_simple (ps : Simple) (pf : Fast) (d : Data) {start pos stop : Int}
    (t : Triple start pos stop pf.nSamples) (j1 j2 : Rat) :
    nodeImpurity Fast.ops (fastAt pf d start pos stop) j1
      = nodeImpurity Simple.ops (simpleAt ps d start pos stop) j2 ∧
    nodeImpurity Fast.ops (fastAt pf d start pos stop) j1 = d.wmse start stop := by
  rw [(fast_acc pf d t).nodeImpurity t.h4 j1, (simple_acc ps d t).nodeImpurity t.h4 j2]
  exact ⟨rfl, rfl⟩

/-- the identity behind `fast`: Σ w y² / W − m² = Σ w (y − m)² / W -/
theorem fast_identity (d : Data) (lo hi : Int) (hW : d.W lo hi ≠ 0) :
    d.WYY lo hi / d.W lo hi - d.wmean lo hi ^ 2 = d.wmse lo hi :=
  fast_formula d lo hi hW

/-- children impurities of `simple` and `fast` are the weighted MSE of `samples[start:pos]` and
`samples[pos:end]` (0 for an empty child), at every split position including both ends. -/
theorem children_match (ps : Simple) (pf : Fast) (d : Data) {start pos stop : Int}
    (t : Triple start pos stop pf.nSamples) (j1 j2 : Rat) :
    childrenImpurity Simple.ops (simpleAt ps d start pos stop) j1 j2
      = (d.wmse start pos, d.wmse pos stop) ∧
    childrenImpurity Fast.ops (fastAt pf d start pos stop) j1 j2
      = (d.wmse start pos, d.wmse pos stop) :=
  ⟨(simple_acc ps d t).children t.h1 t.h2 j1 j2, (fast_acc pf d t).children t.h1 t.h2 j1 j2⟩

/-! ### improvement -/

/-- `impurity_improvement` of all three criteria is
  N_t/N · (imp − N_R/N_t · imp_R − N_L/N_t · imp_L)
with the TRUE weights N_t = W[start:end], N_L = W[start:pos], N_R = W[pos:end].
(For `mselin` this needs `_update_weights` to be overridden — defect D13 on the unrepaired tree.) -/
theorem improvement_formula (solve : Solver) (ps : Simple) (pf : Fast) (pl : Linear) (d : Data)
    {start pos stop : Int} (t : Triple start pos stop pf.nSamples) (hnb : 1 ≤ pl.nbvar)
    (ip il ir : Rat) :
    let rhs := (d.W start stop / d.wN) *
      (ip - (d.W pos stop / d.W start stop) * ir - (d.W start pos / d.W start stop) * il)
    impurityImprovement Simple.ops (simpleAt ps d start pos stop) ip il ir = rhs ∧
    impurityImprovement Fast.ops (fastAt pf d start pos stop) ip il ir = rhs ∧
    impurityImprovement (Linear.ops solve) (linearAt solve pl d start pos stop) ip il ir = rhs :=
  ⟨(simple_acc ps d t).toAcc.improvement ip il ir, (fast_acc pf d t).toAcc.improvement ip il ir,
   (linear_acc solve pl d t hnb).improvement ip il ir⟩

/-- `proxy_impurity_improvement` (simple, fast): NAN at both ends, else −N_R·imp_R − N_L·imp_L
with the true child weights and impurities. -/
theorem proxy_formula (ps : Simple) (pf : Fast) (d : Data) {start pos stop : Int}
    (t : Triple start pos stop pf.nSamples) :
    let rhs : Option Rat := if pos = start ∨ pos = stop then none
      else some (- d.W pos stop * d.wmse pos stop - d.W start pos * d.wmse start pos)
    (proxyImpurityImprovement Simple.ops (simpleAt ps d start pos stop)).1 = rhs ∧
    (proxyImpurityImprovement Fast.ops (fastAt pf d start pos stop)).1 = rhs :=
  ⟨((simple_acc ps d t).proxy t.h1 t.h2).1, ((fast_acc pf d t).proxy t.h1 t.h2).1⟩

/-- The same in EVERY state the splitter can reach after `init(start, end)`: any sequence of
`update(q)` with `start ≤ q ≤ end`, `reset` and `proxy_impurity_improvement` (which stores the
child weights through its out-parameters).  `pos` is the criterion's current position. -/
theorem improvement_formula_reachable (solve : Solver) (ps : Simple) (pf : Fast) (pl : Linear) (d : Data)
    {start stop : Int} (h0 : 0 ≤ start) (hlt : start < stop) (hn : stop ≤ pf.nSamples)
    (hnb : 1 ≤ pl.nbvar) (ip il ir : Rat) :
    let rhs := fun pos : Int => (d.W start stop / d.wN) *
      (ip - (d.W pos stop / d.W start stop) * ir - (d.W start pos / d.W start stop) * il)
    (∀ s, Reach Simple.ops start stop (Simple.initWithX ps d start stop) s →
      start ≤ s.core.pos ∧ s.core.pos ≤ stop ∧
      impurityImprovement Simple.ops s ip il ir = rhs s.core.pos) ∧
    (∀ s, Reach Fast.ops start stop (Fast.initWithX pf d start stop) s →
      start ≤ s.core.pos ∧ s.core.pos ≤ stop ∧
      impurityImprovement Fast.ops s ip il ir = rhs s.core.pos) ∧
    (∀ s, Reach (Linear.ops solve) start stop (Linear.initWithX solve pl d start stop) s →
      start ≤ s.core.pos ∧ s.core.pos ≤ stop ∧
      impurityImprovement (Linear.ops solve) s ip il ir = rhs s.core.pos) := by
  intro rhs
  have hle : start ≤ stop := by omega
  refine ⟨?_, ?_, ?_⟩
  · intro s r
    obtain ⟨hf, hc⟩ := Simple.init_good ps d start stop hle
    obtain ⟨hp, pos, h1, h2, hcg⟩ := r.good (Simple.goodOps d start stop) hle hf hc
    have e : s.core.pos = pos := hcg.hpos
    have acc : Acc Simple.ops s d start pos stop := ⟨hcg, (Simple.goodOps d start stop).mean s hp⟩
    rw [e]; exact ⟨h1, h2, acc.improvement ip il ir⟩
  · intro s r
    obtain ⟨hf, hc⟩ := Fast.init_good pf d start stop h0 hlt hn
    obtain ⟨hp, pos, h1, h2, hcg⟩ := r.good (Fast.goodOps d start stop h0 hlt) hle hf hc
    have e : s.core.pos = pos := hcg.hpos
    have acc : Acc Fast.ops s d start pos stop := ⟨hcg, (Fast.goodOps d start stop h0 hlt).mean s hp⟩
    rw [e]; exact ⟨h1, h2, acc.improvement ip il ir⟩
  · intro s r
    obtain ⟨hf, _⟩ := Linear.init_filled solve pl d start stop hle hnb
    have hc := Linear.init_good solve pl d start stop hle hnb
    obtain ⟨hp, pos, h1, h2, hcg⟩ := r.good (Linear.goodOps solve d start stop) hle hf hc
    have e : s.core.pos = pos := hcg.hpos
    have acc : Acc (Linear.ops solve) s d start pos stop :=
      ⟨hcg, (Linear.goodOps solve d start stop).mean s hp⟩
    rw [e]; exact ⟨h1, h2, acc.improvement ip il ir⟩

/-! ### mselin -/

/-- Column-major packing of `_reglin` on any sub-range `[a, b)` of the node: buffer cell
`j·row + t` ↔ (row `t` of the range, column `j`) of the design matrix with intercept, times the
row's weight; and conversely every cell `q < nbvar·row` is the entry (`q % row`, `q / row`).
The right-hand side cell `t` is `w·y` of row `t`. -/
theorem mselin_packing (solve : Solver) (prev : Linear) (d : Data) {start pos stop n : Int}
    (t : Triple start pos stop n) (hnb : 1 ≤ prev.nbvar) (a b : Int) (h1 : start ≤ a) (h2 : a < b)
    (h3 : b ≤ stop) :
    let st := linearAt solve prev d start pos stop
    (∀ j r : Int, 0 ≤ j → j < prev.nbvar → 0 ≤ r → r < b - a →
      (Linear.pack st a b).1 (j * (b - a) + r)
        = xone prev.X prev.nbvar (d.samples (a + r)) j * d.wk (a + r)) ∧
    (∀ q : Int, 0 ≤ q → q < prev.nbvar * (b - a) →
      (Linear.pack st a b).1 q
        = xone prev.X prev.nbvar (d.samples (a + q % (b - a))) (q / (b - a)) * d.wk (a + q % (b - a))) ∧
    (∀ r : Int, 0 ≤ r → r < b - a → Linear.rhs st a b r = d.wk (a + r) * d.yk (a + r)) := by
  intro st
  obtain ⟨hf, e1, e2, _, _⟩ := linear_filled solve prev d t hnb
  have hcell : ∀ j r : Int, 0 ≤ j → j < prev.nbvar → 0 ≤ r → r < b - a →
      (Linear.pack st a b).1 (j * (b - a) + r)
        = xone prev.X prev.nbvar (d.samples (a + r)) j * d.wk (a + r) := by
    intro j r hj1 hj2 hr1 hr2
    have := Linear.pack_cell hf a b h1 h3 (by rw [e1]; exact hnb) j r hj1 (by rw [e1]; exact hj2) hr1 hr2
    rw [e1, e2] at this
    exact this
  refine ⟨hcell, ?_, ?_⟩
  · intro q hq1 hq2
    have hrow : 0 < b - a := by omega
    have hq : q / (b - a) * (b - a) + q % (b - a) = q := by
      rw [Int.mul_comm]; exact Int.mul_ediv_add_emod q (b - a)
    have := hcell (q / (b - a)) (q % (b - a)) (Int.ediv_nonneg hq1 (by omega))
      (Int.ediv_lt_of_lt_mul hrow hq2) (Int.emod_nonneg q (by omega)) (Int.emod_lt_of_pos q hrow)
    rw [hq] at this
    exact this
  · intro r hr1 hr2
    exact Linear.rhs_cell hf a b h1 h3 r hr1 hr2

/-- `mselin`, unit weights, more rows than coefficients: given that `dgelss` returns a
least-squares minimiser, the node impurity is the mean squared residual of the least-squares
linear fit (with intercept) of `samples[start:end]`: it is the mean residual of some coefficient
vector, and no coefficient vector has a smaller one. -/
theorem mselin_impurity_is_ls_residual (solve : Solver) (hs : IsLeastSquares solve) (prev : Linear)
    (d : Data) {start pos stop n : Int} (t : Triple start pos stop n) (hnb : 1 ≤ prev.nbvar)
    (hunit : d.sw = none) (hlen : prev.nbvar < stop - start) (junk : Rat) :
    ∃ beta : Int → Rat,
      nodeImpurity (Linear.ops solve) (linearAt solve prev d start pos stop) junk
        = d.lsResid prev.X prev.nbvar beta start stop / ((stop - start : Int) : Rat) ∧
      ∀ beta' : Int → Rat,
        d.lsResid prev.X prev.nbvar beta start stop ≤ d.lsResid prev.X prev.nbvar beta' start stop := by
  obtain ⟨hf, e1, e2, e3, e4⟩ := linear_filled solve prev d t hnb
  have hacc := linear_acc solve prev d t hnb
  generalize linearAt solve prev d start pos stop = st at *
  have hw1 : ∀ k, d.wk k = 1 := by intro k; simp [Data.wk, Data.w, hunit]
  have hW : d.W start stop = ((stop - start : Int) : Rat) := by
    unfold Data.W
    rw [rsum_congr d.wk (fun _ => 1) start stop (fun k _ _ => hw1 k)]
    exact rsum_unit start stop (by have := t.h4; omega)
  have hWne : d.W start stop ≠ 0 := by
    rw [hW]; have := t.h4
    have : (stop - start : Int) ≠ 0 := by omega
    exact_mod_cast this
  have e3' : ((Linear.ops solve).core st).start = start := e3
  have e4' : ((Linear.ops solve).core st).stop = stop := e4
  refine ⟨solve (stop - start) prev.nbvar (Linear.pack st start stop).1 (stop - start)
    (Linear.rhs st start stop) (stop - start), ?_, ?_⟩
  · simp only [nodeImpurity, nodeImpMean, nodeImpMse, e3', e4']
    have hm : (Linear.ops solve).mean st start stop junk = (d.wmean start stop, d.W start stop) := by
      rw [hacc.mean start stop junk (by omega) (by have := t.h4; omega) (by omega),
        if_neg (by have := t.h4; omega)]
    rw [hm]
    show Linear.mse solve st start stop (d.wmean start stop) (d.W start stop) = _
    rw [Linear.mse_filled solve hf start stop _ _ (by omega) (by omega) (by rw [e1]; exact hnb)
      (by rw [e1]; exact hlen), if_neg hWne, hW, e1, e2]
    congr 1
    unfold Data.lsResid
    apply rsum_congr
    intro k _ _
    rw [hw1 k]; grind
  · intro beta'
    have hrow : 0 < stop - start := by have := t.h4; omega
    have := hs (stop - start) st.nbvar (Linear.pack st start stop).1 (Linear.rhs st start stop)
      (stop - start) hrow (by omega) (by omega) (by omega) beta'
    rw [Linear.resid_transfer hf start stop (by omega) (by omega) (by omega) (by omega)
      (fun k _ _ => hw1 k), Linear.resid_transfer hf start stop (by omega) (by omega) (by omega)
      (by omega) (fun k _ _ => hw1 k), e1, e2] at this
    exact this

/-- `mselin` children: the same statement for `samples[start:pos]` and `samples[pos:end]`; a child
with no more rows than coefficients gets impurity 0 (the code's convention). -/
theorem children_match_mselin (solve : Solver) (hs : IsLeastSquares solve) (prev : Linear)
    (d : Data) {start pos stop n : Int} (t : Triple start pos stop n) (hnb : 1 ≤ prev.nbvar)
    (hunit : d.sw = none) (j1 j2 : Rat) :
    let ch := childrenImpurity (Linear.ops solve) (linearAt solve prev d start pos stop) j1 j2
    (if pos - start ≤ prev.nbvar then ch.1 = 0 else
      ∃ beta : Int → Rat, ch.1 = d.lsResid prev.X prev.nbvar beta start pos / ((pos - start : Int) : Rat) ∧
        ∀ beta', d.lsResid prev.X prev.nbvar beta start pos ≤ d.lsResid prev.X prev.nbvar beta' start pos) ∧
    (if stop - pos ≤ prev.nbvar then ch.2 = 0 else
      ∃ beta : Int → Rat, ch.2 = d.lsResid prev.X prev.nbvar beta pos stop / ((stop - pos : Int) : Rat) ∧
        ∀ beta', d.lsResid prev.X prev.nbvar beta pos stop ≤ d.lsResid prev.X prev.nbvar beta' pos stop) := by
  obtain ⟨hf, e1, e2, e3, e4⟩ := linear_filled solve prev d t hnb
  have hacc := linear_acc solve prev d t hnb
  generalize linearAt solve prev d start pos stop = st at *
  intro ch
  have hw1 : ∀ k, d.wk k = 1 := by intro k; simp [Data.wk, Data.w, hunit]
  -- one child range [a, b) inside the node
  have child : ∀ a b : Int, start ≤ a → a ≤ b → b ≤ stop → ∀ wp : Rat,
      if b - a ≤ prev.nbvar then
        Linear.mse solve st a b (Linear.mean st a b wp).1 (Linear.mean st a b wp).2 = 0
      else ∃ beta : Int → Rat,
        Linear.mse solve st a b (Linear.mean st a b wp).1 (Linear.mean st a b wp).2
          = d.lsResid prev.X prev.nbvar beta a b / ((b - a : Int) : Rat) ∧
        ∀ beta', d.lsResid prev.X prev.nbvar beta a b ≤ d.lsResid prev.X prev.nbvar beta' a b := by
    intro a b ha hab hb wp
    split
    · next hle =>
      unfold Linear.mse
      have : linMseSkip a b st.nbvar = true := by
        simp only [linMseSkip, decide_eq_true_eq]; rw [e1]; omega
      rw [this]; rfl
    · next hgt =>
      have hlt : a < b := by omega
      have hW : d.W a b = ((b - a : Int) : Rat) := by
        unfold Data.W
        rw [rsum_congr d.wk (fun _ => 1) a b (fun k _ _ => hw1 k)]
        exact rsum_unit a b hab
      have hWne : d.W a b ≠ 0 := by
        rw [hW]
        have : (b - a : Int) ≠ 0 := by omega
        exact_mod_cast this
      have hm : Linear.mean st a b wp = (d.wmean a b, d.W a b) := by
        have := hacc.mean a b wp ha hab hb
        rw [if_neg (by omega)] at this
        exact this
      refine ⟨solve (b - a) prev.nbvar (Linear.pack st a b).1 (b - a) (Linear.rhs st a b) (b - a), ?_, ?_⟩
      · rw [hm]
        rw [Linear.mse_filled solve hf a b _ _ ha hb (by rw [e1]; exact hnb)
          (by rw [e1]; omega), if_neg hWne, hW, e1, e2]
        congr 1
        unfold Data.lsResid
        apply rsum_congr
        intro k _ _
        rw [hw1 k]; grind
      · intro beta'
        have := hs (b - a) st.nbvar (Linear.pack st a b).1 (Linear.rhs st a b)
          (b - a) (by omega) (by omega) (by omega) (by omega) beta'
        rw [Linear.resid_transfer hf a b ha hab hb (by omega) (fun k _ _ => hw1 k),
          Linear.resid_transfer hf a b ha hab hb (by omega) (fun k _ _ => hw1 k), e1, e2] at this
        exact this
  have e3' : ((Linear.ops solve).core st).start = start := e3
  have e4' : ((Linear.ops solve).core st).stop = stop := e4
  have hpos : ((Linear.ops solve).core st).pos = pos := hacc.core.hpos
  have hL := child start pos (by omega) t.h1 t.h2 j1
  have hR := child pos stop t.h1 t.h2 (by omega) j2
  simp only [ch, childrenImpurity, childrenImpurityWeights, chMeanL, chMeanR, chMseL, chMseR, e3', e4',
    hpos]
  exact ⟨hL, hR⟩

/-- A vector that passes the exact test `Aᵀ(A x − B) = 0` is a least-squares minimiser of the
column-major system: this certifies, case by case, the exact reference solver the driver
compares LAPACK's output with, and shows what `IsLeastSquares` asks of `dgelss` is attainable. -/
theorem normal_equations_minimise (row col : Int) (A : Buf) (lda : Int) (B : Buf) (x : Int → Rat)
    (h : normalEqHolds row col A lda B x = true) (b' : Int → Rat) :
    lapackResid row col A lda B x ≤ lapackResid row col A lda B b' :=
  normal_eq_min row col A lda B x (normalEqHolds_spec row col A lda B x h) b'

/-! ### tree level: `_fit_reglin` / `_predict_reglin`, and 'simple' -/

/-- With 'mselin' the prediction for a row `x` whose leaf is `l` is `x·β + β₀` for a coefficient
vector β that minimises the squared residual over the training rows sharing that leaf (the
rows with `predict_leaves == l`, in training order; the leaf index is scikit-learn's).
Unit weights (`sample_weight=None`), any number of rows ≥ 1 in the leaf, any number of
features. -/
theorem leaf_prediction_is_leaf_ols (solve : Solver) (hs : IsLeastSquares solve) (nFeatures : Nat)
    (X : List (List Rat)) (y : List Rat) (predLeaves : List Nat) (nLeaves l : Nat) (hl : l < nLeaves)
    (x : List Rat)
    (hrows : 0 < (maskRows y (predLeaves.map (fun k => k == l))).length) :
    let rows := maskRows X (predLeaves.map (fun k => k == l))
    let ys := maskRows y (predLeaves.map (fun k => k == l))
    let d : Data := { y := vecFn ys, sw := none, samples := fun i => i, wN := (ys.length : Rat) }
    ∃ beta : Int → Rat,
      predictReglin (fitReglin solve nFeatures X y predLeaves nLeaves) [l] [x]
        = [dot (x ++ [1]) ((List.range (nFeatures + 1)).map (fun (j : Nat) => beta (j : Int)))] ∧
      ∀ beta' : Int → Rat,
        d.lsResid (matFn rows) ((nFeatures : Int) + 1) beta 0 (ys.length : Int)
          ≤ d.lsResid (matFn rows) ((nFeatures : Int) + 1) beta' 0 (ys.length : Int) := by
  intro rows ys d
  refine ⟨Linear.nodeBeta solve (Linear.create solve nFeatures rows ys), ?_, ?_⟩
  · simp [predictReglin, fitReglin, hl, rows, ys, predLeafIdx, predXRow, predBetaRow, fitLeaf]
  · intro beta'
    unfold Linear.create Linear.nodeBeta
    simp only
    generalize hfresh : ({
      core := ⟨0, 0, 0, 0, 0, 0, 0⟩, nbvar := (nFeatures : Int) + 1, X := matFn rows, y := vecFn ys,
      sample_w := fun _ => 0, sample_wy := fun _ => 0, sample_y := fun _ => 0,
      sample_f := fun _ => 0, sample_i := fun _ => 0,
      sum_wy := 0, sum_w := 0, f_buffer := fun _ => 0, pC := fun _ => 0 } : Linear) = fresh
    have hnbv : fresh.nbvar = (nFeatures : Int) + 1 := by rw [← hfresh]
    have hXv : fresh.X = matFn rows := by rw [← hfresh]
    have hm : (0 : Int) < (ys.length : Int) := by exact_mod_cast hrows
    obtain ⟨hf, e1, e2, e3, _, e5⟩ := Linear.init_filled solve fresh d 0 (ys.length : Int)
      (by omega) (by rw [hnbv]; omega)
    generalize Linear.initWithX solve fresh d 0 (ys.length : Int) = st at *
    rw [e3, e5]
    have hw1 : ∀ k, d.wk k = 1 := by intro k; rfl
    have hnb1 : 1 ≤ st.nbvar := by rw [e1, hnbv]; omega
    unfold Linear.reglin
    simp only
    have tr := fun bv => Linear.resid_transfer hf 0 (ys.length : Int) (by omega) (by omega) (by omega)
      hnb1 (fun k _ _ => hw1 k) bv
    simp only [Int.sub_zero] at tr ⊢
    rw [e1, e2, hnbv, hXv] at tr
    rw [e1, hnbv]
    split
    · next hlt =>
      rw [if_pos trivial]
      have := hs (ys.length : Int) ((nFeatures : Int) + 1) (Linear.pack st 0 ys.length).1
        (Linear.rhs st 0 ys.length) ((nFeatures : Int) + 1) hm (by omega) (by omega) (by omega) beta'
      rw [tr, tr] at this
      exact this
    · next hge =>
      have := hs (ys.length : Int) ((nFeatures : Int) + 1) (Linear.pack st 0 ys.length).1
        (Linear.rhs st 0 ys.length) (ys.length : Int) hm (by omega) (by omega) (by omega) beta'
      rw [tr, tr] at this
      exact this

/-- With 'simple' the prediction for a row is `tree_.value[leaf]`; the builder (scikit-learn,
trusted) stored there `node_value` of the fast criterion initialised on the leaf's sample range
`samples[start:end]`, which enumerates the training rows of the leaf: the prediction is their
weighted mean — for unit weights the plain leaf mean Σ y / count. -/
theorem simple_is_leaf_mean (d : Data) (values : List Rat) (leaves : List Nat)
    (range : Nat → Int × Int) (prevs : Nat → Fast) (junk : Rat)
    (hbuilder : ∀ l, l < values.length →
      values.getD l 0 = nodeValue Fast.ops
        (Fast.initWithX (prevs l) d (range l).1 (range l).2) junk)
    (hrange : ∀ l, l < values.length →
      0 ≤ (range l).1 ∧ (range l).1 < (range l).2 ∧ (range l).2 ≤ (prevs l).nSamples)
    (i : Nat) (hi : i < leaves.length) (hleaf : leaves[i] < values.length) :
    (predictSimple values leaves)[i]? = some (d.wmean (range leaves[i]).1 (range leaves[i]).2) ∧
    (d.sw = none →
      d.wmean (range leaves[i]).1 (range leaves[i]).2
        = rsum d.yk (range leaves[i]).1 (range leaves[i]).2
          / (((range leaves[i]).2 - (range leaves[i]).1 : Int) : Rat)) := by
  obtain ⟨r0, r1, r2⟩ := hrange leaves[i] hleaf
  constructor
  · simp only [predictSimple, List.getElem?_map, List.getElem?_eq_getElem hi, Option.map_some]
    rw [hbuilder leaves[i] hleaf]
    obtain ⟨hf, hc⟩ := Fast.init_good (prevs leaves[i]) d _ _ r0 r1 r2
    have acc : Acc Fast.ops (Fast.initWithX (prevs leaves[i]) d (range leaves[i]).1 (range leaves[i]).2)
        d (range leaves[i]).1 (range leaves[i]).1 (range leaves[i]).2 :=
      { core := hc, mean := fun a b wp h1 h2 h3 => Fast.mean_filled hf a b wp r0 h1 h2 h3 }
    rw [acc.nodeValue r1 junk]
  · intro hunit
    have hw1 : ∀ k, d.wk k = 1 := by intro k; simp [Data.wk, Data.w, hunit]
    have hW : d.W (range leaves[i]).1 (range leaves[i]).2
        = (((range leaves[i]).2 - (range leaves[i]).1 : Int) : Rat) := by
      unfold Data.W
      rw [rsum_congr d.wk (fun _ => 1) _ _ (fun k _ _ => hw1 k)]
      exact rsum_unit _ _ (by omega)
    have hWne : d.W (range leaves[i]).1 (range leaves[i]).2 ≠ 0 := by
      rw [hW]
      have : ((range leaves[i]).2 - (range leaves[i]).1 : Int) ≠ 0 := by omega
      exact_mod_cast this
    unfold Data.wmean
    rw [if_neg hWne, hW]
    congr 1
    unfold Data.WY
    apply rsum_congr
    intro k _ _
    rw [hw1 k]; grind

/-! ### numeric contract of the leaf regression (what the trusted-base assumption on LAPACK rests on) -/

/-- `_reglin` calls dgelss with a negative `rcond` (machine precision): no singular value of a full-rank leaf design is
treated as zero, so what dgelss returns is the least-squares solution the theorems above speak about; and
`_predict_reglin` accumulates the per-row dot products in a float64 column whatever the dtype of the rows -/
theorem leaf_regression_numeric_contract :
    C09.reglinRcondIsMachinePrecision = true ∧ C09.predBufferIsFloat64 = true := ⟨rfl, rfl⟩

/-! ### the tie to the functions the model transcribes -/

/-- the functions the hand-written model transcribes have, in the current source, the control skeleton (tests, loop
headers, kinds of statements and the names they bind) they had when the model was written and validated: no branch,
loop, early exit or rebinding has been added that the model does not describe -/
theorem modelled_functions_have_the_transcribed_shape :
    MlVerif.Gen.C09.shapeFit =
      "sig(self, X, y, sample_weight=None, check_input=True)|replace=;if(isinstance(self.criterion, str)){if(self.criterion == 'mselin'){self.criterion=}else{if(self.criterion == 'simple'){self.criterion=}}};try{call fit}finally{self.criterion=};if(self.criterion == 'mselin'){call _fit_reglin}else{if(hasattr(self, 'leaves_index_')){del self.leaves_index_};if(hasattr(self, 'leaves_mapping_')){del self.leaves_mapping_};if(hasattr(self, 'betas_')){del self.betas_}};return" ∧
    MlVerif.Gen.C09.shapeFitReglin =
      "sig(self, X, y, sample_weight)|tree=;self.leaves_index_=;if(tree.n_leaves != len(self.leaves_index_)){raise};pred_leaves=;self.leaves_mapping_=;self.betas_=;for((i,_) in enumerate(self.leaves_index_)){ind=;xs=;ys=;if(len(ys.shape) == 1){ys=};ys=;ws=;dec=;call node_beta}" ∧
    MlVerif.Gen.C09.shapePredict =
      "sig(self, X, check_input=True)|if(self.criterion == 'mselin'){return};return" ∧
    MlVerif.Gen.C09.shapePredictReglin =
      "sig(self, X, check_input=True)|leaves=;pred=;Xone=;for(i in range(0, X.shape[0])){li=;pred[]=};return" ∧
    MlVerif.Gen.C09.shapePredictLeaves =
      "sig(self, X)|leaves=;leaves=;mat=;res=;return" :=
  ⟨rfl, rfl, rfl, rfl, rfl⟩

/-! ### non-vacuity: concrete instances meeting the hypotheses -/

/-- y = (3,1,4,1,5,9), w = (1,2,3,1,2,1), order (3,1,0,5,4,2), node [1,6) -/
def exData : Data :=
  { y := vecFn [3, 1, 4, 1, 5, 9], sw := some (vecFn [1, 2, 3, 1, 2, 1]),
    samples := fun i => (([3, 1, 0, 5, 4, 2] : List Int).getD i.toNat 0), wN := 10 }

example : Triple 1 3 6 6 := ⟨by decide, by decide, by decide, by decide, by decide⟩
example : exData.W 1 6 = 9 ∧ exData.wmean 1 6 = 4 ∧ exData.wmse 1 6 = 46 / 9 := by decide +kernel
example : exData.wmse 1 3 = 8 / 9 ∧ exData.wmse 3 6 = 113 / 36 := by decide +kernel
/-- a stale fast criterion (buffers full of 7s) re-initialised on [1,6) still reports mean 4 -/
example :
    let stale : Fast := ⟨⟨0, 0, 0, 0, 0, 5, 5⟩, 6, fun _ => 0, fun _ => 7, fun _ => 7, fun _ => 7⟩
    nodeValue Fast.ops (fastAt stale exData 1 3 6) 99 = 4 ∧
    nodeImpurity Fast.ops (fastAt stale exData 1 3 6) 99 = 46 / 9 := by decide +kernel
example : xone (matFn [[10], [12], [13]]) 2 1 0 = 12 ∧ xone (matFn [[10], [12], [13]]) 2 1 1 = 1 := by
  decide +kernel
example : predictSimple [5, 7] [1, 0] = [7, 5] := by decide +kernel

/-- x = (0,1,2,3), y = (0,1,1,3), unit weights: the least-squares line is 9/10·x − 1/10,
residual 7/10, so the mselin impurity of the node [0,4) is 7/40 -/
def exLinData : Data :=
  { y := vecFn [0, 1, 1, 3], sw := none, samples := fun i => i, wN := 4 }
def exLinFresh : Linear :=
  { core := ⟨0, 0, 0, 0, 0, 0, 0⟩, nbvar := 2, X := matFn [[0], [1], [2], [3]], y := fun _ => 0,
    sample_w := fun _ => 5, sample_wy := fun _ => 5, sample_y := fun _ => 5, sample_f := fun _ => 5,
    sample_i := fun _ => 5, sum_wy := 5, sum_w := 5, f_buffer := fun _ => 5, pC := fun _ => 5 }
/-- a stand-in for `dgelss` that returns the minimiser of this system -/
def exSolver : Solver := fun _ _ _ _ B _ => fun j => if j = 0 then 9 / 10 else if j = 1 then -1 / 10 else B j
example : Triple 0 2 4 4 ∧ exLinFresh.nbvar < 4 - 0 ∧ exLinData.sw = none :=
  ⟨⟨by decide, by decide, by decide, by decide, by decide⟩, by decide, rfl⟩
example :
    let st := linearAt exSolver exLinFresh exLinData 0 2 4
    normalEqHolds 4 2 (Linear.pack st 0 4).1 4 (Linear.rhs st 0 4)
      (exSolver 4 2 (Linear.pack st 0 4).1 4 (Linear.rhs st 0 4) 4) = true ∧
    nodeImpurity (Linear.ops exSolver) st 99 = 7 / 40 ∧
    impurityImprovement (Linear.ops exSolver) st 1 0 0 = 1 ∧
    impurityImprovement (Linear.ops exSolver) st 0 1 0 = -1 / 2 := by decide +kernel

end MlVerif.C09
