/-
C14 — Traceable vectorizers equal scikit-learn's, n-grams kept as token tuples.
Property theorems only.  `MlVerif.Gen.C14` is regenerated from mlinsights/mlmodel/sklearn_text.py on
every run: `override_filters_like_sklearn` and `slice_bounds_nonneg` are statements about what the
source says *now*; `ngrams_agree` is proved through them, for every token list, every stop-word set
(`none` = no stop words) and every `ngram_range = (min_n, max_n)` of natural numbers.

What is proved: the override's analyzer output is, item by item, the flat tuple whose space-join is
scikit-learn's n-gram (same order, same multiplicity), and `join` is an order isomorphism between the
tuples and the joined strings, so the sorted vocabulary gives a tuple the column scikit-learn gives to
its string.  Counting, idf, min_df/max_df/max_features and `binary` are inherited scikit-learn code
(trusted, compared end to end by the correspondence run).
-/
import MlVerif.Lemmas.NGrams
import MlVerif.Lemmas.NGramsOrder

namespace MlVerif.C14
open MlVerif.NGrams MlVerif.Gen.C14

/-! ### what the source says now -/

/-- The override filters stop words exactly like scikit-learn: on the raw `str` tokens (before they
are wrapped in 1-tuples), keeping exactly the tokens that are not stop words, unchanged; the wrapping
loop and `space_join` have their standard shape.  (Fails on a tree where the filter compares 1-tuples
with strings and re-wraps: defect D18.) -/
theorem override_filters_like_sklearn :
    filterBeforeWrap = true ∧ (∀ isStop s, filterKeep isStop (.str s) = !isStop s) ∧
    (∀ w, filterElt w = w) ∧ wrapStd = true ∧ spaceJoinStd = true :=
  ⟨filterBeforeWrap_true, filterKeep_str, filterElt_id, wrapStd_true, spaceJoinStd_true⟩

theorem mem_pyRangeL (lo hi x : Int) : x ∈ pyRangeL lo hi ↔ lo ≤ x ∧ x < hi := by
  simp only [pyRangeL, List.mem_map, List.mem_range]
  constructor
  · rintro ⟨k, hk, rfl⟩; omega
  · intro h; exact ⟨(x - lo).toNat, by omega, by omega⟩

/-- Every slice `original_tokens[i : i + n]` the loops take has `0 ≤ i ≤ i + n ≤ len`: nothing is
negative (so Python's wrap-around never applies) and nothing is clipped — whatever `min_n ≥ 0`,
`max_n` and the number of tokens are. -/
theorem slice_bounds_nonneg (v : Env) (hmin : 0 ≤ v.minN) (n i : Int)
    (hn : n ∈ pyRangeL (nLo v) (nHi v))
    (hi : i ∈ pyRangeL (iLo { v with n := n }) (iHi { v with n := n })) :
    0 ≤ sliceLo { v with n := n, i := i } ∧
    sliceLo { v with n := n, i := i } ≤ sliceHi { v with n := n, i := i } ∧
    sliceHi { v with n := n, i := i } ≤ v.nTok := by
  rw [mem_pyRangeL] at hn hi
  rw [nLo_eq, nHi_eq] at hn
  rw [iLo_eq, iHi_eq] at hi
  rw [sliceLo_eq, sliceHi_eq]
  simp only at hi ⊢
  omega

/-- D18, model-level witness (independent of the regenerated definitions): a filter that runs *after*
the wrapping with the test `w not in stop_words` and the element `(w,)` removes nothing — a 1-tuple is
never a member of a set of strings — and nests every token one level deeper. -/
theorem d18_counterexample :
    (([Key.str ['t','h','e'], Key.str ['c','a','t']].map wrap).filter
        (fun w => !(inStop (fun t => t == ['t','h','e']) w))).map (fun w => Key.tup [w])
      = [Key.tup [Key.tup [Key.str ['t','h','e']]], Key.tup [Key.tup [Key.str ['c','a','t']]]] := rfl

/-! ### the analyzers agree -/

/-- Both methods enumerate the same n-grams of the stop-word-filtered tokens (`gramsSpec`), the
override as flat tuples, scikit-learn as space-joined strings. -/
theorem ngrams_are_grams (stop : Option (Tok → Bool)) (minN maxN : Nat) (tokens : List Tok) :
    wordNgramsML stop minN maxN tokens = (gramsSpec minN maxN (filt stop tokens)).map flatKey ∧
    wordNgramsSK stop minN maxN tokens = (gramsSpec minN maxN (filt stop tokens)).map join :=
  ⟨wordNgramsML_eq stop minN maxN tokens, wordNgramsSK_eq stop minN maxN tokens⟩

/-- `ngrams_agree`: for every token list, stop-word set and `(min_n, max_n)`, joining each key the
override produces gives exactly scikit-learn's list (same items, same order, same multiplicities),
and every produced key is a flat tuple of tokens (no nesting, no bare string). -/
theorem ngrams_agree (stop : Option (Tok → Bool)) (minN maxN : Nat) (tokens : List Tok) :
    (wordNgramsML stop minN maxN tokens).map joinKey = wordNgramsSK stop minN maxN tokens ∧
    ∀ k ∈ wordNgramsML stop minN maxN tokens, ∃ g : List Tok, k = flatKey g := by
  rw [wordNgramsML_eq, wordNgramsSK_eq]
  constructor
  · rw [List.map_map]
    exact List.map_congr_left (fun g _ => joinKey_flat g)
  · intro k hk
    obtain ⟨g, _, rfl⟩ := List.mem_map.1 hk
    exact ⟨g, rfl⟩

theorem mem_pySlice {α} (l : List α) (lo hi : Int) (x : α) (h : x ∈ pySlice l lo hi) : x ∈ l :=
  List.mem_of_mem_drop (List.mem_of_mem_take h)

/-- The tokens inside every produced tuple are tokens of the document: if the tokenizer yields good
tokens (non-empty, every character above `' '`), every vocabulary key is a tuple of good tokens. -/
theorem grams_good (stop : Option (Tok → Bool)) (minN maxN : Nat) (tokens : List Tok)
    (h : goodTup tokens) : ∀ g ∈ gramsSpec minN maxN (filt stop tokens), goodTup g := by
  have hf : ∀ t ∈ filt stop tokens, goodTok t := by
    intro t ht
    cases stop with
    | none => exact h t ht
    | some isStop => exact h t (List.mem_filter.1 ht).1
  intro g hg t ht
  unfold gramsSpec at hg
  by_cases h1 : maxN = 1
  · simp only [h1, ne_eq, not_true_eq_false, if_false, List.mem_map] at hg
    obtain ⟨t', ht', rfl⟩ := hg
    simp at ht; subst ht; exact hf _ ht'
  · simp only [ne_eq, h1, not_false_eq_true, if_true, List.mem_append, List.mem_flatMap, List.mem_map] at hg
    rcases hg with hg | ⟨n, _, i, _, rfl⟩
    · by_cases h2 : minN = 1
      · simp only [h2, if_true, List.mem_map] at hg
        obtain ⟨t', ht', rfl⟩ := hg
        simp at ht; subst ht; exact hf _ ht'
      · simp [h2] at hg
    · exact hf t (mem_pySlice _ _ _ _ ht)

/-! ### tuples and joined strings are ordered alike -/

/-- `join_injective_monotone`: on tuples of non-empty tokens whose characters are all greater than
`' '`, `" ".join` is injective and strictly monotone from tuple order to string order (in fact an
order isomorphism onto its image). -/
theorem join_injective_monotone (g1 g2 : List Tok) (h1 : goodTup g1) (h2 : goodTup g2) :
    (join g1 = join g2 → g1 = g2) ∧ (g1 < g2 → join g1 < join g2) ∧ (g1 < g2 ↔ join g1 < join g2) :=
  ⟨join_injective g1 g2 h1 h2, join_strictMono g1 g2 h1 h2, join_lt_iff g1 g2 h1 h2⟩

/-- Hence the sorted vocabulary assigns the same column: the number of vocabulary tuples below `g`
equals the number of joined strings below `join g` (the column index `sorted()` gives each of them). -/
theorem vocabulary_columns_agree (K : List (List Tok)) (g : List Tok)
    (hK : ∀ k ∈ K, goodTup k) (hg : goodTup g) :
    K.countP (fun k => decide (k < g)) = (K.map join).countP (fun s => decide (s < join g)) := by
  rw [List.countP_map]
  apply List.countP_congr
  intro k hk
  simp only [Function.comp, decide_eq_true_eq]
  exact join_lt_iff k g (hK k hk) hg

/-! ### the tie to the functions the model transcribes -/

/-- the functions the hand-written model transcribes have, in the current source, the control skeleton (tests, loop
headers, kinds of statements and the names they bind) they had when the model was written and validated: no branch,
loop, early exit or rebinding has been added that the model does not describe -/
theorem modelled_functions_have_the_transcribed_shape :
    MlVerif.Gen.C14.shapeMixinNgrams =
      "sig(self, tokens, stop_words=None)|if(stop_words is not None){tokens=};if(tokens is not None){new_tokens=;for(token in tokens){call append};tokens=};(min_n,max_n)=;if(max_n != 1){original_tokens=;if(min_n == 1){tokens=;min_nAdd=}else{tokens=};n_original_tokens=;tokens_append=;def space_join{new_tokens=;for(token in tokens){if(isinstance(token, str)){call append}else{if(isinstance(token, tuple)){call extend}else{raise}}};return};for(n in range(min_n, min(max_n + 1, n_original_tokens + 1))){for(i in range(n_original_tokens - n + 1)){call tokens_append}}};return" ∧
    MlVerif.Gen.C14.shapeCountNgrams =
      "sig(self, tokens, stop_words=None)|return" ∧
    MlVerif.Gen.C14.shapeTfidfNgrams =
      "sig(self, tokens, stop_words=None)|return" :=
  ⟨rfl, rfl, rfl⟩

/-! ### non-vacuity: concrete instances -/

example : (wordNgramsML (some (fun t => t == ['a'])) 1 2 [['a'], ['c','a','t'], ['s','a','t']]).map joinKey
    = [['c','a','t'], ['s','a','t'], ['c','a','t',' ','s','a','t']] := by decide +kernel
example : wordNgramsSK (some (fun t => t == ['a'])) 1 2 [['a'], ['c','a','t'], ['s','a','t']]
    = [['c','a','t'], ['s','a','t'], ['c','a','t',' ','s','a','t']] := by decide +kernel
example : wordNgramsML (some (fun t => t == ['a'])) 1 1 [['a'], ['b']] = [flatKey [['b']]] := rfl
-- a document shorter than n, and an empty document
example : wordNgramsSK none 2 3 [['a', 'b']] = [] := by decide +kernel
example : wordNgramsML none 1 3 [] = [] := rfl
example : goodTup [['a', 'b'], ['c']] := by
  intro t ht; simp at ht; rcases ht with rfl | rfl <;> exact ⟨by simp, by decide⟩
-- tuple order vs string order on a case where it matters: ('a',) < ('a','b') < ('ab',)
example : ([['a']] : List Tok) < [['a'], ['b']] ∧ ([['a'], ['b']] : List Tok) < [['a', 'b']] ∧
    join [['a']] < join [['a'], ['b']] ∧ join [['a'], ['b']] < join [['a', 'b']] := by decide +kernel
example : ({ minN := 2, maxN := 3, nTok := 4 } : Env).minN ≥ 0 ∧
    (2 : Int) ∈ pyRangeL (nLo { minN := 2, maxN := 3, nTok := 4 }) (nHi { minN := 2, maxN := 3, nTok := 4 }) := by
  decide +kernel

end MlVerif.C14
