/-
C16 — Pipeline introspection and drawing describe the pipeline they are given.
Property theorems only.  `MlVerif.Gen.C16` is regenerated from mlinsights/helpers/pipeline.py and
mlinsights/plotting/visualize.py on every run: the `source_*` theorems are statements about what the
source says *now*, and the model (`MlVerif.Model.Pipeline`) computes with those regenerated definitions.
All theorems quantify over every pipeline `p : Pipe` (an inductive type: nesting depth is unbounded).
-/
import MlVerif.Gen.C16
import MlVerif.Model.Pipeline
import MlVerif.Lemmas.Pipeline
import MlVerif.Lemmas.PipelineReach

namespace MlVerif.C16
open MlVerif.Gen.C16 MlVerif.Pipeline

/-! ## what the source says (regenerated definitions) -/

/-- the root gets `(0,)` and child `i` of every container gets `parent + (i,)` -/
theorem source_coordinates (coor : List Nat) (i : Nat) :
    rootCoord = [0] ∧ childCoordPipeline coor i = coor ++ [i] ∧ childCoordColumns coor i = coor ++ [i] ∧
    childCoordUnion coor i = coor ++ [i] := by
  refine ⟨by unfold rootCoord; rfl, ?_, ?_, ?_⟩
  · unfold childCoordPipeline; simp
  · unfold childCoordColumns; simp
  · unfold childCoordUnion; simp

/-- the containers are dispatched on before the generic mixins / BaseEstimator (a Pipeline is a BaseEstimator,
a FeatureUnion is a TransformerMixin), each iterates its own list with `enumerate`, the model is the second
component of the tuple and only the ColumnTransformer passes the column selection (third component) down -/
theorem source_enumerate_dispatch :
    enumDispatch.drop 3 = ["Pipeline", "ColumnTransformer", "FeatureUnion", "TransformedTargetRegressor",
      "TransformerMixin|ClassifierMixin|RegressorMixin", "BaseEstimator"] ∧
    enumBranches = [("Pipeline", "pipe.steps", "1", "none"), ("ColumnTransformer", "pipe.transformers", "1", "pos2"),
      ("FeatureUnion", "pipe.transformer_list", "1", "none")] ∧
    passthroughKeyword = "passthrough" := ⟨rfl, rfl, rfl⟩

/-- `" " * indent * (len(coor) - 1)` with the default indent: three spaces per level below the root -/
theorem source_indent (len : Int) : indentWidth defaultIndent len = 3 * (len - 1) := by
  unfold indentWidth defaultIndent; omega

/-- for EVERY value of the `indent` argument: `indent` spaces per level below the root (the root is not indented) -/
theorem source_indent_any (indent len : Int) : indentWidth indent len = indent * (len - 1) := by
  unfold indentWidth; rfl

theorem source_line_templates :
    lineTemplates = [["{spaces}", "{model.__class__.__name__}"],
      ["{spaces}", "{model.__class__.__name__}", "(", "{v}", ")"]] ∧ colJoin = "','.join(map(str, vs))" := ⟨rfl, rfl⟩

/-- `_pipeline_info` tests the containers first and TransformerMixin before ClassifierMixin before RegressorMixin;
integer columns on a list of names are padded up to and INCLUDING position `max(vs)` -/
theorem source_info_dispatch (len mx : Int) :
    infoDispatch = ["Pipeline", "ColumnTransformer", "FeatureUnion", "TransformedTargetRegressor", "TransformerMixin",
      "ClassifierMixin", "RegressorMixin", "str"] ∧
    (padGuard len mx = true ↔ len ≤ mx) ∧
    predictorOutputs = [["PredictedLabel", "Probabilities"], ["Prediction"]] ∧ namePrefix = "-v-" := by
  refine ⟨rfl, ?_, rfl, rfl⟩
  unfold padGuard; simp

/-- every data schema (DataFrame, ndarray, list of names) is given ports `sch0:f<k>`; edges go
`port -> node<i>` and `node<i> -> port`; output ports are `sch<i>:f<c>` -/
theorem source_dot_templates :
    portTemplates = [["data", "%", "sch0:f%d", "k"], ["data", "%", "sch0:f%d", "i"], ["data", "%", "sch0:f%d", "k"],
      ["columns", "sch0:f", "{c}"], ["columns", "sch", "{i}", ":f", "{c}"]] ∧
    edgeTemplates = [["  ", "{nc}", " -> node", "{i}", ";"], ["  node", "{i}", " -> ", "{nc}", ";"]] := ⟨rfl, rfl⟩

/-! ## enumerate_pipeline_models -/

/-- the coordinates yielded for `p` are the positions of `p`, shifted by the root coordinate -/
theorem enumerate_coords_eq (p : Pipe) :
    (enumerate p rootCoord none).map (·.coord) = (paths p).map (rootCoord ++ ·) :=
  enumerate_coords p rootCoord none

/-- coordinates are pairwise distinct -/
theorem coords_distinct (p : Pipe) : ((enumerate p rootCoord none).map (·.coord)).Nodup := by
  rw [enumerate_coords_eq]
  have h := paths_nodup p
  unfold List.Nodup at *
  rw [List.pairwise_map]
  exact h.imp (by intro a b hab e; exact hab (List.append_cancel_left e))

/-- Every estimator nested in the pipeline is yielded exactly once, parents first:
(1) a coordinate `root ++ q` is yielded iff `q` addresses a nested estimator (`p.at? q`),
(2) nothing else is yielded, (3) no coordinate twice,
(4) the parent `root ++ q` of a yielded `root ++ q ++ [i]` is yielded strictly earlier. -/
theorem enumerate_is_preorder (p : Pipe) :
    let coords : List (List Nat) := (enumerate p rootCoord none).map (·.coord)
    (∀ q, rootCoord ++ q ∈ coords ↔ (p.at? q).isSome) ∧
    (∀ c ∈ coords, ∃ q, c = rootCoord ++ q ∧ (p.at? q).isSome) ∧
    coords.Nodup ∧
    (∀ (k : Nat) (q : List Nat) (i : Nat), coords[k]? = some (rootCoord ++ (q ++ [i])) → ∃ k', k' < k ∧ coords[k']? = some (rootCoord ++ q)) := by
  intro coords
  have hc : coords = (paths p).map (rootCoord ++ ·) := enumerate_coords_eq p
  refine ⟨?_, ?_, coords_distinct p, ?_⟩
  · intro q
    rw [hc, ← mem_paths_iff]
    simp only [List.mem_map]
    constructor
    · rintro ⟨q', hq', e⟩; rwa [← List.append_cancel_left e]
    · intro h; exact ⟨q, h, rfl⟩
  · intro c hcm
    rw [hc] at hcm
    simp only [List.mem_map] at hcm
    obtain ⟨q, hq, rfl⟩ := hcm
    exact ⟨q, rfl, (mem_paths_iff p q).1 hq⟩
  · intro k q i hk
    rw [hc] at hk ⊢
    simp only [List.getElem?_map, Option.map_eq_some_iff] at hk
    obtain ⟨x, hx, e⟩ := hk
    have e' := List.append_cancel_left e
    subst e'
    have hmem : q ++ [i] ∈ paths p := List.mem_of_getElem? hx
    have hq : q ∈ paths p := paths_prefix_closed p q i hmem
    obtain ⟨k', hk', hqk⟩ := List.getElem_of_mem hq
    have hklt : k < (paths p).length := by
      rcases Nat.lt_or_ge k (paths p).length with h | h
      · exact h
      · rw [List.getElem?_eq_none h] at hx; cases hx
    have hxk : (paths p)[k] = q ++ [i] := by
      rw [List.getElem?_eq_getElem hklt] at hx; exact Option.some.inj hx
    refine ⟨k', ?_, by simp [List.getElem?_eq_getElem hk', hqk]⟩
    rcases Nat.lt_trichotomy k' k with h | h | h
    · exact h
    · subst h
      rw [hqk] at hxk
      have := congrArg List.length hxk
      simp at this
    · exfalso
      have hp := List.pairwise_iff_getElem.1 (paths_pairwise p) k k' hklt hk' h
      rw [hxk, hqk] at hp
      exact hp (List.prefix_append q [i])

/-- the length of a coordinate is the nesting depth of the estimator it addresses (the root has depth 1) -/
theorem coord_length_is_depth (p : Pipe) :
    ∀ e ∈ enumerate p rootCoord none, ∃ q s, e.coord = rootCoord ++ q ∧ p.at? q = some s ∧
      e.coord.length = q.length + 1 := by
  intro e he
  have hmem : e.coord ∈ (enumerate p rootCoord none).map (·.coord) := List.mem_map_of_mem he
  obtain ⟨q, hq, hs⟩ := (enumerate_is_preorder p).2.1 e.coord hmem
  obtain ⟨s, hs'⟩ := Option.isSome_iff_exists.1 hs
  refine ⟨q, s, hq, hs', ?_⟩
  rw [hq]; simp [rootCoord] <;> omega

/-- what is yielded at a coordinate is the estimator nested at that position (its class name is reported) -/
theorem enumerate_yields_the_nested_estimator (p : Pipe) :
    ∀ e ∈ enumerate p rootCoord none, ∃ q s, e.coord = rootCoord ++ q ∧ p.at? q = some s ∧ e.label = s.label := by
  intro e he
  have hmem : CL e ∈ (enumerate p rootCoord none).map CL := List.mem_map_of_mem he
  rw [enumerate_labels] at hmem
  simp only [List.mem_map] at hmem
  obtain ⟨q, hq, heq⟩ := hmem
  simp only [CL, Prod.mk.injEq] at heq
  obtain ⟨s, hs⟩ := Option.isSome_iff_exists.1 ((mem_paths_iff p q).1 hq)
  exact ⟨q, s, heq.1.symm, hs, by rw [← heq.2]; simp [labelAt, hs]⟩

/-! ## pipeline2str -/

/-- one line per yielded model, indented by three spaces per level below the root, naming the class of the
model and, for members of a ColumnTransformer, the selected columns -/
theorem str_one_line_per_model (p : Pipe) :
    (pipeline2strLines p).length = (enumerate p rootCoord none).length ∧
    ∀ k (h : k < (enumerate p rootCoord none).length),
      (pipeline2strLines p)[k]? =
        some (String.ofList (List.replicate (3 * (((enumerate p rootCoord none)[k]).coord.length - 1)) ' ') ++
          ((enumerate p rootCoord none)[k]).label ++
          (match ((enumerate p rootCoord none)[k]).cols with
           | none => ""
           | some c => "(" ++ ",".intercalate c.strs ++ ")")) := by
  refine ⟨by simp [pipeline2strLines], ?_⟩
  intro k h
  simp only [pipeline2strLines, List.getElem?_map, List.getElem?_eq_getElem h, Option.map_some, lineOf, spaces]
  rw [source_indent]
  have : (3 * ((((enumerate p rootCoord none)[k]).coord.length : Int) - 1)).toNat =
      3 * (((enumerate p rootCoord none)[k]).coord.length - 1) := by omega
  rw [this]
  cases ((enumerate p rootCoord none)[k]).cols <;> rfl

/-! ## alter_pipeline_for_debugging (abstract interpreter with writer-style instrumentation) -/

/-- the instrumented pipeline returns exactly what the plain pipeline returns, for every pipeline, every
semantics of the leaves and every input -/
theorem instrumented_same_output {α : Type} (S : Sem α) (p : Pipe) (coor : List Nat) (x : α) :
    (runI S p coor x).1 = run S p x := runI_fst S p coor x

/-- A Pipeline records its own input and output first; the records of its steps (coordinates one longer)
chain: the first recorded input is the input of the pipeline, the recorded input of each next step is the
recorded output of the previous one, and the last recorded output is the output of the pipeline. -/
theorem recorded_io_chain {α : Type} (S : Sem α) (steps : List Pipe) (coor : List Nat) (x : α) :
    let r := runI S (.pipeline steps) coor x
    r.2.head? = some ⟨coor, x, r.1⟩ ∧ ChainIO x r.1 (stepRecords coor r.2.tail) := by
  simp only [runI, List.head?_cons, List.tail_cons, true_and]
  exact steps_chain S steps coor 0 x

/-- the members of a FeatureUnion all record the input of the union; the transformers of a ColumnTransformer
record the columns selected for them -/
theorem recorded_members_input {α : Type} (S : Sem α) (coor : List Nat) (x : α) :
    (∀ items, ∀ r ∈ stepRecords coor (runI S (.union items) coor x).2.tail, r.inp = x) ∧
    (∀ items rem, ∀ r ∈ stepRecords coor (runI S (.columns items rem) coor x).2.tail,
      ∃ pc ∈ items, r.inp = S.select pc.2 x) := by
  constructor
  · intro items r hr
    simp only [runI, List.tail_cons] at hr
    exact union_members_input S items coor 0 x r hr
  · intro items rem r hr
    simp only [runI, List.tail_cons] at hr
    exact columns_members_input S items coor 0 x r hr

/-- every record carries the coordinate of a model at or below the instrumented one -/
theorem recorded_coordinates_below {α : Type} (S : Sem α) (p : Pipe) (coor : List Nat) (x : α) :
    ∀ r ∈ (runI S p coor x).2, coor.length ≤ r.coord.length := runI_len S p coor x

/-! ## pipeline2dot -/

/-- the DOT graph is acyclic: with `rank (sch j) = 2j+1`, `rank (node i) = 2i`, every edge goes from a lower to a
higher rank (from strictly earlier schema ports to `node i`, from `node i` to `sch i`); hence no path returns to
its start.  Holds for every list of drawn steps, hence for every pipeline and schema. -/
theorem dot_acyclic (p : Pipe) (schema : List String) (g : Dot) (h : pipeline2dot p schema = .ok g) :
    (∀ e ∈ g.edges, e.1.rank < e.2.rank) ∧ ∀ v, ¬ Path g.edges v v := by
  unfold pipeline2dot at h
  split at h
  · cases h
  · cases h
    rename_i infos _ _
    have hinc := toDot_edges_increase schema infos
    exact ⟨hinc, fun v hp => Nat.lt_irrefl _ (Path.rank_lt hinc hp)⟩

/-- edges into `node i` start at ports of strictly earlier records; edges out of `node i` end at ports of `sch i` -/
theorem dot_edges_ordered (p : Pipe) (schema : List String) (g : Dot) (h : pipeline2dot p schema = .ok g) :
    ∀ s ∈ g.steps, 1 ≤ s.idx ∧ (∀ j c, Src.port j c ∈ s.ins → j < s.idx) ∧ ∀ c ∈ s.outs, c < s.ports.length := by
  unfold pipeline2dot at h
  split at h
  · cases h
  · cases h
    rename_i infos _ _
    intro s hs
    have hcols : ∀ e ∈ initCols schema, e.2.1 < 1 := by
      intro e he
      rcases mem_registerOuts.1 he with h | ⟨c, o, _, rfl⟩
      · simp at h
      · simp
    have h1 := toDotAux_ins_lt schema.length infos 1 (initCols schema) (by omega) hcols s hs
    exact ⟨h1.1, h1.2, toDotAux_outs_lt schema.length infos 1 (initCols schema) s hs⟩

/-- every input column is a port of `sch0`, every drawn step is a node `node i` (i = 1, 2, ...) followed by its
record `sch i`, and every estimator of the pipeline that is not a container (every 'passthrough' as `Identity`)
is one of the drawn steps, in order -/
theorem dot_every_step_and_column_appears (p : Pipe) (schema : List String) (g : Dot)
    (h : pipeline2dot p schema = .ok g) :
    g.inputs = schema ∧ g.steps.map (·.idx) = List.range' 1 g.steps.length ∧
    (leafLabels p).Sublist (g.steps.map (·.label)) := by
  unfold pipeline2dot at h
  split at h
  · cases h
  · cases h
    rename_i infos c' heq
    have hl := toDotAux_labels schema.length infos 1 (initCols schema)
    refine ⟨rfl, ?_, ?_⟩
    · have : (toDot schema infos).steps.length = infos.length := by
        have := congrArg List.length hl.1; simpa [toDot] using this
      simp only [toDot] at this ⊢
      rw [hl.2.1, this]
    · simp only [toDot]
      rw [hl.1]
      exact pipelineInfo_labels p _ _ infos c' heq

/-- Every edge endpoint is declared: an edge into `node i` starts at a declared port `sch j:f c` (a port of the
input record or of the record of an earlier step, never a raw undeclared name), an edge out of `node i` ends at a
declared port of `sch i`, and `node i` itself is declared.  Hypothesis: the named columns used by the
ColumnTransformers are columns of the schema (what scikit-learn itself requires). -/
theorem dot_endpoints_declared (p : Pipe) (schema : List String) (g : Dot) (hn : namedIn schema p = true)
    (h : pipeline2dot p schema = .ok g) :
    ∀ s ∈ g.steps, (∀ src ∈ s.ins, ∃ j c, src = .port j c ∧ g.portDeclared j c) ∧
      (∀ c ∈ s.outs, g.portDeclared s.idx c) := by
  unfold pipeline2dot at h
  split at h
  · cases h
  · cases h
    rename_i infos c' heq
    intro s hs
    constructor
    · intro src hsrc
      obtain ⟨j, c, rfl, hd⟩ := toDotAux_declared schema.length infos 1 (initCols schema)
        (fun j c => j = 0 ∧ c < schema.length) (initCols_entries schema) (fun k hk => ⟨rfl, hk⟩)
        (info_closed p schema infos c' hn heq) s hs src hsrc
      exact ⟨j, c, rfl, hd⟩
    · intro c hc
      exact Or.inr ⟨s, hs, rfl, toDotAux_outs_lt schema.length infos 1 (initCols schema) s hs c hc⟩

/-- A weaker, graph-level form kept from an earlier stage (it does not look at the pipeline): if the drawn graph
is `wellFed` (a decidable condition evaluated on the graph itself: every step that has inputs has one that is a
declared port of `sch0` or of a step that itself has inputs, and the port labels of each record are distinct), then
every step that has inputs is reachable from `sch0` together with every port of its record.  The driver evaluates
`wellFed` on every generated case (histogram `dot:wellFed`).  `dot_outputs_reachable` below needs no such
hypothesis. -/
theorem dot_outputs_reachable_partial (p : Pipe) (schema : List String) (g : Dot)
    (h : pipeline2dot p schema = .ok g) (hw : g.wellFed = true) :
    (∀ s ∈ g.steps, s.ins ≠ [] → Reach g (.box s.idx) ∧ ∀ c, c < s.ports.length → Reach g (.port s.idx c)) ∧
    (∀ last, g.steps.getLast? = some last → last.ins ≠ [] →
      ∀ c, c < last.ports.length → Reach g (.port last.idx c)) := by
  have hord := dot_edges_ordered p schema g h
  have houts : ∀ s ∈ g.steps, s.ports.Nodup → ∀ c, c < s.ports.length → c ∈ s.outs := by
    unfold pipeline2dot at h
    split at h
    · cases h
    · cases h
      exact toDotAux_outs_all _ _ _ _
  have main := reach_of_wellFed g (fun s hs => (hord s hs).2.1) houts hw
  refine ⟨fun s hs hne => main s.idx s hs rfl hne, ?_⟩
  intro last hl hne c hc
  exact (main last.idx last (List.mem_of_getLast? hl) rfl hne).2 c hc

/-- FULL STATEMENT: for every pipeline `p` and every NON-EMPTY schema whose columns include the named columns used
by the ColumnTransformers of `p` (what scikit-learn itself requires; the hypothesis of `dot_endpoints_declared`),
if `pipeline2dot` draws a graph `g` then
(1) every drawn step that has at least one input is reachable from the ports of the input record `sch0`, together
    with EVERY port of its own record;
(2) the last drawn step has an input and a non-empty record, so the final outputs (all the ports of the record of
    the last step) are reachable from the inputs.
No condition on the drawn graph is assumed: the invariant (`FedInv`, by mutual structural induction over `Pipe`
in `Lemmas/PipelineReach.lean`) follows the names through the name -> port table of `pipeline2dot` and shows that
every name handed to a later step resolves to a reachable port.  The only drawn step without input is the `Identity`
of an EMPTY passthrough remainder; its single output is a fresh `-v-<n>` name which shadows no earlier name, and
the `union` that follows it is fed by the outputs of the transformers.
Excluded, by explicit decidable hypotheses: the empty schema (`schema ≠ []`: with no input column nothing is
reachable, see the example below) and named columns that are not columns of the schema (`namedIn`).  A
ColumnTransformer entry that selects zero columns needs NO exclusion: on a dict `_pipeline_info` hands such an entry
all the columns (`all(isinstance(o, int) for o in [])` is true), on a list of names it raises (`max([])`), and a
pipeline on which `pipeline2dot` raises draws no graph. -/
theorem dot_outputs_reachable (p : Pipe) (schema : List String) (g : Dot) (hs : schema ≠ [])
    (hn : namedIn schema p = true) (h : pipeline2dot p schema = .ok g) :
    (∀ s ∈ g.steps, s.ins ≠ [] → Reach g (.box s.idx) ∧ ∀ c, c < s.ports.length → Reach g (.port s.idx c)) ∧
    (∀ last, g.steps.getLast? = some last →
      last.ins ≠ [] ∧ last.ports ≠ [] ∧ Reach g (.box last.idx) ∧
        ∀ c, c < last.ports.length → Reach g (.port last.idx c)) := by
  unfold pipeline2dot at h
  split at h
  · cases h
  · cases h
    rename_i infos c' heq
    have hr := toDot_reach schema infos c'.names (info_fed p schema infos c' hs hn heq)
    refine ⟨hr.1, ?_⟩
    intro last hl
    obtain ⟨h1, h2⟩ := hr.2 last hl
    obtain ⟨h3, h4⟩ := hr.1 last (List.mem_of_getLast? hl) h1
    exact ⟨h1, h2, h3, h4⟩

/-! ### the tie to the functions the model transcribes -/

/-- the functions the hand-written model transcribes have, in the current source, the control skeleton (tests, loop
headers, kinds of statements and the names they bind) they had when the model was written and validated: no branch,
loop, early exit or rebinding has been added that the model does not describe -/
theorem modelled_functions_have_the_transcribed_shape :
    MlVerif.Gen.C16.shapePipelineInfo =
      "sig(pipe, data, context, former_data=None)|def _get_name{if(info is None){raise};if(isinstance(prefix, list)){return};if(isinstance(prefix, int)){prefix=};assert;sug=;while(sug in context['names']){context[]Add=;sug=};context[][]=;return};def _get_name_simple{if(isinstance(name, str)){return};res=;assert;return};if(isinstance(pipe, Pipeline)){infos=;for((_,model) in pipe.steps){info=;data=;call extend};return};if(isinstance(pipe, ColumnTransformer)){infos=;outputs=;for((_,model,vs) in pipe.transformers){if(all(map(lambda o: isinstance(o, int), vs))){new_data=;if(isinstance(data, OrderedDict)){new_data=}else{mx=;while(len(new_data) <= mx){if(len(data) > len(new_data)){call append}else{call append}}}}else{new_data=;for(v in vs){new_data[]=}};info=;call extend;call extend};final_hat=;if(pipe.remainder == 'passthrough'){if(isinstance(data, dict)){keys=;merged=;for((_,_,vs) in pipe.transformers){call update};new_data=}else{new_data=};info=;call extend;call extend;final_hat=};if(len(pipe.transformers) > 1 or final_hat){info=;info[]=;call append};return};if(isinstance(pipe, FeatureUnion)){infos=;outputs=;for((_,model) in pipe.transformer_list){info=;new_outputs=;for(o in info[-1]['outputs']){add=;call append;call append};info[][]=;call extend};if(len(pipe.transformer_list) > 1){info=;info[]=;call append};return};if(isinstance(pipe, TransformedTargetRegressor)){raise};if(isinstance(pipe, TransformerMixin)){info=;if(len(data) == 1){info[]=;info[]=;info=}else{info[]=;info[]=;info=};return};if(isinstance(pipe, ClassifierMixin)){info=;exp=;if(len(data) == 1){info[]=;info[]=;info=}else{info[]=;info[]=;info=};return};if(isinstance(pipe, RegressorMixin)){info=;exp=;if(len(data) == 1){info[]=;info[]=;info=}else{info[]=;info[]=;info=};return};if(isinstance(pipe, str)){if(pipe == 'passthrough'){info=;info[]=;if(isinstance(data, (OrderedDict, dict)) and len(data) > 1){info[]=}else{info[]=};info=}else{raise};return};raise" ∧
    MlVerif.Gen.C16.shapePipeline2dot =
      "sig(pipe, data, **params)|raw_data = data ; data = OrderedDict() ; if isinstance(raw_data, pandas.DataFrame): for k, c in enumerate(raw_data.columns): data[c] = 'sch0:f%d' % k elif isinstance(raw_data, numpy.ndarray): if len(raw_data.shape) != 2: raise NotImplementedError(f'Unexpected training data dimension {raw_data.shape}.') for i in range(raw_data.shape[1]): data['X%d' % i] = 'sch0:f%d' % i elif isinstance(raw_data, list): for k, c in enumerate(raw_data): data[c] = 'sch0:f%d' % k else: raise TypeError(f'Unexpected data type: {type(raw_data)}.') ; options = {'orientation': 'portrait', 'ranksep': '0.25', 'nodesep': '0.05', 'width': '0.5', 'height': '0.1'} ; options.update(params) ; exp = ['digraph{'] ; for opt in ['orientation', 'pad', 'nodesep', 'ranksep']: if opt in options: exp.append(f' {opt}={options[opt]};') ; fontsize = 8 ; info = [dict(schema_after=data)] ; names = OrderedDict() ; for d in data: names[d] = info ; info.extend(_pipeline_info(pipe, data, context=dict(n=0, names=names))) ; columns = OrderedDict() ; for i, line in enumerate(info): if i == 0: schema = line['schema_after'] labs = [] for c, col in enumerate(schema): columns[col] = f'sch0:f{c}' labs.append(f'<f{c}> {col}') node = ' sch0[label='{0}',shape=record,fontsize={1}];'.format('|'.join(labs), params.get('fontsize', fontsize)) exp.append(node) else: exp.append('') if line['type'] == 'transform': node = ' node{0}[label='{1}',shape=box,style='filled,rounded',color=cyan,fontsize={2}];'.format(i, line['name'], int(params.get('fontsize', fontsize) * 1.5)) else: node = ' node{0}[label='{1}',shape=box,style='filled,rounded',color=yellow,fontsize={2}];'.format(i, line['name'], int(params.get('fontsize', fontsize) * 1.5)) exp.append(node) for inp in line['inputs']: assert not isinstance(inp, int), 'Unable to guess columns {} in/n{}/n---/n{}'.format(inp, pprint.pformat(columns), '/n'.join(exp)) nc = columns.get(inp, inp) edge = f' {nc} -> node{i};' exp.append(edge) labs = [] for c, out in enumerate(line['outputs']): columns[out] = f'sch{i}:f{c}' labs.append(f'<f{c}> {out}') node = ' sch{0}[label='{1}',shape=record,fontsize={2}];'.format(i, '|'.join(labs), params.get('fontsize', fontsize)) exp.append(node) for out in line['outputs']: nc = columns[out] edge = f' node{i} -> {nc};' if edge not in exp: exp.append(edge) ; exp.append('}') ; return '/n'.join(exp)" ∧
    MlVerif.Gen.C16.shapePipeline2str =
      "sig(pipe, indent=3)|rows = [] ; for coor, model, vs in enumerate_pipeline_models(pipe): spaces = ' ' * indent * (len(coor) - 1) if vs is None: msg = f'{spaces}{model.__class__.__name__}' else: v = ','.join(map(str, vs)) msg = f'{spaces}{model.__class__.__name__}({v})' rows.append(msg) ; return '/n'.join(rows)" ∧
    MlVerif.Gen.C16.shapeEnumerate =
      "sig(pipe, coor=None, vs=None)|if(coor is None){coor=};if(pipe == 'passthrough'){ClassDef;expr}else{expr;if(hasattr(pipe, 'transformer_and_mapper_list') and len(pipe.transformer_and_mapper_list)){raise}else{if(hasattr(pipe, 'mapper') and pipe.mapper){for(couple in enumerate_pipeline_models(pipe.mapper, coor + (0,))){expr}}else{if(hasattr(pipe, 'built_features')){for((i,(columns,transformers,_)) in enumerate(pipe.built_features)){if(isinstance(columns, str)){columns=};if(transformers is None){expr}else{for(couple in enumerate_pipeline_models(transformers, coor + (i,), columns)){expr}}}}else{if(isinstance(pipe, Pipeline)){for((i,(_,model)) in enumerate(pipe.steps)){for(couple in enumerate_pipeline_models(model, coor + (i,))){expr}}}else{if(isinstance(pipe, ColumnTransformer)){fitted=;for((i,(name,fitted_transformer,column)) in enumerate(pipe.transformers)){if(not isinstance(fitted_transformer, str)){fitted_transformer=};for(couple in enumerate_pipeline_models(fitted_transformer, coor + (i,), column)){expr}}}else{if(isinstance(pipe, FeatureUnion)){for((i,(_,model)) in enumerate(pipe.transformer_list)){for(couple in enumerate_pipeline_models(model, coor + (i,))){expr}}}else{if(isinstance(pipe, TransformedTargetRegressor)){raise}else{if(isinstance(pipe, (TransformerMixin, ClassifierMixin, RegressorMixin))){pass}else{if(isinstance(pipe, BaseEstimator)){pass}else{raise}}}}}}}}}}" ∧
    MlVerif.Gen.C16.shapeAlterForDebugging =
      "sig(pipe)|def transform{self._debug.inputs[]=;y=;self._debug.outputs[]=;return};def predict{self._debug.inputs[]=;y=;self._debug.outputs[]=;return};def predict_proba{self._debug.inputs[]=;y=;self._debug.outputs[]=;return};def decision_function{self._debug.inputs[]=;y=;self._debug.outputs[]=;return};new_methods=;assert;for(model_ in enumerate_pipeline_models(pipe)){model=;model._debug=;for(k in model._debug.methods){try{call setattr}except(AttributeError){call warn}}}" :=
  ⟨rfl, rfl, rfl, rfl, rfl⟩

/-! ## non-vacuity: a concrete nested pipeline -/

/-- Pipeline([ColumnTransformer([(A, ['a']), ('passthrough', [1])], remainder='passthrough'),
FeatureUnion([B, 'passthrough']), C]) -/
def ex1 : Pipe :=
  .pipeline [.columns [(.est .transformer "A", .names ["a"]), (.passthrough, .ints [1])] .passthrough,
    .union [.est .transformer "B", .passthrough], .est .classifier "C"]

example : (enumerate ex1 rootCoord none).map (·.coord) =
    [[0], [0, 0], [0, 0, 0], [0, 0, 1], [0, 1], [0, 1, 0], [0, 1, 1], [0, 2]] := by decide

example : (ex1.at? [1]).map Pipe.label = some "FeatureUnion" ∧ (ex1.at? [3]).isSome = false := by decide

example : pipeline2strLines ex1 = ["Pipeline", "   ColumnTransformer", "      A(a)", "      PassThrough(1)",
    "   FeatureUnion", "      B", "      PassThrough", "   C"] := by decide

example : (runI tableSem (.pipeline [.est .transformer "Add1", .passthrough, .est .transformer "Mul2"]) [0]
    ⟨none, [[1, 2]]⟩).2.map (fun r => (r.coord, r.inp.rows, r.out.rows)) =
    [([0], [[1, 2]], [[4, 6]]), ([0, 0], [[1, 2]], [[2, 3]]), ([0, 2], [[2, 3]], [[4, 6]])] := by decide

example : ((pipeline2dot ex1 ["a", "b", "c"]).toOption.map (fun g => (g.steps.map (·.label), g.edges.length))) =
    some (["A", "Identity", "Identity", "union", "B", "Identity", "union", "C"], 22) := by decide +kernel

example : namedIn ["a", "b", "c"] ex1 = true := by decide

example : ((pipeline2dot ex1 ["a", "b", "c"]).toOption.map
    (fun g => g.wellFed && g.steps.all (fun s => !s.ins.isEmpty && s.ports.length == s.outs.length))) = some true := by
  decide +kernel

/-- an EMPTY passthrough remainder draws an input-less Identity; the graph is still `wellFed` -/
example : ((pipeline2dot (.columns [(.est .transformer "A", .names ["a", "b"])] .passthrough) ["a", "b"]).toOption.map
    (fun g => (g.wellFed, g.steps.map (fun s => (s.label, s.ins.length))))) =
    some (true, [("union", 2), ("A", 1), ("Identity", 0), ("union", 2)]) := by decide +kernel

/-- `dot_outputs_reachable` applies to `ex1` on the schema a, b, c: the hypotheses hold, a graph is drawn, its last
step is the classifier `C` with the record PredictedLabel | Probabilities, and both ports are reachable -/
example : (["a", "b", "c"] : List String) ≠ [] ∧ namedIn ["a", "b", "c"] ex1 = true ∧
    ((pipeline2dot ex1 ["a", "b", "c"]).toOption.bind
      (fun g => g.steps.getLast?.map (fun s => (s.label, s.ports, s.ins.length)))) =
      some ("C", ["PredictedLabel", "Probabilities"], 1) := by decide +kernel

example (g : Dot) (h : pipeline2dot ex1 ["a", "b", "c"] = .ok g) :
    ∀ last, g.steps.getLast? = some last → ∀ c, c < last.ports.length → Reach g (.port last.idx c) :=
  fun last hl => ((dot_outputs_reachable ex1 _ g (by decide) (by decide) h).2 last hl).2.2.2

/-- the EMPTY passthrough remainder: the input-less `Identity` is drawn, and the final `union` is still reachable
(no hypothesis on the drawn graph) -/
example (g : Dot)
    (h : pipeline2dot (.columns [(.est .transformer "A", .names ["a", "b"])] .passthrough) ["a", "b"] = .ok g) :
    ∀ last, g.steps.getLast? = some last → last.ports ≠ [] ∧ ∀ c, c < last.ports.length → Reach g (.port last.idx c) :=
  fun last hl =>
    have := (dot_outputs_reachable _ _ g (by decide) (by decide) h).2 last hl
    ⟨this.2.1, this.2.2.2⟩

/-- the hypothesis `schema ≠ []` cannot be dropped: on an empty schema a graph is drawn (a `union` without input
feeding `A`), and nothing at all is reachable from the (absent) inputs -/
example : ((pipeline2dot (.est .transformer "A") []).toOption.map
    (fun g => g.steps.map (fun s => (s.label, s.ins.length, s.ports.length)))) =
    some [("union", 0, 1), ("A", 1, 1)] := by decide +kernel

example (g : Dot) (h : pipeline2dot (.est .transformer "A") [] = .ok g) : ∀ v, ¬ Reach g v := by
  intro v hr
  have hin : g.inputs = [] := (dot_every_step_and_column_appears _ _ g h).1
  induction hr with
  | input hc => rw [hin] at hc; simp at hc
  | edge _ _ ih => exact ih

/-- the hypothesis `namedIn` cannot be dropped either: ColumnTransformer([(A, ['zz'])]) on the schema a draws `A` fed
by the undeclared raw name `zz`; the only port-level edge is `node1 -> sch1:f0` and the final output is unreachable -/
def exUnnamed : Pipe := .columns [(.est .transformer "A", .names ["zz"])] .drop

example : namedIn ["a"] exUnnamed = false := by decide

example (g : Dot) (h : pipeline2dot exUnnamed ["a"] = .ok g) :
    g.steps.map (fun s => (s.idx, s.ports)) = [(1, ["zz"])] ∧ ¬ Reach g (.port 1 0) := by
  have hp : (pipeline2dot exUnnamed ["a"]).toOption.map
      (fun g => (g.inputs.length, g.pedges, g.steps.map (fun s => (s.idx, s.ports)))) =
      some (1, [(.box 1, .port 1 0)], [(1, ["zz"])]) := by decide +kernel
  rw [h] at hp
  simp only [Except.toOption, Option.map_some, Option.some.injEq, Prod.mk.injEq] at hp
  have key : ∀ v, Reach g v → v = .port 0 0 := by
    intro v hr
    induction hr with
    | input hc => rw [hp.1] at hc; congr; omega
    | edge he _ ih =>
      rw [hp.2.1] at he
      simp only [List.mem_singleton, Prod.mk.injEq] at he
      rw [he.1] at ih; cases ih
  exact ⟨hp.2.2, fun hr => by cases key _ hr⟩

end MlVerif.C16
