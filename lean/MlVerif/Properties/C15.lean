/-
C15 — learner-to-transformer wrappers are transparent.  Property theorems only.

`MlVerif.Gen.C15` is regenerated from the source on every run (dispatch table of `_set_method`, default-method
orders, the `y=y, **kwargs` call shapes, the 1-D reshape, `hstack` order, the `trainable` guard, the
`copy_estimator` branch, whether `set_params` re-binds `method_`); the model (`Model/Wrappers.lean`) computes with
those definitions.  Wrapped models are parameters: every theorem holds for every behaviour `beh`.
The store is heap-lite: `Store.WF` says every object id is below the allocation counter; deep copies allocate.
-/
import MlVerif.Gen.C15
import MlVerif.Model.Wrappers
import MlVerif.Lemmas.Wrappers

namespace MlVerif.C15
open MlVerif.Gen.C15 MlVerif.Wrappers

/-! ### regenerated tables and guards -/

/-- `_set_method` binds the attribute that carries the name it was asked for, for the four method names -/
theorem set_method_table_ok :
    (∀ p ∈ setMethodTable, p.1 = p.2) ∧
    (∀ n ∈ ["predict", "predict_proba", "decision_function", "transform"], resolveMethod n = some n) ∧
    setMethodAcceptsCallable = true := by decide

/-- the source shapes the data-flow theorems below rely on -/
theorem source_guards_ok :
    learnerFitIsDirect = true ∧ learnerFitYKeyword = true ∧ learnerReshapes1D = true ∧
    learnerSetParamsRebinds = true ∧ stackingFitIsDirect = true ∧ stackingFitYKeyword = true ∧
    stackingHstackInOrder = true ∧ transferTrainableGuard = true ∧ transferCopyBranch = true ∧
    transferFitsTarget = true ∧ transferTransformIsMethod = true := by decide

/-- default method of a TransferTransformer: the first of transform / predict_proba / decision_function / predict the estimator has -/
theorem transfer_default_order : transferDefaultOrder = ["transform", "predict_proba", "decision_function", "predict"] := by
  decide

/-! ### SkBaseTransformLearner -/

/-- **learner_transform_is_method_output**: when `method_` is bound to the model the learner reports (which
`learner_history_bound` shows for every history), `transform(X)` is exactly what method `n` of that model returns
on `X`, as a 2-D block (a 1-D result becomes one column). -/
theorem learner_transform_is_method_output (beh : Beh) (st : Store) (id m : Nat) (n : String) (X : Mat)
    (h : st.get id = some (.learner m (.name n) m)) (hn : resolveMethod n ≠ none) :
    learnerTransform beh st id X = (callModel beh st m n X).map (fun o => .mat (toMat o)) := by
  cases hr : resolveMethod n with
  | none => exact absurd hr hn
  | some attr =>
    have := resolve_table n attr hr
    subst this
    have h1 : learnerReshapes1D = true := rfl
    simp only [learnerTransform, h, hr, h1]
    congr 1
    funext o
    exact as2D_true o

/-- a callable method: `transform(X)` is the callable's output as a 2-D block -/
theorem learner_transform_callable (beh : Beh) (st : Store) (id m b : Nat) (tag : String) (X : Mat)
    (h : st.get id = some (.learner m (.callable tag) b)) :
    learnerTransform beh st id X = .ok (.mat (toMat (beh.callable tag X))) := by
  have h1 : learnerReshapes1D = true := rfl
  simp [learnerTransform, h, h1, as2D_true]

/-- for **every** history of operations on the store (fit / transform / `set_params(model=…)` of any learner,
fit / transform of any stacking or transfer transformer, in any interleaving) a learner whose `method_` is bound to
its model stays so — in particular after `set_params(model=new)` the bound object is `new` — and the store stays
well-formed.  Together with `learner_transform_is_method_output`: at every point of every history `transform`
returns the chosen method's output of the model the learner reports. -/
theorem learner_history_bound (beh : Beh) (ops : List Op) (st : Store) (id : Nat)
    (h : st.WF ∧ LearnerBound st id) :
    (run beh st ops).1.WF ∧ LearnerBound (run beh st ops).1 id := run_learnerBound_all beh ops st id h

/-- **wrapper_fit_is_direct_fit** (learner): `fit(X, y, **kw)` is exactly one `model.fit(X, y=y, **kw)`: the
wrapped model's record gains that call and nothing else in the store changes -/
theorem learner_fit_is_direct_fit (st st' : Store) (id m b : Nat) (meth : MethodSel) (X : Mat) (y : Option Vec)
    (kw : List (String × Vec)) (h : st.get id = some (.learner m meth b))
    (hf : learnerFit st id X y kw = .ok st') :
    learnerFit st id X y kw = fitModel st m (directCall X y kw) ∧
    ∃ r, st.get m = some (.model r) ∧
      st'.get m = some (.model { r with fits := r.fits ++ [directCall X y kw] }) ∧
      (∀ j, j ≠ m → st'.get j = st.get j) := by
  have e := learnerFit_eq st id m b meth X y kw h
  rw [e] at hf
  obtain ⟨r, h1, h2, h3, _⟩ := fitModel_spec _ _ _ _ hf
  exact ⟨e, r, h1, h2, h3⟩

/-! ### SkBaseTransformStacking -/

/-- **stacking_is_concatenation**: `transform(X)` is a matrix with one row per input row, and row `r` is the
concatenation, in member order, of row `r` of every member's 2-D output -/
theorem stacking_is_concatenation (beh : Beh) (st : Store) (id : Nat) (ms : List Nat) (X : Mat) (outs : List Out)
    (h : st.get id = some (.stacking ms)) (hne : ms ≠ [])
    (ho : ms.mapM (fun m => memberTransform beh st m X) = .ok outs)
    (hrows : ∀ o ∈ outs, (toMat o).length = X.length) :
    ∃ R, stackingTransform beh st id X = .ok (.mat R) ∧ R.length = X.length ∧
      ∀ r, r < X.length → R[r]? = some ((outs.map (fun o => (toMat o)[r]?.getD [])).flatten) := by
  have hb : ∀ b ∈ outs.map toMat, b.length = X.length := by
    intro b hb
    obtain ⟨o, ho', rfl⟩ := List.mem_map.mp hb
    exact hrows o ho'
  have hall : (outs.map toMat).all (fun b => b.length == X.length) = true := by
    simp only [List.all_eq_true, beq_iff_eq]
    exact hb
  have hne' : outs.map toMat ≠ [] := by
    intro e
    have : outs = [] := by simpa using e
    subst this
    cases ms with
    | nil => exact hne rfl
    | cons m rest =>
      simp only [List.mapM_cons, bind, Except.bind] at ho
      cases h1 : memberTransform beh st m X with
      | error e => simp [h1] at ho
      | ok o =>
        simp only [h1] at ho
        cases h2 : List.mapM (fun m => memberTransform beh st m X) rest with
        | error e => simp [h2] at ho
        | ok os => simp [h2, pure, Except.pure] at ho
  refine ⟨hstack (outs.map toMat), by simp [stackingTransform, h, ho, hall], hstack_length _ _ hne' hb, ?_⟩
  intro r hr
  rw [hstack_row _ X.length r hne' hb hr]
  simp [List.map_map, Function.comp_def]

/-- **wrapper_fit_is_direct_fit** (stacking): when the members train pairwise distinct models, `fit(X, y, **kw)`
succeeds, every wrapped model receives exactly one `fit(X, y=y, **kw)` and nothing else in the store changes -/
theorem stacking_fit_is_direct_fit (st : Store) (id : Nat) (ms ts : List Nat) (X : Mat) (y : Option Vec)
    (kw : List (String × Vec)) (h : StackInv st id ms ts) :
    ∃ st', stackingFit st id X y kw = .ok st' ∧ StackInv st' id ms ts ∧
      (∀ t ∈ ts, ∃ r, st.get t = some (.model r) ∧
          st'.get t = some (.model { r with fits := r.fits ++ [directCall X y kw] })) ∧
      (∀ j, j ∉ ts → st'.get j = st.get j) := stackingFit_spec st id ms ts X y kw h

/-- …lifted over histories of fit / transform on the stacking: after the history every wrapped model has received,
in order, exactly the calls of the history's fits (transform trains nothing) -/
theorem stacking_history_fits (beh : Beh) (id : Nat) (ms ts : List Nat) (ops : List Op) (st : Store)
    (hops : ∀ op ∈ ops, isStackOpOn id op = true) (h : StackInv st id ms ts) :
    StackInv (run beh st ops).1 id ms ts ∧
    ∀ t ∈ ts, ∃ r, st.get t = some (.model r) ∧
      (run beh st ops).1.get t = some (.model { r with fits := r.fits ++ callsOf ops }) :=
  run_stacking beh id ms ts ops st hops h

/-! ### TransferTransformer -/

/-- **transfer_output**: `transform(X)` is method `meth` of the fitted target `estimator_`, unchanged -/
theorem transfer_output (beh : Beh) (st : Store) (id est target : Nat) (meth : String) (cp tr : Bool) (X : Mat)
    (h : st.get id = some (.transfer est meth cp tr (some target))) :
    transferTransform beh st id X = callModel beh st target meth X := by
  simp [transferTransform, h]

/-- one `fit`: the target is a fresh copy (copy_estimator) or the estimator itself, it is refitted only if
trainable, and with copy_estimator every id that existed before the call — the original included — is untouched -/
theorem transfer_fit_spec (st st' : Store) (id est : Nat) (meth : String) (cp tr : Bool) (f : Option Nat) (r : Rec)
    (X : Mat) (y w : Option Vec) (hw : st.WF) (hid : st.get id = some (.transfer est meth cp tr f))
    (hest : st.get est = some (.model r)) (h : transferFit st id X y w = .ok st') :
    ∃ target r', st'.get id = some (.transfer est meth cp tr (some target)) ∧ st'.get target = some (.model r') ∧
      (r' = r ∨ (tr = true ∧ r' = { r with fits := r.fits ++ [transferFitCall r X y w] })) ∧
      (tr = false → r' = r) ∧
      (cp = true → target = st.next ∧ st'.next = st.next + 1 ∧ ∀ j, j < st.next → j ≠ id → st'.get j = st.get j) ∧
      (cp = false → target = est ∧ st'.next = st.next ∧ ∀ j, j ≠ id → j ≠ est → st'.get j = st.get j) ∧
      st'.WF := transferFit_spec st st' id est meth cp tr f r X y w hw hid hest h

/-- **transfer_frozen**: not trainable ⇒ after any history of fit / transform on the transfer transformer the
wrapped estimator's record is the one it had, the fitted target carries that same record, and therefore every
prediction of the target equals the original's prediction before the history -/
theorem transfer_frozen (beh : Beh) (id est : Nat) (meth : String) (cp : Bool) (r0 : Rec) (ops : List Op) (st : Store)
    (hops : ∀ op ∈ ops, isTransferOpOn id op = true) (h : TransferInv st id est meth cp false r0) :
    (run beh st ops).1.get est = some (.model r0) ∧
    ∀ f t, (run beh st ops).1.get id = some (.transfer est meth cp false f) → f = some t →
      (run beh st ops).1.get t = some (.model r0) ∧
      ∀ attr X, callModel beh (run beh st ops).1 t attr X = callModel beh st est attr X := by
  obtain ⟨_, hest', f', hid', hfz⟩ := run_transferInv beh id est meth cp false r0 (Or.inr rfl) ops st hops h
  refine ⟨hest', ?_⟩
  intro f t hf ht
  rw [hid'] at hf
  have hff : f' = f := by injection hf with hf; injection hf
  subst hff
  have ht' := hfz rfl t ht
  refine ⟨ht', ?_⟩
  intro attr X
  simp [callModel, ht', h.2.1]

/-- **transfer_copy_never_touches_original**: copy_estimator ⇒ after any history of fit / transform (trainable
or not) the original estimator's record is unchanged: fits only ever write ids allocated after the call started -/
theorem transfer_copy_never_touches_original (beh : Beh) (id est : Nat) (meth : String) (tr : Bool) (r0 : Rec)
    (ops : List Op) (st : Store) (hops : ∀ op ∈ ops, isTransferOpOn id op = true)
    (h : TransferInv st id est meth true tr r0) :
    (run beh st ops).1.get est = some (.model r0) ∧ (run beh st ops).1.WF :=
  let r := run_transferInv beh id est meth true tr r0 (Or.inl rfl) ops st hops h
  ⟨r.2.1, r.1⟩

/-! ### the tie to the functions the model transcribes -/

/-- the functions the hand-written model transcribes have, in the current source, the control skeleton (tests, loop
headers, kinds of statements and the names they bind) they had when the model was written and validated: no branch,
loop, early exit or rebinding has been added that the model does not describe -/
theorem modelled_functions_have_the_transcribed_shape :
    MlVerif.Gen.C15.shapeTransferFit =
      "sig(self, X=None, y=None, sample_weight=None)|if self.copy_estimator: self.estimator_ = clone_with_fitted_parameters(self.estimator) from .sklearn_testing import assert_estimator_equal assert_estimator_equal(self.estimator_, self.estimator) else: self.estimator_ = self.estimator ; if self.trainable: insp = inspect.signature(self.estimator_.fit) pars = insp.parameters if 'y' in pars and 'sample_weight' in pars: self.estimator_.fit(X, y, sample_weight) elif 'y' in pars: self.estimator_.fit(X, y) elif 'sample_weight' in pars: self.estimator_.fit(X, sample_weight=sample_weight) else: self.estimator_.fit(X) ; return self" ∧
    MlVerif.Gen.C15.shapeTransferInit =
      "sig(self, estimator, method=None, copy_estimator=True, trainable=False)|call __init__;call __init__;self.estimator=;self.copy_estimator=;self.trainable=;if(method is None){if(hasattr(estimator, 'transform')){method=}else{if(hasattr(estimator, 'predict_proba')){method=}else{if(hasattr(estimator, 'decision_function')){method=}else{if(hasattr(estimator, 'predict')){method=}else{raise}}}}};assert;self.method=" :=
  ⟨rfl, rfl⟩

/-! ### non-vacuity -/

def recA : Rec := { cls := "R", caps := ["predict", "predict_proba"], fitY := true, fitW := false, a := 2, fits := [] }
def recT : Rec := { cls := "T", caps := ["transform"], fitY := true, fitW := true, a := 3, fits := [] }
def st0 : Store := { next := 5, objs := [(0, .model recA), (1, .model recT), (2, .learner 0 (.name "predict") 0),
  (3, .stacking [2, 1]), (4, .transfer 0 "predict_proba" true false none)] }

example : st0.get 2 = some (.learner 0 (.name "predict") 0) ∧ resolveMethod "predict" ≠ none := by decide
example : (learnerTransform stdBeh st0 2 [[1, 2], [3, 4]]).toOption = some (.mat [[6], [14]]) := by decide
example : StackInv st0 3 [2, 1] [0, 1] :=
  ⟨by decide, AllTargets.cons (Or.inr ⟨.name "predict", 0, recA, by decide, by decide⟩)
      (AllTargets.cons (Or.inl ⟨recT, by decide, rfl⟩) AllTargets.nil), by decide⟩
example : (stackingTransform stdBeh st0 3 [[1, 2], [3, 4]]).toOption = some (.mat [[6, 3009, -3009], [14, 3021, -3021]]) := by
  decide
example : TransferInv st0 4 0 "predict_proba" true false recA := by
  refine ⟨?_, by decide, none, by decide, by intro _ t h; cases h⟩
  intro j o hj
  have : j = 0 ∨ j = 1 ∨ j = 2 ∨ j = 3 ∨ j = 4 := by
    simp only [Store.get, st0, List.lookup] at hj
    repeat' split at hj
    all_goals first | (simp at hj) | skip
    all_goals simp_all
  rcases this with rfl | rfl | rfl | rfl | rfl <;> decide
example : isTransferOpOn 4 (.tFit 4 [[1]] (some [1]) none) = true ∧ isStackOpOn 3 (.sFit 3 [[1]] none []) = true ∧
    isLearnerOp (.lSetModel 2 1) = true := by decide
example : (match transferFit st0 4 [[1, 2]] (some [5]) none with
    | .ok s => (s.get 4, s.get 5, s.get 0) | .error _ => (none, none, none))
    = (some (.transfer 0 "predict_proba" true false (some 5)), some (.model recA), some (.model recA)) := by decide

end MlVerif.C15
