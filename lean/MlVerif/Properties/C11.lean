/-
C11 — ExtendedFeatures generates exactly scikit-learn's polynomial features.
Property theorems only.  The models (`MlVerif.Poly.transformIall/Ionly`, `namesRaw`) take every index
expression from `MlVerif.Gen.C11`, regenerated from the source on every run; the theorems hold for
EVERY number of input columns `n`, EVERY `degree`, both `interaction_only` and `include_bias` settings,
and every content of the input columns (any commutative monoid of values).

Specification: `polySpec n degree io bias` = bias monomial first, then for d = 1..degree the
lexicographic combinations of `range(n)` of size d, with replacement (`io = false`) or without
(`io = true`).  That this is what scikit-learn enumerates is PROVED (`spec_is_sklearn_combinations`)
about `MlVerif.Itertools.sklearnCombinations`: scikit-learn's `PolynomialFeatures._combinations`
over transcriptions of the two itertools reference algorithms of the Python documentation (index
list advanced in place inside `while True:`).  The transcriptions themselves are compared with the
real `itertools` and the real `_combinations` (and `powers_`) by the correspondence run.
-/
import MlVerif.Lemmas.PolyLoops
import MlVerif.Lemmas.PolyNames
import MlVerif.Lemmas.PolyCount
import MlVerif.Lemmas.Itertools

namespace MlVerif.C11
open MlVerif.Poly MlVerif.Gen.C11 MlVerif.Itertools

/-! ### index-level: which monomial each written column holds -/

theorem interp_mono (m : Mono) : interp monoOps m = m := by
  induction m with
  | nil => rfl
  | cons i m ih =>
    cases m with
    | nil => rfl
    | cons j m => show i :: interp monoOps (j :: m) = _; rw [ih]

/-- `_transform_iall` writes exactly scikit-learn's monomials, in scikit-learn's order: no error
(IndexError, width mismatch of `out=`), for every n, degree, bias. -/
theorem iall_eq_spec (n degree : Nat) (bias : Bool) :
    transformIall monoOps n degree bias = some (polySpec n degree false bias) := by
  rw [transformIall_spec]
  congr 1
  rw [List.map_congr_left (fun m _ => interp_mono m)]; simp

/-- `_transform_ionly` (block recurrence with `dec` and the early `break`) writes exactly the
interaction-only monomials in scikit-learn's order, for every n, degree, bias — in particular the
`break` never loses a column and the shortened `index` never raises IndexError. -/
theorem ionly_eq_spec (n degree : Nat) (bias : Bool) :
    transformIonly monoOps n degree bias = some (polySpec n degree true bias) := by
  rw [transformIonly_spec]
  congr 1
  rw [List.map_congr_left (fun m _ => interp_mono m)]; simp

/-- `_transform_poly` (kind `'poly'`), whatever the columns contain: column j is the
interpretation of monomial j of the specification. -/
theorem transform_poly_eq_spec {β : Type} (ops : Ops β) (n degree : Nat) (io bias : Bool) :
    transformPoly ops n degree io bias = some ((polySpec n degree io bias).map (interp ops)) := by
  unfold transformPoly
  cases io
  · simp [transformIall_spec]
  · simp [transformIonly_spec]

/-! ### value-level: every column is the product of the input columns of its monomial -/

/-- hypotheses on the values: a commutative monoid (real numbers, integers, …) -/
structure CommMonoidLaws {α : Type} (mul : α → α → α) (one : α) : Prop where
  assoc : ∀ a b c, mul (mul a b) c = mul a (mul b c)
  comm : ∀ a b, mul a b = mul b a
  one_mul : ∀ a, mul one a = a

theorem foldl_mul_eq {α : Type} {mul : α → α → α} {one : α} (h : CommMonoidLaws mul one) (x : Nat → α)
    (m : Mono) : ∀ acc, m.foldl (fun acc i => mul acc (x i)) acc = mul acc (prodOf mul one x m) := by
  induction m with
  | nil => intro acc; simp [prodOf, h.comm acc one, h.one_mul]
  | cons i m ih =>
    intro acc
    simp only [prodOf, List.foldl_cons]
    rw [ih, ih (mul one (x i)), h.one_mul, h.assoc]

theorem prodOf_cons {α : Type} {mul : α → α → α} {one : α} (h : CommMonoidLaws mul one) (x : Nat → α)
    (i : Nat) (m : Mono) : prodOf mul one x (i :: m) = mul (x i) (prodOf mul one x m) := by
  simp only [prodOf, List.foldl_cons]
  rw [foldl_mul_eq h x m, h.one_mul]
  rfl

theorem interp_val {α : Type} {mul : α → α → α} {one : α} (h : CommMonoidLaws mul one) (x : Nat → α)
    (m : Mono) : interp (valOps mul one x) m = prodOf mul one x m := by
  induction m with
  | nil => rfl
  | cons i m ih =>
    cases m with
    | nil => simp [interp, valOps, prodOf, h.one_mul]
    | cons j m =>
      show mul (interp (valOps mul one x) (j :: m)) (x i) = _
      rw [ih, prodOf_cons h x i (j :: m), h.comm]

/-- For every row `x` of every matrix over a commutative monoid (so for every real matrix):
output column j of `_transform_poly` is `X[:, comb_j].prod(1)`, scikit-learn's value, for every
n, degree, interaction_only, include_bias. The recurrence is data-independent. -/
theorem column_is_product {α : Type} {mul : α → α → α} {one : α} (h : CommMonoidLaws mul one)
    (x : Nat → α) (n degree : Nat) (io bias : Bool) :
    transformPoly (valOps mul one x) n degree io bias =
      some ((polySpec n degree io bias).map (prodOf mul one x)) := by
  rw [transform_poly_eq_spec]
  congr 1
  exact List.map_congr_left (fun m _ => interp_val h x m)

/-- whole columns at once (`numpy.multiply(A, B, out=C)` on all rows): same statement for a matrix
given as its list of rows -/
def colOps {α : Type} (mul : α → α → α) (one : α) (X : List (Nat → α)) : Ops (List α) :=
  ⟨X.map (fun _ => one), fun i => X.map (· i), fun c i => List.zipWith mul c (X.map (· i))⟩

theorem interp_col {α : Type} (mul : α → α → α) (one : α) (X : List (Nat → α)) (m : Mono) :
    interp (colOps mul one X) m = X.map (fun x => interp (valOps mul one x) m) := by
  induction m with
  | nil => rfl
  | cons i m ih =>
    cases m with
    | nil => rfl
    | cons j m =>
      show List.zipWith mul (interp (colOps mul one X) (j :: m)) (X.map (· i)) = _
      rw [ih, List.zipWith_map]
      simp [List.zipWith_self, interp, valOps]

theorem transform_matrix {α : Type} {mul : α → α → α} {one : α} (h : CommMonoidLaws mul one)
    (X : List (Nat → α)) (n degree : Nat) (io bias : Bool) :
    transformPoly (colOps mul one X) n degree io bias =
      some ((polySpec n degree io bias).map (fun m => X.map (fun x => prodOf mul one x m))) := by
  rw [transform_poly_eq_spec]
  congr 1
  apply List.map_congr_left
  intro m _
  rw [interp_col]
  exact List.map_congr_left (fun x _ => interp_val h x m)

/-! ### kind `'poly-slow'` -/

/-- `_combinations_poly` enumerates exactly the specification (bias = the empty combination). -/
theorem poly_slow_eq_spec (n degree : Nat) (io bias : Bool) :
    combinationsPoly n degree io bias = some (polySpec n degree io bias) := by
  unfold combinationsPoly polySpec
  simp only [Slow.combIo_eq, Slow.rangeHi_eq]
  cases bias
  · rw [Slow.start_nobias _ rfl]
    have h := pyRange_eq (lo := 1) (hi := (degree : Int) + 1) (a := 1) (c := degree) rfl (by omega)
    rw [h]; simp
  · rw [Slow.start_bias _ rfl]
    have h := pyRange_eq (lo := 0) (hi := (degree : Int) + 1) (a := 0) (c := degree + 1) rfl (by omega)
    rw [h]
    simp only [Option.map_some, if_true]
    rw [List.range'_succ]
    simp [combs]

/-! ### the specification is scikit-learn's enumeration -/

/-- `itertools.combinations(pool, r)` as documented (index list `list(range(r))`, rightmost index not
at `i + n - r` incremented, the following ones reset to consecutive values; nothing when `r > n`):
never an IndexError, the `while True:` loop returns within the fuel, and the tuples yielded are
those of the strictly increasing index lists in lexicographic order — for EVERY pool and `r`. -/
theorem itertools_combinations (α : Type) (pool : List α) (r : Nat) :
    combinations pool r = (combs true pool.length r 0).mapM (tupleOf pool) :=
  combinations_eq pool r

/-- `itertools.combinations_with_replacement(pool, r)` as documented (index list `[0] * r`, rightmost
index not at `n - 1` incremented and copied to its right; nothing when `n = 0 < r`): same statement
with the non-decreasing index lists. -/
theorem itertools_combinations_with_replacement (α : Type) (pool : List α) (r : Nat) :
    combinationsWithReplacement pool r = (combs false pool.length r 0).mapM (tupleOf pool) :=
  combinationsWithReplacement_eq pool r

/-- on `range(n)` the tuples are the index lists themselves: exactly the lists the specification uses -/
theorem itertools_on_range (n r : Nat) :
    combinations (List.range n) r = some (combs true n r 0) ∧
    combinationsWithReplacement (List.range n) r = some (combs false n r 0) :=
  ⟨combinations_range n r, combinationsWithReplacement_range n r⟩

/-- `PolynomialFeatures._combinations(n, min_degree, max_degree, interaction_only, include_bias)` for
every `min_degree`, `max_degree` (scikit-learn requires `min_degree ≤ max_degree`; otherwise the
range is empty on both sides): the empty combination when `include_bias`, then the lexicographic
combinations of each size `max(1, min_degree) … max_degree`. -/
theorem sklearn_combinations_min_max (n minDegree maxDegree : Nat) (io bias : Bool) :
    sklearnCombinationsMinMax n minDegree maxDegree io bias =
      some ((if bias then [[]] else []) ++
        (List.range' (max 1 minDegree) (maxDegree + 1 - max 1 minDegree)).flatMap (fun d => combs io n d 0)) :=
  sklearnCombinationsMinMax_eq n minDegree maxDegree io bias

/-- **The specification is what scikit-learn enumerates.**  For every `n`, every integer
`degree ≥ 0` (for which `fit` sets `_min_degree = 0`, `_max_degree = degree`) and both flags,
`PolynomialFeatures._combinations` — itertools algorithms included — yields exactly `polySpec`, in
order.  `degree = 0` is covered: with `include_bias` the single empty combination; without it
nothing at all, the configuration that `PolynomialFeatures.fit` refuses (ValueError) before
enumerating. -/
theorem spec_is_sklearn_combinations (n degree : Nat) (io bias : Bool) :
    sklearnCombinations n degree io bias = some (polySpec n degree io bias) :=
  sklearnCombinations_eq_polySpec n degree io bias

/-- the configuration scikit-learn rejects is exactly the one with no output column -/
theorem sklearn_rejected_configuration_is_empty (n : Nat) (io : Bool) :
    sklearnCombinations n 0 io false = some [] := by
  rw [spec_is_sklearn_combinations]; simp [polySpec]

/-- `_transform_iall` writes scikit-learn's columns (`interaction_only = False`) in scikit-learn's order -/
theorem iall_eq_sklearn (n degree : Nat) (bias : Bool) :
    (transformIall monoOps n degree bias).isSome ∧
    transformIall monoOps n degree bias = sklearnCombinations n degree false bias := by
  rw [iall_eq_spec, spec_is_sklearn_combinations]; simp

/-- `_transform_ionly` writes scikit-learn's columns (`interaction_only = True`) in scikit-learn's order -/
theorem ionly_eq_sklearn (n degree : Nat) (bias : Bool) :
    (transformIonly monoOps n degree bias).isSome ∧
    transformIonly monoOps n degree bias = sklearnCombinations n degree true bias := by
  rw [ionly_eq_spec, spec_is_sklearn_combinations]; simp

/-- kind `'poly-slow'` (mlinsights' own copy of the enumeration) agrees with scikit-learn's -/
theorem poly_slow_eq_sklearn (n degree : Nat) (io bias : Bool) :
    combinationsPoly n degree io bias = sklearnCombinations n degree io bias := by
  rw [poly_slow_eq_spec, spec_is_sklearn_combinations]

/-- kind `'poly-slow'`, value level: for every matrix (any number of rows) over any multiplication, output column j
holds, for EVERY row, the product over the j-th combination scikit-learn enumerates. -/
theorem poly_slow_transform_eq_sklearn {α : Type} (mul : α → α → α) (one : α) (X : List (Nat → α))
    (n degree : Nat) (io bias : Bool) :
    transformPolySlow mul one X n degree io bias =
      (sklearnCombinations n degree io bias).map (·.map (fun m => X.map (fun x => prodOf mul one x m))) := by
  unfold transformPolySlow
  simp only [SlowFill.wholeColumns_eq, if_true, poly_slow_eq_sklearn]
  rfl

/-- every output column of `'poly-slow'` has one entry per input row -/
theorem poly_slow_columns_have_all_rows {α : Type} (mul : α → α → α) (one : α) (X : List (Nat → α))
    (n degree : Nat) (io bias : Bool) (cols : List (List α))
    (h : transformPolySlow mul one X n degree io bias = some cols) : ∀ c ∈ cols, c.length = X.length := by
  rw [poly_slow_transform_eq_sklearn, spec_is_sklearn_combinations] at h
  simp only [Option.map_some, Option.some.injEq] at h
  subst h
  intro c hc
  simp only [List.mem_map] at hc
  obtain ⟨m, _, rfl⟩ := hc
  simp

/-- value level: for every row over a commutative monoid, output column j of `_transform_poly` is the
product over the j-th combination scikit-learn enumerates (`X[:, comb].prod(1)`). -/
theorem column_is_sklearn_product {α : Type} {mul : α → α → α} {one : α} (h : CommMonoidLaws mul one)
    (x : Nat → α) (n degree : Nat) (io bias : Bool) :
    transformPoly (valOps mul one x) n degree io bias =
      (sklearnCombinations n degree io bias).map (·.map (prodOf mul one x)) := by
  rw [column_is_product h, spec_is_sklearn_combinations]; rfl

/-! ### feature names and `n_output_features_` -/

/-- `get_feature_names_out()`: the name of column j is `process_name` of the variables of monomial j
of the specification (the monomial `transform` puts in column j), for every n, degree and flags;
the recurrence on strings (no `break`, `start = a + dec`) never raises. -/
theorem names_denote_columns (feat : Nat → String) (n degree : Nat) (io bias : Bool) :
    featureNamesPoly feat n degree io bias =
      some ((polySpec n degree io bias).map (fun m => processName (monoTokens feat m))) := by
  unfold featureNamesPoly
  rw [namesRaw_spec]
  simp only [Option.map_some, List.map_map]
  congr 1
  exact List.map_congr_left (fun m _ => by simp [interp_name])

/-- what `process_name` prints: the `(name, exponent)` pairs it formats expand to a permutation of
the variable names of the monomial — each variable appears with its multiplicity, nothing else. -/
theorem name_exponents_are_multiplicities (toks : List String) :
    (expand (rle (toks.mergeSort strLe))).Perm toks := by
  rw [rle_expand]; exact List.mergeSort_perm _ _

/-- `n_output_features_ = len(get_feature_names_out())` is exactly the number of columns `transform`
writes (so `XP = numpy.empty((rows, n_output_features_))` is completely and exactly filled), and
that number is the number of monomials of the specification. -/
theorem n_output_features {β : Type} (ops : Ops β) (feat : Nat → String) (n degree : Nat) (io bias : Bool) :
    ∃ names cols, featureNamesPoly feat n degree io bias = some names ∧
      transformPoly ops n degree io bias = some cols ∧
      cols.length = names.length ∧ names.length = (polySpec n degree io bias).length := by
  exact ⟨_, _, names_denote_columns feat n degree io bias, transform_poly_eq_spec ops n degree io bias,
    by simp, by simp⟩

/-- …and that number in closed form: `[bias] + Σ_{d=1..degree} C(n, d)` for interaction_only,
`[bias] + Σ_{d=1..degree} C(n+d-1, d)` otherwise (`countMono`, with `multichoose_eq_choose`). -/
theorem n_output_features_count (feat : Nat → String) (n degree : Nat) (io bias : Bool) :
    ∃ names, featureNamesPoly feat n degree io bias = some names ∧
      names.length = (if bias then 1 else 0) + ((List.range' 1 degree).map (countMono io n)).sum := by
  refine ⟨_, names_denote_columns feat n degree io bias, ?_⟩
  rw [List.length_map]; exact polySpec_count n degree io bias

theorem count_all_is_binomial (m d : Nat) : countMono false (m+1) d = choose (m + d) d :=
  multichoose_eq_choose d m

/-- the specification is what it is meant to be: `d` variables of `range(n)`, in non-decreasing order,
strictly increasing when `interaction_only` (no repeated variable) -/
theorem spec_monomials_wellformed (io : Bool) (n d : Nat) (m : Mono) (h : m ∈ combs io n d 0) :
    m.length = d ∧ (∀ v ∈ m, v < n) ∧ m.Pairwise (fun a b => if io then a < b else a ≤ b) := by
  obtain ⟨h1, h2, h3⟩ := combs_wf io n d 0 m h
  exact ⟨h1, fun v hv => (h2 v hv).2, h3⟩

/-! ### the tie to the functions the model transcribes -/

/-- the functions the hand-written model transcribes have, in the current source, the control skeleton (tests, loop
headers, kinds of statements and the names they bind) they had when the model was written and validated: no branch,
loop, early exit or rebinding has been added that the model does not describe -/
theorem modelled_functions_have_the_transcribed_shape :
    MlVerif.Gen.C11.shapeTransformIall =
      "sig(degree, bias, XP, X, multiply, final)|if(bias){XP[]=;pos=}else{pos=};n=;for(d in range(0, degree)){if(d == 0){XP[]=;index=;posAdd=;call append}else{new_index=;end=;for(i in range(0, n)){a=;call append;new_pos=;call multiply;pos=};call append;index=}};return" ∧
    MlVerif.Gen.C11.shapeTransformIonly =
      "sig(degree, bias, XP, X, multiply, final)|if(bias){XP[]=;pos=}else{pos=};n=;for(d in range(0, degree)){if(d == 0){XP[]=;index=;posAdd=;call append}else{new_index=;end=;for(i in range(0, n)){a=;call append;dec=;new_pos=;if(new_pos <= pos){break};call multiply;pos=};call append;index=}};return" ∧
    MlVerif.Gen.C11.shapeCombinationsPoly =
      "sig(n_features, degree, interaction_only, include_bias)|comb=;start=;return" ∧
    MlVerif.Gen.C11.shapeFitPoly =
      "sig(self, X, y=None)|call check_array;return" ∧
    MlVerif.Gen.C11.shapeTransformPoly =
      "sig(self, X)|if(sparse.isspmatrix(X)){raise};XP=;def multiply{return};def final{return};if(self.poly_interaction_only){return};return" ∧
    MlVerif.Gen.C11.shapeFeatureNamesPoly =
      "sig(self, input_features=None)|if(input_features is None){input_features=}else{if(len(input_features) != self.n_input_features_){raise}};names=;n=;interaction_only=;for(d in range(0, self.poly_degree)){if(d == 0){pos=;call extend;index=;call append}else{new_index=;end=;for(i in range(0, n)){a=;call append;start=;call extend};call append;index=}};def process_name{scol=;res=;for(c in sorted(scol)){if(not res or res[-1][0] != c){call append}else{res[]=}};return};names=;return" ∧
    MlVerif.Gen.C11.shapeFit =
      "sig(self, X, y=None)|self.n_input_features_=;self.n_output_features_=;if(self.kind == 'poly'){return}else{if(self.kind == 'poly-slow'){return}};raise" ∧
    MlVerif.Gen.C11.shapeTransform =
      "sig(self, X)|n_features=;if(n_features != self.n_input_features_){raise};if(self.kind == 'poly'){return};if(self.kind == 'poly-slow'){return};raise" ∧
    MlVerif.Gen.C11.shapeGetFeatureNamesOut =
      "sig(self, input_features=None)|if(self.kind == 'poly'){return};if(self.kind == 'poly-slow'){return};raise" ∧
    MlVerif.Gen.C11.shapeTransformPolySlow =
      "sig(self, X)|if sparse.isspmatrix(X): raise NotImplementedError('Not implemented for sparse matrices.') ; comb = _combinations_poly(X.shape[1], self.poly_degree, self.poly_interaction_only, include_bias=self.poly_include_bias) ; order = 'C' ; XP = numpy.empty((X.shape[0], self.n_output_features_), dtype=X.dtype, order=order) ; for i, comb in enumerate(comb): XP[:, i] = X[:, comb].prod(1) ; return XP" :=
  ⟨rfl, rfl, rfl, rfl, rfl, rfl, rfl, rfl, rfl, rfl⟩

/-! ### non-vacuity: concrete instances -/
example : transformIall monoOps 2 3 true
    = some [[], [0], [1], [0,0], [0,1], [1,1], [0,0,0], [0,0,1], [0,1,1], [1,1,1]] := by decide +kernel
example : transformIonly monoOps 3 3 false
    = some [[0], [1], [2], [0,1], [0,2], [1,2], [0,1,2]] := by decide +kernel
-- degree larger than n: the `break` fires at i = 0 and the index list shrinks to two entries
example : transformIonly monoOps 2 5 true = some [[], [0], [1], [0,1]] := by decide +kernel
example : polySpec 2 2 false true = [[], [0], [1], [0,0], [0,1], [1,1]] := by decide +kernel
example : combinationsPoly 3 2 true false = some [[0], [1], [2], [0,1], [0,2], [1,2]] := by decide +kernel
example : countMono false 3 2 = 6 ∧ countMono true 3 2 = 3 ∧ choose 4 2 = 6 := by
  simp [countMono, choose, multichoose]
example : CommMonoidLaws (fun a b : Int => a * b) 1 :=
  ⟨Int.mul_assoc, Int.mul_comm, Int.one_mul⟩
example : transformPoly (valOps (fun a b : Int => a * b) 1 (fun i => [2, 3].getD i 0)) 2 2 false true
    = some [1, 2, 3, 4, 6, 9] := by decide +kernel
-- 'poly-slow' on a 3-row matrix: three entries in every column
example : transformPolySlow (fun a b : Int => a * b) 1
    [fun i => [2, 3].getD i 0, fun i => [1, 5].getD i 0, fun i => [0, 7].getD i 0] 2 2 true false
    = some [[2, 1, 0], [3, 5, 7], [6, 5, 0]] := by decide +kernel
-- the names recurrence (no `break`) on symbolic columns, interaction_only
example : namesRaw monoOps 3 3 true true
    = some [[], [0], [1], [2], [0,1], [0,2], [1,2], [0,1,2]] := by decide +kernel
-- (kernel evaluation of `String` operations is not available to `decide`; the string side is
--  exercised by the driver: `#eval featureNamesPoly (fun i => s!"x{i}") 2 2 false true`
--  = some ["1", "x0", "x1", "x0^2", "x0 x1", "x1^2"], compared with the real code on every run)
example : (featureNamesPoly (fun i => s!"x{i}") 2 2 false true).map List.length = some 6 := by
  rw [names_denote_columns]; decide +kernel

-- the itertools transcriptions, run by the kernel (index lists, `while True:` with fuel)
example : combinations (List.range 4) 2 = some [[0,1], [0,2], [0,3], [1,2], [1,3], [2,3]] := by decide +kernel
example : combinations [10, 20, 30, 40] 3 = some [[10,20,30], [10,20,40], [10,30,40], [20,30,40]] := by
  decide +kernel
example : combinationsWithReplacement (List.range 3) 2 = some [[0,0], [0,1], [0,2], [1,1], [1,2], [2,2]] := by
  decide +kernel
-- the early returns: `r > n`, and `not n and r`; `r = 0` yields the empty tuple once
example : combinations (List.range 2) 3 = some [] ∧ combinationsWithReplacement (List.range 0) 2 = some [] ∧
    combinations (List.range 0) 0 = some [[]] ∧ combinationsWithReplacement (List.range 0) 0 = some [[]] := by
  decide +kernel
-- one turn of each loop body: pivot in the middle, tail reset
example : nextComb 5 3 [0, 3, 4] = some (some [1, 2, 3]) ∧ nextComb 5 3 [2, 3, 4] = some none ∧
    nextCwr 3 3 [0, 2, 2] = some (some [1, 1, 1]) ∧ nextCwr 3 3 [2, 2, 2] = some none := by decide +kernel
-- a malformed index list is an IndexError in the model, not a default value
example : nextComb 5 3 [0, 1] = none := by decide +kernel
example : sklearnCombinations 2 3 false true
    = some [[], [0], [1], [0,0], [0,1], [1,1], [0,0,0], [0,0,1], [0,1,1], [1,1,1]] := by decide +kernel
example : sklearnCombinations 3 3 true false = some [[0], [1], [2], [0,1], [0,2], [1,2], [0,1,2]] := by
  decide +kernel
example : sklearnCombinationsMinMax 2 2 3 false true
    = some [[], [0,0], [0,1], [1,1], [0,0,0], [0,0,1], [0,1,1], [1,1,1]] := by decide +kernel
example : transformIonly monoOps 3 3 false = sklearnCombinations 3 3 true false := (ionly_eq_sklearn 3 3 false).2

end MlVerif.C11
