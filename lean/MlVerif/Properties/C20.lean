/-
C20 — Time-series framing never looks ahead (`build_ts_X_y`, `ts_mape`).
Property theorems only.  `MlVerif.Gen.C20` is regenerated from mlinsights/timeseries/{utils,metrics,base}.py
on every run: `plain_bounds`, `same_bounds`, `no_slice_clips_or_wraps`, `mape_slices`, `mape_consts`,
`regressors_use_same_rows` are statements about what the source says *now*; every other theorem is derived
from them for ALL series lengths, `past ≥ 1`, `delay2 ≥ 2` (`delay1 = 1`, `use_all_past = False`), any
exogenous block and any weights.

Conventions: tables are column-major, a cell `none` is NaN; `T.cell r c : Option Cell` is `some v` for an
existing cell.  `nrow : Nat` with `(nrow : Int) = n - delay2 - past + 2` says the series is long enough
(`n ≥ past + delay2 - 2`; the frame then has `nrow ≥ 0` rows).
-/
import MlVerif.Gen.C20
import MlVerif.Model.TimeSeries
import MlVerif.Lemmas.TimeSeries
import MlVerif.Lemmas.TimeSeriesFrame
import MlVerif.Lemmas.TimeSeriesMape

namespace MlVerif.C20
open MlVerif.Gen.C20 MlVerif.TimeSeries

/-! ### what the regenerated slice bounds evaluate to -/

/-- `same_rows=False`: every regenerated shape, loop range, column index and slice bound has the value the
statement needs (no padding, `nrow` rows), for every n, past ≥ 1, delay2 ≥ 2, ncol ≥ 0. -/
theorem plain_bounds (n nrow : Nat) (past d2 ncol : Int)
    (hnrow : (nrow : Int) = n - d2 - past + 2) : Facts plainB n past d2 ncol 0 nrow nrow := by
  constructor
  · omega
  all_goals simp only [plainB]
  · unfold Plain.newXRows; omega
  · unfold Plain.newXCols; omega
  · unfold Plain.newYRows; omega
  · unfold Plain.newYCols; omega
  · rw [normIdx_inrange _ _ (by unfold Plain.xDstRow; omega) (by unfold Plain.xDstRow; omega)]
    unfold Plain.xDstRow; omega
  · unfold Plain.xDstColHi; omega
  · unfold Plain.xSrcLo; omega
  · unfold Plain.xSrcHi; omega
  · unfold Plain.lagLo; omega
  · unfold Plain.lagHi; omega
  · intro i hi1 hi2
    refine ⟨?_, ?_, ?_, ?_⟩
    · rw [normIdx_inrange _ _ (by unfold Plain.lagDstRow; omega) (by unfold Plain.lagDstRow; omega)]
      unfold Plain.lagDstRow; omega
    · unfold Plain.lagDstCol; omega
    · unfold Plain.lagSrcLo; omega
    · unfold Plain.lagSrcHi; omega
  · unfold Plain.tgtLo; omega
  · unfold Plain.tgtHi; omega
  · intro i hi1 hi2
    refine ⟨?_, ?_, ?_, ?_⟩
    · rw [normIdx_inrange _ _ (by unfold Plain.tgtDstRow; omega) (by unfold Plain.tgtDstRow; omega)]
      unfold Plain.tgtDstRow; omega
    · unfold Plain.tgtDstCol; omega
    · unfold Plain.tgtSrcLo; omega
    · unfold Plain.tgtSrcHi; omega

/-- `same_rows=True`: the same windows, written from row `first = delay2 + past - 2` of an `n`-row table. -/
theorem same_bounds (n nrow : Nat) (past d2 ncol : Int) (hp : 1 ≤ past) (hd : 2 ≤ d2)
    (hnrow : (nrow : Int) = n - d2 - past + 2) : Facts sameB n past d2 ncol (d2 + past - 2).toNat n nrow := by
  constructor
  · omega
  all_goals simp only [sameB]
  · unfold Same.newXRows; omega
  · unfold Same.newXCols; omega
  · unfold Same.newYRows; omega
  · unfold Same.newYCols; omega
  · rw [normIdx_inrange _ _ (by unfold Same.xDstRow; omega) (by unfold Same.xDstRow; omega)]
    unfold Same.xDstRow; omega
  · unfold Same.xDstColHi; omega
  · unfold Same.xSrcLo; omega
  · unfold Same.xSrcHi; omega
  · unfold Same.lagLo; omega
  · unfold Same.lagHi; omega
  · intro i hi1 hi2
    refine ⟨?_, ?_, ?_, ?_⟩
    · rw [normIdx_inrange _ _ (by unfold Same.lagDstRow; omega) (by unfold Same.lagDstRow; omega)]
      unfold Same.lagDstRow; omega
    · unfold Same.lagDstCol; omega
    · unfold Same.lagSrcLo; omega
    · unfold Same.lagSrcHi; omega
  · unfold Same.tgtLo; omega
  · unfold Same.tgtHi; omega
  · intro i hi1 hi2
    refine ⟨?_, ?_, ?_, ?_⟩
    · rw [normIdx_inrange _ _ (by unfold Same.tgtDstRow; omega) (by unfold Same.tgtDstRow; omega)]
      unfold Same.tgtDstRow; omega
    · unfold Same.tgtDstCol; omega
    · unfold Same.tgtSrcLo; omega
    · unfold Same.tgtSrcHi; omega

/-- No source slice clips or wraps, in either variant: every `y[a:b]`, `X[a:b]`, `weights[a:b]` has
`0 ≤ a ≤ b ≤ n`, for every loop index in range. -/
theorem no_slice_clips_or_wraps (n nrow : Nat) (past d2 ncol : Int) (hp : 1 ≤ past) (hd : 2 ≤ d2)
    (hnrow : (nrow : Int) = n - d2 - past + 2) :
    (∀ i, 0 ≤ i → i < past →
      0 ≤ Plain.lagSrcLo n past 1 d2 ncol i ∧ Plain.lagSrcLo n past 1 d2 ncol i ≤ Plain.lagSrcHi n past 1 d2 ncol i ∧
      Plain.lagSrcHi n past 1 d2 ncol i ≤ n ∧
      0 ≤ Same.lagSrcLo n past 1 d2 ncol i ∧ Same.lagSrcLo n past 1 d2 ncol i ≤ Same.lagSrcHi n past 1 d2 ncol i ∧
      Same.lagSrcHi n past 1 d2 ncol i ≤ n) ∧
    (∀ i, 1 ≤ i → i < d2 →
      0 ≤ Plain.tgtSrcLo n past 1 d2 ncol i ∧ Plain.tgtSrcLo n past 1 d2 ncol i ≤ Plain.tgtSrcHi n past 1 d2 ncol i ∧
      Plain.tgtSrcHi n past 1 d2 ncol i ≤ n ∧
      0 ≤ Same.tgtSrcLo n past 1 d2 ncol i ∧ Same.tgtSrcLo n past 1 d2 ncol i ≤ Same.tgtSrcHi n past 1 d2 ncol i ∧
      Same.tgtSrcHi n past 1 d2 ncol i ≤ n) ∧
    (0 ≤ Plain.xSrcLo n past 1 d2 ncol 0 ∧ Plain.xSrcLo n past 1 d2 ncol 0 ≤ Plain.xSrcHi n past 1 d2 ncol 0 ∧
      Plain.xSrcHi n past 1 d2 ncol 0 ≤ n ∧
      0 ≤ Same.xSrcLo n past 1 d2 ncol 0 ∧ Same.xSrcLo n past 1 d2 ncol 0 ≤ Same.xSrcHi n past 1 d2 ncol 0 ∧
      Same.xSrcHi n past 1 d2 ncol 0 ≤ n) ∧
    (0 ≤ Plain.wLo n past 1 d2 ncol 0 ∧ Plain.wLo n past 1 d2 ncol 0 ≤ Plain.wHi n past 1 d2 ncol 0 ∧
      Plain.wHi n past 1 d2 ncol 0 ≤ n) := by
  refine ⟨?_, ?_, ?_, ?_⟩
  · intro i h1 h2
    unfold Plain.lagSrcLo Plain.lagSrcHi Same.lagSrcLo Same.lagSrcHi; omega
  · intro i h1 h2
    unfold Plain.tgtSrcLo Plain.tgtSrcHi Same.tgtSrcLo Same.tgtSrcHi; omega
  · unfold Plain.xSrcLo Plain.xSrcHi Same.xSrcLo Same.xSrcHi; omega
  · unfold Plain.wLo Plain.wHi; omega

/-- the fitting code of the regressors frames with `same_rows=True`, and the constructor enforces
`delay1 ≥ 1`, `delay2 > delay1`, `past ≥ 0` -/
theorem regressors_use_same_rows :
    baseUsesSameRows = true ∧ "self.delay1 >= 1" ∈ ctorGuards ∧ "self.delay2 > self.delay1" ∈ ctorGuards ∧
    "self.past >= 0" ∈ ctorGuards := by
  decide

/-! ### the frame -/

/-- **Plain variant, every n / past / delay2.**  The call succeeds; the frame has
`nrow = n - delay2 - past + 2` rows; row `r` holds the `past` consecutive lags `y[r], …, y[r+past-1]`
(columns `ncol …`), the `delay2 - 1` consecutive targets `y[r+past], …, y[r+past+delay2-2]` — the first one
exactly `delay1 = 1` step after the newest lag `y[r+past-1]`, so every lag is strictly older than every
target — the exogenous row `X[r+past-1]` and (see `plain_weights`) the weight `w[r+past-1]` of the newest lag.
All indices are in range (no NaN, no clipping). -/
theorem plain_frame (X : Option (List (List Int))) (ncolX : Nat) (y : List Int) (w : Option (List Int))
    (past d2 : Int) (nrow : Nat) (hp : 1 ≤ past) (hd : 2 ≤ d2)
    (hnrow : (nrow : Int) = y.length - d2 - past + 2)
    (hX : ∀ Xr, X = some Xr → Xr.length = y.length) :
    ∃ TX TY, buildTsXy plainB X ncolX y w past 1 d2 =
        .ok (TX, TY, newWeights plainB w y.length past 1 d2 (ncolOf X ncolX)) ∧
      TX.rows = nrow ∧ TY.rows = nrow ∧
      TX.cols.length = (ncolOf X ncolX + past).toNat ∧ TY.cols.length = (d2 - 1).toNat ∧
      (∀ r i : Nat, r < nrow → (i : Int) < past →
        TX.cell r ((ncolOf X ncolX).toNat + i) = some (y[r + i]?) ∧ r + i < y.length) ∧
      (∀ r j : Nat, r < nrow → (j : Int) < d2 - 1 →
        TY.cell r j = some (y[r + past.toNat + j]?) ∧ r + past.toNat + j < y.length) ∧
      (∀ Xr, X = some Xr → ∀ r c : Nat, r < nrow → c < ncolX →
        TX.cell r c = some ((Xr[r + past.toNat - 1]?).bind (fun row => row[c]?)) ∧
        r + past.toNat - 1 < Xr.length) := by
  obtain ⟨TX, TY, h1, h2, h3, h4, h5, h6, h7, h8, _, _⟩ :=
    frame_cells plainB X ncolX y w past d2 0 nrow nrow hp hd hnrow hX
      (plain_bounds y.length nrow past d2 _ hnrow)
  refine ⟨TX, TY, h1, h2, h3, h4, h5, ?_, ?_, ?_⟩
  · intro r i hr hi; simpa using h6 r i hr hi
  · intro r j hr hj; simpa using h7 r j hr hj
  · intro Xr hXr r c hr hc'; simpa using h8 Xr hXr r c hr hc'

/-- the index arithmetic behind "never looks ahead", spelled out for the indices of `plain_frame`:
lag `i` of row `r` is `y[r+i]`, target `j` is `y[r+past+j]`; lags and targets are consecutive, every lag is
strictly older than every target, the first target is exactly one step after the newest lag. -/
theorem frame_never_looks_ahead (r past : Nat) (hp : 1 ≤ past) :
    (∀ i j : Nat, i < past → r + i < r + past + j) ∧
    (r + past + 0 = (r + (past - 1)) + 1) ∧
    (∀ i : Nat, r + (i + 1) = (r + i) + 1) ∧
    (∀ j : Nat, r + past + (j + 1) = (r + past + j) + 1) := by
  refine ⟨?_, ?_, ?_, ?_⟩ <;> intros <;> omega

/-- weights of the plain variant: row `r` gets `w[r + past - 1]`, the weight of its newest lag -/
theorem plain_weights (wv : List Int) (n : Nat) (past d2 ncol : Int) (nrow : Nat) (hp : 1 ≤ past) (hd : 2 ≤ d2)
    (hnrow : (nrow : Int) = n - d2 - past + 2) (hw : wv.length = n) :
    ∃ W, newWeights plainB (some wv) n past 1 d2 ncol = some W ∧ W.length = nrow ∧
      ∀ r : Nat, r < nrow → W[r]? = wv[r + past.toNat - 1]? ∧ r + past.toNat - 1 < wv.length := by
  have hid : plainB.wIdentity = false := by simp only [plainB]; unfold Plain.wIdentity; rfl
  have hlo : plainB.wLo n past 1 d2 ncol 0 = past - 1 := by simp only [plainB]; unfold Plain.wLo; omega
  have hhi : plainB.wHi n past 1 d2 ncol 0 = past - 1 + nrow := by simp only [plainB]; unfold Plain.wHi; omega
  refine ⟨(wv.drop (past.toNat - 1)).take nrow, ?_, ?_, ?_⟩
  · simp only [newWeights, Option.map_some, hid, hlo, hhi]
    rw [pySlice_inrange wv _ _ (by omega) (by omega) (by omega)]
    have e1 : (past - 1).toNat = past.toNat - 1 := by omega
    have e2 : (past - 1 + (nrow : Int) - (past - 1)).toNat = nrow := by omega
    simp [e1, e2]
  · simp; omega
  · intro r hr
    refine ⟨?_, by omega⟩
    simp only [List.getElem?_take, hr, if_true, List.getElem?_drop]
    congr 1; omega

/-- **same_rows variant, every n / past / delay2.**  The call succeeds; both tables keep the original
length `n`; the first `pad = delay2 + past - 2 = n - nrow` rows are entirely NaN; row `pad + r` is row `r` of
the plain frame (same lags, targets and exogenous row); the weights are returned unchanged. -/
theorem same_frame (X : Option (List (List Int))) (ncolX : Nat) (y : List Int) (w : Option (List Int))
    (past d2 : Int) (nrow : Nat) (hp : 1 ≤ past) (hd : 2 ≤ d2)
    (hnrow : (nrow : Int) = y.length - d2 - past + 2)
    (hX : ∀ Xr, X = some Xr → Xr.length = y.length) :
    ∃ TX TY, buildTsXy sameB X ncolX y w past 1 d2 = .ok (TX, TY, w) ∧
      TX.rows = y.length ∧ TY.rows = y.length ∧ (d2 + past - 2).toNat + nrow = y.length ∧
      TX.cols.length = (ncolOf X ncolX + past).toNat ∧ TY.cols.length = (d2 - 1).toNat ∧
      (∀ r i : Nat, r < nrow → (i : Int) < past →
        TX.cell ((d2 + past - 2).toNat + r) ((ncolOf X ncolX).toNat + i) = some (y[r + i]?) ∧ r + i < y.length) ∧
      (∀ r j : Nat, r < nrow → (j : Int) < d2 - 1 →
        TY.cell ((d2 + past - 2).toNat + r) j = some (y[r + past.toNat + j]?) ∧ r + past.toNat + j < y.length) ∧
      (∀ Xr, X = some Xr → ∀ r c : Nat, r < nrow → c < ncolX →
        TX.cell ((d2 + past - 2).toNat + r) c = some ((Xr[r + past.toNat - 1]?).bind (fun row => row[c]?)) ∧
        r + past.toNat - 1 < Xr.length) ∧
      (∀ r c : Nat, r < (d2 + past - 2).toNat → c < TX.cols.length → TX.cell r c = some none) ∧
      (∀ r c : Nat, r < (d2 + past - 2).toNat → c < TY.cols.length → TY.cell r c = some none) := by
  obtain ⟨TX, TY, h1, h2, h3, h4, h5, h6, h7, h8, h9, h10⟩ :=
    frame_cells sameB X ncolX y w past d2 (d2 + past - 2).toNat y.length nrow hp hd hnrow hX
      (same_bounds y.length nrow past d2 _ hp hd hnrow)
  have hwid : newWeights sameB w y.length past 1 d2 (ncolOf X ncolX) = w := by
    have : sameB.wIdentity = true := by simp only [sameB]; unfold Same.wIdentity; rfl
    cases w <;> simp [newWeights, this]
  rw [hwid] at h1
  exact ⟨TX, TY, h1, h2, h3, by omega, h4, h5, h6, h7, h8, h9, h10⟩

/-- **same_rows is the plain table left-padded with NaN to the original length**: both calls succeed, the
`same_rows` tables have `n` rows, their first `pad = n - nrow` rows are NaN and row `pad + r` equals row `r` of
the plain tables, cell by cell, in every column. -/
theorem same_is_plain_left_padded (X : Option (List (List Int))) (ncolX : Nat) (y : List Int)
    (w : Option (List Int)) (past d2 : Int) (nrow : Nat) (hp : 1 ≤ past) (hd : 2 ≤ d2)
    (hnrow : (nrow : Int) = y.length - d2 - past + 2)
    (hX : ∀ Xr, X = some Xr → Xr.length = y.length) :
    ∃ PX PY PW SX SY pad, buildTsXy plainB X ncolX y w past 1 d2 = .ok (PX, PY, PW) ∧
      buildTsXy sameB X ncolX y w past 1 d2 = .ok (SX, SY, w) ∧
      PX.rows = nrow ∧ PY.rows = nrow ∧ SX.rows = y.length ∧ SY.rows = y.length ∧ pad + nrow = y.length ∧
      SX.cols.length = PX.cols.length ∧ SY.cols.length = PY.cols.length ∧
      (∀ r c : Nat, r < pad → c < SX.cols.length → SX.cell r c = some none) ∧
      (∀ r c : Nat, r < pad → c < SY.cols.length → SY.cell r c = some none) ∧
      (∀ r c : Nat, r < nrow → c < SX.cols.length → SX.cell (pad + r) c = PX.cell r c) ∧
      (∀ r c : Nat, r < nrow → c < SY.cols.length → SY.cell (pad + r) c = PY.cell r c) := by
  obtain ⟨PX, PY, p1, p2, p3, p4, p5, p6, p7, p8⟩ := plain_frame X ncolX y w past d2 nrow hp hd hnrow hX
  obtain ⟨SX, SY, s1, s2, s3, s0, s4, s5, s6, s7, s8, s9, s10⟩ := same_frame X ncolX y w past d2 nrow hp hd hnrow hX
  refine ⟨PX, PY, _, SX, SY, (d2 + past - 2).toNat, p1, s1, p2, p3, s2, s3, s0, by rw [s4, p4], by rw [s5, p5],
    s9, s10, ?_, ?_⟩
  · intro r c hr hc
    rw [s4] at hc
    by_cases hcn : (c : Int) < ncolOf X ncolX
    · cases X with
      | none => simp [ncolOf] at hcn; omega
      | some Xr =>
        simp only [ncolOf] at hcn
        rw [(s8 Xr rfl r c hr (by omega)).1, (p8 Xr rfl r c hr (by omega)).1]
    · have hc' : c = (ncolOf X ncolX).toNat + (c - (ncolOf X ncolX).toNat) := by omega
      rw [hc', (s6 r _ hr (by omega)).1, (p6 r _ hr (by omega)).1]
  · intro r c hr hc
    rw [s5] at hc
    rw [(s7 r c hr (by omega)).1, (p7 r c hr (by omega)).1]

/-- a series too short to be framed (`n < past + delay2 - 2`) is refused by the plain variant -/
theorem plain_too_short_refused (X : Option (List (List Int))) (ncolX : Nat) (y : List Int)
    (w : Option (List Int)) (past d1 d2 : Int) (hshort : (y.length : Int) - d2 - past + 2 < 0) :
    buildTsXy plainB X ncolX y w past d1 d2 = .error .valueError := by
  have h : alloc (plainB.newXRows y.length past d1 d2 (ncolOf X ncolX) 0)
      (plainB.newXCols y.length past d1 d2 (ncolOf X ncolX) 0) = .error .valueError := by
    unfold alloc
    rw [if_pos (Or.inl (by simp only [plainB]; unfold Plain.newXRows; omega))]
  unfold buildTsXy buildX
  simp only [h]

/-- …and yields no row in the `same_rows` variant: the call either raises or returns tables of `n` rows in
which every cell is NaN (every write addresses zero rows). -/
theorem same_too_short_no_row (X : Option (List (List Int))) (ncolX : Nat) (y : List Int)
    (w : Option (List Int)) (past d1 d2 : Int) (hshort : (y.length : Int) - d2 - past + 2 < 0) :
    ∀ TX TY W, buildTsXy sameB X ncolX y w past d1 d2 = .ok (TX, TY, W) →
      TX.rows = y.length ∧ TY.rows = y.length ∧
      (∀ col ∈ TX.cols, col = List.replicate y.length none) ∧
      (∀ col ∈ TY.cols, col = List.replicate y.length none) := by
  apply build_noop sameB X ncolX y w past d1 d2 y.length
  · simp only [sameB]; unfold Same.newXRows; rfl
  · simp only [sameB]; unfold Same.newYRows; rfl
  · intro i
    simp only [sameB]
    refine ⟨?_, ?_, ?_⟩
    · apply normIdx_clip; unfold Same.xDstRow; omega
    · apply normIdx_clip; unfold Same.lagDstRow; omega
    · apply normIdx_clip; unfold Same.tgtDstRow; omega

/-! ### ts_mape -/

/-- the slices in `ts_mape` are `[1:]` / `[:-1]` as the definition of the metric requires -/
theorem mape_slices : MapeSlicesOK := by
  unfold MapeSlicesOK
  decide

/-- what `ts_mape` returns on a zero denominator exists in the installed numpy: `0` for 0/0, `+inf` otherwise -/
theorem mape_consts : MapeConstsOK := by
  unfold MapeConstsOK
  decide

/-- **ts_mape never raises and is non-negative**: for two series of equal length `≠ 1`, any NaN forecasts
and non-negative weights, the result is `masked` (no comparable pair of rows), `+inf`, or a number `≥ 0`. -/
theorem mape_nonneg (e : List Rat) (p : List (Option Rat)) (w : Option (List Rat))
    (hlen : e.length = p.length) (hn1 : e.length ≠ 1)
    (hw : ∀ wv, w = some wv → wv.length = e.length ∧ ∀ v ∈ wv, 0 ≤ v) :
    (∀ er, tsMape e p w ≠ .err er) ∧ (∀ q, tsMape e p w = .num q → 0 ≤ q) := by
  rcases tsMape_cases mape_slices mape_consts e p w hlen hn1 hw with h | h | ⟨q, hq, h⟩
  · rw [h]; exact ⟨fun er h' => (by cases h'), fun q h' => (by cases h')⟩
  · rw [h]; exact ⟨fun er h' => (by cases h'), fun q h' => (by cases h')⟩
  · rw [h]; exact ⟨fun er h' => (by cases h'), fun q' h' => (by cases h'; exact hq)⟩

/-- **ts_mape of the naive previous-value forecast is 1** whenever its denominator (the naive forecast's own
error over the compared rows) is defined and non-zero; numerator and denominator are the same sum, with or
without weights. -/
theorem mape_naive_is_one (e : List Rat) (w : Option (List Rat)) (hn1 : e.length ≠ 1) :
    mapeNum e (naive e) w = mapeDen e (naive e) w ∧
    ∀ d, mapeDen e (naive e) w = .ok (some d) → d ≠ 0 → tsMape e (naive e) w = .num 1 := by
  have hnd := naive_num_eq_den mape_slices e w
  refine ⟨hnd, ?_⟩
  intro d hd hd0
  unfold tsMape
  rw [if_neg (by simp [naive_length]), if_neg hn1, hnd, hd]
  simp only [mapeFinal, hd0, if_false]
  congr 1
  grind

/-! ### the tie to the functions the model transcribes -/

/-- the functions the hand-written model transcribes have, in the current source, the control skeleton (tests, loop
headers, kinds of statements and the names they bind) they had when the model was written and validated: no branch,
loop, early exit or rebinding has been added that the model does not describe -/
theorem modelled_functions_have_the_transcribed_shape :
    MlVerif.Gen.C20.shapeBuildTsXy =
      "sig(model, X, y, weights=None, same_rows=False)|assert;if(same_rows){if(model.use_all_past){ncol=;nrow=;new_X=;first=;if(X is not None){for(i in range(0, model.past)){begin=;end=;new_X[]=}};for(i in range(0, model.past)){end=;new_X[]=};new_y=;for(i in range(model.delay1, model.delay2)){new_y[]=};new_weights=}else{ncol=;nrow=;first=;new_X=;if(X is not None){new_X[]=};for(i in range(model.past)){end=;new_X[]=};new_y=;for(i in range(model.delay1, model.delay2)){dec=;new_y[]=};new_weights=}}else{if(model.use_all_past){ncol=;nrow=;new_X=;if(X is not None){for(i in range(0, model.past)){begin=;end=;new_X[]=}};for(i in range(0, model.past)){end=;new_X[]=};new_y=;for(i in range(model.delay1, model.delay2)){new_y[]=};new_weights=}else{ncol=;nrow=;new_X=;if(X is not None){new_X[]=};for(i in range(model.past)){end=;new_X[]=};new_y=;for(i in range(model.delay1, model.delay2)){dec=;new_y[]=};new_weights=}};return" ∧
    MlVerif.Gen.C20.shapeTsMape =
      "sig(expected_y, predicted_y, sample_weight=None)|assert;expected_y=;predicted_y=;mask=;mask2=;mask2[]BitOr=;expected_y=;predicted_y=;if(sample_weight is None){dy1=;dy2=}else{dy1=;dy2=};dy1=;dy2=;if(dy1 == 0){return};return" :=
  ⟨rfl, rfl⟩

/-! ### non-vacuity: concrete instances satisfying the hypotheses -/

-- n = 5, past = 2, delay2 = 3, two exogenous columns, weights: nrow = 2 > 0
example : buildTsXy plainB (some [[0,1],[2,3],[4,5],[6,7],[8,9]]) 2 [100,101,102,103,104]
    (some [50,51,52,53,54]) 2 1 3 =
    .ok (⟨2, [[some 2, some 4], [some 3, some 5], [some 100, some 101], [some 101, some 102]]⟩,
         ⟨2, [[some 102, some 103], [some 103, some 104]]⟩, some [51, 52]) := by rfl
example : ((2 : Nat) : Int) = ([100,101,102,103,104] : List Int).length - 3 - 2 + 2 := by decide
example : buildTsXy sameB none 0 [100,101,102,103,104] none 2 1 3 =
    .ok (⟨5, [[none, none, none, some 100, some 101], [none, none, none, some 101, some 102]]⟩,
         ⟨5, [[none, none, none, some 102, some 103], [none, none, none, some 103, some 104]]⟩, none) := by
  rfl
-- too short: n = 3 < past + delay2 - 2 = 4
example : buildTsXy plainB none 0 [1,2,3] none 1 1 5 = .error .valueError := by rfl
example : buildTsXy sameB (some [[0],[1],[2]]) 1 [1,2,3] none 1 1 5 = .error .valueError := by rfl
example : buildTsXy sameB none 0 [1,2] none 1 1 5 =
    .ok (⟨2, [[none, none]]⟩, ⟨2, [[none, none], [none, none], [none, none], [none, none]]⟩, none) := by
  rfl
-- ts_mape: naive forecast on a non-constant series, a zero denominator, a plain ratio
example : tsMape [1, 2, 4, 3] (naive [1, 2, 4, 3]) none = .num 1 := by decide +kernel
example : (mapeDen [1, 2, 4, 3] (naive [1, 2, 4, 3]) none).toOption = some (some 3) := by decide +kernel
example : tsMape [1, 1, 1] [some 1, some 1, some 2] none = .inf := by decide +kernel
example : tsMape [1, 2, 4] [some 1, some 3, some 3] (some [1, 1, 2]) = .num (3 / 5) := by decide +kernel

end MlVerif.C20
