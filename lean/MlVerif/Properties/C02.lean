/-
C02 — fit/predict never alter hyper-parameters or caller data, even when fit fails.
Property theorems only.  `MlVerif.Gen.C02` is regenerated from the source on every run: one
control-flow skeleton per public method of every estimator class (calls to methods of the same
hierarchy, to mlinsights functions and to nested functions inlined).

Two verified analyses (`Lemmas/Flow.lean`, `Lemmas/Lifecycle.lean`) are sound for EVERY program of
the IR and EVERY execution (all branches, all iteration counts, an exception raised by ANY call);
they are then decided, in the kernel, on what the source says now.
-/
import MlVerif.Gen.C02
import MlVerif.Lemmas.Lifecycle

namespace MlVerif.C02
open MlVerif.Flow MlVerif.Lifecycle MlVerif.Gen.C02

/-- the hyper-parameter analysis accepts the method -/
def paramOk (m : Method) : Bool :=
  exitsGood (fun _ => ParamSafe.good) (analyze ParamSafe.dom m.paramProg ParamSafe.entry)

/-- the ownership analysis accepts the method -/
def ownOk (m : Method) : Bool :=
  exitsGood (fun _ _ => true) (analyze Owner.dom m.ownProg m.borrowed)

/-! ### generic soundness (all programs of the IR, all executions) -/

/-- **safe_sound**: accepted ⇒ the hyper-parameters at EVERY exit (normal, `return`, or an exception
raised at any call — i.e. a failing fit) are those at entry. -/
theorem safe_sound (p : Prog Act)
    (h : exitsGood (fun _ => ParamSafe.good) (analyze ParamSafe.dom p ParamSafe.entry) = true)
    (o : Oracle) (s : ParamSafe.St) :
    ∀ k, (exec ParamSafe.sem p o s).2.1.params k = s.params k :=
  ParamSafe.params_restored p h o s

/-- **own_sound**: accepted ⇒ no location of the caller's memory (`< m`) is written by any execution,
whatever the names in `borrowed` point to at entry. -/
theorem own_sound (p : Prog Act) (borrowed : List Nat)
    (h : exitsGood (fun _ _ => true) (analyze Owner.dom p borrowed) = true)
    (m : Nat) (o : Oracle) (s : Owner.St) (hnext : m ≤ s.next)
    (henv : ∀ v, v ∉ borrowed → m ≤ s.env v) :
    ∀ l, l < m → (exec Owner.sem p o s).2.1.heap l = s.heap l :=
  Owner.caller_memory_untouched p borrowed h m o s hnext henv

/-- **trace_matcher_complete** (tie between the skeletons and the real code): the matcher the
correspondence run uses never rejects a sequence of assignments that some execution of the skeleton
emits.  So when the ordered assignments recorded from a real call are rejected, NO execution of the
regenerated skeleton describes that call: the translation (or the code) changed. -/
theorem trace_matcher_complete (p : Prog Act) (evs : List Trace.Ev) (o : Oracle)
    (hok : (analyze (Trace.dom evs) p [0]).ok = true)
    (hemit : (exec (Trace.sem evs) p o (some 0)).2.1 = some evs.length) :
    Trace.accepts p evs = true :=
  Trace.emitted_is_accepted p evs o hok hemit

/-! ### decided on the regenerated skeletons of the current source -/

/-- every public method of every estimator class restores every hyper-parameter on every exit -/
theorem all_methods_param_safe : methods.all paramOk = true := by decide +kernel

/-- no public method of any estimator class writes in place through a name that may alias the
caller's `X`, `y`, `sample_weight` (or a hyper-parameter object) -/
theorem all_methods_own_safe : methods.all ownOk = true := by decide +kernel

/-- every `fit` returns `self` on every path -/
theorem all_fit_return_self : (methods.filter (·.isFit)).all (·.returnsSelf) = true := by decide +kernel

/-! ### the property, per method of the current source -/

theorem hyperparams_unchanged (m : Method) (hm : m ∈ methods) (o : Oracle) (s : ParamSafe.St) :
    ∀ k, (exec ParamSafe.sem m.paramProg o s).2.1.params k = s.params k := by
  have h := List.all_eq_true.mp all_methods_param_safe m hm
  exact safe_sound m.paramProg h o s

theorem caller_data_untouched (m : Method) (hm : m ∈ methods) (n : Nat) (o : Oracle) (s : Owner.St)
    (hnext : n ≤ s.next) (henv : ∀ v, v ∉ m.borrowed → n ≤ s.env v) :
    ∀ l, l < n → (exec Owner.sem m.ownProg o s).2.1.heap l = s.heap l := by
  have h := List.all_eq_true.mp all_methods_own_safe m hm
  exact own_sound m.ownProg m.borrowed h n o s hnext henv

/-! ### the property over histories (the quantifier: all sequences of successful and failing calls) -/

/-- a history: public methods of the current source called one after the other on the same estimator, each with its own
oracle (branch outcomes, iteration counts, the call at which an exception is raised - successful and failing calls alike) -/
def runHistory : List (Method × Oracle) → ParamSafe.St → ParamSafe.St
  | [], s => s
  | (m, o) :: rest, s => runHistory rest (exec ParamSafe.sem m.paramProg o s).2.1

/-- after ANY sequence of calls of public methods of the current source - whichever of them fail, and wherever they fail -
every hyper-parameter holds the value it had before the first call (induction over the history) -/
theorem hyperparams_unchanged_over_any_history (h : List (Method × Oracle)) (hm : ∀ mo ∈ h, mo.1 ∈ methods)
    (s : ParamSafe.St) : ∀ k, (runHistory h s).params k = s.params k := by
  induction h generalizing s with
  | nil => intro k; rfl
  | cons mo rest ih =>
    intro k
    obtain ⟨m, o⟩ := mo
    have h1 := hyperparams_unchanged m (hm (m, o) (List.mem_cons_self ..)) o s k
    have h2 := ih (fun x hx => hm x (List.mem_cons_of_mem _ hx)) (exec ParamSafe.sem m.paramProg o s).2.1 k
    simp only [runHistory]
    rw [h2, h1]

/-! ### non-vacuity and sanity of the analyses on hand-written skeletons -/

/-- save / halve / call / restore WITHOUT try-finally (the shape `ConstraintKMeans.fit` had): rejected,
and indeed an execution exists that exits with a changed hyper-parameter -/
def halveNoFinally : Prog Act :=
  .seq (.atom (.snap 0 0)) (.seq (.atom (.write 0)) (.seq .call (.atom (.restore 0 0))))

example : exitsGood (fun _ => ParamSafe.good) (analyze ParamSafe.dom halveNoFinally ParamSafe.entry) = false := by
  decide
example : ∃ o s, (exec ParamSafe.sem halveNoFinally o s).2.1.params 0 ≠ s.params 0 :=
  ⟨[0, 9, 1], ⟨fun _ => 3, fun _ => 0⟩, by decide⟩

/-- the repaired shape (try … finally restore) is accepted -/
def halveFinally : Prog Act :=
  .seq (.atom (.snap 0 0)) (.seq (.atom (.write 0)) (.tryFinally .call (.atom (.restore 0 0))))

example : exitsGood (fun _ => ParamSafe.good) (analyze ParamSafe.dom halveFinally ParamSafe.entry) = true := by
  decide

/-- `W = sample_weight; W *= 2` is rejected; `W = f(...) (fresh); W *= sample_weight` is accepted -/
example : exitsGood (fun _ _ => true)
    (analyze Owner.dom (.seq (.atom (.bindAlias 1 [0])) (.atom (.mutate 1))) [0]) = false := by decide
example : exitsGood (fun _ _ => true)
    (analyze Owner.dom (.seq (.atom (.bindAlias 1 [0])) (.seq (.atom (.bindFresh 1)) (.atom (.mutate 1)))) [0]) = true := by
  decide

/-- the matcher accepts what `halveFinally` emits when the call raises (write, restore) and rejects a
lone write (the restore in `finally` cannot be skipped) -/
example : Trace.accepts halveFinally [.P 0, .P 0] = true ∧ Trace.accepts halveFinally [.P 0] = false := by decide

example : methods ≠ [] := by decide

end MlVerif.C02
