/-
C01 — parameter protocol: get_params / set_params / clone round-trip.  Property theorems only.

`MlVerif.Gen.C01` is regenerated from the source on every run: the prefixes, slice offsets, `returns self`
flags and the per-class table used below are what the source says *now*; the model (`Model/Params.lean`)
computes with them, so every theorem here is a statement about the current code's string arithmetic.

Vocabulary (definitions in `Lemmas/ParamsSpec.lean`):
* `wf e`        the state is one a constructor produces (slots present, names routable, keys distinct);
* `LeafOf e k p slot`  the advertised key `k` addresses slot `slot` of an estimator of protocol `p` inside `e`;
* `directValueOk p slot v`  `v` is a value that protocol accepts in that slot (an estimator for `model`,
                  a method name/callable for `method`, a list of estimators for `models`, …);
* `Upd e k v e'`  abstract dictionary-tree update: `e'` is `e` with exactly that one slot replaced by `v` —
                  every other slot, member, object id and fitted flag is the identical term, hence every other
                  advertised key keeps its value and the keys below `k` are re-derived from `v`.
-/
import MlVerif.Gen.C01
import MlVerif.Model.Params
import MlVerif.Lemmas.ParamsSpec
import MlVerif.Lemmas.ParamsTransfer
import MlVerif.Lemmas.ParamsDict

namespace MlVerif.C01
open MlVerif.Gen.C01 MlVerif.Params

/-! ### per-class table (regenerated) -/

/-- Every in-scope estimator class stores every constructor parameter verbatim, by a `None` default or by an
idempotent normalisation (what `sklearn.base.clone` requires), under a routable name, keeps `**kwargs`, has a
known protocol and a `set_params` that returns `self` on every path. -/
theorem class_table_storage_ok : ∀ c ∈ classes, c.ctorStorageOk = true := by decide

/-- constructors store their parameters and nothing derived from them: the only other statements are the parameter
object of `SkBase`, the (re)binding of the learner's method (redone by its `set_params`), the forwarding of `**kwargs`
to `set_params`, and a constant.  A flag or private copy computed from a parameter in `__init__` would not follow
`set_params` - the model's `setParams` / `getParams` know of no such state -/
theorem constructors_store_parameters_only :
    ctorSideState = ["SkBase (in SkBase): self.P =",
                     "SkBaseTransformLearner (in SkBaseTransformLearner): call self._set_method",
                     "ClassifierAfterKMeans (in ClassifierAfterKMeans): call self.set_params",
                     "ConstraintKMeans (in ConstraintKMeans): self._n_threads ="] := by decide

/-! ### string arithmetic of the custom protocols (regenerated expressions) -/

/-- Indexed keys, **every** index: `models_<i>__<sub>` reaches member `i` with sub-key `<sub>` (this is the
obligation that fails for `k[d + 1 + len(si):]` as soon as `i ≥ 10`). -/
theorem stacking_indexed_key_routes_to_member (i n : Nat) (sub : Key) (h : i < n) :
    stackingRoute (stackingGetPrefix ++ showNat i ++ stackingGetSep ++ sub) n = .ok (i, sub) :=
  stackingRoute_index i n sub h

/-- the prefix `get_params` writes is the prefix `set_params` tests and strips (learner) -/
theorem learner_prefix_roundtrip (sub : Key) :
    startsWith (learnerGetPrefix ++ sub) learnerPrefixTest = true ∧
    sliceFrom (learnerGetPrefix ++ sub) (learnerSubkeyFrom learnerD) = sub :=
  ⟨(learner_prefix_facts sub).2.2.1, (learner_prefix_facts sub).2.2.2⟩

/-- every custom `set_params` returns `self` -/
theorem custom_set_params_return_self : ∀ p : Proto, p ≠ .unknownProto → setReturnsSelf p = true :=
  setReturnsSelf_of_known

/-! ### set_then_get -/

/-- **set_then_get**, all configurations (any nesting depth, any list length, any key).  For every key `k`
that `get_params(deep=True)` advertises there is the slot it addresses, and for every value `v` acceptable in
that slot: `set_params(**{k: v})` succeeds, returns `self`, the new state is the abstract update of exactly
that slot (`Upd`: nothing else changes, the keys below `k` are re-derived from `v`), and
`get_params(deep=True)` reports `v` under `k`. -/
theorem set_then_get (e : PVal) (k : Key) (hw : wf e = true) (hk : k ∈ keys (getParams e true)) :
    ∃ p slot, LeafOf e k p slot ∧
      ∀ v, directValueOk p slot v = true →
        ∃ e', setParams e [(k, v)] = .ok (e', true) ∧ Upd e k v e' ∧ (k, v) ∈ getParams e' true := by
  obtain ⟨p, slot, hl⟩ := leaf_of_advertised (sizeOf e + 1) e k (by omega) hw hk
  refine ⟨p, slot, hl, ?_⟩
  intro v hv
  obtain ⟨e', hu⟩ := upd_of_leaf hl v hv
  exact ⟨e', setParams_upd hu hw, hu, upd_reports_value hu⟩

/-- `get_params(deep=True)` of a valid configuration has pairwise distinct keys — it is a dictionary -/
theorem get_params_is_a_dictionary (e : PVal) (hw : wf e = true) : (keys (getParams e true)).Nodup :=
  getParams_keys_nodup (sizeOf e + 1) e (by omega) hw

/-- …and after `set_params(**{k: v})` with a valid value the dictionary lookup `get_params()[k]` is `v` -/
theorem set_then_lookup {e : PVal} {k : Key} {v e' : PVal} (h : Upd e k v e') (hw : wf e = true) (hv : wf v = true) :
    (getParams e' true).lookup k = some v := upd_lookup_value h hw hv

/-- the string-keyed `set_params` refines the abstract update (the routing theorem behind `set_then_get`) -/
theorem set_params_refines_update {e : PVal} {k : Key} {v e' : PVal} (h : Upd e k v e') (hw : wf e = true) :
    setParams e [(k, v)] = .ok (e', true) := setParams_upd h hw

/-- the updated object is the same object (id, class, protocol, fitted state, parameter names) -/
theorem set_keeps_identity {e : PVal} {k : Key} {v e' : PVal} (h : Upd e k v e') :
    ∃ i c p f kw kw', e = .est i c p f kw ∧ e' = .est i c p f kw' ∧ keys kw' = keys kw := upd_same_object h

/-- slots other than the one on the path keep their value (frame, at every level of the path) -/
theorem set_frame_slots (kw : KW) (slot k2 : Key) (v : PVal) (h : k2 ≠ slot) :
    (replaceKey slot v kw).lookup k2 = kw.lookup k2 := lookup_replaceKey_ne slot k2 v kw h

/-- a valid configuration stays valid -/
theorem set_keeps_wellformed {e : PVal} {k : Key} {v e' : PVal} (h : Upd e k v e') (hw : wf e = true)
    (hv : wf v = true) : wf e' = true := upd_wf h hw hv

/-! ### transfer -/

/-- **transfer**, every protocol, any nesting depth, any list length: an instance `e₂` of the same class shape
(same class and protocol, same parameter names) that is fed `get_params(deep=True)` of a valid `e₁` through the
multi-key `set_params` (direct keys first, then one nested call per sub-estimator / member) ends with exactly
`e₁`'s parameter list — it keeps its own identity and fitted flag, shares `e₁`'s sub-estimators (same ids), reports
the same parameters, and the call returns `self`. -/
theorem transfer (i1 i2 : Nat) (c : String) (p : Proto) (f1 f2 : Bool) (kw1 kw2 : KW)
    (hw : wf (.est i1 c p f1 kw1) = true) (hk : keys kw2 = keys kw1) :
    setParams (.est i2 c p f2 kw2) (getParams (.est i1 c p f1 kw1) true) = .ok (.est i2 c p f2 kw1, true) ∧
    getParams (.est i2 c p f2 kw1) true = getParams (.est i1 c p f1 kw1) true := by
  refine ⟨?_, by simp [getParams_est]⟩
  unfold setParams
  rw [transfer_all (sizeOf (PVal.est i1 c p f1 kw1) + 1) i1 c p f1 kw1 (by omega) hw i2 f2 kw2 hk _ (by omega)]
  simp [Except.map, protoOf, setReturnsSelf_of_known p (proto_known_of_wf i1 c p f1 kw1 hw)]

/-- feeding an estimator its own `get_params(deep=True)` changes nothing (what `Pipeline.set_params(**get_params())`
and grid-search refits rely on) -/
theorem self_assignment (i : Nat) (c : String) (p : Proto) (f : Bool) (kw : KW) (hw : wf (.est i c p f kw) = true) :
    setParams (.est i c p f kw) (getParams (.est i c p f kw) true) = .ok (.est i c p f kw, true) :=
  (transfer i i c p f f kw kw hw rfl).1

/-! ### clone -/

/-- **clone_params**: the clone reports the same parameters once object identity and fitted state are forgotten -/
theorem clone_params (e : PVal) (n : Nat) (deep : Bool) :
    strip (cloneV e n).1 = strip e ∧
    getParams (strip (cloneV e n).1) deep = getParams (strip e) deep := by
  have h := strip_cloneV e n
  exact ⟨h, by rw [h]⟩

/-- **clone_unfitted**: no object of the clone is fitted -/
theorem clone_unfitted (e : PVal) (n : Nat) : anyFitted (cloneV e n).1 = false := unfitted_cloneV e n

/-- **clone_fresh_ids**: every object of the clone has an id allocated by this call (≥ the allocator's counter,
below the new counter) and the ids are pairwise distinct — the clone shares no object with anything that existed -/
theorem clone_fresh_ids (e : PVal) (n : Nat) :
    (∀ i ∈ ids (cloneV e n).1, n ≤ i ∧ i < (cloneV e n).2) ∧ (ids (cloneV e n).1).Nodup ∧ n ≤ (cloneV e n).2 :=
  fresh_cloneV e n

/-! ### histories -/

/-- **history**: for every list of operations over {get_params, set_params on an advertised key, clone} started
in a valid configuration, the run of the model is a run of the abstract dictionary-tree specification (every
`set_params` succeeds, returns `self` and is the abstract one-slot update; every `get_params` reads the current
tree; every clone is an unfitted, fresh-id copy with equal parameters), and the configuration stays valid.
Induction over the list. -/
theorem history (ops : List Op) (s : State) (hw : wf s.obj = true) (hv : validOps s ops) :
    AbsRun s ops (run s ops).1 (run s ops).2 ∧ wf (run s ops).1.obj = true := run_refines ops s hw hv

/-! ### non-vacuity -/

def kFit : Key := ['f', 'i', 't', '_', 'i', 'n', 't', 'e', 'r', 'c', 'e', 'p', 't']
def kJobs : Key := ['n', '_', 'j', 'o', 'b', 's']
def kAlpha : Key := ['a', 'l', 'p', 'h', 'a']
def lr (id : Nat) : PVal := .est id "LinearRegression" .base false
  [(kFit, .atom .other "True"), (kJobs, .atom .other "None")]
def learner (id : Nat) (m : PVal) : PVal := .est id "SkBaseTransformLearner" .learner false
  [(kAlpha, .atom .other "3"), (kModel, m), (kMethod, .atom .str "predict")]
def stack12 : PVal := .est 0 "SkBaseTransformStacking" .stacking false
  [(kModels, .ests ((List.range 12).map (fun j => learner (2 * j + 1) (lr (2 * j + 2))))), (kMethod, .atom .str "predict")]
/-- `models_11__model__n_jobs` -/
def kDeep : Key := stackingGetPrefix ++ showNat 11 ++ stackingGetSep ++ (learnerGetPrefix ++ kJobs)

example : wf stack12 = true := by decide +kernel
example : kDeep ∈ keys (getParams stack12 true) := by decide +kernel
example : (setParams stack12 [(kDeep, .atom .other "7")]).toOption.map (·.2) = some true := by decide +kernel
example : (stackingRoute kDeep 12).toOption = some (11, learnerGetPrefix ++ kJobs) := by decide +kernel
example : LeafOf (learner 0 (lr 1)) (learnerGetPrefix ++ kJobs) .base kJobs :=
  LeafOf.slot (slot := kModel) (ch := lr 1) (by decide) (by rfl) rfl (LeafOf.direct (by decide +kernel))
example : directValueOk .base kJobs (.atom .other "7") = true := rfl
example : (ids (cloneV stack12 100).1).length = 25 ∧ (cloneV stack12 100).2 = 125 := by decide +kernel
example : validOps ⟨lr 0, 1⟩ [.get true, .set [(kJobs, .atom .other "2")], .clone] := by
  have hb : ∀ k p slot, LeafOf (lr 0) k p slot → p = .base := by
    intro k p slot h
    cases h with
    | direct _ => rfl
    | slot hp hl he _ =>
      exfalso
      simp only [lr, List.lookup] at hl
      split at hl
      · cases hl; simp [isEst] at he
      · split at hl
        · cases hl; simp [isEst] at he
        · cases hl
  refine ⟨trivial, ⟨_, _, rfl, by decide +kernel, rfl, ?_⟩, trivial, trivial⟩
  intro p slot h
  rw [hb _ _ _ h]; rfl
example : wf stack12 = true ∧ keys [(kModels, PVal.ests []), (kMethod, PVal.atom .str "transform")]
    = keys [(kModels, .ests ((List.range 12).map (fun j => learner (2 * j + 1) (lr (2 * j + 2))))), (kMethod, PVal.atom .str "predict")] := by
  decide +kernel

end MlVerif.C01
