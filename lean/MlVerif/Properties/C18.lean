/-
C18 — Correlation and comparable-score metrics are well defined.
Property theorems only; generic in an ordered field, no bound on the number of draws, columns or rows.
`MlVerif.Gen.C18` (the clamp `max(1 - var, 0) ** 0.5`, the cell updates of the DataFrame and of the array
branch, the final division, how `cor` is created, `_known_functions`, the branches of `comparable_metric`,
the call made by `r2_score_comparable`) is regenerated from the source on every run.

Partial (trusted, not proved): `scale`, `train_test_split`, `clone`, the learner, `r2_score`; that
`x ** 0.5` is the non-negative square root (`IsCo`).
-/
import MlVerif.Lemmas.Corr

namespace MlVerif.C18
open Lean.Grind Std MlVerif.Corr
open MlVerif.Gen.C18 (maxR minR)
set_option linter.unusedSectionVars false

section
variable {α : Type} [Field α] [LE α] [LT α] [DecidableLE α] [DecidableLT α] [DecidableEq α]
  [IsLinearOrder α] [LawfulOrderLT α] [OrderedRing α]

/-- `co_in_unit_interval`: `co = max(1 - var, 0) ** 0.5` lies in [0, 1] as soon as the variance is ≥ 0 -/
theorem co_in_unit_interval (v co : α) (hv : 0 ≤ v) (h : IsCo v co) : 0 ≤ co ∧ co ≤ 1 := by
  obtain ⟨h0, hsq⟩ := h
  refine ⟨h0, ?_⟩
  have hr : radicand v ≤ 1 := by
    simp only [radicand, Gen.C18.radicandOfC, Gen.C18.cOfVar, maxR]; grind
  rcases LinearOrder.trichotomy co 1 with hlt | heq | hgt
  · grind
  · grind
  · exfalso
    have hpos : (0 : α) < co := by grind
    have := OrderedRing.mul_lt_mul_of_pos_left hgt hpos
    grind

/-- the variance of any residual vector is ≥ 0, so the hypothesis above is met by `numpy.var` as defined -/
theorem co_of_any_prediction_in_unit_interval (pred target : List α) (co : α)
    (h : IsCo (variance (residual pred target)) co) : 0 ≤ co ∧ co ≤ 1 :=
  co_in_unit_interval _ co (variance_nonneg _) h

/-- `min_le_mean_le_max` (and the range of all three matrices): for every number of draws ≥ 1, if every draw's value lies in
`[lo, hi]` then for each cell `lo ≤ mini ≤ cor/draws ≤ maxi ≤ hi` — in the DataFrame branch and in the array branch -/
theorem min_le_mean_le_max (frame : Bool) (lo hi : α) (cos : List α) (hne : cos ≠ [])
    (h : ∀ co ∈ cos, lo ≤ co ∧ co ≤ hi) :
    let c := finalCell (runCell frame cos) cos.length
    lo ≤ c.mini ∧ c.mini ≤ c.cor ∧ c.cor ≤ c.maxi ∧ c.maxi ≤ hi := by
  obtain ⟨h1, h2, h3, h4⟩ := runCell_inv lo hi frame cos hne h
  have hn : (0 : α) < natTo cos.length := natTo_pos _ (List.length_pos_iff.mpr hne)
  have := div_bounds _ _ _ _ hn h3 h4
  simp only [finalCell, Gen.C18.finalMinmax]
  exact ⟨h1, this.1, this.2, h2⟩

/-- `mean_in_unit_interval`: every entry of the returned matrix is in [0, 1] (variances ≥ 0, any number of draws ≥ 1),
with `minmax=True` and with `minmax=False` -/
theorem mean_in_unit_interval (frame : Bool) (vc : List (α × α)) (hne : vc ≠ [])
    (hv : ∀ p ∈ vc, 0 ≤ p.1 ∧ IsCo p.1 p.2) :
    let cos := vc.map (·.2)
    0 ≤ (finalCell (runCell frame cos) cos.length).cor ∧ (finalCell (runCell frame cos) cos.length).cor ≤ 1 ∧
    finalPlain (runCell frame cos) cos.length = (finalCell (runCell frame cos) cos.length).cor := by
  intro cos
  have hall : ∀ co ∈ cos, (0 : α) ≤ co ∧ co ≤ 1 := by
    intro co hmem
    simp only [cos, List.mem_map] at hmem
    obtain ⟨p, hp, rfl⟩ := hmem
    exact co_in_unit_interval _ _ (hv p hp).1 (hv p hp).2
  have hne' : cos ≠ [] := by simpa [cos] using hne
  have := min_le_mean_le_max frame 0 1 cos hne' hall
  simp only at this
  refine ⟨by grind, by grind, ?_⟩
  simp only [finalPlain, finalCell, Gen.C18.finalPlain, Gen.C18.finalMinmax]

/-- `unit_diagonal_for_identity_learner`: when the prediction on the test half equals the target column (cell (i, i) of a learner
able to learn the identity) the residual is 0, its variance is 0, `co = 1` at every draw, and the returned cell is
`(1, 1, 1)` for every number of draws ≥ 1 -/
theorem unit_diagonal_for_identity_learner (frame : Bool) (tc : List (List α × α)) (hne : tc ≠ [])
    (hco : ∀ p ∈ tc, IsCo (variance (residual p.1 p.1)) p.2) :
    finalCell (runCell frame (tc.map (·.2))) (tc.map (·.2)).length = ⟨1, 1, 1⟩ := by
  generalize hcos : tc.map (·.2) = cos
  have hne : cos ≠ [] := by rw [← hcos]; simpa using hne
  have hall : ∀ co ∈ cos, (1 : α) ≤ co ∧ co ≤ 1 := by
    intro co hmem
    rw [← hcos] at hmem
    simp only [List.mem_map] at hmem
    obtain ⟨p, hp, rfl⟩ := hmem
    obtain ⟨h0, hsq⟩ := hco p hp
    rw [variance_zero _ (residual_zero _)] at hsq
    have hr : radicand (0 : α) = 1 := by
      simp only [radicand, Gen.C18.radicandOfC, Gen.C18.cOfVar, maxR]; grind
    rw [hr] at hsq
    have hz : (p.2 - 1) * (p.2 + 1) = 0 := by grind
    rcases Field.of_mul_eq_zero hz with h | h <;> grind
  have := min_le_mean_le_max frame 1 1 cos hne hall
  simp only at this
  generalize finalCell (runCell frame cos) cos.length = c at this
  obtain ⟨a, b, d⟩ := c
  simp only [Cell.mk.injEq]
  simp only at this
  grind

/-- `square_shape`: for a table with d ≥ 1 columns and at least one draw both branches return a d × d matrix
(one row and one column per variable) -/
theorem square_shape (frame : Bool) (d draws : Nat) (hd : 1 ≤ d) (hdraws : 1 ≤ draws) (co : Nat → Nat → Nat → α) :
    ∃ M, correlations frame d draws co = some M ∧ M.length = d ∧ ∀ row ∈ M, row.length = d := by
  have hz : draws ≠ 0 := by omega
  have _ := hd
  cases frame <;>
    simp [correlations, initShape, Gen.C18.frameInit, Gen.C18.arrayInit, hz]

/-- `frame_and_array_same_arithmetic`: the `if iloc:` branch and the array branch perform the same update of every cell at every
draw, hence return the same three matrices for the same draws -/
theorem frame_and_array_same_arithmetic (k : Nat) (c : Cell α) (co : α) (cos : List α) (d draws : Nat)
    (f : Nat → Nat → Nat → α) :
    stepCell true k c co = stepCell false k c co ∧ runCell true cos = runCell false cos ∧
    correlations true d draws f = correlations false d draws f := by
  have h2 : ∀ cos : List α, runCell true cos = runCell false cos := fun cos => runFrom_frame_eq_array _ _ _
  refine ⟨stepCell_frame_eq_array k c co, h2 cos, ?_⟩
  simp only [correlations, h2, initShape, Gen.C18.frameInit, Gen.C18.arrayInit, if_true, Bool.false_eq_true, if_false]

end

/-! ### comparable_metric / r2_score_comparable -/

/-- `comparable_is_metric_of_transformed`: with two callables the metric is applied to `tr(y_true)` and `inv_tr(y_pred)`;
with one of them missing the other side is passed unchanged -/
theorem comparable_is_metric_of_transformed (f g : String) :
    comparableMetric (.callable f) (.callable g) = .metric (some f) (some g) ∧
    comparableMetric (.callable f) .none = .metric (some f) none ∧
    comparableMetric .none (.callable g) = .metric none (some g) := by
  refine ⟨?_, ?_, ?_⟩ <;>
    simp [comparableMetric, resolve, runBranches, condHolds, applyAct, Gen.C18.branches, Gen.C18.fallthrough,
      Gen.C18.resolved, Arg.isNone, Arg.isCallable]

/-- `names_resolve_to_numpy`: 'log' and 'exp' denote `numpy.log` and `numpy.exp` -/
theorem names_resolve_to_numpy :
    Gen.C18.knownFunctions.lookup "log" = some "numpy.log" ∧ Gen.C18.knownFunctions.lookup "exp" = some "numpy.exp" ∧
    comparableMetric (.name "log") (.name "exp") = .metric (some "numpy.log") (some "numpy.exp") ∧
    comparableMetric (.name "exp") .none = .metric (some "numpy.exp") none ∧
    comparableMetric .none (.name "log") = .metric none (some "numpy.log") := by decide

/-- `both_missing_refused`: `tr = inv_tr = None` raises ValueError, and that is what `r2_score_comparable(y, p)` passes
(defaults None, forwarded unchanged to `comparable_metric(r2_score, y_true, y_pred, ...)`) -/
theorem both_missing_refused :
    comparableMetric .none .none = .valueError ∧
    Gen.C18.r2Defaults.lookup "tr" = some "None" ∧ Gen.C18.r2Defaults.lookup "inv_tr" = some "None" ∧
    Gen.C18.r2Call = [("*0", "r2_score"), ("*1", "y_true"), ("*2", "y_pred"), ("sample_weight", "sample_weight"),
      ("multioutput", "multioutput"), ("tr", "tr"), ("inv_tr", "inv_tr")] := by decide

/-- anything that is neither None nor callable after the lookup (an unknown name, another object) is refused with TypeError -/
theorem non_callable_refused (s : String) (x : Arg) (h : Gen.C18.knownFunctions.lookup s = none) :
    comparableMetric (.name s) x = .typeError ∧ comparableMetric .other x = .typeError := by
  constructor <;>
    simp [comparableMetric, resolve, h, runBranches, condHolds, applyAct, Gen.C18.branches, Gen.C18.resolved,
      Arg.isNone, Arg.isCallable]

/-- the statement shapes the hand-written model transcribes are the ones in the source -/
theorem model_shape_facts :
    Gen.C18.coExponent = 1 / 2 ∧ Gen.C18.varArgument = "v - xj_test.ravel()" ∧
    Gen.C18.frameZeroed = true ∧ Gen.C18.arrayZeroed = true ∧ Gen.C18.frameFlag = "True" ∧ Gen.C18.arrayFlag = "False" ∧
    Gen.C18.frameMinMaxAreCopies = true ∧ Gen.C18.arrayMinMaxAreCopies = true ∧
    Gen.C18.frameFirstDrawTest = "k == 0" ∧ Gen.C18.arrayFirstDrawTest = "k == 0" ∧ Gen.C18.minmaxReturnsMiniMaxi = true ∧
    Gen.C18.loops = ["k in range(0, draws)", "i in range(cor.shape[0])", "j in range(cor.shape[1])"] ∧
    Gen.C18.cloneInLoop = ["j"] ∧
    Gen.C18.pipeline = [("df", "scale(df)"), ("fit", "mod.fit(xi_train, xj_train.ravel())"), ("mod", "clone(model)"),
      ("v", "mod.predict(xi_test)"), ("xi_test", "df_test[:, i:i + 1]"), ("xi_train", "df_train[:, i:i + 1]"),
      ("xj_test", "df_test[:, j:j + 1]"), ("xj_train", "df_train[:, j:j + 1]")] := by decide +kernel

/-! ### the tie to the functions the model transcribes -/

/-- the functions the hand-written model transcribes have, in the current source, the control skeleton (tests, loop
headers, kinds of statements and the names they bind) they had when the model was written and validated: no branch,
loop, early exit or rebinding has been added that the model does not describe -/
theorem modelled_functions_have_the_transcribed_shape :
    MlVerif.Gen.C18.shapeCorrelations =
      "sig(df, model, draws=5, minmax=False)|if(hasattr(df, 'iloc')){cor=;cor.iloc[]=;iloc=;if(minmax){mini=;maxi=}}else{cor=;cor[]=;iloc=;if(minmax){mini=;maxi=}};df=;for(k in range(0, draws)){(df_train,df_test)=;for(i in range(cor.shape[0])){xi_train=;xi_test=;for(j in range(cor.shape[1])){xj_train=;xj_test=;assert;mod=;try{call fit}except(Exception){raise};v=;c=;co=;if(iloc){cor.iloc[]Add=;if(minmax){if(k == 0){mini.iloc[]=;maxi.iloc[]=}else{mini.iloc[]=;maxi.iloc[]=}}}else{cor[]Add=;if(minmax){if(k == 0){mini[]=;maxi[]=}else{mini[]=;maxi[]=}}}}}};if(minmax){return};return" ∧
    MlVerif.Gen.C18.shapeComparableMetric =
      "sig(metric_function, y_true, y_pred, tr='log', inv_tr='exp', **kwargs)|tr = _known_functions.get(tr, tr) ; inv_tr = _known_functions.get(inv_tr, inv_tr) ; if tr is not None and (not callable(tr)): raise TypeError('Argument tr must be callable.') ; if inv_tr is not None and (not callable(inv_tr)): raise TypeError('Argument inv_tr must be callable.') ; if tr is None and inv_tr is None: raise ValueError('tr and inv_tr cannot be both None at the same time.') ; if tr is None: return metric_function(y_true, inv_tr(y_pred), **kwargs) ; if inv_tr is None: return metric_function(tr(y_true), y_pred, **kwargs) ; return metric_function(tr(y_true), inv_tr(y_pred), **kwargs)" ∧
    MlVerif.Gen.C18.shapeR2Comparable =
      "sig(y_true, y_pred, *, sample_weight=None, multioutput='uniform_average', tr=None, inv_tr=None)|return comparable_metric(r2_score, y_true, y_pred, sample_weight=sample_weight, multioutput=multioutput, tr=tr, inv_tr=inv_tr)" :=
  ⟨rfl, rfl, rfl⟩

/-! ### non-vacuity: concrete instances over `Rat` -/

-- variance 7/16 → radicand 9/16 → co = 3/4
example : IsCo (7/16 : Rat) (3/4) := ⟨by decide +kernel, by decide +kernel⟩
-- draws 3/4, 1, 0: cor = 7/12, mini = 0, maxi = 1
example : finalCell (runCell false [(3/4 : Rat), 1, 0]) 3 = ⟨7/12, 0, 1⟩ := by decide +kernel
example : finalCell (runCell true [(3/4 : Rat), 1, 0]) 3 = ⟨7/12, 0, 1⟩ := by decide +kernel
-- identity learner: prediction = target
example : variance (residual [(1 : Rat), 2, 5] [1, 2, 5]) = 0 := by decide +kernel
example : variance ([1, -1, 1, -1] : List Rat) = 1 := by decide +kernel
-- one column, one draw: 1×1
example : correlations false 1 1 (fun _ _ _ => (1 : Rat)) = some [[⟨1, 1, 1⟩]] := by decide +kernel
example : comparableMetric (.name "sqrt") .none = .typeError := by decide

end MlVerif.C18
