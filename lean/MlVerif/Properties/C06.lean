/-
C06 — KMeansL1L2: L1 is self-consistent in Manhattan geometry, L2 is exactly KMeans.
Property theorems only.  `MlVerif.Gen.C06` is regenerated from mlinsights/mlmodel/kmeans_l1.py on every
run: the loop bound, the `break` test, the best-tracking tests, the test guarding the final E-step,
whether the median loop skips clusters without members, and the L2 delegation table are what the
source says *now*.  The model (`Model/KMedians.lean`) is over exact rationals; initial centres, the
tolerance and the tie order of `argsort` are universally quantified inputs.

Vocabulary (Lemmas/KMedians.lean): `Consistent d X labels C inertia` = one label per point, every
(point, label) pair carries the label of a centre of `C` nearest in Manhattan distance, and `inertia`
is the sum of those distances; `ConsistentOpt` = the same with all centres defined (no NaN row);
`InBox d lo hi x` = coordinate-wise `lo ≤ x ≤ hi`; `FarValid farOf` = `distances.argsort()[::-1]`
returns `n` indices below `n` (all that is assumed of numpy's unstable argsort).
-/
import MlVerif.Gen.C06
import MlVerif.Model.KMedians
import MlVerif.Lemmas.KMedians

namespace MlVerif.C06
open MlVerif.KMedians

/-! ### what the source's loop tests say -/

/-- the final E-step runs exactly when the last centre shift is positive -/
theorem rerun_guard_is_positive_shift (s tol : Rat) : Gen.C06.rerunCond s tol = true ↔ 0 < s := by
  unfold Gen.C06.rerunCond
  simp

/-- best-tracking keeps the FIRST minimum of the inertia (strict improvement only), starting from None -/
theorem best_tracking_is_strict (i b : Rat) :
    (Gen.C06.bestUpdate i b = true ↔ i < b) ∧ Gen.C06.bestNoneFirst = true ∧
    (Gen.C06.fitBestUpdate i b = true ↔ i < b) ∧ Gen.C06.fitBestNoneFirst = true := by
  unfold Gen.C06.bestUpdate Gen.C06.fitBestUpdate
  simp [Gen.C06.bestNoneFirst, Gen.C06.fitBestNoneFirst]

/-- the loop runs at most `max_iter` times, stops when the shift is within the tolerance, and the
iteration count returned is `i + 1` -/
theorem loop_guards (maxIter i : Int) (s tol : Rat) :
    Gen.C06.loopCount maxIter = maxIter ∧ (Gen.C06.breakCond s tol = true ↔ s ≤ tol) ∧
    Gen.C06.returnedIter i = i + 1 := by
  unfold Gen.C06.loopCount Gen.C06.breakCond Gen.C06.returnedIter
  simp

/-- the statements the hand-written model transcribes: order of E-step / M-step / best-tracking / shift /
break inside the loop, what best-tracking stores, what the final E-step recomputes and from which
centres, and what is returned -/
theorem lloyd_skeleton :
    Gen.C06.loopOrder =
      ["centers_old = centers.copy()",
       "(labels, inertia) = _labels_inertia(norm, X, sample_weight, centers, distances=distances)",
       "centers = _centers_dense(X, sample_weight, labels, n_clusters, distances, X_sort_index)",
       "if best_inertia is None or inertia < best_inertia: <best>",
       "center_shift_total = numpy.sum(numpy.abs(centers_old - centers).ravel())",
       "if center_shift_total <= tol: break"] ∧
    Gen.C06.bestAssigns =
      ["best_labels = labels.copy()", "best_centers = centers.copy()", "best_inertia = inertia"] ∧
    Gen.C06.rerunCall =
      "(best_labels, best_inertia) = _labels_inertia(norm, X, sample_weight, best_centers, distances=distances)" ∧
    Gen.C06.returned = ["best_labels", "best_inertia", "best_centers"] := by
  decide

/-! ### predict / transform / inertia -/

/-- `predict` (norm L1) returns, for every row, the index of a centre nearest in Manhattan distance —
the first such centre. -/
theorem predict_is_nearest (d : Nat) (cs : List (Option Point)) (X : List Point) (labels : List Nat)
    (h : predictL1 d cs X = .ok labels) :
    ∃ C, allSome cs = some C ∧ labels.length = X.length ∧ NearestAll d C (X.zip labels) ∧
      ∀ p ∈ X.zip labels, ∀ j, j < p.2 → distTo d C p.1 p.2 < distTo d C p.1 j := by
  unfold predictL1 at h
  split at h
  · cases h
  · rename_i es hes
    cases h
    obtain ⟨C, hC, hCne, _, hlab, _, hin⟩ := labelsInertia_ok hes
    have hc := estep_consistent d X C hCne
    refine ⟨C, hC, by rw [hlab]; simp, by rw [hlab]; exact hc.2.1, ?_⟩
    rw [hlab, zip_map_self]
    intro p hp j hj
    obtain ⟨x, _, rfl⟩ := List.mem_map.mp hp
    obtain ⟨_, h2, _, h4⟩ := nearestL_spec d C hCne x
    rw [← h2]; exact h4 j hj

/-- `transform` (norm L1): entry (i, j) is the Manhattan distance from row i to centre j. -/
theorem transform_is_distance (d : Nat) (cs : List (Option Point)) (X : List Point) (M : List (List Rat))
    (h : transformL1 d cs X = .ok M) :
    ∃ C, allSome cs = some C ∧ M.length = X.length ∧
      ∀ (i j : Nat) (x c : Point), X[i]? = some x → C[j]? = some c →
        (M[i]?.bind (·[j]?)) = some (manhattan d x c) := by
  unfold transformL1 at h
  split at h
  · cases h
  · rename_i C hC
    split at h
    · cases h
    · cases h
      refine ⟨C, hC, by simp, ?_⟩
      intro i j x c hx hc
      simp [List.getElem?_map, hx, hc]

/-- `inertia` of an E-step is the sum of the distances of the points to their labelled (nearest) centre,
i.e. the sum of the minimal distances: no labelling of the same points has a smaller cost. -/
theorem inertia_is_sum_of_min (d : Nat) (X : List Point) (cs : List (Option Point)) (es : EStep)
    (h : labelsInertia d X cs = .ok es) :
    ∃ C, allSome cs = some C ∧ Consistent d X es.labels C es.inertia ∧ es.inertia = es.dists.sum ∧
      ∀ L : List Nat, L.length = X.length → (∀ l ∈ L, l < C.length) →
        es.inertia ≤ costLP d C (X.zip L) := by
  obtain ⟨C, hC, hCne, _, hlab, hdist, hin⟩ := labelsInertia_ok h
  refine ⟨C, hC, by rw [hlab, hin]; exact estep_consistent d X C hCne, by rw [hin, hdist], ?_⟩
  intro L hL hlt
  have := estep_le_cost d C hCne (X.zip L) (zip_labels_lt hlt)
  rw [List.map_fst_zip (by omega)] at this
  rw [hin]; exact this

/-! ### the median -/

/-- numpy's median (middle element / mean of the two middle elements of the sorted values) lies between
any bounds of the values. -/
theorem median_in_range (l : List Rat) (lo hi : Rat) (hne : l ≠ [])
    (h : ∀ v ∈ l, lo ≤ v ∧ v ≤ hi) : lo ≤ median l ∧ median l ≤ hi :=
  KMedians.median_in_range l lo hi hne h

/-- a median minimises the sum of absolute deviations: `Σ |v − median l| ≤ Σ |v − c|` for every `c`. -/
theorem median_minimises_abs_deviation (l : List Rat) (c : Rat) :
    (l.map (fun v => absR (v - median l))).sum ≤ (l.map (fun v => absR (v - c))).sum :=
  median_opt l c

/-- one M-step (either variant of the median loop) never increases the cost of the labelling it was
computed from: coordinate-wise medians minimise the Manhattan cost of their cluster. -/
theorem mstep_does_not_increase_cost (cfg : Cfg) (X : List Point) (labels : List Nat) (dists : List Rat)
    (cs' : List (Option Point)) (h : centersDense cfg X labels dists = .ok cs')
    (C' : List Point) (hC' : allSome cs' = some C') (hlt : ∀ l ∈ labels, l < cfg.k) (C : List Point) :
    costLP cfg.d C' (X.zip labels) ≤ costLP cfg.d C (X.zip labels) :=
  centersDense_cost h C' hC' (zip_labels_lt hlt) C

/-! ### the fitted model -/

/-- every centre `fit` returns that is not a NaN row lies in the coordinate-wise range of the data:
"nonempty clusters" for the median loop as originally written, every cluster once memberless clusters
are skipped (then there is no NaN row at all, see `fit_succeeds`). -/
theorem centers_in_data_range (cfg : Cfg) (X : List Point) (inits : List (List Point)) (r : Run)
    (h : fitL1 cfg X inits = .ok r) (lo hi : Point) (hbox : ∀ x ∈ X, InBox cfg.d lo hi x) :
    ∀ c, some c ∈ r.centers → InBox cfg.d lo hi c := by
  obtain ⟨_, _, init, _, _, hrun⟩ := fitL1_mem h
  exact lloyd_in_box hrun lo hi hbox

/-- when the final E-step runs (last centre shift > 0) the returned labels are nearest-centre labels of
the returned centres and `inertia_` is the sum of those distances. -/
theorem labels_nearest_after_rerun (cfg : Cfg) (X : List Point) (inits : List (List Point)) (r : Run)
    (h : fitL1 cfg X inits = .ok r) (s : Rat) (hs : r.shift = some s) (hpos : 0 < s) :
    ConsistentOpt cfg.d X r.labels r.centers r.inertia := by
  obtain ⟨_, _, init, _, hlen, hrun⟩ := fitL1_mem h
  refine lloyd_consistent hrun hlen (Or.inl ?_)
  rw [hs]
  exact (rerun_guard_is_positive_shift s cfg.tol).mpr hpos

/-- when the final E-step does NOT run (last centre shift = 0) the tracked best — possibly from an
earlier iteration — is consistent all the same: the inertia never increases along the iterations
(coordinate-wise medians minimise the Manhattan cost), so a best that was not replaced ties with every
later inertia, which forces its labels to be nearest-centre labels of its centres. -/
theorem labels_nearest_when_shift_zero (cfg : Cfg) (X : List Point) (inits : List (List Point)) (r : Run)
    (h : fitL1 cfg X inits = .ok r) (hs : r.shift = some 0) :
    ConsistentOpt cfg.d X r.labels r.centers r.inertia := by
  obtain ⟨_, _, init, _, hlen, hrun⟩ := fitL1_mem h
  exact lloyd_consistent hrun hlen (Or.inr hs)

/-- both cases together: whenever the last centre shift is a number (not NaN), every training point
carries the label of a Manhattan-nearest centre and `inertia_` is the sum of those distances. -/
theorem fit_labels_nearest (cfg : Cfg) (X : List Point) (inits : List (List Point)) (r : Run)
    (h : fitL1 cfg X inits = .ok r) (hs : r.shift ≠ none) :
    ConsistentOpt cfg.d X r.labels r.centers r.inertia := by
  cases hsh : r.shift with
  | none => exact absurd hsh hs
  | some s =>
    obtain ⟨_, _, init, _, _, hrun⟩ := fitL1_mem h
    have h0 := lloyd_shift_nonneg hrun s hsh
    by_cases hpos : 0 < s
    · exact labels_nearest_after_rerun cfg X inits r h s hsh hpos
    · have : s = 0 := by grind
      subst this
      exact labels_nearest_when_shift_zero cfg X inits r h hsh

/-- `fit` succeeds: with the median loop of the CURRENT source (`cfg.skipEmpty` is what the source says),
at least `k ≥ 1` samples, `max_iter ≥ 1`, `n_init ≥ 1` initial centre sets of `k` centres each and any
tie order of argsort, `_fit_l1` returns — no exception, no NaN centre — and the result has all the
properties above. -/
theorem fit_succeeds_of_n_ge_k (cfg : Cfg) (hsrc : cfg.skipEmpty = Gen.C06.medianLoopSkipsEmpty)
    (hfar : FarValid cfg.farOf) (X : List Point) (inits : List (List Point))
    (hk1 : 0 < cfg.k) (hkn : cfg.k ≤ X.length) (hmi : 0 < cfg.maxIter)
    (hin : inits ≠ []) (hlen : ∀ c ∈ inits, c.length = cfg.k) :
    ∃ r, fitL1 cfg X inits = .ok r ∧ r.centers.length = cfg.k ∧ (∀ o ∈ r.centers, o ≠ none) ∧
      ConsistentOpt cfg.d X r.labels r.centers r.inertia := by
  have hskip : cfg.skipEmpty = true := by rw [hsrc]; decide
  have hloop : 0 < (Gen.C06.loopCount (cfg.maxIter : Int)).toNat := by
    rw [(loop_guards (cfg.maxIter : Int) 0 0 0).1]; simpa using hmi
  have hrun := fun init hinit => lloyd_ok hskip hfar X hk1 hkn hloop init hinit
  obtain ⟨r, hr⟩ := nInitLoop_ok (cfg := cfg) (X := X)
    (fun init hinit => let ⟨r, hr, _⟩ := hrun init hinit; ⟨r, hr⟩) inits none hlen (Or.inl hin)
  have hfit : fitL1 cfg X inits = .ok r := by
    unfold fitL1
    have h1 : inits.isEmpty = false := by simpa using hin
    have h2 : (cfg.maxIter == 0) = false := by simp; omega
    have h3 : decide (X.length < cfg.k) = false := by simp; omega
    have h4 : inits.any (fun c => c.length != cfg.k) = false := by
      simp only [List.any_eq_false, bne_iff_ne, ne_eq, Decidable.not_not]; exact hlen
    simp [h1, h2, h3, h4, hr]
  obtain ⟨_, _, init, hi, hil, hrun'⟩ := fitL1_mem hfit
  obtain ⟨r', hr', hcl, hall, hsh⟩ := hrun init hil
  rw [hrun'] at hr'; cases hr'
  exact ⟨r, hfit, hcl, hall, fit_labels_nearest cfg X inits r hfit hsh⟩

/-- the statement's form: finite data containing at least `k` distinct points. -/
theorem fit_succeeds (cfg : Cfg) (hsrc : cfg.skipEmpty = Gen.C06.medianLoopSkipsEmpty)
    (hfar : FarValid cfg.farOf) (X : List Point) (inits : List (List Point))
    (hk1 : 0 < cfg.k) (hdistinct : ∃ pts : List Point, pts.Sublist X ∧ pts.Nodup ∧ cfg.k ≤ pts.length)
    (hmi : 0 < cfg.maxIter) (hin : inits ≠ []) (hlen : ∀ c ∈ inits, c.length = cfg.k)
    (lo hi : Point) (hbox : ∀ x ∈ X, InBox cfg.d lo hi x) :
    ∃ r, fitL1 cfg X inits = .ok r ∧ r.centers.length = cfg.k ∧ (∀ o ∈ r.centers, o ≠ none) ∧
      ConsistentOpt cfg.d X r.labels r.centers r.inertia ∧
      (∀ c, some c ∈ r.centers → InBox cfg.d lo hi c) := by
  obtain ⟨pts, hsub, _, hk⟩ := hdistinct
  have hkn : cfg.k ≤ X.length := Nat.le_trans hk hsub.length_le
  obtain ⟨r, h1, h2, h3, h4⟩ := fit_succeeds_of_n_ge_k cfg hsrc hfar X inits hk1 hkn hmi hin hlen
  exact ⟨r, h1, h2, h3, h4, centers_in_data_range cfg X inits r h1 lo hi hbox⟩

/-- the median loop as ORIGINALLY written (every cluster overwritten by its median) fails on data with
k distinct points: X = {0, 2}, k = 2, both initial centres at 1 — the second cluster empties, is
relocated, then overwritten by a NaN row, and the next E-step rejects the NaN. -/
theorem fit_fails_without_guard_counterexample :
    (match fitL1 ⟨1, 2, 10, 1, false, farStable⟩ [[0], [2]] [[[1], [1]]] with
      | .error .nan => true
      | _ => false) = true := by
  decide +kernel

/-! ### norm = 'L2' -/

/-- a row of the delegation table is a verbatim delegation: under the test `self.norm == 'L2'` the method
calls `KMeans.<same method>(self, …)`, positional arguments are its own leading parameters in order,
keyword arguments pass a parameter under its own name, every parameter is forwarded (except `predict`'s
unused `sample_weight`, which `KMeans.predict` does not take), and the result is returned. -/
def delegOk (r : Gen.C06.Deleg) : Bool :=
  r.test == "self.norm == 'L2'" && r.callee == "KMeans." ++ r.method &&
  r.args.head? == some "self" &&
  r.args.tail == r.params.take r.args.tail.length &&
  r.kwargs.all (fun kv => kv.1 == kv.2 && r.params.contains kv.1) &&
  r.params.all (fun p => (r.args.tail ++ r.kwargs.map (·.2)).contains p
    || (r.method == "predict" && p == "sample_weight")) &&
  (r.result == "return-call" || r.result == "return-self")

/-- `KMeansL1L2` derives from `KMeans` only; each of `fit`, `predict`, `transform` — and every other public
method the class defines — delegates verbatim to `KMeans` when `norm == 'L2'` (everything else, e.g.
`fit_predict`, is inherited and reaches these); the constructor first calls `KMeans.__init__(self, p=p, …)`
with every parameter except `norm`, verbatim, and stores `norm` verbatim. -/
theorem l2_delegates :
    Gen.C06.classBases = ["KMeans"] ∧
    (["fit", "predict", "transform"].all (fun m => Gen.C06.delegations.any (fun r => r.method == m))) = true ∧
    (Gen.C06.publicMethods.all (fun m => Gen.C06.delegations.any (fun r => r.method == m))) = true ∧
    Gen.C06.delegations.all delegOk = true ∧
    Gen.C06.ctorCallsFirst = true ∧ Gen.C06.ctorCallee = "KMeans.__init__" ∧ Gen.C06.ctorArgs = ["self"] ∧
    Gen.C06.ctorForward = (Gen.C06.ctorParams.filter (· != "norm")).map (fun p => (p, p)) ∧
    Gen.C06.ctorParams.contains "norm" = true ∧
    Gen.C06.ctorStores = [("norm", "norm")] := by
  decide

/-! ### the tie to the functions the model transcribes -/

/-- the functions the hand-written model transcribes have, in the current source, the control skeleton (tests, loop
headers, kinds of statements and the names they bind) they had when the model was written and validated: no branch,
loop, early exit or rebinding has been added that the model does not describe -/
theorem modelled_functions_have_the_transcribed_shape :
    MlVerif.Gen.C06.shapeLloyd =
      "sig(norm, X, sample_weight, n_clusters, max_iter=300, init='k-means++', verbose=False, random_state=None, tol=0.0001)|random_state=;sample_weight=;(best_labels,best_inertia,best_centers)=;centers=;if(verbose){call print};distances=;X_sort_index=;for(i in range(max_iter)){centers_old=;(labels,inertia)=;centers=;if(verbose){call print};if(best_inertia is None or inertia < best_inertia){best_labels=;best_centers=;best_inertia=};center_shift_total=;if(center_shift_total <= tol){if(verbose){call print};break}};if(center_shift_total > 0){(best_labels,best_inertia)=};return" ∧
    MlVerif.Gen.C06.shapeCentersDense =
      "sig(X, sample_weight, labels, n_clusters, distances, X_sort_index)|dtype=;n_features=;n_samples=;centers=;weight_in_cluster=;for(i in range(n_samples)){c=;weight_in_cluster[]Add=};empty_clusters=;if(len(empty_clusters) > 0){far_from_centers=;for((i,cluster_id) in enumerate(empty_clusters)){far_index=;new_center=;centers[]=;weight_in_cluster[]=}};if(sample_weight.min() == sample_weight.max()){for(i in range(n_clusters)){sub=;if(sub.shape[0] == 0){continue};med=;centers[]=}}else{raise};return" ∧
    MlVerif.Gen.C06.shapeLabelsInertia =
      "sig(norm, X, sample_weight, centers, distances=None)|if(norm == 'l2'){return};sample_weight=;if(distances is None){distances=};if(issparse(X)){raise};return" ∧
    MlVerif.Gen.C06.shapeInitCentroids =
      "sig(norm, X, k, init, random_state=None, init_size=None)|random_state=;n_samples=;if(init_size is not None and init_size < n_samples){if(init_size < k){call warn;init_size=};init_indices=;X=;n_samples=}else{if(n_samples < k){raise}};if(isinstance(init, str) and init == 'k-means++'){centers=}else{if(isinstance(init, str) and init == 'random'){seeds=;centers=}else{if(hasattr(init, '__array__')){centers=}else{if(callable(init)){centers=;centers=}else{raise}}}};if(issparse(centers)){centers=};def _validate_center_shape{assert;assert};call _validate_center_shape;return" ∧
    MlVerif.Gen.C06.shapeFit =
      "sig(self, X, y=None, sample_weight=None)|if(self.norm == 'L2'){call fit}else{if(self.norm == 'L1'){call _fit_l1}else{raise}};return" ∧
    MlVerif.Gen.C06.shapeFitL1 =
      "sig(self, X, y=None, sample_weight=None)|random_state=;n_init=;if(n_init <= 0){raise};if(self.max_iter <= 0){raise};order=;X=;self.n_features_in_=;if(_num_samples(X) < self.n_clusters){raise};tol=;init=;if(hasattr(init, '__array__')){init=;if(hasattr(self, '_validate_center_shape')){call _validate_center_shape};if(n_init != 1){call warn;n_init=}};(best_labels,best_inertia,best_centers)=;algorithm=;if(self.n_clusters == 1){algorithm=};if(algorithm == 'lloyd'){kmeans_single=}else{raise};seeds=;for(seed in seeds){(labels,inertia,centers,n_iter_)=;if(best_inertia is None or inertia < best_inertia){best_labels=;best_centers=;best_inertia=;best_n_iter=}};distinct_clusters=;if(distinct_clusters < self.n_clusters){call warn};self.cluster_centers_=;self.labels_=;self.inertia_=;self.n_iter_=;return" ∧
    MlVerif.Gen.C06.shapePredict =
      "sig(self, X, sample_weight=None)|if(self.norm == 'L2'){return};if(self.norm == 'L1'){return};raise" ∧
    MlVerif.Gen.C06.shapePredictL1 =
      "sig(self, X, sample_weight=None, return_distances=False)|(labels,mindist)=;labels=;if(return_distances){return};return" ∧
    MlVerif.Gen.C06.shapeTransform =
      "sig(self, X)|if(self.norm == 'L2'){return};if(self.norm == 'L1'){return};raise" ∧
    MlVerif.Gen.C06.shapeTransformL1 =
      "sig(self, X)|call check_is_fitted;X=;return" :=
  ⟨rfl, rfl, rfl, rfl, rfl, rfl, rfl, rfl, rfl, rfl⟩

/-! ### non-vacuity: concrete instances satisfying the hypotheses -/

/-- the data of the counterexample, with the guard: fit succeeds (centre 1 is the point the emptied cluster was relocated to), inertia 1 -/
example : (match fitL1 ⟨1, 2, 10, 1, true, farStable⟩ [[0], [2]] [[[1], [1]]] with
    | .ok r => r.labels == [0, 1] && r.centers == [some [1], some [2]] && r.inertia == 1
    | _ => false) = true := by decide +kernel
/-- six points, three clusters, a far initial centre that captures nothing (relocation path), 2-D -/
example : (match fitL1 ⟨2, 3, 10, 1, true, farStable⟩
      [[0, 0], [0, 0], [0, 0], [1, 0], [10, 0], [11, 0]] [[[0, 0], [10, 0], [100, 0]]] with
    | .ok r => r.labels.length == 6 && r.centers.all (·.isSome) && r.shift.isSome
    | _ => false) = true := by decide +kernel
example : FarValid farStable := farStable_valid
example : ∃ pts : List Point, pts.Sublist [[0], [2]] ∧ pts.Nodup ∧ 2 ≤ pts.length :=
  ⟨[[0], [2]], List.Sublist.refl _, by decide +kernel, by decide⟩
example : median [3, 1, 2, 5] = 5 / 2 := by decide +kernel
example : (match predictL1 1 [some [0], some [5], some [3]] [[1], [4], [6]] with
    | .ok l => l == [0, 1, 1] | _ => false) = true := by decide +kernel
example : (match transformL1 1 [some [0], some [5]] [[1]] with
    | .ok m => m == [[1, 4]] | _ => false) = true := by decide +kernel
/-- a run that ends with shift 0 (no final E-step) -/
example : (match fitL1 ⟨1, 2, 10, 0, true, farStable⟩ [[0], [1], [5], [6]] [[[0], [6]]] with
    | .ok r => r.shift == some 0 && r.labels == [0, 0, 1, 1] && r.inertia == 2
    | _ => false) = true := by decide +kernel
/-- a run that ends with a positive shift (final E-step runs) -/
example : (match fitL1 ⟨1, 2, 1, 0, true, farStable⟩ [[0], [1], [5], [6]] [[[0], [1]]] with
    | .ok r => (match r.shift with | some s => decide (0 < s) | none => false)
    | _ => false) = true := by decide +kernel

end MlVerif.C06
