/-
C07 — ConstraintKMeans produces clusters of equal size.  Property theorems only.
`MlVerif.Gen.C07` is regenerated from the source on every run and the model (`MlVerif.Model.Balance`)
is built on it: the theorems below are statements about what the source says *now*.
Sizes: `Balanced lab n k` = every one of the k clusters holds ⌊n/k⌋ points, or ⌊n/k⌋+1 = ⌈n/k⌉ when k ∤ n.
-/
import MlVerif.Gen.C07
import MlVerif.Model.Balance
import MlVerif.Lemmas.Balance
import MlVerif.Lemmas.BalanceGain

namespace MlVerif.C07
open MlVerif.Gen MlVerif.Balance

/-! ### quota arithmetic (regenerated `limit` / `leftover`) -/

/-- balanced prediction of ANY batch is ONE association call with the quotas `limit` / `leftover` of that batch: there
is no other exit of `constraint_predictions` (no shortcut for small batches), so the balance theorems below about the
association (`distance_balanced`, `gain_balanced`) are theorems about every balanced prediction -/
theorem predictions_are_one_association_call :
    C07.predictionsControl = ["if isinstance(X, DataFrame)", "return (labels, distances, distances_close)"] ∧
    C07.predictionsAssociation =
      ["leftover, counters, labels, leftclose, distances_close, centers, X, x_squared_norms, limit, strategy, state=state"] := by
  decide

/-- `limit·k + leftover = n` and `0 ≤ leftover < k`, in `constraint_kmeans` and in `constraint_predictions`. -/
theorem limit_leftover (n k : Nat) (hk : 1 ≤ k) :
    C07.limit n k * k + C07.leftover n k = n ∧ 0 ≤ C07.leftover n k ∧ C07.leftover n k < k ∧
    C07.limitP n k = C07.limit n k ∧ C07.leftoverP n k = C07.leftover n k := by
  obtain ⟨h1, h2⟩ := limit_spec n k (by omega)
  obtain ⟨h3, h4⟩ := limitP_spec n k (by omega)
  have h5 := Nat.div_add_mod n k
  have h6 : ((k * (n / k) + n % k : Nat) : Int) = (n : Int) := by rw [h5]
  simp only [Int.natCast_add, Int.natCast_mul] at h6
  have h7 := Nat.mod_lt n (by omega : 0 < k)
  have h8 : ((n / k : Nat) : Int) * (k : Int) = (k : Int) * ((n / k : Nat) : Int) := Int.mul_comm _ _
  rw [h1, h2, h3, h4]
  omega

/-! ### strategy 'distance' -/

/-- what the recorded inputs of one distance association satisfy: every row of `centers_index` lists all
k clusters, the argsort of the first pass is a permutation of the n points, `perm` holds point indices -/
structure DistInputs (n k : Nat) (prefs : Arr (List Nat)) (p : PassIn) (perm : List Nat) : Prop where
  prefs : ∀ i, i < n → (∀ c, c < k → c ∈ prefs.get i) ∧ (∀ c, c ∈ prefs.get i → c < k)
  cover : Covers n p.order
  bound : ∀ j, j < n → p.order.get j < n
  perm : ∀ j, j ∈ perm → j < n

/-- One pass of the fill loop places every point (every n ≥ 1, k ≥ 1, distance matrix, preference
order, draw of `_randomize_index`); the `while` loop then stops. -/
theorem distance_fill_total (n k : Nat) (hn : 1 ≤ n) (hk : 1 ≤ k) (D : Mat) (prefs : Arr (List Nat))
    (p : PassIn) (ps : List PassIn) (eps : Rat) (perm : List Nat) (hin : DistInputs n k prefs p perm) :
    ∃ s, fillLoop n k (C07.limit n k) (C07.leftover n k) (maxiOf n k D) eps prefs (p :: ps) (fillInit n k D) = some s ∧
      ∀ i, i < n → 0 ≤ s.lab.get i ∧ s.lab.get i < (k : Int) := by
  obtain ⟨h1, h2⟩ := limit_spec n k (by omega)
  obtain ⟨a, b, c, _, _⟩ := limit_leftover n k hk
  have hnk : (n : Int) = k * C07.limit n k + C07.leftover n k := by
    have : (k : Int) * C07.limit n k = C07.limit n k * k := Int.mul_comm _ _
    omega
  have hl0 : 0 ≤ C07.limit n k := by rw [h1]; exact Int.natCast_nonneg _
  obtain ⟨s, e, _, hpl⟩ := fillLoop_one_pass n k hn (C07.limit n k) (C07.leftover n k) (maxiOf n k D)
    hl0 b c hnk eps prefs hin.prefs p ps D hin.cover hin.bound
  exact ⟨s, e, hpl⟩

/-- `_switch_clusters` preserves every cluster size and label validity (every matrix, every permutation). -/
theorem switch_preserves_histogram (D : Mat) (n k : Nat) (perm : List Nat) (hp : ∀ j, j ∈ perm → j < n)
    (lab : Arr Nat) :
    (∀ c, hist (switchClusters D perm lab) n c = hist lab n c) ∧
    (ValidLab lab n k → ValidLab (switchClusters D perm lab) n k) :=
  switchClusters_inv D n k perm hp lab

/-- One association call of strategy 'distance' (and 'distance_p', same code with the same quotas) returns
labels that are valid and balanced: every cluster ends with ⌊n/k⌋ or ⌈n/k⌉ points. -/
theorem distance_balanced (n k : Nat) (hn : 1 ≤ n) (hk : 1 ≤ k) (D : Mat) (prefs : Arr (List Nat))
    (p : PassIn) (ps : List PassIn) (eps : Rat) (perm : List Nat) (hin : DistInputs n k prefs p perm) :
    ∃ lab, assocDistance n k (C07.limit n k) (C07.leftover n k) D prefs (p :: ps) eps perm = some lab ∧
      Balanced lab n k ∧ ValidLab lab n k := by
  obtain ⟨h1, h2⟩ := limit_spec n k (by omega)
  obtain ⟨a, b, c, _, _⟩ := limit_leftover n k hk
  have hnk : (n : Int) = k * C07.limit n k + C07.leftover n k := by
    have : (k : Int) * C07.limit n k = C07.limit n k * k := Int.mul_comm _ _
    omega
  have hl0 : 0 ≤ C07.limit n k := by rw [h1]; exact Int.natCast_nonneg _
  obtain ⟨s, e, inv, hpl⟩ := fillLoop_one_pass n k hn (C07.limit n k) (C07.leftover n k) (maxiOf n k D)
    hl0 b c hnk eps prefs hin.prefs p ps D hin.cover hin.bound
  unfold assocDistance
  rw [if_neg (by omega), e]
  refine ⟨_, rfl, ?_, ?_⟩
  · apply balanced_of_switch D n k perm hin.perm
    intro cl hcl
    have hb := fill_balanced n k _ _ hnk s inv hpl cl hcl
    rw [hist_of_toNat s.lab n cl (fun i hi => (hpl i hi).1)]
    rw [h1, h2] at hb
    rcases hb with q | ⟨q1, q2⟩
    · left; omega
    · right; omega
  · apply (switchClusters_inv D n k perm hin.perm _).2
    intro i hi
    rw [tabulate_get]
    have := hpl i hi
    omega

/-- `predict` with `balanced_predictions=True`, strategy 'distance': `constraint_predictions` runs the same
association with its own `limit`/`leftover`, which are the same quotas. -/
theorem predict_balanced (n k : Nat) (hn : 1 ≤ n) (hk : 1 ≤ k) (D : Mat) (prefs : Arr (List Nat))
    (p : PassIn) (ps : List PassIn) (eps : Rat) (perm : List Nat) (hin : DistInputs n k prefs p perm) :
    C07.predictPath true true = 1 ∧
    ∃ lab, assocDistance n k (C07.limitP n k) (C07.leftoverP n k) D prefs (p :: ps) eps perm = some lab ∧
      Balanced lab n k ∧ ValidLab lab n k := by
  obtain ⟨_, _, _, e1, e2⟩ := limit_leftover n k hk
  rw [e1, e2]
  exact ⟨by unfold C07.predictPath; rfl, distance_balanced n k hn hk D prefs p ps eps perm hin⟩

/-! ### labels, partition, centres -/

/-- labels are valid cluster indices (stated on what `distance_balanced` / `gain_balanced` return) and every
point is in exactly one cluster: the k cluster sizes add up to n. -/
theorem each_point_one_cluster (lab : Arr Nat) (n k : Nat) (h : ValidLab lab n k) :
    sumTo (fun c => (hist lab n c : Int)) k = n := sum_hist lab n k h

theorem labels_valid (lab : Arr Nat) (n k : Nat) (h : ValidLab lab n k) : ∀ i, i < n → lab.get i < k := h

/-- balanced ∧ n ≥ k ⇒ no empty cluster ⇒ `_centers_dense` never divides by zero: every coordinate of every
centre is a finite number. -/
theorem centers_finite (lab : Arr Nat) (n k : Nat) (hk : 1 ≤ k) (hnk : k ≤ n) (h : Balanced lab n k) :
    ∀ c, c < k → 0 < hist lab n c ∧ ∀ sum : Int, centerCoord sum (hist lab n c) ≠ none := by
  intro c hc
  have hpos : 0 < n / k := Nat.div_pos hnk (by omega)
  have h1 : 0 < hist lab n c := by rcases h c hc with q | q <;> omega
  refine ⟨h1, fun sum => ?_⟩
  unfold centerCoord
  have : ¬ ((hist lab n c : Nat) : Int) = 0 := by omega
  rw [if_neg this]; simp

/-! ### outer loop: best tracking and n_iter -/

/-- `constraint_kmeans` returns one of the labelings produced by an association call of the loop, and
`n_iter_ ≤ max_iter` (given that the initial k-means used at most `max_iter` iterations). -/
theorem fit_returns_an_association {α} (assoc : Arr Nat → α → Option (Arr Nat)) (P : Arr Nat → Prop)
    (maxIter : Int) (lab0 : Arr Nat) (iter0 : Int) (h0 : iter0 ≤ maxIter) (first : α) (steps : List (α × Rat))
    (hassoc : ∀ lab a lab' x, (a, x) ∈ steps → assoc lab a = some lab' → P lab')
    (lab : Arr Nat) (iter : Int)
    (h : constraintKMeans assoc maxIter lab0 iter0 first steps = some (lab, iter)) :
    P lab ∧ iter ≤ maxIter := by
  unfold constraintKMeans at h
  split at h
  · cases h
  · rename_i lab1 _
    split at h
    · rename_i b it hq
      have e := Option.some.inj h
      have e1 : b.lab = lab := congrArg Prod.fst e
      have e2 : it = iter := congrArg Prod.snd e
      have := outerLoop_inv assoc P maxIter steps lab1 iter0 none (some b, it) hassoc
        (fun b hb => by cases hb) h0 hq
      rw [← e1, ← e2]
      exact ⟨this.1 b rfl, this.2⟩
    · cases h

theorem n_iter_le_max_iter {α} (assoc : Arr Nat → α → Option (Arr Nat)) (maxIter : Int) (lab0 : Arr Nat)
    (iter0 : Int) (h0 : iter0 ≤ maxIter) (first : α) (steps : List (α × Rat)) (lab : Arr Nat) (iter : Int)
    (h : constraintKMeans assoc maxIter lab0 iter0 first steps = some (lab, iter)) : iter ≤ maxIter :=
  (fit_returns_an_association assoc (fun _ => True) maxIter lab0 iter0 h0 first steps
    (fun _ _ _ _ _ _ => trivial) lab iter h).2

/-- the inputs of one association call of strategy 'distance', as recorded -/
structure DistCall where
  D : Mat
  prefs : Arr (List Nat)
  p : PassIn
  ps : List PassIn
  eps : Rat
  perm : List Nat

/-- `fit` with strategy 'distance': `labels_` is valid and balanced, for every sequence of centres /
distance matrices / draws / inertias the iterations go through. -/
theorem fit_labels_balanced (n k : Nat) (hn : 1 ≤ n) (hk : 1 ≤ k) (maxIter iter0 : Int) (h0 : iter0 ≤ maxIter)
    (lab0 : Arr Nat) (first : DistCall) (steps : List (DistCall × Rat))
    (hin : ∀ a x, (a, x) ∈ steps → DistInputs n k a.prefs a.p a.perm) (lab : Arr Nat) (iter : Int)
    (h : constraintKMeans (fun _ (a : DistCall) =>
        assocDistance n k (C07.limit n k) (C07.leftover n k) a.D a.prefs (a.p :: a.ps) a.eps a.perm)
      maxIter lab0 iter0 first steps = some (lab, iter)) :
    Balanced lab n k ∧ ValidLab lab n k ∧ iter ≤ maxIter := by
  have := fit_returns_an_association _ (fun l => Balanced l n k ∧ ValidLab l n k)
    maxIter lab0 iter0 h0 first steps
    (fun _ a lab' x hx hl => by
      obtain ⟨l, e, hb, hv⟩ := distance_balanced n k hn hk a.D a.prefs a.p a.ps a.eps a.perm (hin a x hx)
      rw [e] at hl; cases hl; exact ⟨hb, hv⟩)
    lab iter h
  exact ⟨this.1.1, this.1.2, this.2⟩

/-! ### plain prediction -/

/-- Without balanced predictions `predict` delegates to `KMeans.predict` whatever `weights_` is (regenerated
dispatch), i.e. returns the index of a nearest centre: no centre is closer than the chosen one. -/
theorem plain_predict_is_nearest (k : Nat) (hk : 1 ≤ k) (row : Nat → Int) :
    C07.predictPath true false = 0 ∧ C07.predictPath false false = 0 ∧
    predictPlain k row < k ∧ ∀ c, c < k → row (predictPlain k row) ≤ row c := by
  refine ⟨by unfold C07.predictPath; rfl, by unfold C07.predictPath; rfl, ?_, ?_⟩
  · exact argminRow_lt row k (by omega)
  · exact argminRow_min row k

/-! ### strategy 'gain' -/

/-- The regenerated tests and updates of `_constraint_association_gain` have the form the balancing proof
needs: allowance clipped to {0,1}, `loopf` keeps `sumi = nover - sum(leftclose)`, a last pass of plain
transfers exists.  (Fails on the unrepaired tree: `sumi -= leftclose[h]`, `sumi += 1`, no clip, no last pass.) -/
theorem genCfg_good : GoodCfg genCfg where
  ave := fun l => by show C07.gainAve l = l; unfold C07.gainAve; rfl
  clip01 := fun x => by
    show C07.gainClip x = 0 ∨ C07.gainClip x = 1
    unfold C07.gainClip
    simp only []
    by_cases h1 : x < 0 <;> by_cases h2 : x > 1 <;> simp [h1, h2] <;> omega
  nover := fun n a k => by show C07.gainNover n a k = _; unfold C07.gainNover; rfl
  sumi := fun nv s => by show C07.gainSumi nv s = _; unfold C07.gainSumi; rfl
  guard := fun s h => by
    have : C07.gainAdjustGuard s = false := h
    unfold C07.gainAdjustGuard at this; simpa using this
  negCond := fun s l => by show C07.loopfNegCond s l = true ↔ _; unfold C07.loopfNegCond; simp <;> omega
  posCond := fun s l => by show C07.loopfPosCond s l = true ↔ _; unfold C07.loopfPosCond; simp <;> omega
  neg := fun s l => by show C07.loopfNeg s l = _; unfold C07.loopfNeg; rfl
  pos := fun s l => by show C07.loopfPos s l = _; unfold C07.loopfPos; rfl
  detBreak := fun s h => by
    have : C07.adjustDetBreak s = true := h
    unfold C07.adjustDetBreak at this; simpa using this
  finalPass := by show C07.finalPass = true; unfold C07.finalPass; rfl
  finalQuota := fun cd cc a ld lcu => by
    show C07.finalQuota cd cc a ld lcu = true ↔ _; unfold C07.finalQuota; simp <;> omega

/-- what the recorded inputs of one gain association satisfy: `sorted_distances` lists every (point, cluster)
pair, `randint(0, k)` draws are below k, `perm` holds point indices -/
structure GainInputs (n k : Nat) (pairs : List (Nat × Nat)) (draws perm : List Nat) : Prop where
  cover : ∀ i, i < n → ∀ d, d < k → (i, d) ∈ pairs
  range : ∀ p, p ∈ pairs → p.1 < n ∧ p.2 < k
  draws : ∀ h, h ∈ draws → h < k
  perm : ∀ j, j ∈ perm → j < n

/-- One association call of strategy 'gain' / 'gain_p', for ANY configuration with the repaired form:
never `AssertionError`, and the labels returned are valid and balanced — for every n ≥ 1, k ≥ 1, distance
matrix, start (however unbalanced), order of `sorted_distances`, draw. -/
theorem gain_balanced_of_good {cfg : GainCfg} (good : GoodCfg cfg) (n k : Nat) (hk : 1 ≤ k) (D : Mat)
    (labP : Bool) (lab0 : Arr Nat) (hv : labP = false → ValidLab lab0 n k) (pairs : List (Nat × Nat))
    (draws perm : List Nat) (hin : GainInputs n k pairs draws perm) :
    assocGain cfg n k (C07.limit n k) D labP lab0 pairs draws perm ≠ .error .assertion ∧
    ∀ lab, assocGain cfg n k (C07.limit n k) D labP lab0 pairs draws perm = .ok lab →
      Balanced lab n k ∧ ValidLab lab n k := by
  obtain ⟨h1, h2⟩ := limit_spec n k (by omega)
  obtain ⟨a, b, c, _, _⟩ := limit_leftover n k hk
  have hv1 : ValidLab (if labP = true then tabulate n (fun i => argminRow (D.get i).get k) else lab0) n k := by
    cases labP with
    | false => simpa using hv rfl
    | true =>
      intro i _
      simp only [if_true]
      rw [tabulate_get]; exact argminRow_lt _ k (by omega)
  have hl0 : 0 ≤ C07.limit n k := by rw [h1]; exact Int.natCast_nonneg _
  have hg := gainCore_good good n k (C07.limit n k) hl0 (by omega) (by omega) D _ hv1 pairs
    (fun i d hi hd => hin.cover i hi d hd) hin.range draws hin.draws
  unfold assocGain
  simp only []
  split
  · rename_i e he
    refine ⟨fun h => ?_, fun lab h => by cases h⟩
    cases h
    exact hg.1 he
  · rename_i r hr
    refine ⟨fun h => (by cases h), fun lab h => ?_⟩
    cases h
    obtain ⟨hval, hb⟩ := hg.2 r hr
    have hvm : ValidLab (memo r.1) n k := fun i hi => by rw [memo_get]; exact hval i hi
    refine ⟨?_, (switchClusters_inv D n k perm hin.perm _).2 hvm⟩
    apply balanced_of_switch D n k perm hin.perm
    intro cl hcl
    rw [hist_congr _ _ n cl (fun i _ => memo_get r.1 i)]
    have hlo : (n : Int) - C07.limit n k * k = ((n % k : Nat) : Int) := by omega
    have := hb cl hcl
    rw [hlo, h1] at this
    rcases this with q | ⟨q1, q2⟩
    · left; omega
    · right; omega

/-- strategy 'gain' on the current source (regenerated tests). -/
theorem gain_balanced (n k : Nat) (hk : 1 ≤ k) (D : Mat) (labP : Bool) (lab0 : Arr Nat)
    (hv : labP = false → ValidLab lab0 n k) (pairs : List (Nat × Nat)) (draws perm : List Nat)
    (hin : GainInputs n k pairs draws perm) :
    assocGain genCfg n k (C07.limit n k) D labP lab0 pairs draws perm ≠ .error .assertion ∧
    ∀ lab, assocGain genCfg n k (C07.limit n k) D labP lab0 pairs draws perm = .ok lab →
      Balanced lab n k ∧ ValidLab lab n k :=
  gain_balanced_of_good genCfg_good n k hk D labP lab0 hv pairs draws perm hin

/-- `predict` with `balanced_predictions=True`, strategy 'gain': `gain_p` with the quotas of
`constraint_predictions`. -/
theorem gain_predict_balanced (n k : Nat) (hk : 1 ≤ k) (D : Mat) (lab0 : Arr Nat) (pairs : List (Nat × Nat))
    (draws perm : List Nat) (hin : GainInputs n k pairs draws perm) :
    ∀ lab, assocGain genCfg n k (C07.limitP n k) D true lab0 pairs draws perm = .ok lab →
      Balanced lab n k ∧ ValidLab lab n k := by
  obtain ⟨_, _, _, e1, _⟩ := limit_leftover n k hk
  rw [e1]
  exact (gain_balanced n k hk D true lab0 (fun h => by cases h) pairs draws perm hin).2

/-- the inputs of one association call of strategy 'gain', as recorded -/
structure GainCall where
  D : Mat
  pairs : List (Nat × Nat)
  draws : List Nat
  perm : List Nat

/-- `fit` with strategy 'gain': `labels_` is valid and balanced whatever the start. -/
theorem gain_fit_labels_balanced (n k : Nat) (hk : 1 ≤ k) (maxIter iter0 : Int) (h0 : iter0 ≤ maxIter)
    (lab0 : Arr Nat) (first : GainCall) (steps : List (GainCall × Rat))
    (hin : ∀ a x, (a, x) ∈ steps → GainInputs n k a.pairs a.draws a.perm) (lab : Arr Nat) (iter : Int)
    (h : constraintKMeans (fun l (a : GainCall) =>
        if ∀ i, i < n → l.get i < k then
          (match assocGain genCfg n k (C07.limit n k) a.D false l a.pairs a.draws a.perm with
            | .ok l' => some l'
            | .error _ => none)
        else none)
      maxIter lab0 iter0 first steps = some (lab, iter)) :
    Balanced lab n k ∧ ValidLab lab n k ∧ iter ≤ maxIter := by
  have := fit_returns_an_association _ (fun l => Balanced l n k ∧ ValidLab l n k)
    maxIter lab0 iter0 h0 first steps
    (fun l a lab' x hx hl => by
      split at hl
      · rename_i hvl
        split at hl
        · rename_i l' hq
          cases hl
          exact (gain_balanced n k hk a.D false l (fun _ => hvl) a.pairs a.draws a.perm (hin a x hx)).2 _ hq
        · cases hl
      · cases hl)
    lab iter h
  exact ⟨this.1.1, this.1.2, this.2⟩

/-- D11 (the code as of the snapshot, before any repair): strategy 'gain' leaves sizes 3,1,1 for n = 5, k = 3
(required: 1,2,2 up to order) on an input satisfying every hypothesis of `gain_balanced`.  The same input
is replayed on the real code by the check. -/
theorem gain_counterexample :
    GainInputs 5 3 witPairs witDraws witPerm ∧ ValidLab witLab 5 3 ∧
    gainSizes snapshotCfg 5 3 1 witD false witLab witPairs witDraws witPerm = [3, 1, 1] := by
  refine ⟨⟨by decide, by decide, by decide, by decide⟩, ?_, by decide +kernel⟩
  intro i hi
  have : ∀ j, j < 5 → witLab.get j < 3 := by decide
  exact this i hi

/-! ### the tie to the functions the model transcribes -/

/-- the functions the hand-written model transcribes have, in the current source, the control skeleton (tests, loop
headers, kinds of statements and the names they bind) they had when the model was written and validated: no branch,
loop, early exit or rebinding has been added that the model does not describe -/
theorem modelled_functions_have_the_transcribed_shape :
    MlVerif.Gen.C07.shapeConstraintKmeans =
      "sig(X, labels, sample_weight, centers, inertia, iter, max_iter, strategy='gain', verbose=0, state=None, learning_rate=1.0, history=False)|assert;if(strategy == 'weights'){return}else{if(isinstance(X, DataFrame)){X=};x_squared_norms=;counters=;limit=;leftover=;leftclose=;n_clusters=;distances_close=;best_inertia=;best_iter=;all_centers=;call _constraint_association;if(sample_weight is None){sw=}else{sw=};if(scipy.sparse.issparse(X)){_centers_fct=}else{_centers_fct=};while(iter < max_iter){centers=;if(history){call append};call _constraint_association;(_,inertia)=;iterAdd=;if(verbose){call print};if(best_inertia is None or inertia < best_inertia){best_inertia=;best_centers=;best_labels=;best_iter=};if(best_inertia is not None and inertia >= best_inertia and (iter > best_iter + 5)){break}};return}" ∧
    MlVerif.Gen.C07.shapeAssociation =
      "sig(leftover, counters, labels, leftclose, distances_close, centers, X, x_squared_norms, limit, strategy, state=None)|if(strategy in ('distance', 'distance_p')){return};if(strategy in ('gain', 'gain_p')){return};raise" ∧
    MlVerif.Gen.C07.shapeAssociationDistance =
      "sig(leftover, counters, labels, leftclose, distances_close, centers, X, x_squared_norms, limit, strategy, state=None)|counters[]=;leftclose[]=;labels[]=;distances=;distances=;distances0=;maxi=;centers_index=;while(labels.min() == -1){mini=;sorted_index=;call _randomize_index;nover=;for(ind in sorted_index){if(labels[ind] >= 0){continue};for(c in centers_index[ind, :]){if(counters[c] < limit){counters[]Add=;labels[]=;distances[]=;break};if(nover > 0 and leftclose[c] == -1){counters[]Add=;labels[]=;noverSub=;leftclose[]=;distances[]=;break}}}};call _switch_clusters;distances_close[]=;return" ∧
    MlVerif.Gen.C07.shapeAssociationGain =
      "sig(leftover, counters, labels, leftclose, distances_close, centers, X, x_squared_norms, limit, strategy, state=None)|distances=;distances=;if(strategy == 'gain_p'){labels[]=}else{pass};strategy_coef=;distance_linear=;sorted_distances=;distances_close[]=;ave=;counters[]=;for(i in labels){counters[]Add=};leftclose[]=;leftclose[]=;leftclose[]=;nover=;sumi=;if(sumi != 0){if(state is None){state=};def loopf{if(sumi < 0 and leftclose[h] > 0){sumiAdd=;leftclose[]=}else{if(sumi > 0 and leftclose[h] == 0){leftclose[]=;sumiSub=}};return};it=;while(sumi != 0){h=;sumi=;itAdd=;if(it > counters.shape[0] * 2){break}};for(h in range(counters.shape[0])){if(sumi == 0){break};sumi=}};transfer=;for(i in range(0, sorted_distances.shape[0])){gain=;ind=;dest=;cur=;if(distances_close[ind]){continue};if(cur == dest){continue};if(counters[dest] < ave + leftclose[dest] and counters[cur] > ave + leftclose[cur]){labels[]=;counters[]Sub=;counters[]Add=;distances_close[]=}else{cp=;while(len(cp) > 0){(g,destind)=;if(distances_close[destind]){del cp[]}else{break}};if(cp){(g,destind)=;if(g + gain < 0){del cp[];labels[]=;labels[]=;add=;distances_close[]=;distances_close[]=}else{add=}}else{add=};if(add){if((cur, dest) not in transfer){transfer[]=};gain=;call insort}}};for(i in range(0, sorted_distances.shape[0])){ind=;dest=;cur=;if(cur == dest){continue};if(counters[dest] < ave + leftclose[dest] and counters[cur] > ave + leftclose[cur]){labels[]=;counters[]Sub=;counters[]Add=}};neg=;assert;call _switch_clusters;distances_close[]=;return" ∧
    MlVerif.Gen.C07.shapeSwitchClusters =
      "sig(labels, distances)|perm=;niter=;modif=;while(modif > 0 and niter < 10){modif=;niterAdd=;for(i_ in range(labels.shape[0])){for(j_ in range(i_ + 1, labels.shape[0])){i=;j=;c1=;c2=;if(c1 == c2){continue};d11=;d12=;d21=;d22=;if(d11 ** 2 + d22 ** 2 > d21 ** 2 + d12 ** 2){(labels[],labels[])=;modifAdd=}}}}" ∧
    MlVerif.Gen.C07.shapeRandomizeIndex =
      "sig(index, weights)|maxi=;mini=;diff=;rand=;for(i in range(1, index.shape[0])){ind1=;ind2=;w1=;w2=;ratio=;if(rand[i] >= ratio + 0.5){(index[],index[])=;(weights[],weights[])=}}" ∧
    MlVerif.Gen.C07.shapeEstimatorFit =
      "sig(self, X, y=None, sample_weight=None)|max_iter=;self.max_iterFloorDiv=;try{if(self.kmeans0){call fit;state=}else{state=;labels=;centers=;choice=;for((i,c) in enumerate(choice)){centers[]=};self.labels_=;self.cluster_centers_=;self.inertia_=;self.n_iter_=;self.n_features_in_=}}finally{self.max_iter=};return" ∧
    MlVerif.Gen.C07.shapeEstimatorPredict =
      "sig(self, X)|if(self.weights_ is None){if(self.balanced_predictions){(labels,_,__)=;return};return}else{assert;return}" :=
  ⟨rfl, rfl, rfl, rfl, rfl, rfl, rfl, rfl⟩

/-! ### non-vacuity: concrete instances meeting the hypotheses -/
example : C07.limit 14 3 = 4 ∧ C07.leftover 14 3 = 2 := by decide
example : GainInputs 5 3 witPairs witDraws witPerm := ⟨by decide, by decide, by decide, by decide⟩
example : gainSizes genCfg 5 3 (C07.limit 5 3) witD false witLab witPairs witDraws witPerm = [2, 2, 1] := by
  decide +kernel
example : DistInputs 5 2 witPrefs2 witPass2 witPerm2 :=
  ⟨by decide, by unfold Covers; decide, by decide, by decide⟩
example : distSizes 5 2 (C07.limit 5 2) (C07.leftover 5 2) witD2 witPrefs2 [witPass2] (1/100000) witPerm2 = [3, 2] := by
  decide +kernel
example : fitSizes (fun _ (a : DistCall) =>
      assocDistance 5 2 (C07.limit 5 2) (C07.leftover 5 2) a.D a.prefs (a.p :: a.ps) a.eps a.perm) 5 2 3
    (Arr.ofList [0,0,0,0,0] 0) 1 ⟨witD2, witPrefs2, witPass2, [], 1/100000, witPerm2⟩
    [(⟨witD2, witPrefs2, witPass2, [], 1/100000, witPerm2⟩, 9), (⟨witD2, witPrefs2, witPass2, [], 1/100000, witPerm2⟩, 7)]
    = some ([3, 2], 3) := by decide +kernel
example : centerCoord 7 2 = some (7 / 2) := by decide +kernel
example : predictPlain 3 (fun c => [5, 2, 2].getD c 0) = 1 := by decide

end MlVerif.C07
