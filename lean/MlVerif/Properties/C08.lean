/-
C08 — Piecewise estimators: a partition by the binner with one local model per bucket.
Property theorems only.  `MlVerif.Gen.C08` is regenerated from the source on every run: the
first block of theorems are statements about what the source says *now*; the other theorems
use them, so a changed selection / unseen value / bookkeeping operator / cast breaks them.
-/
import MlVerif.Gen.C08
import MlVerif.Model.Piecewise
import MlVerif.Lemmas.Piecewise2

namespace MlVerif.C08
open MlVerif.Gen.C08 MlVerif.Piecewise MlVerif.Scatter

/-! ### what the source says (regenerated definitions) -/

/-- training and the three predict tasks select rows by `association == i` -/
theorem selections_are_bucket_equalities :
    fitSelection = ⟨"association", .eq, "i"⟩ ∧
    predictSelections.map (fun t => (t.2.1, t.2.2)) =
      [(⟨"association", .eq, "i"⟩, "predict"), (⟨"association", .eq, "i"⟩, "predict_proba"),
       (⟨"association", .eq, "i"⟩, "decision_function")] := by
  decide

/-- features, targets and weights are sliced by the same mask, before and after borrowing, and
exactly those slices are handed to the local model -/
theorem fit_slices_rows_targets_weights :
    fitSliced = [("Xi", "X"), ("yi", "y"), ("sw", "sample_weight")] ∧
    fitSlicedAfterBorrow = fitSliced ∧ fitCall = ["Xi", "yi", "sample_weight=sw"] := by
  decide

/-- an unseen bucket is -1 at every site (initial fill and `dict.get` default) -/
theorem unseen_is_minus_one :
    unseenValue = -1 ∧ (∀ v ∈ unseenInit, v = unseenValue) ∧ (∀ v ∈ unseenDefault, v = unseenValue) ∧
    unseenInit.length = 4 ∧ unseenDefault.length = 3 := by
  decide

/-- mask bookkeeping of `_apply_predict_method` -/
theorem apply_bookkeeping :
    applyScatter = ["pred[ind] = p"] ∧ applyAccum = .or ∧ applyFinal = .not ∧ fallbackGuard = (.gt, 0) ∧
    "pred[indall] = missed" ∈ fallbackScatter ∧ "missed = meth(Xmissed)" ∈ fallbackScatter ∧
    "meth = getattr(self.mean_estimator_, method)" ∈ fallbackScatter := by
  decide

/-- both `Parallel(...)` calls ask for threads and pass `self.n_jobs` -/
theorem parallel_prefers_threads :
    parallelKwargs.length = 2 ∧
    ∀ kw ∈ parallelKwargs, ("prefer", "'threads'") ∈ kw ∧ ("n_jobs", "self.n_jobs") ∈ kw := by
  decide

/-- a predict task receives only `i`, its model and the two shared read-only arrays; a fit task
receives no random generator shared with the other tasks -/
theorem tasks_share_no_mutable_state :
    predictTaskArgs = ["i", "model", "X", "association"] ∧ fitTaskSharedRng = [] ∧
    fitTaskArgs.take 7 = ["i", "estimators[i]", "X", "y", "sample_weight", "association", "nb_classes"] := by
  decide

/-- `PiecewiseClassifier.predict` scatters labels into a buffer of the labels' dtype and returns it -/
theorem predict_keeps_labels : predictBufferDtype = "classes_.dtype" ∧ predictPost = .identity := by
  decide

/-! ### bins_partition — every row gets exactly one bucket id, or -1 -/

/-- **bins_partition (training, tree binner)**: `association` is the bucket id of each row's leaf and
`mapping_` numbers the non-empty leaves densely in leaf order, for every tree and data set. -/
theorem bins_partition_train_tree {κ} [BEq κ] [LawfulBEq κ] (leaves keys : List κ) (hnd : leaves.Nodup) :
    mappingTrainTree leaves keys =
      (keys.map (bucketId (mappedLeaves leaves keys)), (mappedLeaves leaves keys).zipIdx) :=
  mappingTrainTree_closed leaves keys hnd

/-- the leaf list `_mapping_train` computes from the tree arrays has no duplicates -/
theorem treeLeaves_nodup (cl cr : List Int) : (treeLeaves cl cr).Nodup := by
  unfold treeLeaves
  have h : ∀ (l : List (Int × Int)) (n : Nat),
      ((l.zipIdx n).filterMap (fun (p : (Int × Int) × Nat) =>
        if p.1.1 ≤ (p.2 : Int) ∧ p.1.2 ≤ (p.2 : Int) then some p.2 else none)).Nodup ∧
      ∀ i ∈ (l.zipIdx n).filterMap (fun (p : (Int × Int) × Nat) =>
        if p.1.1 ≤ (p.2 : Int) ∧ p.1.2 ≤ (p.2 : Int) then some p.2 else none), n ≤ i := by
    intro l
    induction l with
    | nil => intro n; simp
    | cons a l ih =>
      intro n
      have := ih (n + 1)
      simp only [List.zipIdx_cons, List.filterMap_cons]
      split
      · exact ⟨this.1, fun i hi => by have := this.2 i hi; omega⟩
      · rename_i b hb
        have hbn : b = n := by
          split at hb
          · simpa using hb.symm
          · simp at hb
        subst hbn
        refine ⟨List.nodup_cons.mpr ⟨fun hm => ?_, this.1⟩, ?_⟩
        · have := this.2 b hm; omega
        · intro i hi
          rcases List.mem_cons.mp hi with e | e
          · omega
          · have := this.2 i e; omega
  exact (h _ 0).1

/-- **bins_partition (training, discretizer)**: the cells are the sorted distinct tuples, numbered in
that order; every training row gets the number of its own cell. -/
theorem bins_partition_train_cells (keys : List (List Int)) :
    let r := mappingTrainBins keys
    r.2.2.Nodup ∧ (∀ k, k ∈ r.2.2 ↔ k ∈ keys) ∧ r.2.1 = r.2.2.zipIdx ∧ r.1 = keys.map (bucketId r.2.2) := by
  have hp := List.mergeSort_perm (uniq keys) lexLe
  refine ⟨hp.nodup_iff.mpr (uniq_nodup keys), fun k => ?_, rfl, ?_⟩
  · rw [← mem_uniq keys k]; exact hp.mem_iff
  · simp only [mappingTrainBins]
    apply List.map_congr_left
    intro k _
    exact dictGet_zipIdx _ k

/-- **bins_partition (prediction, tree binner)**: `transform_bins` gives each row the id of its leaf,
-1 when the leaf received no model (or is no leaf of the tree at all). -/
theorem bins_partition_predict_tree {κ} [BEq κ] [LawfulBEq κ] (leaves mapped keys : List κ)
    (hsub : ∀ k ∈ mapped, k ∈ leaves) :
    transformBinsTree leaves mapped.zipIdx keys = keys.map (bucketId mapped) :=
  transformBinsTree_zipIdx leaves mapped keys hsub

/-- **bins_partition (prediction, discretizer)** -/
theorem bins_partition_predict_cells {κ} [BEq κ] [LawfulBEq κ] (mapped keys : List κ) :
    transformBinsCells mapped.zipIdx keys = keys.map (bucketId mapped) := by
  unfold transformBinsCells
  apply List.map_congr_left
  intro k _
  exact dictGet_zipIdx mapped k

/-- **bins_partition**: a bucket id is -1 exactly for the keys without a model, otherwise it is the
position of the key among the modelled keys — so two rows share an id iff they share a bucket. -/
theorem bins_partition {κ} [BEq κ] [LawfulBEq κ] (mapped : List κ) (k : κ) :
    (¬ k ∈ mapped ∧ bucketId mapped k = -1) ∨
    (k ∈ mapped ∧ 0 ≤ bucketId mapped k ∧ bucketId mapped k < (mapped.length : Int) ∧
      mapped[(bucketId mapped k).toNat]? = some k) := by
  have hu : unseenValue = -1 := unseen_is_minus_one.1
  by_cases h : k ∈ mapped
  · right
    have hc : mapped.contains k = true := by simpa using h
    have hlt : mapped.idxOf k < mapped.length := List.idxOf_lt_length_iff.mpr h
    refine ⟨h, ?_, ?_, ?_⟩
    · simp only [bucketId, hc, if_true]; exact Int.natCast_nonneg _
    · simp only [bucketId, hc, if_true]; exact_mod_cast hlt
    · simp only [bucketId, hc, if_true, Int.toNat_natCast]
      rw [List.getElem?_eq_getElem hlt, List.getElem_idxOf hlt]
  · left
    have hc : mapped.contains k = false := by simpa using h
    exact ⟨h, by simp only [bucketId, hc, Bool.false_eq_true, if_false, hu]⟩

theorem bins_partition_same_bucket {κ} [BEq κ] [LawfulBEq κ] (mapped : List κ) (k k' : κ) (hk : k ∈ mapped) :
    bucketId mapped k = bucketId mapped k' ↔ k = k' := by
  constructor
  · intro e
    rcases bins_partition mapped k with ⟨h, _⟩ | ⟨_, h0, _, h2⟩
    · exact absurd hk h
    · rcases bins_partition mapped k' with ⟨_, h'⟩ | ⟨_, _, _, h2'⟩
      · rw [e, h'] at h0; omega
      · rw [e] at h2; rw [h2] at h2'; exact Option.some.inj h2'
  · intro e; rw [e]

/-! ### one_model_per_nonempty -/

/-- **one_model_per_nonempty**: `mapping_` (hence `estimators_`) has one entry per leaf that holds at
least one training row, no entry for the others, no duplicates; every id below `n_estimators_` is the
id of at least one training row, and a training row whose leaf is a leaf of the tree never gets -1. -/
theorem one_model_per_nonempty {κ} [BEq κ] [LawfulBEq κ] (leaves keys : List κ) (hnd : leaves.Nodup) :
    let mapped := mappedLeaves leaves keys
    (mappingTrainTree leaves keys).2.length = mapped.length ∧ mapped.Nodup ∧
    (∀ k, k ∈ mapped ↔ k ∈ leaves ∧ k ∈ keys) ∧
    (∀ i, i < mapped.length → (i : Int) ∈ (mappingTrainTree leaves keys).1) ∧
    (∀ k ∈ keys, k ∈ leaves → 0 ≤ bucketId mapped k) := by
  have hm : ∀ k, k ∈ mappedLeaves leaves keys ↔ k ∈ leaves ∧ k ∈ keys := by
    intro k; simp [mappedLeaves, List.mem_filter]
  have hnd' : (mappedLeaves leaves keys).Nodup := List.Nodup.sublist List.filter_sublist hnd
  rw [bins_partition_train_tree leaves keys hnd]
  refine ⟨by simp, hnd', hm, ?_, ?_⟩
  · intro i hi
    have hk : (mappedLeaves leaves keys)[i] ∈ keys := ((hm _).mp (List.getElem_mem hi)).2
    refine List.mem_map.mpr ⟨_, hk, ?_⟩
    have hc : (mappedLeaves leaves keys).contains (mappedLeaves leaves keys)[i] = true := by
      simpa using List.getElem_mem hi
    simp only [bucketId, hc, if_true]
    rw [hnd'.idxOf_getElem i hi]
  · intro k hk hl
    rcases bins_partition (mappedLeaves leaves keys) k with ⟨h, _⟩ | ⟨_, h0, _⟩
    · exact absurd ((hm k).mpr ⟨hl, hk⟩) h
    · exact h0

/-- the same for the discretizer: one model per distinct cell of the training set -/
theorem one_model_per_nonempty_cells (keys : List (List Int)) :
    let r := mappingTrainBins keys
    r.2.1.length = r.2.2.length ∧ (∀ i, i < r.2.2.length → (i : Int) ∈ r.1) ∧ (∀ a ∈ r.1, 0 ≤ a) := by
  obtain ⟨hnd, hmem, hmap, hassoc⟩ := bins_partition_train_cells keys
  refine ⟨by rw [hmap]; simp, ?_, ?_⟩
  · intro i hi
    rw [hassoc]
    have hk : (mappingTrainBins keys).2.2[i] ∈ keys := (hmem _).mp (List.getElem_mem hi)
    refine List.mem_map.mpr ⟨_, hk, ?_⟩
    have hc : (mappingTrainBins keys).2.2.contains (mappingTrainBins keys).2.2[i] = true := by
      simpa using List.getElem_mem hi
    simp only [bucketId, hc, if_true]
    rw [hnd.idxOf_getElem i hi]
  · intro a ha
    rw [hassoc] at ha
    obtain ⟨k, hk, rfl⟩ := List.mem_map.mp ha
    rcases bins_partition (mappingTrainBins keys).2.2 k with ⟨h, _⟩ | ⟨_, h0, _⟩
    · exact absurd ((hmem k).mpr hk) h
    · exact h0

/-! ### bucket_training_rows_exact -/

/-- the rows of one array that belong to bucket `i`, in order -/
def bucketRows {α} (xs : List α) (assoc : List Int) (i : Nat) : List α :=
  ((xs.zip assoc).filter (fun p => p.2 == (i : Int))).map Prod.fst

theorem maskGet_bucket {α} (xs : List α) (assoc : List Int) (i : Nat) (h : xs.length = assoc.length) :
    maskGet xs (assoc.map (fun a => a == (i : Int))) = bucketRows xs assoc i := by
  have h1 : (xs.zip assoc).map Prod.fst = xs := List.map_fst_zip (by omega)
  have h2 : (xs.zip assoc).map Prod.snd = assoc := List.map_snd_zip (by omega)
  unfold bucketRows
  generalize xs.zip assoc = rows at h1 h2
  subst h1 h2
  rw [List.map_map, maskGet_map]
  congr 1
  exact maskGet_map_eq_filter _ _

/-- **bucket_training_rows_exact** (regressor, and every classifier bucket that already holds all
classes): the local model of bucket `i` is fitted on exactly the rows with `association == i` —
features, targets and weights sliced by the same mask, so they are the same rows in the same order, a
sub-list of the training set; a bucket without a row is left unfitted. -/
theorem bucket_training_rows_exact {ρ τ ω} [BEq τ] (i : Nat) (X : List ρ) (y : List τ) (w : Option (List ω))
    (assoc : List Int) (addition : List Nat)
    (hX : X.length = assoc.length) (hy : y.length = assoc.length) (hw : ∀ ws, w = some ws → ws.length = assoc.length) :
    fitBucket i X y w assoc none addition =
      (if (i : Int) ∈ assoc then
        .fitted ⟨bucketRows X assoc i, bucketRows y assoc i, w.map (fun ws => bucketRows ws assoc i)⟩ []
       else .unfitted) ∧
    (bucketRows X assoc i).Sublist X ∧ (bucketRows y assoc i).Sublist y ∧
    (bucketRows (X.zip y) assoc i) = (bucketRows X assoc i).zip (bucketRows y assoc i) := by
  have hsel := selections_are_bucket_equalities.1
  refine ⟨?_, ?_, ?_, ?_⟩
  · unfold fitBucket
    rw [hsel, selMask_eq]
    have hany : (assoc.map (fun a => a == (i : Int))).any id = decide ((i : Int) ∈ assoc) := by
      rw [List.any_map]
      apply Bool.eq_iff_iff.mpr
      simp only [List.any_eq_true, Function.comp, id, beq_iff_eq, decide_eq_true_eq]
      constructor
      · rintro ⟨a, ha, rfl⟩; exact ha
      · intro h; exact ⟨_, h, rfl⟩
    simp only [hany]
    by_cases hi : (i : Int) ∈ assoc
    · simp only [hi, decide_true, Bool.not_true, Bool.false_eq_true, if_false, if_true, slice]
      rw [maskGet_bucket X assoc i hX, maskGet_bucket y assoc i hy]
      congr 2
      cases w with
      | none => rfl
      | some ws => simp only [Option.map_some]; rw [maskGet_bucket ws assoc i (hw ws rfl)]
    · simp [hi]
  · rw [← maskGet_bucket X assoc i hX]; exact maskGet_sublist _ _
  · rw [← maskGet_bucket y assoc i hy]; exact maskGet_sublist _ _
  · rw [← maskGet_bucket X assoc i hX, ← maskGet_bucket y assoc i hy,
      ← maskGet_bucket (X.zip y) assoc i (by simp [hX, hy])]
    exact maskGet_zip _ _ _

/-! ### borrow_completes_classes -/

/-- **borrow_completes_classes** (classifier).  `nb_classes` is the number of classes of the whole
training set and the recorded shuffle is a permutation of the row numbers.  Then the task never
diverges or fails; the local model is fitted on the rows of the bucket plus the borrowed rows `res`
(mask `ind ∨ row ∈ res`, so original order is kept); the borrowed rows are taken in shuffle order and
carry pairwise different classes, none of which occurs in the bucket — exactly one example per missing
class —; and after borrowing every class of the training set is present in the local training set. -/
theorem borrow_completes_classes {ρ τ ω} [BEq τ] [LawfulBEq τ] (i : Nat) (X : List ρ) (y : List τ)
    (w : Option (List ω)) (assoc : List Int) (addition : List Nat)
    (hy : y.length = assoc.length) (hi : (i : Int) ∈ assoc)
    (hrange : ∀ k ∈ addition, k < y.length) (hcover : ∀ k, k < y.length → k ∈ addition) :
    ∃ res : List Nat,
      fitBucket i X y w assoc (some (uniq y).length) addition =
        .fitted (slice X y w (setTrue (assoc.map (fun a => a == (i : Int))) res)) res ∧
      (∀ k, (setTrue (assoc.map (fun a => a == (i : Int))) res)[k]? =
        if k ∈ res then (assoc.map (fun a => a == (i : Int)))[k]?.map (fun _ => true)
        else (assoc.map (fun a => a == (i : Int)))[k]?) ∧
      res.Sublist addition ∧
      (res.filterMap (fun k => y[k]?)).Nodup ∧ (res.filterMap (fun k => y[k]?)).length = res.length ∧
      (∀ c ∈ res.filterMap (fun k => y[k]?), ¬ c ∈ maskGet y (assoc.map (fun a => a == (i : Int)))) ∧
      (∀ c ∈ y, c ∈ maskGet y (setTrue (assoc.map (fun a => a == (i : Int))) res)) := by
  obtain ⟨res, h1, h2, h3, h4, h5, h6⟩ :=
    fitBucket_borrow i X y w assoc addition selections_are_bucket_equalities.1 hy hi hrange hcover
  exact ⟨res, h1, fun k => setTrue_getElem? _ res k, h2, h3, h4, h5, h6⟩

/-! ### dispatch_exact -/

/-- **dispatch_exact** (from the scatter lemma `dispatch_rows`): for every batch and every bucket
assignment — including -1 for buckets unseen at training time — `_apply_predict_method` returns, row by
row, the output of the row's bucket's model, or the fallback model's output when the row has no
bucket.  Local models are row-wise (hypothesis on the parameters). -/
theorem dispatch_exact {ρ β} (nEst : Nat) (P : Nat → List ρ → List β) (Pmean : List ρ → List β)
    (g : Nat → ρ → β) (gm : ρ → β) (hP : ∀ i xs, P i xs = xs.map (g i)) (hPm : ∀ xs, Pmean xs = xs.map gm)
    (zero : β) (X : List ρ) (assoc : List Int) (hX : X.length = assoc.length) (hn : nEst ≠ 0) :
    ∀ t ∈ predictSelections,
      applyPredict t.2.1 nEst P Pmean zero X assoc =
        some ((X.zip assoc).map (fun r => if 0 ≤ r.2 ∧ r.2 < (nEst : Int) then g r.2.toNat r.1 else gm r.1)) := by
  intro t ht
  have hsel : t.2.1 = ⟨"association", .eq, "i"⟩ := by
    have h := selections_are_bucket_equalities.2
    have : (t.2.1, t.2.2) ∈ predictSelections.map (fun t => (t.2.1, t.2.2)) := List.mem_map.mpr ⟨t, ht, rfl⟩
    rw [h] at this
    simp only [List.mem_cons, Prod.mk.injEq, List.not_mem_nil, or_false] at this
    rcases this with h | h | h <;> exact h.1
  rw [hsel]
  obtain ⟨_, hacc, hfin, hguard, _⟩ := apply_bookkeeping
  exact applyPredict_closed nEst P Pmean g gm hP hPm zero X assoc hX hn hacc hfin hguard

/-- an unfitted `estimators_` list is rejected (the code's assertion), not silently predicted -/
theorem dispatch_rejects_empty {ρ β} (sel : MaskSel) (P : Nat → List ρ → List β) (Pmean : List ρ → List β)
    (zero : β) (X : List ρ) (assoc : List Int) : applyPredict sel 0 P Pmean zero X assoc = none := by
  simp [applyPredict]

/-! ### proba_rows_are_local_rows, labels_in_classes -/

/-- a probability row over `k` classes -/
def IsDist (k : Nat) (p : List Rat) : Prop := p.length = k ∧ (∀ q ∈ p, 0 ≤ q) ∧ p.sum = 1

/-- **proba_rows_are_local_rows**: every row of `predict_proba` is the row its bucket's model (or the
fallback) produced; hence, local rows being distributions over the `k` classes (each local model sees
every class after borrowing, `borrow_completes_classes`), so are all output rows. -/
theorem proba_rows_are_local_rows (nEst : Nat) {ρ} (P : Nat → List ρ → List (List Rat))
    (Pmean : List ρ → List (List Rat)) (g : Nat → ρ → List Rat) (gm : ρ → List Rat)
    (hP : ∀ i xs, P i xs = xs.map (g i)) (hPm : ∀ xs, Pmean xs = xs.map gm)
    (X : List ρ) (assoc : List Int) (hX : X.length = assoc.length) (hn : nEst ≠ 0) (k : Nat)
    (hg : ∀ i x, IsDist k (g i x)) (hgm : ∀ x, IsDist k (gm x)) :
    ∀ t ∈ predictSelections, ∃ out, applyPredict t.2.1 nEst P Pmean [] X assoc = some out ∧
      out.length = X.length ∧
      (∀ row ∈ out, ∃ x ∈ X, (∃ i, i < nEst ∧ row = g i x) ∨ row = gm x) ∧
      (∀ row ∈ out, IsDist k row) := by
  intro t ht
  refine ⟨_, dispatch_exact nEst P Pmean g gm hP hPm [] X assoc hX hn t ht, by simp [hX], ?_, ?_⟩
  · intro row hrow
    obtain ⟨r, hr, rfl⟩ := List.mem_map.mp hrow
    refine ⟨r.1, (List.of_mem_zip hr).1, ?_⟩
    by_cases h : 0 ≤ r.2 ∧ r.2 < (nEst : Int)
    · left; exact ⟨r.2.toNat, by omega, by simp [h]⟩
    · right; simp [h]
  · intro row hrow
    obtain ⟨r, _, rfl⟩ := List.mem_map.mp hrow
    by_cases h : 0 ≤ r.2 ∧ r.2 < (nEst : Int)
    · simp only [h, and_self, if_true]; exact hg _ _
    · simp only [h, if_false]; exact hgm _

/-- **labels_in_classes**: for labels of any type (integers, floats, strings) `PiecewiseClassifier.predict`
succeeds and returns, for every row, the label predicted by the row's bucket's model (or the fallback):
predicted labels belong to `classes_` as soon as the local models predict labels of `classes_`. -/
theorem labels_in_classes (nEst : Nat) {ρ} (P : Nat → List ρ → List Label) (Pmean : List ρ → List Label)
    (g : Nat → ρ → Label) (gm : ρ → Label)
    (hP : ∀ i xs, P i xs = xs.map (g i)) (hPm : ∀ xs, Pmean xs = xs.map gm)
    (X : List ρ) (assoc : List Int) (hX : X.length = assoc.length) (hn : nEst ≠ 0) (classes : List Label)
    (hg : ∀ i x, g i x ∈ classes) (hgm : ∀ x, gm x ∈ classes) :
    classifierPredict nEst P Pmean X assoc =
      .ok ((X.zip assoc).map (fun r => if 0 ≤ r.2 ∧ r.2 < (nEst : Int) then g r.2.toNat r.1 else gm r.1)) ∧
    ∀ ls, classifierPredict nEst P Pmean X assoc = .ok ls → ∀ l ∈ ls, l ∈ classes := by
  obtain ⟨hd, hpost⟩ := predict_keeps_labels
  have hbuf : ∀ l, toBuffer predictBufferDtype l = .ok l := by
    intro l; rw [hd]; simp [toBuffer]
  have hhead : ∃ t, predictSelections.head? = some t ∧ t ∈ predictSelections := by
    have h := selections_are_bucket_equalities.2
    cases hps : predictSelections with
    | nil => rw [hps] at h; simp at h
    | cons t ts => exact ⟨t, rfl, by simp⟩
  obtain ⟨t, ht, htm⟩ := hhead
  have hmain : classifierPredict nEst P Pmean X assoc =
      .ok ((X.zip assoc).map (fun r => if 0 ≤ r.2 ∧ r.2 < (nEst : Int) then g r.2.toNat r.1 else gm r.1)) := by
    unfold classifierPredict
    simp only [ht]
    have h1 : ∀ i xs, (fun xs => (P i xs).map (toBuffer predictBufferDtype)) xs =
        xs.map (fun x => (Except.ok (g i x) : Except String Label)) := by
      intro i xs; simp [hP, hbuf]
    have h2 : ∀ xs, (fun xs => (Pmean xs).map (toBuffer predictBufferDtype)) xs =
        xs.map (fun x => (Except.ok (gm x) : Except String Label)) := by
      intro xs; simp [hPm, hbuf]
    rw [dispatch_exact nEst _ _ (fun i x => (Except.ok (g i x) : Except String Label))
      (fun x => Except.ok (gm x)) h1 h2 _ X assoc hX hn t htm]
    simp only [hpost]
    have hm : ∀ (l : List (ρ × Int)),
        (l.map (fun r => if 0 ≤ r.2 ∧ r.2 < (nEst : Int) then (Except.ok (g r.2.toNat r.1) : Except String Label)
          else Except.ok (gm r.1))).mapM id =
        (Except.ok (l.map (fun r => if 0 ≤ r.2 ∧ r.2 < (nEst : Int) then g r.2.toNat r.1 else gm r.1)) :
          Except String (List Label)) := by
      intro l
      induction l with
      | nil => rfl
      | cons r rs ih =>
        simp only [List.map_cons, List.mapM_cons, ih]
        split <;> rfl
    rw [hm]
    have hp : ∀ (ls : List Label), ls.mapM (postLabel PostOp.identity) = (Except.ok ls : Except String (List Label)) := by
      intro ls
      induction ls with
      | nil => rfl
      | cons l ls ih => simp only [List.mapM_cons, ih, postLabel]; rfl
    show (Except.ok _ : Except String (List Label)).bind _ = _
    simp only [Except.bind]
    exact hp _
  refine ⟨hmain, ?_⟩
  intro ls hls l hl
  rw [hmain] at hls
  have : ls = _ := (Except.ok.inj hls).symm
  subst this
  obtain ⟨r, _, rfl⟩ := List.mem_map.mp hl
  split
  · exact hg _ _
  · exact hgm _

/-! ### njobs_independent -/

/-- **njobs_independent**: the tasks are functions of `(i, inputs they do not modify)` (see
`tasks_share_no_mutable_state`); joblib hands the result slots back in submission order (trusted).
Whatever the order `sched` in which the threads run the tasks — any list that runs every task at least
once — the list of results is the same, namely the sequential one.  Holds for the fit tasks
(`fitBucket i …` with the task's own shuffle) and the predict tasks (`predictTask … i`) alike. -/
theorem njobs_independent {α} (n : Nat) (task : Nat → α) (sched : List Nat) (hall : ∀ i, i < n → i ∈ sched) :
    runSchedule n task sched = (List.range n).map (fun i => some (task i)) := by
  unfold runSchedule
  have := foldl_set_all (fun i => some (task i)) sched (List.replicate n none) (by simpa using hall)
  simpa using this

/-- two schedules give the same fitted estimators and the same predictions -/
theorem njobs_independent_any_two {α} (n : Nat) (task : Nat → α) (s1 s2 : List Nat)
    (h1 : ∀ i, i < n → i ∈ s1) (h2 : ∀ i, i < n → i ∈ s2) :
    runSchedule n task s1 = runSchedule n task s2 := by
  rw [njobs_independent n task s1 h1, njobs_independent n task s2 h2]

/-! ### the tie to the functions the model transcribes -/

/-- the functions the hand-written model transcribes have, in the current source, the control skeleton (tests, loop
headers, kinds of statements and the names they bind) they had when the model was written and validated: no branch,
loop, early exit or rebinding has been added that the model does not describe -/
theorem modelled_functions_have_the_transcribed_shape :
    MlVerif.Gen.C08.shapeFitTask =
      "sig(i, model, X, y, sample_weight, association, nb_classes, random_state)|ind=;if(not numpy.any(ind)){return};Xi=;yi=;sw=;if(nb_classes is not None and len(set(yi)) != nb_classes){if(random_state is None){random_state=};addition=;call shuffle;found=;allcl=;res=;while(len(found) < len(allcl)){for(ki in addition){if(y[ki] not in found){call append;call add}}};ind=;for(ki in res){ind[]=};Xi=;yi=;sw=};return" ∧
    MlVerif.Gen.C08.shapePredictTask =
      "sig(i, est, X, association)|ind=;if(not numpy.any(ind)){return};return" ∧
    MlVerif.Gen.C08.shapeTransformBins =
      "sig(self, X)|binner=;if(hasattr(binner, 'tree_')){dec_path=;association=;association[]=;for(j in self.leaves_){ind=;ind=;if(not numpy.any(ind)){continue};association[]=}}else{if(hasattr(binner, 'transform')){association=;association[]=;tr=;for((i,x) in enumerate(tr)){d=;association[]=}}else{raise}};return" ∧
    MlVerif.Gen.C08.shapeMappingTrain =
      "sig(self, X, binner)|if(hasattr(binner, 'tree_')){tree=;leaves=;dec_path=;association=;association[]=;mapping=;ntree=;for(j in leaves){ind=;ind=;if(not numpy.any(ind)){continue};mapping[]=;association[]=;ntreeAdd=}}else{if(hasattr(binner, 'transform')){tr=;unique=;for(x in tr){d=;call add};leaves=;association=;association[]=;ntree=;mapping=;for((i,le) in enumerate(leaves)){mapping[]=};for((i,x) in enumerate(tr)){d=;association[]=}}else{raise}};return" ∧
    MlVerif.Gen.C08.shapeApplyPredictMethod =
      "sig(self, X, method, parallelized, dimout, dtype=None)|assert;assert;if(isinstance(X, pandas.DataFrame)){X=};association=;indpred=;pred=;indall=;indall[]=;for((ind,p) in indpred){if(ind is None){continue};pred[]=;indall=};indall=;Xmissed=;if(Xmissed.shape[0] > 0){meth=;missed=;pred[]=};return" :=
  ⟨rfl, rfl, rfl, rfl, rfl⟩

/-! ### non-vacuity: concrete instances satisfying the hypotheses -/

-- a depth-2 tree (nodes 0..6, leaves 2,3,5,6); leaf 5 holds no training row
example : treeLeaves [1, 2, -1, -1, 5, -1, -1] [4, 3, -1, -1, 6, -1, -1] = [2, 3, 5, 6] := by decide
example : mappingTrainTree [2, 3, 5, 6] [3, 6, 2, 3, 6] = ([1, 2, 0, 1, 2], [(2, 0), (3, 1), (6, 2)]) := by decide
-- at predict time leaf 5 is unseen: -1
example : transformBinsTree [2, 3, 5, 6] [(2, 0), (3, 1), (6, 2)] [5, 2, 6] = [-1, 0, 2] := by decide
example : (mappingTrainBins [[1, 0], [0, 1], [1, 0]]).1 = [1, 0, 1] := by
  simp [mappingTrainBins, uniq, List.mergeSort, lexLe, dictGet, List.lookup]
-- bucket 1 of a regressor: rows, targets, weights of the rows with association 1, in order
example : fitBucket (ρ := Nat) (τ := Nat) (ω := Nat) 1 [10, 11, 12, 13] [5, 6, 7, 8] (some [1, 2, 3, 4]) [1, 0, 1, -1] none []
    = .fitted ⟨[10, 12], [5, 7], some [1, 3]⟩ [] := by decide
-- classifier: bucket 0 holds only class 7; the shuffle [3,1,0,2] lends it row 3 (class 9) and row 1 (class 8)
example : fitBucket (ρ := Nat) (τ := Nat) (ω := Nat) 0 [10, 11, 12, 13] [7, 8, 7, 9] none [0, 1, 0, 1] (some 3) [3, 1, 0, 2]
    = .fitted ⟨[10, 11, 12, 13], [7, 8, 7, 9], none⟩ [3, 1] := by decide
-- dispatch with an unseen bucket: row 12 (association -1) gets the fallback
example : applyPredict ⟨"association", .eq, "i"⟩ 2 (fun i xs => xs.map (· + 100 * (i + 1))) (fun xs => xs.map (· + 1000)) 0
    [10, 11, 12, 13] [1, 0, -1, 1] = some [210, 111, 1012, 213] := by decide
example : runSchedule 3 (fun i => i * i) [2, 0, 1] = [some 0, some 1, some 4] := by decide
example : IsDist 2 [1/4, 3/4] := by refine ⟨rfl, ?_, ?_⟩ <;> decide +kernel

end MlVerif.C08
