/-
C05 — QuantileLinearRegression fits, and scores with, the pinball loss of its quantile.
Property theorems only.  Every theorem is generic in an ordered field `α` and has no bound on the
number of rows or features.  `MlVerif.Gen.C05` (the sign -> multiplier table of `_epsilon`, the
factor used by `fit`, the factor and the divisor used by `score`, the keyword tables) is regenerated
from the source on every run, so these are statements about what the source says *now*.

Partial (stated, not provable): that the IRLS loop reaches such a fixed point within `max_iter`, and the
effect of `delta` on residuals smaller than `delta`; both are tested against the exact LP optimum.
-/
import MlVerif.Lemmas.Quantile

namespace MlVerif.C05
open Lean.Grind Std MlVerif.Quantile
set_option linter.unusedSectionVars false

section
variable {α : Type} [Field α] [LE α] [LT α] [DecidableLE α] [DecidableLT α] [DecidableEq α]
  [IsLinearOrder α] [LawfulOrderLT α] [OrderedRing α]

/-! ### what `fit` minimises -/

/-- one row of `E = epsilon.sum()`: `|r|·(1 − mult)` (times the sample weight) is the pinball loss of `q` -/
theorem fit_term_is_pinball (q delta w y f : α) :
    (irlsRow q delta true w y f).2 = objScale q * (w * pinball q y f) ∧
    (irlsRow q delta false w y f).2 = objScale q * pinball q y f := by
  by_cases hq : q = 1 / 2
  · subst hq
    simp only [irlsRow, epsilonRow, objScale, Gen.C05.hasMult, Gen.C05.diff, pinball, absR, maxR]
    constructor <;> (simp; (repeat' split) <;> grind)
  · have hm : Gen.C05.hasMult q = true := by simp [Gen.C05.hasMult, hq]
    simp only [irlsRow, epsilonRow, objScale, hm, mult, Gen.C05.diff, Gen.C05.multPos, Gen.C05.multNeg,
      Gen.C05.multZero, Gen.C05.fitEpsFactor, pinball, absR, maxR]
    constructor <;> (simp; (repeat' split) <;> grind)

/-- `fit_objective_is_pinball`: the quantity `E` the IRLS loop monitors, `Σ_i |r_i|·(1 − mult_i)·w_i`, is the weighted
pinball loss `Σ_i w_i (q·max(y_i−f_i,0) + (1−q)·max(f_i−y_i,0))` (times 2 on the `quantile == 0.5` path) -/
theorem fit_objective_is_pinball (q delta : α) (obs : List (Obs α)) :
    fitObjective q delta true obs = objScale q * pinballSum q obs := by
  unfold fitObjective pinballSum
  rw [← sumL_map_mul_left]
  exact sumL_map_congr _ _ _ (fun o _ => (fit_term_is_pinball q delta o.w o.y o.f).1)

/-- the same without sample weights (all weights 1) -/
theorem fit_objective_is_pinball_unweighted (q delta : α) (obs : List (Obs α)) :
    fitObjective q delta false obs = objScale q * sumL (obs.map (fun o => pinball q o.y o.f)) := by
  unfold fitObjective
  rw [← sumL_map_mul_left]
  exact sumL_map_congr _ _ _ (fun o _ => (fit_term_is_pinball q delta o.w o.y o.f).2)

/-! ### what `score` returns -/

theorem score_term_is_twice_pinball (q : α) (hq : q ≠ 1 / 2) (o : Obs α) :
    scoreTerm q true o = 2 * (o.w * pinball q o.y o.f) ∧ scoreTerm q false o = 2 * pinball q o.y o.f := by
  have hm : Gen.C05.hasMult q = true := by simp [Gen.C05.hasMult, hq]
  simp only [scoreTerm, epsilonRow, hm, mult, Gen.C05.diff, Gen.C05.multPos, Gen.C05.multNeg,
    Gen.C05.multZero, Gen.C05.scoreFactor, pinball, absR, maxR]
  constructor <;> (simp; (repeat' split) <;> grind)

theorem absR_is_twice_pinball_half (y f : α) : absR (y - f) = 2 * pinball (1 / 2) y f := by
  unfold absR pinball maxR
  split <;> split <;> split <;> grind

/-- `score_is_twice_mean_pinball`: with sample weights `score` is exactly twice the weighted mean of the pinball loss of the
*same* quantile the fit uses — for every q, including the `mean_absolute_error` path of q = 1/2 -/
theorem score_is_twice_mean_pinball (q : α) (obs : List (Obs α)) (hw : weightSum obs ≠ 0) :
    score q true obs = some (2 * pinballSum q obs / weightSum obs) := by
  by_cases hq : q = 1 / 2
  · subst hq
    have hg : Gen.C05.scoreUsesEpsilon (1 / 2 : α) = false := by simp [Gen.C05.scoreUsesEpsilon]
    simp only [score, hg, Bool.false_eq_true, if_false, if_true, hw, mae, pinballSum]
    congr 2
    rw [← sumL_map_mul_left]
    exact sumL_map_congr _ _ _ (fun o _ => by rw [absR_is_twice_pinball_half]; grind)
  · have hg : Gen.C05.scoreUsesEpsilon q = true := by simp [Gen.C05.scoreUsesEpsilon, hq]
    simp only [score, hg, if_true, Gen.C05.scoreDivWeighted, divisorValue, hw, if_false, pinballSum]
    congr 2
    rw [← sumL_map_mul_left]
    exact sumL_map_congr _ _ _ (fun o _ => (score_term_is_twice_pinball q hq o).1)

/-- without sample weights: twice the plain mean (divisor = number of rows) -/
theorem score_is_twice_mean_pinball_unweighted (q : α) (obs : List (Obs α)) (hn : (count obs : α) ≠ 0) :
    score q false obs = some (2 * sumL (obs.map (fun o => pinball q o.y o.f)) / count obs) := by
  by_cases hq : q = 1 / 2
  · subst hq
    have hg : Gen.C05.scoreUsesEpsilon (1 / 2 : α) = false := by simp [Gen.C05.scoreUsesEpsilon]
    simp only [score, hg, Bool.false_eq_true, if_false, hn, mae]
    congr 2
    rw [← sumL_map_mul_left]
    exact sumL_map_congr _ _ _ (fun o _ => absR_is_twice_pinball_half o.y o.f)
  · have hg : Gen.C05.scoreUsesEpsilon q = true := by simp [Gen.C05.scoreUsesEpsilon, hq]
    simp only [score, hg, if_true, Bool.false_eq_true, if_false, Gen.C05.scoreDivUnweighted, divisorValue, hn]
    congr 2
    rw [← sumL_map_mul_left]
    exact sumL_map_congr _ _ _ (fun o _ => (score_term_is_twice_pinball q hq o).2)

/-- for q = 1/2 the score is the (weighted) mean absolute error -/
theorem score_half_is_mean_absolute_error (obs : List (Obs α)) (hw : weightSum obs ≠ 0) :
    score (1 / 2 : α) true obs = some (sumL (obs.map (fun o => o.w * absR (o.y - o.f))) / weightSum obs) := by
  rw [score_is_twice_mean_pinball _ _ hw]
  congr 2
  unfold pinballSum
  rw [← sumL_map_mul_left]
  exact sumL_map_congr _ _ _ (fun o _ => by rw [absR_is_twice_pinball_half]; grind)

/-- `better_fit_never_scores_worse`: on the same targets and weights, predictions with a smaller (weighted) pinball loss of
quantile q never get a larger score -/
theorem better_fit_never_scores_worse (q : α) (obs₁ obs₂ : List (Obs α))
    (hsame : weightSum obs₁ = weightSum obs₂) (hpos : 0 < weightSum obs₁)
    (hbetter : pinballSum q obs₁ ≤ pinballSum q obs₂) :
    ∃ s₁ s₂, score q true obs₁ = some s₁ ∧ score q true obs₂ = some s₂ ∧ s₁ ≤ s₂ := by
  have h1 : weightSum obs₁ ≠ 0 := by grind
  have h2 : weightSum obs₂ ≠ 0 := by grind
  refine ⟨_, _, score_is_twice_mean_pinball q obs₁ h1, score_is_twice_mean_pinball q obs₂ h2, ?_⟩
  rw [← hsame, Field.div_eq_mul_inv, Field.div_eq_mul_inv]
  have hinv : 0 ≤ (weightSum obs₁)⁻¹ := Field.IsOrdered.inv_nonneg_iff.mpr (by grind)
  apply OrderedRing.mul_le_mul_of_nonneg_right _ hinv
  grind

/-! ### fixed points of the reweighted least squares are pinball minimisers -/

/-- the IRLS weight times the residual is the sample weight times a subgradient of the pinball loss
(as soon as the residual is not below `delta`) -/
theorem next_weight_is_subgradient (q delta : α) (beta : List α) (r : Row α) (hδ : 0 < delta)
    (hres : delta ≤ absR (dot r.x beta - r.y)) :
    nextWeight q delta beta r * (dot r.x beta - r.y) = objScale q * (r.w * grad q (dot r.x beta - r.y)) := by
  have hne : dot r.x beta - r.y ≠ 0 := by
    intro h0; rw [h0] at hres; unfold absR at hres; simp at hres; grind
  have hs := absR_mul_sign (dot r.x beta - r.y) hne
  have hmax : maxR (absR (dot r.x beta - r.y)) delta = absR (dot r.x beta - r.y) := by
    unfold maxR; split <;> grind
  generalize hρ : dot r.x beta - r.y = ρ at *
  by_cases hq : q = 1 / 2
  · subst hq
    simp only [nextWeight, irlsRow, epsilonRow, objScale, Gen.C05.hasMult, Gen.C05.diff, hρ, hmax, grad]
    simp
    split at hs <;> split <;> grind
  · have hm : Gen.C05.hasMult q = true := by simp [Gen.C05.hasMult, hq]
    simp only [nextWeight, irlsRow, epsilonRow, objScale, hm, Gen.C05.diff, hρ, hmax, grad, mult,
      Gen.C05.multPos, Gen.C05.multNeg, Gen.C05.multZero, Gen.C05.fitWFactor]
    simp
    split at hs <;> split <;> (try split) <;> grind

theorem objScale_pos (q : α) : 0 < objScale q := by
  unfold objScale; split <;> grind

/-- `irls_fixed_point_optimal`: if `beta` is a fixed point of the reweighted least squares — it satisfies the normal equations
`Σ_i W_i (x_i·beta − y_i) x_i = 0` for the weights `W_i = w_i (1−mult_i)/max(|r_i|, delta)` computed from its own residuals — and
no residual is below `delta`, then `beta` minimises the weighted pinball loss of `q` over *all* coefficient vectors of the same
length (all linear functions; the design rows carry the intercept column when there is one). -/
theorem irls_fixed_point_optimal (q delta : α) (rows : List (Row α)) (beta : List α)
    (hδ : 0 < delta) (hw : ∀ r ∈ rows, 0 ≤ r.w)
    (hres : ∀ r ∈ rows, delta ≤ absR (dot r.x beta - r.y))
    (hfix : ∀ j, normalEq (nextWeight q delta beta) beta (basis j) rows = 0)
    (beta' : List α) (hlen : beta'.length = beta.length) :
    pinballSum q (observe beta rows) ≤ pinballSum q (observe beta' rows) := by
  -- the normal equations hold in every direction, in particular beta' − beta
  let v := List.zipWith (fun u v => u - v) beta' beta
  have hdir : normalEq (nextWeight q delta beta) beta v rows = 0 :=
    normalEq_all_directions _ beta rows hfix v
  -- Σ w_i grad_i (r'_i − r_i) = 0
  have hzero : sumL (rows.map (fun r => r.w * (grad q (dot r.x beta - r.y) *
      ((dot r.x beta' - r.y) - (dot r.x beta - r.y))))) = 0 := by
    have e : sumL (rows.map (fun r => objScale q * (r.w * (grad q (dot r.x beta - r.y) *
        ((dot r.x beta' - r.y) - (dot r.x beta - r.y)))))) = 0 := by
      rw [← hdir]
      unfold normalEq
      apply sumL_map_congr
      intro r hr
      have h1 := next_weight_is_subgradient q delta beta r hδ (hres r hr)
      have h2 : dot r.x v = dot r.x beta' - dot r.x beta := dot_sub r.x beta' beta hlen
      rw [h2]
      grind
    rw [sumL_map_mul_left] at e
    have := objScale_pos q
    rcases Field.of_mul_eq_zero e with h | h
    · grind
    · exact h
  -- subgradient inequality, row by row, weighted by w_i ≥ 0
  have hsum : sumL (rows.map (fun r => r.w * pinball q r.y (dot r.x beta) + r.w * (grad q (dot r.x beta - r.y) *
      ((dot r.x beta' - r.y) - (dot r.x beta - r.y))))) ≤ sumL (rows.map (fun r => r.w * pinball q r.y (dot r.x beta'))) := by
    apply sumL_le_sumL
    intro r hr
    have hne : dot r.x beta - r.y ≠ 0 := by
      intro h0; have := hres r hr; rw [h0] at this; unfold absR at this; simp at this; grind
    have hsg := rho_subgrad q (dot r.x beta - r.y) (dot r.x beta' - r.y) hne
    rw [pinball_eq_rho, pinball_eq_rho]
    have := OrderedRing.mul_le_mul_of_nonneg_left hsg (hw r hr)
    grind
  rw [sumL_map_add, hzero] at hsum
  simp only [pinballSum, observe, List.map_map, Function.comp_def]
  have e0 : ∀ a : α, a + 0 = a := by intro a; grind
  rw [e0] at hsum
  exact hsum

/-! ### the fitted hyperplane splits the targets in proportion q : 1 − q -/

/-- `fraction_below`: with an intercept (a direction `v` on which every design row takes the value 1 — the last basis vector
for `hstack([X, ones])`, see `intercept_column_is_a_direction`) and no residual below `delta` (in particular none is zero),
a fixed point satisfies `q · #{y > f} = (1 − q) · #{y < f}` (counts weighted by the sample weights) -/
theorem fraction_below (q delta : α) (rows : List (Row α)) (beta v : List α)
    (hδ : 0 < delta) (hres : ∀ r ∈ rows, delta ≤ absR (dot r.x beta - r.y))
    (hone : ∀ r ∈ rows, dot r.x v = 1)
    (hfix : ∀ j, normalEq (nextWeight q delta beta) beta (basis j) rows = 0) :
    q * weightAbove beta rows = (1 - q) * weightBelow beta rows := by
  have hdir : normalEq (nextWeight q delta beta) beta v rows = 0 :=
    normalEq_all_directions _ beta rows hfix v
  have e : sumL (rows.map (fun r => objScale q * ((1 - q) * (if r.y < dot r.x beta then r.w else 0)
      + (-q) * (if dot r.x beta < r.y then r.w else 0)))) = 0 := by
    refine Eq.trans (Eq.symm ?_) hdir
    unfold normalEq
    apply sumL_map_congr
    intro r hr
    have h1 := next_weight_is_subgradient q delta beta r hδ (hres r hr)
    have hne : dot r.x beta - r.y ≠ 0 := by
      intro h0; have := hres r hr; rw [h0] at this; unfold absR at this; simp at this; grind
    rw [hone r hr, Semiring.mul_one, h1]
    unfold grad
    split <;> split <;> split <;> grind
  rw [sumL_map_mul_left, sumL_map_add, sumL_map_mul_left, sumL_map_mul_left] at e
  have := objScale_pos q
  unfold weightAbove weightBelow
  rcases Field.of_mul_eq_zero e with h | h
  · grind
  · grind

/-- the design matrix built by `fit` with `fit_intercept=True` has such a direction: its last column is constant 1 -/
theorem intercept_column_is_a_direction (x : List α) :
    dot (designRow true x) (basis x.length : List α) = 1 := by
  simp only [designRow, if_true]
  exact dot_intercept_direction x

/-- hence, without weights and with no target on the hyperplane, exactly a fraction q of the targets lies below it:
`#{y < f} = q · n` -/
theorem fraction_below_is_q (q delta : α) (rows : List (Row α)) (beta v : List α)
    (hδ : 0 < delta) (hres : ∀ r ∈ rows, delta ≤ absR (dot r.x beta - r.y))
    (hone : ∀ r ∈ rows, dot r.x v = 1)
    (hfix : ∀ j, normalEq (nextWeight q delta beta) beta (basis j) rows = 0) :
    weightBelow beta rows = q * sumL (rows.map (·.w)) := by
  have h := fraction_below q delta rows beta v hδ hres hone hfix
  have hsplit : sumL (rows.map (·.w)) = weightBelow beta rows + weightAbove beta rows := by
    unfold weightBelow weightAbove
    rw [← sumL_map_add]
    apply sumL_map_congr
    intro r hr
    have hne : dot r.x beta - r.y ≠ 0 := by
      intro h0; have := hres r hr; rw [h0] at this; unfold absR at this; simp at this; grind
    split <;> split <;> grind
  grind

/-! ### integer sample weights are row repetitions -/

/-- any per-row quantity that is homogeneous in the row's weight sums to the same value over the weighted data set and over
the data set in which row i is repeated k_i times -/
theorem weighted_sum_is_replicated_sum (G : Row α → α)
    (hG : ∀ (c : α) (r : Row α), G ⟨r.x, r.y, c * r.w⟩ = c * G r) (l : List (Nat × Row α)) :
    sumL ((weightedRows l).map G) = sumL ((replicateRows l).map G) := by
  induction l with
  | nil => rfl
  | cons p ps ih =>
    obtain ⟨k, r⟩ := p
    simp only [weightedRows, List.map_cons, sumL_cons, replicateRows, List.map_append, sumL_append,
      List.map_replicate, sumL_replicate] at ih ⊢
    rw [ih, hG]

/-- `integer_weights_are_repeats`: the weighted pinball objective, the monitored error `E`, every normal equation of the
reweighted least squares and the score (numerator and divisor) of a data set with integer weights `k_i` equal those of the data
set in which row i is repeated `k_i` times — for every coefficient vector, so the two fits minimise the same function and
follow the same IRLS iterates. -/
theorem integer_weights_are_repeats (q delta : α) (beta v : List α) (l : List (Nat × Row α)) :
    pinballSum q (observe beta (weightedRows l)) = pinballSum q (observe beta (replicateRows l)) ∧
    fitObjective q delta true (observe beta (weightedRows l)) = fitObjective q delta true (observe beta (replicateRows l)) ∧
    normalEq (nextWeight q delta beta) beta v (weightedRows l)
      = normalEq (nextWeight q delta beta) beta v (replicateRows l) ∧
    weightSum (observe beta (weightedRows l)) = weightSum (observe beta (replicateRows l)) ∧
    sumL ((observe beta (weightedRows l)).map (scoreTerm q true))
      = sumL ((observe beta (replicateRows l)).map (scoreTerm q true)) := by
  refine ⟨?_, ?_, ?_, ?_, ?_⟩
  · simp only [pinballSum, observe, List.map_map, Function.comp_def]
    exact weighted_sum_is_replicated_sum (fun r => r.w * pinball q r.y (dot r.x beta)) (by intro c r; grind) l
  · simp only [fitObjective, observe, List.map_map, Function.comp_def]
    refine weighted_sum_is_replicated_sum (fun r => (irlsRow q delta true r.w r.y (dot r.x beta)).2) ?_ l
    intro c r
    simp only [irlsRow, if_true]
    split <;> grind
  · unfold normalEq
    refine weighted_sum_is_replicated_sum
      (fun r => nextWeight q delta beta r * (dot r.x beta - r.y) * dot r.x v) ?_ l
    intro c r
    simp only [nextWeight, irlsRow, if_true]
    split <;> grind
  · simp only [weightSum, observe, List.map_map, Function.comp_def]
    exact weighted_sum_is_replicated_sum (fun r => r.w) (by intro c r; rfl) l
  · simp only [observe, List.map_map, Function.comp_def]
    refine weighted_sum_is_replicated_sum (fun r => scoreTerm q true ⟨r.y, dot r.x beta, r.w⟩) ?_ l
    intro c r
    simp only [scoreTerm, epsilonRow, if_true]
    split <;> grind

/-! ### fit_intercept / positive -/

/-- `no_intercept_zero`: without `fit_intercept` the stored intercept is 0 and the coefficients are the solver's, so that the
prediction is the plain dot product with the design row (= the feature row) -/
theorem no_intercept_zero (beta x : List α) :
    (finish false beta).2 = 0 ∧ (finish false beta).1 = beta ∧
    predictRow (finish false beta).1 (finish false beta).2 x = dot (designRow false x) beta := by
  simp only [finish, designRow, predictRow, Gen.C05.interceptWithoutFitIntercept]
  refine ⟨by simp, by simp, ?_⟩
  simp; grind

/-- with `fit_intercept` the stored `(coef_, intercept_)` predict exactly the dot product of the design row with `beta`:
the fitted model is the linear function the theorems above speak about -/
theorem with_intercept_prediction (b : List α) (c : α) (x : List α) (h : x.length = b.length) :
    predictRow (finish true (b ++ [c])).1 (finish true (b ++ [c])).2 x = dot (designRow true x) (b ++ [c]) := by
  simp only [finish, designRow, predictRow, if_true, List.dropLast_concat, List.getLast?_concat, Option.getD_some]
  rw [dot_append x [1] b [c] h]
  simp [dot]; grind

end

/-- `positive_passed_through` (extracted keyword tables): the constructor forwards `positive` to `LinearRegression.__init__`
(which stores it as `self.positive`), and `fit` builds its inner solver with `positive=self.positive` and
`fit_intercept=False` (the intercept is the appended column), and fits it on `(Xm, y, W)` -/
theorem positive_passed_through :
    Gen.C05.superInitKwargs.lookup "positive" = some "positive" ∧
    Gen.C05.innerKwargs.lookup "positive" = some "self.positive" ∧
    Gen.C05.innerKwargs.lookup "fit_intercept" = some "False" ∧
    Gen.C05.superInitKwargs.lookup "fit_intercept" = some "fit_intercept" ∧
    Gen.C05.innerFitCalls = ["clr.fit(Xm, y, W)"] := by decide

/-- the statement shapes the hand-written model transcribes are the ones in the source -/
theorem model_shape_facts :
    Gen.C05.epsilonIsAbsDiff = true ∧ Gen.C05.signIsSignOfDiff = true ∧ Gen.C05.epsilonTimesSampleWeight = true ∧
    Gen.C05.scoreCallsEpsilonWithWeights = true ∧ Gen.C05.scoreHalfIsMeanAbsoluteError = true ∧
    Gen.C05.reciprocalOfMaxEpsilonDelta = true ∧
    Gen.C05.designWithIntercept = "numpy.hstack([X, numpy.ones((X.shape[0], 1))])" ∧
    Gen.C05.designWithoutIntercept = "X" ∧
    Gen.C05.tailWithIntercept = ["self.coef_ = beta[:-1]", "self.intercept_ = beta[-1]"] ∧
    Gen.C05.tailWithoutIntercept = ["self.coef_ = beta", "self.intercept_ = 0"] := by decide

/-- the training set reaches the IRLS as given: `fit` rebinds none of `X`, `y`, `sample_weight` except for taking the
array out of a DataFrame (`X = X.values`), and it does so BEFORE building the design matrix - so `Xm`, `y` and the
weights the model's `fitObjective` speaks about are the caller's values, row i with row i -/
theorem training_set_reaches_the_solver_unchanged :
    Gen.C05.fitInputRebinds = ["X = X.values"] ∧ Gen.C05.conversionBeforeDesign = true := by decide

/-! ### the tie to the functions the model transcribes -/

/-- the functions the hand-written model transcribes have, in the current source, the control skeleton (tests, loop
headers, kinds of statements and the names they bind) they had when the model was written and validated: no branch,
loop, early exit or rebinding has been added that the model does not describe -/
theorem modelled_functions_have_the_transcribed_shape :
    MlVerif.Gen.C05.shapeFit =
      "sig(self, X, y, sample_weight=None)|if(len(y.shape) > 1 and y.shape[1] != 1){raise};def compute_z{deltas=;(epsilon,mult)=;r=;if(mult is not None){epsilonMult=;rMult=};return};if(not isinstance(X, numpy.ndarray)){if(hasattr(X, 'values')){X=}else{raise}};if(self.fit_intercept){Xm=}else{Xm=};clr=;W=;self.n_iter_=;lastE=;for(i in range(0, self.max_iter)){call fit;beta=;(W,epsilon)=;if(sample_weight is not None){WMult=;epsilonMult=};E=;self.n_iter_=;if(self.verbose){call print};if(lastE is not None and lastE == E){break};lastE=};if(self.fit_intercept){self.coef_=;self.intercept_=}else{self.coef_=;self.intercept_=};return" ∧
    MlVerif.Gen.C05.shapeEpsilon =
      "sig(y_true, y_pred, quantile, sample_weight=None)|diff=;epsilon=;if(quantile != 0.5){sign=;mult=;mult[]Mult=;mult[]Mult=}else{mult=};if(sample_weight is not None){epsilonMult=};return" ∧
    MlVerif.Gen.C05.shapeScore =
      "sig(self, X, y, sample_weight=None)|pred=;if(self.quantile != 0.5){(epsilon,mult)=;if(mult is not None){epsilonMult=};if(sample_weight is not None){return};return};return" :=
  ⟨rfl, rfl, rfl⟩

/-! ### non-vacuity: concrete instances over `Rat` -/

-- q = 1/4, targets 0,0,0,4 predicted by the constant 1: E = Σ|r|(1-mult) = 3·(3/4) + 3·(1/4) = 3
example : fitObjective (1/4 : Rat) (1/1024) true [⟨0, 1, 1⟩, ⟨0, 1, 1⟩, ⟨0, 1, 1⟩, ⟨4, 1, 1⟩] = 3 := by decide +kernel
example : pinballSum (1/4 : Rat) [⟨0, 1, 1⟩, ⟨0, 1, 1⟩, ⟨0, 1, 1⟩, ⟨4, 1, 1⟩] = 3 := by decide +kernel
-- score = 2·3/4 on that data, and with weights 2,1,1,1: 2·(15/4)/5
example : score (1/4 : Rat) false [⟨0, 1, 1⟩, ⟨0, 1, 1⟩, ⟨0, 1, 1⟩, ⟨4, 1, 1⟩] = some (3/2) := by decide +kernel
example : score (1/4 : Rat) true [⟨0, 1, 2⟩, ⟨0, 1, 1⟩, ⟨0, 1, 1⟩, ⟨4, 1, 1⟩] = some (3/2) := by decide +kernel
example : score (1/2 : Rat) true [⟨0, 1, 2⟩, ⟨4, 1, 1⟩] = some (5/3) := by decide +kernel
-- a fixed point: intercept-only model, rows y = 0,0,0,4 (design row [1]), q = 3/4, beta = [2]... residuals 2,2,2,-2:
-- W r = (1-q)·1, (1-q), (1-q), -q  => Σ = 3/4 - 3/4 = 0
example : normalEq (nextWeight (3/4 : Rat) (1/1024) [2]) [2] (basis 0)
    [⟨[1], 0, 1⟩, ⟨[1], 0, 1⟩, ⟨[1], 0, 1⟩, ⟨[1], 4, 1⟩] = 0 := by decide +kernel
example : weightBelow ([2] : List Rat) [⟨[1], 0, 1⟩, ⟨[1], 0, 1⟩, ⟨[1], 0, 1⟩, ⟨[1], 4, 1⟩] = 3/4 * 4 := by decide +kernel
example : replicateRows [(2, (⟨[1], 0, 1⟩ : Row Rat)), (1, ⟨[1], 4, 1⟩)] = [⟨[1], 0, 1⟩, ⟨[1], 0, 1⟩, ⟨[1], 4, 1⟩] := rfl
example : finish true ([3, 5, 7] : List Rat) = ([3, 5], 7) := by decide +kernel

end MlVerif.C05
