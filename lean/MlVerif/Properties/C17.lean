/-
C17 — IntervalRegressor bootstraps over the whole training set, aggregates exactly.
Property theorems only.  `MlVerif.Gen.C17` is regenerated from the source on every run:
the first three theorems are statements about what the source says *now*.
-/
import MlVerif.Gen.C17
import MlVerif.Model.Interval

namespace MlVerif.C17
open MlVerif.Gen MlVerif.Gen.C17 MlVerif.Interval

/-- Every training row is eligible and nothing else is: the support `[lo, hi)` of the draw
is exactly `[0, n)`, for every n and alpha. -/
theorem draw_domain_is_all_rows (n : Int) (alpha : Rat) :
    ∀ i : Int, (randLo n alpha ≤ i ∧ i < randHi n alpha) ↔ (0 ≤ i ∧ i < n) := by
  intro i
  unfold randLo randHi
  omega

/-- The support is non-empty as soon as there is one training row (numpy raises otherwise). -/
theorem draw_domain_nonempty (n : Int) (alpha : Rat) (hn : 1 ≤ n) :
    randLo n alpha < randHi n alpha := by
  unfold randLo randHi
  omega

/-- Sample size: `round(alpha·n)` read as ⌊alpha·n + 1/2⌋ (half-up), for every n ≥ 0, alpha ≥ 0. -/
theorem sample_size (n : Int) (alpha : Rat) (hn : 0 ≤ n) (ha : 0 ≤ alpha) :
    randSize n alpha = ((n : Rat) * alpha + 1 / 2).floor := by
  have h0 : (0 : Rat) ≤ (n : Rat) * alpha + 1 / 2 := by
    have h1 : (0 : Rat) ≤ (n : Rat) := by exact_mod_cast hn
    have h2 : (0 : Rat) ≤ (n : Rat) * alpha := Rat.mul_nonneg h1 ha
    grind
  simp only [randSize, newSize]
  rw [pyIntOfRat_nonneg (by simpa using h0)]

/-- the rounded size is within 1/2 of alpha·n -/
theorem sample_size_is_nearest (n : Int) (alpha : Rat) (hn : 0 ≤ n) (ha : 0 ≤ alpha) :
    (n : Rat) * alpha - 1 / 2 < (randSize n alpha : Rat) ∧
    (randSize n alpha : Rat) ≤ (n : Rat) * alpha + 1 / 2 := by
  rw [sample_size n alpha hn ha]
  have h1 := Rat.floor_le ((n : Rat) * alpha + 1 / 2)
  have h2 := Rat.lt_floor_add_one ((n : Rat) * alpha + 1 / 2)
  constructor
  · have : (((n : Rat) * alpha + 1 / 2).floor + 1 : Int) = ((((n : Rat) * alpha + 1 / 2).floor : Int) : Rat) + 1 := by
      simp [Rat.intCast_add]
    grind
  · exact h1

/-- Features, target and weight of a drawn row stay together: indexing the three arrays by
the same index list is indexing the list of rows (for every data set and every draw). -/
theorem rows_kept_together_unweighted (X : List (List Int)) (y : List Int) (idx : List Nat)
    (hlen : X.length = y.length) (hidx : ∀ i ∈ idx, i < X.length) :
    gather (rows X y none) idx =
      idx.map (fun i => match X[i]?, y[i]? with
        | some x, some t => some ⟨x, t, none⟩
        | _, _ => none) := by
  unfold gather rows
  apply List.map_congr_left
  intro i hi
  have h1 : i < X.length := hidx i hi
  have h2 : i < y.length := by omega
  simp [List.getElem?_map, List.getElem?_zip_eq_some, h1, h2]

theorem rows_kept_together_weighted (X : List (List Int)) (y w : List Int) (idx : List Nat)
    (hlen : X.length = y.length) (hlenw : X.length = w.length) (hidx : ∀ i ∈ idx, i < X.length) :
    gather (rows X y (some w)) idx =
      idx.map (fun i => match X[i]?, y[i]?, w[i]? with
        | some x, some t, some s => some ⟨x, t, some s⟩
        | _, _, _ => none) := by
  unfold gather rows
  apply List.map_congr_left
  intro i hi
  have h1 : i < X.length := hidx i hi
  have h2 : i < y.length := by omega
  have h3 : i < w.length := by omega
  have e1 : (X.zip y)[i]? = some (X[i], y[i]) := by
    simp [List.getElem?_zip_eq_some, h1, h2]
  have e2 : ((X.zip y).zip w)[i]? = some ((X[i], y[i]), w[i]) := by
    rw [List.getElem?_zip_eq_some]; exact ⟨e1, by simp [h3]⟩
  simp [List.getElem?_map, e2, h1, h2, h3]

/-- and the three arrays each estimator receives are exactly the components of those rows -/
theorem resample_components (X : List (List Int)) (y w : List Int) (idx : List Nat) :
    resample X y (some w) idx = (idx.map (X[·]?), idx.map (y[·]?), some (idx.map (w[·]?))) := rfl

/-- In-range draws never fail (no IndexError) and yield one training row per draw. -/
theorem gather_in_bounds {α} (xs : List α) (idx : List Nat) (h : ∀ i ∈ idx, i < xs.length) :
    ∀ o ∈ gather xs idx, ∃ x ∈ xs, o = some x := by
  intro o ho
  simp only [gather, List.mem_map] at ho
  obtain ⟨i, hi, rfl⟩ := ho
  have := h i hi
  exact ⟨xs[i], List.getElem_mem _, by simp [List.getElem?_eq_getElem this]⟩

theorem gather_length {α} (xs : List α) (idx : List Nat) : (gather xs idx).length = idx.length := by
  simp [gather]

/-! ### aggregation -/

theorem leB_trans (a b c : Rat) : leB a b = true → leB b c = true → leB a c = true := by
  simp only [leB, decide_eq_true_eq]; exact Rat.le_trans
theorem leB_total (a b : Rat) : (leB a b || leB b a) = true := by
  simp only [leB, Bool.or_eq_true, decide_eq_true_eq]; exact Rat.le_total

/-- `predict_sorted` returns, for every row, the same predictions (a permutation of the row
of `predict_all`) in non-decreasing order. -/
theorem sorted_is_sorted_permutation_of_all (predAll : List (List Rat)) :
    (predictSorted predAll).length = predAll.length ∧
    ∀ i (h : i < predAll.length),
      ((predictSorted predAll)[i]?.getD []).Perm predAll[i] ∧
      ((predictSorted predAll)[i]?.getD []).Pairwise (· ≤ ·) := by
  refine ⟨by simp [predictSorted], ?_⟩
  intro i h
  simp only [predictSorted, List.getElem?_map, List.getElem?_eq_getElem h, Option.map_some,
    Option.getD_some]
  refine ⟨List.mergeSort_perm _ _, ?_⟩
  have := List.pairwise_mergeSort (le := leB) leB_trans leB_total predAll[i]
  simpa [leB] using this

/-- helper: a lower bound of every entry bounds the sum -/
theorem sum_ge (l : List Rat) (a : Rat) (h : ∀ x ∈ l, a ≤ x) : a * (l.length : Rat) ≤ l.sum := by
  induction l with
  | nil => simp
  | cons x xs ih =>
    have hx : a ≤ x := h x (by simp)
    have := ih (fun z hz => h z (by simp [hz]))
    simp only [List.length_cons, List.sum_cons]
    have : ((xs.length + 1 : Nat) : Rat) = (xs.length : Rat) + 1 := by simp [Rat.natCast_add]
    grind

theorem sum_le (l : List Rat) (b : Rat) (h : ∀ x ∈ l, x ≤ b) : l.sum ≤ b * (l.length : Rat) := by
  induction l with
  | nil => simp
  | cons x xs ih =>
    have hx : x ≤ b := h x (by simp)
    have := ih (fun z hz => h z (by simp [hz]))
    simp only [List.length_cons, List.sum_cons]
    have : ((xs.length + 1 : Nat) : Rat) = (xs.length : Rat) + 1 := by simp [Rat.natCast_add]
    grind

/-- `predict` is the mean of all individual predictions: mean · (number of estimators) = sum. -/
theorem predict_is_mean_of_all (r : List Rat) (h : r ≠ []) :
    rowMean r * (r.length : Rat) = r.sum := by
  unfold rowMean
  have hl : (r.length : Rat) ≠ 0 := by
    have : r.length ≠ 0 := by simpa using h
    exact_mod_cast this
  exact Rat.div_mul_cancel hl

/-- min ≤ predict ≤ max, for every non-empty row of predictions. -/
theorem min_le_predict_le_max (r : List Rat) (a b : Rat) (h : r ≠ [])
    (ha : ∀ x ∈ r, a ≤ x) (hb : ∀ x ∈ r, x ≤ b) : a ≤ rowMean r ∧ rowMean r ≤ b := by
  have hl : (0 : Rat) < (r.length : Rat) := by
    have : 0 < r.length := List.length_pos_iff.mpr h
    exact_mod_cast this
  have hm := predict_is_mean_of_all r h
  have h1 := sum_ge r a ha
  have h2 := sum_le r b hb
  rw [← hm] at h1 h2
  constructor
  · exact Rat.le_of_mul_le_mul_right h1 hl
  · exact Rat.le_of_mul_le_mul_right h2 hl

/-- `predict_all` is row-wise: entry (i, j) is estimator j's prediction for query row i. -/
theorem predict_all_entry {ρ} (ests : List (ρ → Rat)) (X : List ρ) (i j : Nat)
    (hi : i < X.length) (hj : j < ests.length) :
    ((predictAll ests X)[i]?.bind (·[j]?)) = some (ests[j] X[i]) := by
  simp [predictAll, hi, hj]

/-! ### the tie to the functions the model transcribes -/

/-- the functions the hand-written model transcribes have, in the current source, the control skeleton (tests, loop
headers, kinds of statements and the names they bind) they had when the model was written and validated: no branch,
loop, early exit or rebinding has been added that the model does not describe -/
theorem modelled_functions_have_the_transcribed_shape :
    MlVerif.Gen.C17.shapeFit =
      "sig(self, X, y, sample_weight=None)|self.estimators_=;estimators=;loop=;verbose=;def _fit_piecewise_estimator{new_size=;rnd=;Xr=;yr=;sr=;return};self.estimators_=;return" ∧
    MlVerif.Gen.C17.shapePredictAll =
      "sig(self, X)|container = numpy.empty((X.shape[0], len(self.estimators_))) ; for i, est in enumerate(self.estimators_): pred = est.predict(X) container[:, i] = pred ; return container" ∧
    MlVerif.Gen.C17.shapePredict =
      "sig(self, X)|preds = self.predict_all(X) ; return preds.mean(axis=1)" ∧
    MlVerif.Gen.C17.shapePredictSorted =
      "sig(self, X)|preds = self.predict_all(X) ; for i in range(preds.shape[0]): preds[i, :] = numpy.sort(preds[i, :]) ; return preds" :=
  ⟨rfl, rfl, rfl, rfl⟩

/-! ### non-vacuity: concrete instances satisfying the hypotheses -/
example : (1 : Int) ≤ 1 ∧ randLo 1 1 < randHi 1 1 := by decide +kernel
example : randSize 5 (3/4) = 4 := by decide +kernel
example : gather (rows [[0,0],[1,10],[2,20]] [100,101,102] (some [7,8,9])) [2,0,2]
    = [some ⟨[2,20],102,some 9⟩, some ⟨[0,0],100,some 7⟩, some ⟨[2,20],102,some 9⟩] := by decide
example : predict [[3,1,2]] = [2] := by decide +kernel

end MlVerif.C17
