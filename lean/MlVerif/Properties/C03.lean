/-
C03 — a fitted model depends only on parameters, the last training set and seeds.
Property theorems only.  `MlVerif.Gen.C03` is regenerated from the source on every run: for every
estimator class and every valuation ρ of the hyper-parameter conditions that guard attribute
accesses, the skeleton of `fit` specialised to ρ (fitted-attribute reads / writes / deletions and
control flow only), the attributes observers (all other public methods, specialised to ρ) read or
lazily write, and the draws from the global NumPy generator reachable from `fit`.

The analysis (`Lifecycle.Fresh`) is sound for EVERY program of the IR and EVERY execution
(`Lemmas/Flow.lean`): start `fit` in any state left by earlier calls, every attribute tainted
"stale"; if accepted, no stale value is ever read and every attribute an observer can see is
rewritten — so what observers return is a function of this call's inputs (data, parameters,
random draws) only, exactly as for a fresh clone.
-/
import MlVerif.Gen.C03
import MlVerif.Lemmas.Lifecycle

namespace MlVerif.C03
open MlVerif.Flow MlVerif.Lifecycle MlVerif.Gen.C03

def freshOk (f : FitCase) : Bool :=
  exitsGood (Fresh.goodAt f.required) (analyze Fresh.dom f.prog [])

/-! ### generic (all programs of the IR, all executions) -/

/-- **no_leak**: accepted ⇒ for every execution from ANY prior state, no stale attribute is read
(explicit and implicit flows: values written and conditions tested) and, unless `fit` raises, every
attribute in `required` has been rewritten by this very call. -/
theorem no_leak (p : Prog Act) (required : List Nat)
    (h : exitsGood (Fresh.goodAt required) (analyze Fresh.dom p []) = true)
    (o : Oracle) (s : Fresh.St) (hleak : s.leak = false) :
    (exec Fresh.sem p o s).2.1.leak = false ∧
    ((exec Fresh.sem p o s).1 ≠ .exc → ∀ a, a ∈ required → ((exec Fresh.sem p o s).2.1.attrs a).2 = false) :=
  Fresh.nothing_stale p required h o s hleak

/-- **refit_is_fresh_fit** (two-run form of the same analysis): with written values and attribute-dependent
branches computed from this call's inputs AND from the attribute values read, running an accepted `fit`
skeleton with the same inputs from two arbitrary attribute states — `s` = whatever earlier fits and
observers left, `t` = the state of a fresh clone — ends the same way and, unless it raises, yields the
same value for every attribute an observer can read. -/
theorem refit_is_fresh_fit (p : Prog Act) (required : List Nat)
    (h : exitsGood (Fresh.goodAt required) (analyze Fresh.dom p []) = true)
    (o : Oracle) (s t : NI.St) :
    (exec NI.sem p o t).1 = (exec NI.sem p o s).1 ∧ (exec NI.sem p o t).2.2 = (exec NI.sem p o s).2.2 ∧
    ((exec NI.sem p o s).1 ≠ .exc →
      ∀ a, a ∈ required → (exec NI.sem p o s).2.1.attrs a = (exec NI.sem p o t).2.1.attrs a) :=
  NI.refit_equals_fresh_fit p required h o s t

/-- attributes a program can write or delete (syntactically) -/
def writes : Prog Act → List Nat
  | .atom (.wattr a _) => [a]
  | .atom (.dattr a) => [a]
  | .seq p q => writes p ++ writes q
  | .ite _ p q => writes p ++ writes q
  | .loop b => writes b
  | .tryFinally b f => writes b ++ writes f
  | .tryExcept b h => writes b ++ writes h
  | .scope b => writes b
  | _ => []

theorem iterate_frame (f : Oracle → Fresh.St → Outcome × Fresh.St × Oracle) (a : Nat)
    (hf : ∀ o s, (f o s).2.1.attrs a = s.attrs a) :
    ∀ n o s, (iterate f n o s).2.1.attrs a = s.attrs a := by
  intro n
  induction n with
  | zero => intro o s; rfl
  | succ n ih =>
    intro o s
    simp only [iterate]
    have h1 := hf o s
    rcases hx : f o s with ⟨out, s', o'⟩
    rw [hx] at h1
    cases out <;> simp only <;> first | (rw [ih]; exact h1) | exact h1

/-- **frame**: an attribute no statement of the program writes or deletes is left exactly as it
was (value and taint) by every execution.  This justifies leaving attributes that NO method of the
class writes out of the skeletons: starting from a fresh object they can never become stale. -/
theorem frame (p : Prog Act) (a : Nat) (ha : a ∉ writes p) (o : Oracle) (s : Fresh.St) :
    (exec Fresh.sem p o s).2.1.attrs a = s.attrs a := by
  induction p generalizing o s with
  | skip => rfl
  | atom x =>
    cases x <;> simp only [exec, Fresh.sem] <;> try rfl
    · rename_i b reads
      have : a ≠ b := by simpa [writes] using ha
      simp [Fresh.updA, this]
    · rename_i b
      have : a ≠ b := by simpa [writes] using ha
      simp [Fresh.updA, this]
  | call => simp only [exec]
  | raise_ => rfl
  | ret => rfl
  | brk => rfl
  | seq p q ihp ihq =>
    simp only [writes, List.mem_append, not_or] at ha
    simp only [exec]
    have h1 := ihp ha.1 o s
    rcases hx : exec Fresh.sem p o s with ⟨out, s', o'⟩
    rw [hx] at h1
    cases out <;> simp only <;> first | (rw [ihq ha.2]; exact h1) | exact h1
  | ite c p q ihp ihq =>
    simp only [writes, List.mem_append, not_or] at ha
    simp only [exec]
    split
    · exact ihp ha.1 _ _
    · exact ihq ha.2 _ _
  | loop b ih =>
    simp only [writes] at ha
    simp only [exec]
    exact iterate_frame _ a (fun o s => ih ha o s) _ _ _
  | tryFinally b f ihb ihf =>
    simp only [writes, List.mem_append, not_or] at ha
    simp only [exec]
    have h1 := ihb ha.1 o s
    rcases hx : exec Fresh.sem b o s with ⟨out, s', o'⟩
    rw [hx] at h1
    have h2 := ihf ha.2 o' s'
    rcases hy : exec Fresh.sem f o' s' with ⟨out2, s'', o''⟩
    rw [hy] at h2
    cases out <;> cases out2 <;> simp only [hy] <;> rw [h2] <;> exact h1
  | tryExcept b h ihb ihh =>
    simp only [writes, List.mem_append, not_or] at ha
    simp only [exec]
    have h1 := ihb ha.1 o s
    rcases hx : exec Fresh.sem b o s with ⟨out, s', o'⟩
    rw [hx] at h1
    cases out <;> simp only <;> try exact h1
    split
    · rw [ihh ha.2]; exact h1
    · exact h1
  | scope b ih =>
    simp only [writes] at ha
    simp only [exec]
    have h1 := ih ha o s
    rcases hx : exec Fresh.sem b o s with ⟨out, s', o'⟩
    rw [hx] at h1
    cases out <;> exact h1

/-! ### decided on the regenerated skeletons of the current source -/

/-- for every estimator class and every valuation of its hyper-parameter conditions, `fit`
rewrites (or deletes) every attribute an observer reads or lazily caches, and never reads one it
has not rewritten -/
theorem all_fits_fresh : cases.all freshOk = true := by decide +kernel

/-- classes documenting that an integer `random_state` makes them deterministic reach the global
NumPy generator only under an explicit `random_state is None` test -/
theorem seeded_classes_never_draw_globally :
    (cases.filter (·.documentsSeed)).all (fun f => f.unguardedGlobalRng.isEmpty) = true := by
  decide +kernel

/-- the ownership analysis, with the fitted attributes of the instance as the protected memory, accepts the observer -/
def observerOk (ob : Observer) : Bool :=
  exitsGood (fun _ _ => true) (analyze Owner.dom ob.ownProg ob.state)

/-- no public method other than `fit` (and its steps) writes IN PLACE through a name that may alias a fitted
attribute: using a fitted model (predict, transform, score, …) leaves what `fit` stored untouched, so the model keeps
depending on parameters, training set and seeds only - not on which methods were called since -/
theorem observers_never_write_fitted_state : observers.all observerOk = true := by decide +kernel

/-- `fit` (its public steps inlined) builds new state: it never writes IN PLACE through a name that may alias what an
earlier fit stored in a fitted attribute (attributes are rebound, or written after being rebound).  So nothing that still
holds the arrays of the earlier fit - a shallow copy of the estimator, a reference kept by the caller - is changed by a
refit, and the earlier model keeps depending on ITS training set only -/
theorem fits_never_write_prior_state_in_place : fitWriters.all observerOk = true := by decide +kernel

/-- nothing outside the estimator instance can carry state from one call to the next: the census of mutable default
arguments, memoising decorators, mutable class attributes, module-level mutable objects and `global` statements of the
packages the properties speak about is the one the models were written against (constant lookup tables only) -/
theorem no_hidden_process_state :
    processGlobalState =
      ["mlmodel/kmeans_constraint.py:ConstraintKMeans: class attribute _strategy_value",
       "mlmodel/kmeans_l1.py:KMeansL1L2: class attribute _parameter_constraints",
       "mlmodel/quantile_mlpregressor.py: module-level EXTENDED_LOSS_FUNCTIONS",
       "mlmodel/quantile_mlpregressor.py: module-level DERIVATIVE_LOSS_FUNCTIONS",
       "metrics/scoring_metrics.py: module-level _known_functions"] := by decide

/-! ### the property, per class of the current source -/

/-- semantic form of `fits_never_write_prior_state_in_place` -/
theorem refit_leaves_the_earlier_arrays_alone (w : Observer) (hw : w ∈ fitWriters) (n : Nat) (o : Oracle)
    (s : Owner.St) (hnext : n ≤ s.next) (henv : ∀ v, v ∉ w.state → n ≤ s.env v) :
    ∀ l, l < n → (exec Owner.sem w.ownProg o s).2.1.heap l = s.heap l :=
  Owner.caller_memory_untouched w.ownProg w.state
    (List.all_eq_true.mp fits_never_write_prior_state_in_place w hw) n o s hnext henv

/-- semantic form: in every execution of every observer of the current source (all branches, all iteration counts,
an exception at any call), every memory location that existed at entry and is reachable only through the fitted
attributes keeps its content -/
theorem using_a_model_does_not_change_it (ob : Observer) (hob : ob ∈ observers) (n : Nat) (o : Oracle)
    (s : Owner.St) (hnext : n ≤ s.next) (henv : ∀ v, v ∉ ob.state → n ≤ s.env v) :
    ∀ l, l < n → (exec Owner.sem ob.ownProg o s).2.1.heap l = s.heap l :=
  Owner.caller_memory_untouched ob.ownProg ob.state
    (List.all_eq_true.mp observers_never_write_fitted_state ob hob) n o s hnext henv

theorem refit_sees_nothing_stale (f : FitCase) (hf : f ∈ cases) (o : Oracle) (s : Fresh.St)
    (hleak : s.leak = false) :
    (exec Fresh.sem f.prog o s).2.1.leak = false ∧
    ((exec Fresh.sem f.prog o s).1 ≠ .exc →
      ∀ a, a ∈ f.required → ((exec Fresh.sem f.prog o s).2.1.attrs a).2 = false) :=
  no_leak f.prog f.required (List.all_eq_true.mp all_fits_fresh f hf) o s hleak

/-- every fit of the current source, every valuation: refit and fresh fit agree on what observers can see -/
theorem every_refit_is_a_fresh_fit (f : FitCase) (hf : f ∈ cases) (o : Oracle) (s t : NI.St) :
    (exec NI.sem f.prog o t).1 = (exec NI.sem f.prog o s).1 ∧
    ((exec NI.sem f.prog o s).1 ≠ .exc →
      ∀ a, a ∈ f.required → (exec NI.sem f.prog o s).2.1.attrs a = (exec NI.sem f.prog o t).2.1.attrs a) :=
  let r := refit_is_fresh_fit f.prog f.required (List.all_eq_true.mp all_fits_fresh f hf) o s t
  ⟨r.1, r.2.2⟩

/-! ### non-vacuity and sanity on hand-written skeletons -/

/-- a lazily cached attribute (`if not hasattr(self, 'knn_'): self.knn_ = ...` in an observer) that
`fit` does not reset — the shape `PermutationReciprocalTransformer` had — is rejected … -/
example : exitsGood (Fresh.goodAt [1]) (analyze Fresh.dom (.atom (.wattr 0 [])) []) = false := by decide
/-- … and a stale cache really survives: attribute 1 is still tainted after `fit` -/
example : ((exec Fresh.sem (.atom (.wattr 0 [])) [5] ⟨fun _ => (0, true), false⟩).2.1.attrs 1).2 = true := by
  decide
/-- with the reset (`del self.knn_` / rewrite) it is accepted -/
example : exitsGood (Fresh.goodAt [1])
    (analyze Fresh.dom (.seq (.atom (.wattr 0 [])) (.atom (.dattr 1))) []) = true := by decide
/-- a `fit` that reads what an earlier fit stored (`if hasattr(self, 'x_')`) is rejected -/
example : exitsGood (Fresh.goodAt [])
    (analyze Fresh.dom (.ite (.rattr [0]) (.atom (.wattr 0 [])) .skip) []) = false := by decide
/-- a conditional write under a data-dependent test does not count as a definite write -/
example : exitsGood (Fresh.goodAt [0])
    (analyze Fresh.dom (.ite .nop (.atom (.wattr 0 [])) .skip) []) = false := by decide

/-- two-run witness of the lazy-cache shape: from a state where attribute 1 holds 9 and from a fresh state,
the (rejected) skeleton leaves different values in attribute 1 -/
example : (exec NI.sem (.atom (.wattr 0 [])) [5] ⟨fun _ => 9⟩).2.1.attrs 1 ≠
          (exec NI.sem (.atom (.wattr 0 [])) [5] ⟨fun _ => 0⟩).2.1.attrs 1 := by decide

example : cases ≠ [] := by decide

/-- `w = self.weights_.reshape(...)` (a view); `w *= w` in an observer is rejected; on a copy it is accepted -/
example : exitsGood (fun _ _ => true)
    (analyze Owner.dom (.seq (.atom (.bindAlias 1 [0])) (.atom (.mutate 1))) [0]) = false := by decide
example : exitsGood (fun _ _ => true)
    (analyze Owner.dom (.seq (.atom (.bindFresh 1)) (.atom (.mutate 1))) [0]) = true := by decide
example : observers ≠ [] := by decide

end MlVerif.C03
