/-
C04 — Predictions are a pure per-row function of the model and survive persistence.
Property theorems only.

Generic part: a batch method `F` that *is* `map f` for a per-row function `f` (`IsRowWise`) gives the
same answer on single rows, sub-batches, permutations and any index gather of the batch.
Shape part: each of the dispatch shapes found in the library — scatter over buckets, recursive
above/below mask split, per-row lookup loop, hstack of transforms, composition — is row-wise as soon as
its parts (the wrapped scikit-learn predictors) are; `Gen.C04.shapes`, regenerated from the source on
every run, says which method has which shape.
Persistence part: honest but thin — `pickle`/`deepcopy`/`clone_with_fitted_parameters` are modelled as
structure-preserving copies of the fitted value tree, so equal outputs are immediate; the run-time
mechanics are exercised by the differential run, not proved.
-/
import MlVerif.Gen.C04
import MlVerif.Gen.C08
import MlVerif.Model.RowWise
import MlVerif.Model.Piecewise
import MlVerif.Lemmas.RowWise
import MlVerif.Lemmas.Piecewise2

namespace MlVerif.C04
open MlVerif.Gen.C04 MlVerif.RowWise MlVerif.Scatter MlVerif.Piecewise

/-! ### what the source says (regenerated) -/

/-- the dispatch shape of every predict-like method of the menu; no method is unclassified -/
theorem shapes_as_modelled :
    shapes = [
      ("PiecewiseEstimator", "transform_bins", [.rowloop, .scatter]),
      ("PiecewiseEstimator", "_apply_predict_method", [.scatter]),
      ("PiecewiseRegressor", "predict", [.delegate]),
      ("PiecewiseClassifier", "predict", [.delegate]),
      ("PiecewiseClassifier", "predict_proba", [.delegate]),
      ("PiecewiseClassifier", "decision_function", [.delegate]),
      ("_DecisionTreeLogisticRegressionNode", "predict", [.delegate]),
      ("_DecisionTreeLogisticRegressionNode", "predict_proba", [.recursion]),
      ("DecisionTreeLogisticRegression", "predict", [.delegate]),
      ("DecisionTreeLogisticRegression", "predict_proba", [.delegate]),
      ("PiecewiseTreeRegressor", "predict", [.delegate]),
      ("PiecewiseTreeRegressor", "predict_leaves", [.delegate]),
      ("PiecewiseTreeRegressor", "_predict_reglin", [.rowloop]),
      ("KMeansL1L2", "predict", [.delegate]),
      ("KMeansL1L2", "transform", [.delegate]),
      ("KMeansL1L2", "_predict_l1", [.delegate]),
      ("KMeansL1L2", "_transform_l1", [.delegate]),
      ("ConstraintKMeans", "predict", [.delegate]),
      ("ClassifierAfterKMeans", "transform_features", [.hstack]),
      ("ClassifierAfterKMeans", "predict", [.delegate]),
      ("ClassifierAfterKMeans", "predict_proba", [.delegate]),
      ("ClassifierAfterKMeans", "decision_function", [.delegate]),
      ("TransferTransformer", "transform", [.delegate])] := by
  decide

theorem no_unknown_shape : ∀ r ∈ shapes, ¬ Shape.unknown ∈ r.2.2 ∧ r.2.2 ≠ [] := by decide

/-- **idempotent (source side)**: no predict-like method assigns an attribute of `self`; together with
the models below being functions of (fitted state, batch) only, repeated calls agree. -/
theorem predict_methods_write_nothing : predictWrites = [] := by decide

/-- `clone_with_fitted_parameters` re-creates every fitted attribute that `fit` assigns (names ending in
one underscore), for every estimator class of the menu; attributes the clone already has are adjusted or
cloned recursively; anything else is deep-copied. -/
theorem clone_copies_fitted_attributes :
    (∀ c ∈ fittedAttrs, ∀ a ∈ c.2, cloneCopyCond.eval a = true) ∧
    (∀ c ∈ fittedAttrs, c.2 ≠ []) ∧
    clonePresentBranches = ["callable(v1) -> raise",
      "isinstance(v1, BaseEstimator) -> setattr(obj2, k, clone_with_fitted_parameters(v1))",
      "else -> adjust(getattr(obj1, k), getattr(obj2, k))"] ∧
    cloneTopCases.length = 5 ∧ cloneTopCases.getLast? = some "else -> res = copy.deepcopy(est)" := by
  decide +kernel

/-- the Cython criteria pickle to an empty state and are re-created from their constructor arguments:
`__getstate__` returns `{}`, `__reduce__` names the class and its arguments (the linear criterion, whose
constructor takes the features, has its own), `__deepcopy__` re-creates as well -/
theorem criteria_pickle_to_empty_state_and_are_recreated :
    "__getstate__" ∈ criterionSpecial ∧ "__setstate__" ∈ criterionSpecial ∧ "__deepcopy__" ∈ criterionSpecial ∧
    criterionState = "{}" ∧ "__reduce__" ∈ criterionSpecial ∧ "__reduce__" ∈ criterionLinearSpecial ∧
    "__deepcopy__" ∈ criterionLinearSpecial ∧
    criterionDeepcopy = "inst = self.__class__(self.n_outputs, self.n_samples);return inst" ∧
    criterionLinearDeepcopy = "inst = self.__class__(self.n_outputs, self.sample_X);return inst" := by
  decide

/-! ### generic consequences of being row-wise -/

/-- **batch_eq_rows**: a batch call equals calling on the single rows, one at a time. -/
theorem batch_eq_rows {ρ β} (F : List ρ → List β) (f : ρ → β) (hF : IsRowWise F f) (xs : List ρ) :
    F xs = xs.flatMap (fun x => F [x]) := by
  rw [hF xs]
  induction xs with
  | nil => rfl
  | cons x xs ih => simp [List.flatMap_cons, hF [x], ih]

/-- the output for row `i` of any batch is the output of that row alone -/
theorem single_row {ρ β} (F : List ρ → List β) (f : ρ → β) (hF : IsRowWise F f) (xs : List ρ) (i : Nat) :
    (F xs)[i]? = xs[i]?.bind (fun x => (F [x])[0]?) := by
  rw [hF xs, List.getElem?_map]
  cases xs[i]? with
  | none => rfl
  | some x => simp [hF [x]]

/-- **gather_equivariant**: for every list of positions `idx` — a sub-batch, a permutation, a single row,
with or without repetitions — calling on the gathered batch equals gathering the outputs. -/
theorem gather_equivariant {ρ β} (F : List ρ → List β) (f : ρ → β) (hF : IsRowWise F f) (xs : List ρ)
    (idx : List Nat) : F (gather xs idx) = gather (F xs) idx := by
  rw [hF, hF, gather_map]

/-- **subbatch**: the same through a boolean mask (`X[mask]`), and sub-lists stay sub-lists. -/
theorem subbatch {ρ β} (F : List ρ → List β) (f : ρ → β) (hF : IsRowWise F f) (xs : List ρ) (mask : List Bool) :
    F (maskGet xs mask) = maskGet (F xs) mask ∧ (F (maskGet xs mask)).Sublist (F xs) := by
  have h : F (maskGet xs mask) = maskGet (F xs) mask := by rw [hF, hF, maskGet_map]
  exact ⟨h, h ▸ maskGet_sublist _ _⟩

/-- **perm_equivariant**: permuting the batch permutes the outputs in the same way. -/
theorem perm_equivariant {ρ β} (F : List ρ → List β) (f : ρ → β) (hF : IsRowWise F f) (xs ys : List ρ)
    (h : xs.Perm ys) : (F xs).Perm (F ys) ∧ ∀ (idx : List Nat), F (gather xs idx) = gather (F xs) idx := by
  refine ⟨?_, gather_equivariant F f hF xs⟩
  rw [hF, hF]; exact h.map f

/-- **idempotent (model side)**: the output depends on the batch only, not on what was predicted before
(previous batches `hist`) — the model threads no state through calls. -/
theorem idempotent {ρ β} (F : List ρ → List β) (xs : List ρ) (hist : List (List ρ)) :
    ((hist ++ [xs]).map F).getLast? = some (F xs) ∧ (hist.map F ++ [F xs, F xs]).getLast? = some (F xs) := by
  simp

/-- row-wise methods compose (a `delegate` method: transform the batch, call the wrapped predictor) -/
theorem compose_rowwise {ρ σ β} (F : List ρ → List σ) (G : List σ → List β) (f : ρ → σ) (g : σ → β)
    (hF : IsRowWise F f) (hG : IsRowWise G g) : IsRowWise (fun xs => G (F xs)) (fun x => g (f x)) := by
  intro xs
  show G (F xs) = _
  rw [hF xs, hG, List.map_map]
  rfl

/-! ### (i) scatter dispatch over row-wise functions -/

/-- the shared dispatch pass with masks computed from a per-row key, any order of the buckets -/
theorem scatter_dispatch_rowwise {ρ β} (g : Nat → ρ → β) (key : ρ → Nat) (zero : β) (order : List Nat) :
    IsRowWise (fun X => dispatch g X (X.map key) order (X.map fun _ => zero))
      (fun x => if key x ∈ order then g (key x) x else zero) := by
  intro X
  show dispatch g X (X.map key) order (X.map fun _ => zero) = _
  rw [dispatch_rows g order X (X.map key) _ (by simp) (by simp)]
  exact zw3_maps _ _ _ X

/-- **PiecewiseRegressor / PiecewiseClassifier** (`transform_bins` then `_apply_predict_method`): with a
row-wise binner (`key`), row-wise local models and fallback, the prediction of a row is
`g (bucket of the row) row`, or the fallback's when the row's bucket was not seen at training time —
whatever else is in the batch. -/
theorem piecewise_predict_rowwise {ρ β κ} [BEq κ] [LawfulBEq κ] (key : ρ → κ) (mapped : List κ)
    (P : Nat → List ρ → List β) (Pmean : List ρ → List β) (g : Nat → ρ → β) (gm : ρ → β)
    (hP : ∀ i, IsRowWise (P i) (g i)) (hPm : IsRowWise Pmean gm) (zero : β) (hn : mapped ≠ []) :
    ∀ t ∈ MlVerif.Gen.C08.predictSelections, ∀ X : List ρ,
      applyPredict t.2.1 mapped.length P Pmean zero X (transformBinsCells mapped.zipIdx (X.map key)) =
        some (X.map (fun x => if mapped.contains (key x) then g (mapped.idxOf (key x)) x else gm x)) := by
  intro t ht X
  have hlen : mapped.length ≠ 0 := by simpa using hn
  have hsel : t.2.1 = ⟨"association", .eq, "i"⟩ :=
    (by decide : ∀ t ∈ MlVerif.Gen.C08.predictSelections, t.2.1 = ⟨"association", .eq, "i"⟩) t ht
  have hu : MlVerif.Gen.C08.unseenValue = -1 := by decide
  have hcells : transformBinsCells mapped.zipIdx (X.map key) = (X.map key).map (bucketId mapped) := by
    unfold transformBinsCells
    exact List.map_congr_left (fun k _ => dictGet_zipIdx mapped k)
  rw [hsel, applyPredict_closed mapped.length P Pmean g gm hP hPm zero X _ (by simp [transformBinsCells]) hlen
    (by decide) (by decide) (by decide), hcells]
  congr 1
  rw [List.map_map, List.zip_map_right, List.map_map]
  have hzip : ∀ l : List ρ, l.zip l = l.map (fun x => (x, x)) := by
    intro l
    induction l with
    | nil => rfl
    | cons x xs ih => simp [ih]
  rw [hzip X, List.map_map]
  apply List.map_congr_left
  intro x _
  simp only [Function.comp, Prod.map, id]
  by_cases hc : mapped.contains (key x) = true
  · have hlt : mapped.idxOf (key x) < mapped.length := List.idxOf_lt_length_iff.mpr (by simpa using hc)
    have h0 : (0 : Int) ≤ (mapped.idxOf (key x) : Int) := Int.natCast_nonneg _
    have h1 : ((mapped.idxOf (key x) : Nat) : Int) < (mapped.length : Int) := by exact_mod_cast hlt
    simp only [bucketId, hc, if_true, h0, h1, and_self, Int.toNat_natCast]
  · have hc' : mapped.contains (key x) = false := by simpa using hc
    simp only [bucketId, hc', Bool.false_eq_true, if_false, hu]
    rw [if_neg (by omega)]

/-- the same with a tree binner: `transform_bins` loops over the leaves with masks, and the result is still
the per-row bucket id (leaves that received no model give -1, hence the fallback) -/
theorem piecewise_tree_bins_rowwise {ρ κ} [BEq κ] [LawfulBEq κ] (key : ρ → κ) (leaves mapped : List κ)
    (hsub : ∀ k ∈ mapped, k ∈ leaves) :
    IsRowWise (fun X => transformBinsTree leaves mapped.zipIdx (X.map key)) (fun x => bucketId mapped (key x)) := by
  intro X
  show transformBinsTree leaves mapped.zipIdx (X.map key) = _
  rw [transformBinsTree_zipIdx leaves mapped _ hsub, List.map_map]
  rfl

theorem piecewise_cell_bins_rowwise {ρ κ} [BEq κ] [LawfulBEq κ] (key : ρ → κ) (mapped : List κ) :
    IsRowWise (fun X => transformBinsCells mapped.zipIdx (X.map key)) (fun x => bucketId mapped (key x)) := by
  intro X
  show transformBinsCells mapped.zipIdx (X.map key) = _
  unfold transformBinsCells
  rw [List.map_map]
  exact List.map_congr_left (fun x _ => dictGet_zipIdx mapped (key x))

/-! ### (ii) recursive mask split over row-wise node functions -/

/-- **DecisionTreeLogisticRegression** (`_DecisionTreeLogisticRegressionNode.predict_proba`): the recursion
on `above` / `below` masks computes, for each row independently, the probabilities of the node the row
ends in when it is sent down the tree by its own probabilities. -/
theorem mask_recursion_rowwise {ρ β} (T : DT ρ β) (t : DTRow ρ β) (hr : Reads T t) (hn : T.isNode = true) (d : β) :
    IsRowWise T.predict (fun x => t.row x d) :=
  fun X => DT_predict_rowwise T t hr hn X (fun _ => d)

/-! ### (iii) per-row lookup loop -/

/-- **PiecewiseTreeRegressor._predict_reglin**: the loop `for i in range(n): pred[i] = h(X[i], leaves[i])`
with `leaves = predict_leaves(X)` computed row by row gives `h(x, leaf x)` for every row. -/
theorem leaf_lookup_rowwise {ρ β} (h : ρ → Nat → β) (leafOf : ρ → Nat) (one : β) (X : List ρ) :
    lookupLoop h X (X.map leafOf) (X.map fun _ => one) = some (X.map (fun x => h x (leafOf x))) := by
  rw [lookupLoop_rows h X _ _ (by simp) (by simp)]
  congr 1
  induction X with
  | nil => rfl
  | cons x xs ih => simp [ih]

/-- `predict_leaves` is a map over the rows of the decision path by construction: each row's leaf
position depends on its own path only -/
theorem predict_leaves_rowwise (leavesIndex : List Nat) :
    IsRowWise (predictLeaves leavesIndex)
      (fun path => argmaxFirst (leavesIndex.map (fun j => if path.contains j then 1 else 0))) :=
  fun _ => rfl

/-! ### hstack of per-model transforms -/

/-- **ClassifierAfterKMeans.transform_features**: stacking the transforms of the per-class clusterers side
by side is row-wise. -/
theorem hstack_transforms_rowwise {ρ β} (fs : List (ρ → List β)) (h : fs ≠ []) :
    IsRowWise (fun X => hstack (fs.map (fun f => X.map f))) (fun x => (fs.map (fun f => f x)).flatten) :=
  fun X => hstack_rowwise fs X h

/-! ### persistence (thin) -/

/-- **pickle round trip**: a structure-preserving copy of the fitted value tree is the same value, so every
output computed from it is identical. -/
theorem pickle_roundtrip_same_outputs {ρ β} (out : Val → List ρ → List β) (v : Val) (xs : List ρ) :
    out v.copy xs = out v xs := by rw [Val.copy_eq]

/-- **clone_with_fitted_parameters**: likewise -/
theorem clone_fitted_same_outputs {ρ β} (out : Val → List ρ → List β) (v : Val) (xs : List ρ) :
    out v.cloneFitted xs = out v xs := by rw [Val.cloneFitted_eq]

/-! ### non-vacuity -/
example : IsRowWise (fun X : List Nat => dispatch (fun i x => x + 100 * i) X (X.map (· % 3)) [2, 0] (X.map fun _ => 0))
    (fun x => if x % 3 ∈ [2, 0] then x + 100 * (x % 3) else 0) := scatter_dispatch_rowwise _ _ _ _
example : dispatch (fun i x => x + 100 * i) [3, 4, 5] ([3, 4, 5].map (· % 3)) [2, 0] [0, 0, 0] = [3, 0, 205] := by decide
-- a 2-level tree: the root sends rows with value > 5 to a child that doubles them
example : (DT.node (fun xs => xs.map (· + 1)) (· > 5) (DT.node (fun xs => xs.map (· * 2)) (fun _ => false) .nil .nil) .nil).predict
    [1, 7, 3, 9] = [2, 14, 4, 18] := by decide
example : lookupLoop (fun x li => x * 10 + li) [1, 2, 3] [0, 2, 1] [0, 0, 0] = some [10, 22, 31] := by decide
example : predictLeaves [2, 3, 5] [[0, 1, 3], [0, 4, 5], [0, 1, 2]] = [1, 2, 0] := by decide
example : hstack [[[1], [2]], [[10, 11], [20, 21]]] = [[1, 10, 11], [2, 20, 21]] := by decide
example : gather [10, 20, 30] [2, 0, 2] = [30, 10, 30] := by decide
example : (Val.est "KMeansL1L2" [("n_clusters", .num 3)] [("cluster_centers_", .list [.num 1, .num 2])]).copy
    = Val.est "KMeansL1L2" [("n_clusters", .num 3)] [("cluster_centers_", .list [.num 1, .num 2])] := Val.copy_eq _

end MlVerif.C04
