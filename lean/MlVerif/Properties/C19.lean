/-
C19 — CategoriesToIntegers encodes each category by its own indicator and nothing else.
Property theorems only.  `MlVerif.Gen.C19` is regenerated from the source on every run: the
theorems of the first section are statements about what the source says *now*; the model
(`MlVerif.Model.Categories`) is built on those definitions and describes the repaired code.

Vocabulary.  `fit cfg X = .ok st`: `st.cols` lists, per fitted column in `_fit_columns` order, its
name, `position[c]` and `new_vector[c]` as the list `vec` of kept values (offset = index in `vec`);
`st.schema` is the list of indicator column names.  `indicators st skip r` is the row of `res`
for the row `r`; `encodeRow` prepends the pass-through cells.  A frame's result is `transform`.
-/
import MlVerif.Gen.C19
import MlVerif.Model.Categories
import MlVerif.Lemmas.Categories

namespace MlVerif.C19
open MlVerif.Gen MlVerif.Gen.C19 MlVerif.Categories

/-! ### what the source says now (regenerated definitions) -/

/-- `p = pos[k] + vec[k][v]`: the written cell is block start + offset of the value. -/
theorem index_expression (pos off : Int) : cellIndex pos off = pos + off := by
  unfold cellIndex; omega

/-- `position[c] = last` then `last += len(sch)`: block starts are the running sums of the block lengths. -/
theorem positions_are_running_sums (last len : Int) :
    blockStart last len = last ∧ nextLast last len = last + len ∧ positionBeforeAdvance = true := by
  refine ⟨?_, ?_, ?_⟩
  · unfold blockStart; omega
  · unfold nextLast; omega
  · decide

/-- the schema column of value `v` of column `c` is named `c=v` -/
theorem schema_name_format (c v : String) : schemaName c v = c ++ "=" ++ v := by
  simp [schemaName, String.join]

/-- the `remove` filter drops exactly the listed names -/
theorem remove_filter_drops_listed (b : Bool) : keepName b = !b := by
  cases b <;> decide

/-- fit refuses a column only when it has at least max(n/2+1, 10000) distinct categories -/
theorem max_cat_guard (nb n : Int) (hn : 0 ≤ n) :
    (tooMany nb n = true ↔ maxCat n ≤ nb) ∧ 10000 ≤ maxCat n ∧ n / 2 + 1 ≤ maxCat n := by
  refine ⟨?_, ?_, ?_⟩
  · unfold tooMany; simp
  · unfold maxCat; (try rw [pyFloorDiv_pos n (by decide)]); omega
  · unfold maxCat; (try rw [pyFloorDiv_pos n (by decide)]); omega

/-- Control flow of the cell loop: the missing-value branch and the unseen-value branch both
leave the iteration on every path (raise or continue) and so never reach `res[i, p] = 1.0`;
the unseen branch raises unless skip_errors; the only write is `res[i, p] = 1.0`.
(On the tree before the repair of D21 `unseenLeavesIteration` is `false`.) -/
theorem unseen_branch_never_writes :
    missingLeavesIteration = true ∧ unseenLeavesIteration = true ∧ unseenRaisesUnlessSkip = true ∧
    writesOneAtP = true := by decide

/-- categories are collected after `dropna()` and sorted ascending, in fit and in `_build_schema` -/
theorem categories_sorted_ascending :
    fitDropsMissing = true ∧ fitSortedAscending = true ∧ schemaSortedAscending = true := by decide

/-! ### fit and the schema -/

/-- What `fit` retains, for every training frame: the fitted columns are the requested ones (or the
object-dtype ones); per column the kept values are strictly increasing (code-point order), and a
value is kept iff some training row holds it and its name `column=value` is not in `remove`. -/
theorem fitted_categories (cfg : Config) (X : Frame) (st : Fitted) (hfit : fit cfg X = .ok st) :
    fittedNames st = fitColumnsOf cfg.columns X ∧ (fittedNames st).Nodup ∧
    ∀ ci ∈ st.cols, ci.vec.Pairwise (· < ·) ∧
      ∀ u, u ∈ ci.vec ↔ (∃ row ∈ X.rows, row.lookup ci.name = some (.str u)) ∧
                        schemaName ci.name u ∉ cfg.remove := by
  obtain ⟨hcols, _, hnd, _⟩ := fit_ok hfit
  have hnames : fittedNames st = fitColumnsOf cfg.columns X := by
    unfold fittedNames
    rw [hcols, buildSchema_names]
    simp [List.map_map, Function.comp_def]
  refine ⟨hnames, hnames ▸ hnd, ?_⟩
  intro ci hci
  rw [hcols] at hci
  obtain ⟨cats, hm, hv⟩ := buildSchema_vec _ _ _ ci hci
  simp only [List.mem_map, Prod.mk.injEq] at hm
  obtain ⟨c, _, hc, hcats⟩ := hm
  subst hc
  rw [hv, ← hcats]
  constructor
  · exact List.Pairwise.filter _ (sorted_sortedDistinct _)
  · intro u
    simp only [List.mem_filter, catsOf, mem_sortedDistinct, List.mem_filterMap, Bool.not_eq_true',
      List.contains_eq_mem, decide_eq_false_iff_not]
    constructor
    · rintro ⟨⟨row, hrow, hs⟩, hrem⟩
      refine ⟨⟨row, hrow, ?_⟩, hrem⟩
      unfold strAt at hs
      split at hs
      · rename_i s hl; cases hs; exact hl
      · cases hs
    · rintro ⟨⟨row, hrow, hl⟩, hrem⟩
      exact ⟨⟨row, hrow, by simp [strAt, hl]⟩, hrem⟩

/-! ### transform, single=False -/

/-- **One indicator per seen value.**  For every training frame, configuration and row: if the row's
value `v` in the `k`-th fitted column was seen during fit and not removed, then in that column's
block (matrix columns `pos_k … pos_k + len_k − 1`, the `j`-th of which is named `column=vec[j]`)
exactly the cell `column=v` is 1 and every other cell is NaN. -/
theorem one_indicator_per_seen_value (cfg : Config) (X : Frame) (st : Fitted)
    (hfit : fit cfg X = .ok st) (skip : Bool) (r : Row) (ind : List Out)
    (hind : indicators st skip r = .ok ind)
    (k : Nat) (hk : k < st.cols.length) (v : String)
    (hv : r.lookup st.cols[k].name = some (.str v)) (hseen : v ∈ st.cols[k].vec) :
    ∃ m : Nat, st.cols[k].pos = (m : Int) ∧ ind.length = st.schema.length ∧
      ∀ j (hj : j < st.cols[k].vec.length),
        st.schema[m + j]? = some (schemaName st.cols[k].name st.cols[k].vec[j]) ∧
        ind[m + j]? = some (if st.cols[k].vec[j] = v then Out.one else Out.nan) := by
  have hsorted := ((fitted_categories cfg X st hfit).2.2 st.cols[k] (List.getElem_mem hk)).1
  have hnd := nodup_of_sorted hsorted
  have hidx : st.cols[k].vec.idxOf v < st.cols[k].vec.length := List.idxOf_lt_length_iff.mpr hseen
  have hblock : blockOf skip r st.cols[k] =
      .ok ((nanBlock st.cols[k].vec.length).set (st.cols[k].vec.idxOf v) .one) := by
    simp [blockOf, hv, offsetOf_of_mem hseen]
  by_cases hempty : st.cols[k].vec.length = 0
  · exact absurd hidx (by omega)
  · obtain ⟨b0, m, _, _, hpos, _, _, hlen⟩ := indicator_cell hfit hind k hk 0 (by omega)
    refine ⟨m, hpos, hlen, ?_⟩
    intro j hj
    obtain ⟨b, m', hb, _, hpos', hget, hname, _⟩ := indicator_cell hfit hind k hk j hj
    have hmm : m' = m := by rw [hpos] at hpos'; omega
    subst hmm
    refine ⟨hname, ?_⟩
    rw [hget]
    rw [hblock] at hb
    cases hb
    have hj' : j < (nanBlock st.cols[k].vec.length).length := by simpa [nanBlock] using hj
    rw [List.getElem?_set]
    by_cases hjv : st.cols[k].vec[j] = v
    · have := (getElem_eq_iff_idxOf hnd hj).mp hjv
      simp [hjv, ← this, hj']
    · have : ¬ st.cols[k].vec.idxOf v = j := fun h => hjv ((getElem_eq_iff_idxOf hnd hj).mpr h.symm)
      simp [hjv, this, nanBlock, hj]

/-- **Missing values give no indicator**: the whole block of that column is NaN for the row. -/
theorem missing_gives_none (cfg : Config) (X : Frame) (st : Fitted)
    (hfit : fit cfg X = .ok st) (skip : Bool) (r : Row) (ind : List Out)
    (hind : indicators st skip r = .ok ind)
    (k : Nat) (hk : k < st.cols.length) (hv : r.lookup st.cols[k].name = some .missing) :
    ∃ m : Nat, st.cols[k].pos = (m : Int) ∧
      ∀ j, j < st.cols[k].vec.length → ind[m + j]? = some Out.nan := by
  have hblock : blockOf skip r st.cols[k] = .ok (nanBlock st.cols[k].vec.length) := by
    simp [blockOf, hv]
  by_cases hempty : st.cols[k].vec.length = 0
  · have hl := (fit_layout hfit).1
    rw [indicators_blocks hfit] at hind
    cases hm : mapE (blockOf skip r) st.cols with
    | error e => rw [hm] at hind; cases hind
    | ok bs =>
      -- the position is a natural number whatever the block length
      have : ∀ (cis : List ColInfo) (s : Nat), Layout cis s → ∀ q (hq : q < cis.length),
          ∃ m : Nat, cis[q].pos = (m : Int) := by
        intro cis
        induction cis with
        | nil => intro s _ q hq; simp at hq
        | cons c cs ih =>
          intro s hl q hq
          cases q with
          | zero => exact ⟨s, hl.1⟩
          | succ q => exact ih _ hl.2 q (by simpa using hq)
      obtain ⟨m, hm⟩ := this st.cols 0 hl k hk
      exact ⟨m, hm, fun j hj => absurd hj (by omega)⟩
  · obtain ⟨b0, m, _, _, hpos, _, _, _⟩ := indicator_cell hfit hind k hk 0 (by omega)
    refine ⟨m, hpos, ?_⟩
    intro j hj
    obtain ⟨b, m', hb, _, hpos', hget, _, _⟩ := indicator_cell hfit hind k hk j hj
    have hmm : m' = m := by rw [hpos] at hpos'; omega
    subst hmm
    rw [hget]
    rw [hblock] at hb
    cases hb
    simp [nanBlock, hj]

/-- **Numeric (and any non-fitted) columns pass through unchanged**, single=False: the result row is
the row's cells of the non-fitted columns, in order and untouched, followed by the indicator row. -/
theorem numeric_passthrough (st : Fitted) (skip : Bool) (r : Row) (out : List Out)
    (h : encodeRow st skip r = .ok out) :
    ∃ ind, indicators st skip r = .ok ind ∧
      out = (r.filter (fun kv => !((fittedNames st).contains kv.1))).map (fun kv => Out.keep kv.2) ++ ind := by
  unfold encodeRow at h
  cases hi : indicators st skip r with
  | error e => rw [hi] at h; cases h
  | ok ind => rw [hi] at h; cases h; exact ⟨ind, rfl, rfl⟩

/-- single=True: a cell of a column that is not fitted is returned as it is. -/
theorem numeric_passthrough_single (st : Fitted) (skip : Bool) (r : Row) (out : List Out)
    (h : encodeRowSingle st skip r = .ok out) :
    out.length = r.length ∧
    ∀ j (hj : j < r.length) (hj' : j < out.length), r[j].1 ∉ fittedNames st → out[j] = Out.keep r[j].2 := by
  have hlen := mapE_ok_length _ _ _ h
  refine ⟨hlen, ?_⟩
  intro j hj hj' hnot
  have := mapE_ok_get _ _ _ h j hj hj'
  unfold encodeCellSingle at this
  have hnone : st.cols.find? (fun ci => ci.name == r[j].1) = none := by
    rw [List.find?_eq_none]
    intro ci hci hname
    exact hnot (by simp only [fittedNames, List.mem_map]; exact ⟨ci, hci, by simpa using hname⟩)
  rw [hnone] at this
  exact (Except.ok.inj this).symm

/-- **single=True gives the rank**: a seen value is replaced by its rank among the sorted distinct
kept training categories of its column (the number of them that are strictly smaller); a missing
value by NaN. -/
theorem single_is_rank (cfg : Config) (X : Frame) (st : Fitted) (hfit : fit cfg X = .ok st)
    (skip : Bool) (r : Row) (out : List Out) (h : encodeRowSingle st skip r = .ok out)
    (j : Nat) (hj : j < r.length) (hj' : j < out.length) (ci : ColInfo) (hci : ci ∈ st.cols)
    (hname : ci.name = r[j].1) :
    (∀ v, r[j].2 = .str v → v ∈ ci.vec →
        out[j] = Out.rank (ci.vec.filter (fun u => decide (u < v))).length) ∧
    (r[j].2 = .missing → out[j] = Out.nan) := by
  obtain ⟨hnames, hnd, hvecs⟩ := fitted_categories cfg X st hfit
  have hcell := mapE_ok_get _ _ _ h j hj hj'
  -- the column information found by name is `ci` (fitted names are pairwise distinct)
  have hfind : st.cols.find? (fun c => c.name == r[j].1) = some ci := by
    have hex : ∃ c', st.cols.find? (fun c => c.name == r[j].1) = some c' := by
      cases hf : st.cols.find? (fun c => c.name == r[j].1) with
      | some c' => exact ⟨c', rfl⟩
      | none =>
        rw [List.find?_eq_none] at hf
        exact absurd (by simpa using hname) (hf ci hci)
    obtain ⟨c', hc'⟩ := hex
    have hm' := List.mem_of_find?_eq_some hc'
    have hn' : c'.name = r[j].1 := by simpa using List.find?_some hc'
    have : c' = ci := eq_of_nodup_map_name (by simpa [fittedNames] using hnd) hm' hci (by rw [hn', hname])
    rw [hc', this]
  unfold encodeCellSingle at hcell
  rw [hfind] at hcell
  simp only [] at hcell
  constructor
  · intro v hv hseen
    rw [hv] at hcell
    simp only [offsetOf_of_mem hseen] at hcell
    rw [← Except.ok.inj hcell, idxOf_eq_count_lt v _ (hvecs ci hci).1 hseen]
  · intro hm
    rw [hm] at hcell
    exact (Except.ok.inj hcell).symm

/-! ### rows, order, index -/

/-- **Rows keep their order and index**: the result has the frame's index, one result row per row, and
row `i` of the result is a function of row `i` of the frame alone (the per-row encoder). -/
theorem order_and_index_kept (st : Fitted) (cfg : Config) (Y : Frame) (Z : OutFrame)
    (h : transform st cfg Y = .ok Z) :
    Z.index = Y.index ∧ Z.rows.length = Y.rows.length ∧
    ∀ i (hi : i < Y.rows.length) (hi' : i < Z.rows.length), rowFn st cfg Y.rows[i] = .ok Z.rows[i] := by
  unfold transform at h
  split at h
  · cases h
  · cases hm : mapE (rowFn st cfg) Y.rows with
    | error e => rw [hm] at h; cases h
    | ok rows =>
      rw [hm] at h
      cases h
      exact ⟨rfl, mapE_ok_length _ _ _ hm, mapE_ok_get _ _ _ hm⟩

/-- Shape of the result, single=False: the columns are the non-fitted columns followed by the schema, and
row `i` is the pass-through cells of row `i` followed by its indicator row (to which
`one_indicator_per_seen_value`, `missing_gives_none`, `unseen_skipped_block_is_nan` apply). -/
theorem transform_row_shape (st : Fitted) (cfg : Config) (hsingle : cfg.single = false) (Y : Frame)
    (Z : OutFrame) (h : transform st cfg Y = .ok Z) :
    Z.cols = (Y.cols.map (·.1)).filter (fun c => !((fittedNames st).contains c)) ++ st.schema ∧
    ∀ i (hi : i < Y.rows.length) (hi' : i < Z.rows.length),
      ∃ ind, indicators st cfg.skipErrors Y.rows[i] = .ok ind ∧
        Z.rows[i] = passCells (fittedNames st) Y.rows[i] ++ ind := by
  obtain ⟨_, _, hrows⟩ := order_and_index_kept st cfg Y Z h
  constructor
  · unfold transform at h
    split at h
    · cases h
    · cases hm : mapE (rowFn st cfg) Y.rows with
      | error e => rw [hm] at h; cases h
      | ok rows => rw [hm] at h; cases h; simp [outCols, hsingle]
  · intro i hi hi'
    have := hrows i hi hi'
    have hrow : rowFn st cfg = encodeRow st cfg.skipErrors := by unfold rowFn; simp [hsingle]
    rw [hrow] at this
    obtain ⟨ind, h1, h2⟩ := numeric_passthrough st _ _ _ this
    exact ⟨ind, h1, by rw [h2]; rfl⟩

/-! ### unseen categories -/

/-- the frame offers every fitted column, with string or missing cells only -/
def FrameOK (st : Fitted) (Y : Frame) : Prop :=
  (∀ ci ∈ st.cols, Y.cols.any (fun cd => cd.1 == ci.name) = true) ∧ ∀ r ∈ Y.rows, RowOK st r

/-- **An unseen category raises** (skip_errors=False, single=False): if some row holds, in a fitted
column, a value that is not among the kept training values of that column, transform fails with
ValueError, for every frame. -/
theorem unseen_raises (cfg : Config) (X : Frame) (st : Fitted) (hfit : fit cfg X = .ok st)
    (hskip : cfg.skipErrors = false) (hsingle : cfg.single = false) (Y : Frame) (hY : FrameOK st Y)
    (r : Row) (hr : r ∈ Y.rows) (ci : ColInfo) (hci : ci ∈ st.cols) (v : String)
    (hv : r.lookup ci.name = some (.str v)) (hun : v ∉ ci.vec) :
    transform st cfg Y = .error .valueError := by
  unfold transform
  have hkeys : (st.cols.all (fun ci => Y.cols.any (fun cd => cd.1 == ci.name))) = true := by
    rw [List.all_eq_true]; exact hY.1
  rw [hkeys]
  have hrow : rowFn st cfg = encodeRow st false := by unfold rowFn; simp [hsingle, hskip]
  have : mapE (rowFn st cfg) Y.rows = .error .valueError := by
    rw [hrow]
    apply mapE_error_of_mem
    · exact ⟨r, hr, encodeRow_unseen_raises hfit (hY.2 r hr) hci hv hun⟩
    · intro a ha e he
      exact encodeRow_error_kind hfit (hY.2 a ha) he
  rw [this]
  rfl

/-- single=True, skip_errors=False: the cell of an unseen value fails with ValueError. -/
theorem unseen_raises_single (st : Fitted) (c v : String) (ci : ColInfo)
    (hfind : st.cols.find? (fun x => x.name == c) = some ci) (hun : v ∉ ci.vec) :
    encodeCellSingle st false (c, .str v) = .error .valueError := by
  simp [encodeCellSingle, hfind, offsetOf_of_not_mem hun]

/-- the frame offers every fitted column and no numeric cell in a fitted column (single=True reading) -/
def FrameOKSingle (st : Fitted) (Y : Frame) : Prop :=
  (∀ ci ∈ st.cols, Y.cols.any (fun cd => cd.1 == ci.name) = true) ∧
  ∀ r ∈ Y.rows, ∀ kv ∈ r, kv.1 ∈ fittedNames st → ∀ n, kv.2 ≠ .num n

/-- **An unseen category raises**, single=True, skip_errors=False, for every frame. -/
theorem unseen_raises_single_frame (st : Fitted) (cfg : Config)
    (hskip : cfg.skipErrors = false) (hsingle : cfg.single = true) (Y : Frame) (hY : FrameOKSingle st Y)
    (r : Row) (hr : r ∈ Y.rows) (c v : String) (hcell : (c, Cell.str v) ∈ r) (ci : ColInfo)
    (hfind : st.cols.find? (fun x => x.name == c) = some ci) (hun : v ∉ ci.vec) :
    transform st cfg Y = .error .valueError := by
  unfold transform
  have hkeys : (st.cols.all (fun ci => Y.cols.any (fun cd => cd.1 == ci.name))) = true := by
    rw [List.all_eq_true]; exact hY.1
  rw [hkeys]
  have hrow : rowFn st cfg = encodeRowSingle st false := by unfold rowFn; simp [hsingle, hskip]
  have hkind : ∀ a ∈ Y.rows, ∀ kv ∈ a, ∀ e, encodeCellSingle st false kv = .error e → e = .valueError := by
    intro a ha kv hkv e he
    unfold encodeCellSingle at he
    cases hf : st.cols.find? (fun x => x.name == kv.1) with
    | none => rw [hf] at he; cases he
    | some ci' =>
      rw [hf] at he
      simp only [] at he
      have hname : kv.1 ∈ fittedNames st := by
        simp only [fittedNames, List.mem_map]
        exact ⟨ci', List.mem_of_find?_eq_some hf, by simpa using List.find?_some hf⟩
      cases hc : kv.2 with
      | missing => rw [hc] at he; cases he
      | num n => exact absurd hc (hY.2 a ha kv hkv hname n)
      | str u =>
        rw [hc] at he
        simp only [] at he
        split at he
        · cases he
        · cases he; rfl
  have : mapE (rowFn st cfg) Y.rows = .error .valueError := by
    rw [hrow]
    apply mapE_error_of_mem
    · refine ⟨r, hr, ?_⟩
      unfold encodeRowSingle
      apply mapE_error_of_mem
      · exact ⟨_, hcell, unseen_raises_single st c v ci hfind hun⟩
      · exact fun kv hkv e he => hkind r hr kv hkv e he
    · intro a ha e he
      unfold encodeRowSingle at he
      exact mapE_error_kind _ (fun e => e = .valueError) _ (fun kv hkv e he => hkind a ha kv hkv e he) _ he
  rw [this]
  rfl

/-- **An unseen category under skip_errors=True touches nothing** (both modes).  Let row `i` of the
frame hold the unseen value `v` in the fitted column `c`.  Then the whole result of `transform` —
every cell of every row, and whether it fails — is what it is for the same frame with that cell
replaced by a missing value; in particular (`missing_gives_none`) the block of `c` is all NaN for row
`i` (single=True: the cell is NaN) and no other cell is affected. -/
theorem unseen_skipped_touches_nothing (st : Fitted) (cfg : Config) (hskip : cfg.skipErrors = true)
    (Y : Frame) (i : Nat) (hi : i < Y.rows.length) (c v : String)
    (hcell : ∀ cell, (c, cell) ∈ Y.rows[i] → cell = .str v) (hcol : c ∈ fittedNames st)
    (hun : ∀ ci ∈ st.cols, ci.name = c → v ∉ ci.vec) :
    transform st cfg { Y with rows := Y.rows.set i (setCol c .missing Y.rows[i]) } = transform st cfg Y := by
  have hrow : rowFn st cfg (setCol c .missing Y.rows[i]) = rowFn st cfg Y.rows[i] := by
    unfold rowFn
    rw [hskip]
    by_cases hs : cfg.single = true
    · simp only [hs, if_true]
      exact encodeRowSingle_setCol_unseen hcell hcol hun
    · simp only [hs]
      cases hl : Y.rows[i].lookup c with
      | none =>
        -- the column does not occur in the row: nothing is replaced
        have : setCol c .missing Y.rows[i] = Y.rows[i] := by
          unfold setCol
          have : ∀ kv ∈ Y.rows[i], (if kv.1 = c then (kv.1, Cell.missing) else kv) = kv := by
            intro kv hkv
            by_cases hk : kv.1 = c
            · exfalso
              have hne : ∀ (r : Row), (∃ x, (c, x) ∈ r) → r.lookup c ≠ none := by
                intro r
                induction r with
                | nil => intro ⟨x, hx⟩; simp at hx
                | cons a r ih =>
                  intro ⟨x, hx⟩
                  obtain ⟨k, y⟩ := a
                  by_cases hck : c = k
                  · subst hck; simp
                  · have hb : (c == k) = false := by simpa using hck
                    simp only [List.lookup_cons, hb]
                    simp only [List.mem_cons, Prod.mk.injEq] at hx
                    cases hx with
                    | inl h => exact absurd h.1 hck
                    | inr h => exact ih ⟨x, h⟩
              exact hne Y.rows[i] ⟨kv.2, by rw [← hk]; exact hkv⟩ hl
            · simp [hk]
          conv => rhs; rw [← List.map_id Y.rows[i]]
          exact List.map_congr_left this
        rw [this]
      | some cell =>
        have := hcell cell (mem_of_lookup hl)
        subst this
        simpa using encodeRow_setCol_unseen hl hcol hun
  unfold transform
  simp only []
  have hmap : mapE (rowFn st cfg) (Y.rows.set i (setCol c .missing Y.rows[i])) = mapE (rowFn st cfg) Y.rows := by
    apply mapE_eq_of_map_eq
    rw [List.map_set, hrow, ← List.getElem_map (rowFn st cfg) (h := by simpa using hi), List.set_getElem_self]
  rw [hmap]
  rfl

/-- the same, stated on the cells of row `i` for single=False: the block of the column is all NaN -/
theorem unseen_skipped_block_is_nan (cfg : Config) (X : Frame) (st : Fitted)
    (hfit : fit cfg X = .ok st) (r : Row) (ind : List Out) (hind : indicators st true r = .ok ind)
    (k : Nat) (hk : k < st.cols.length) (v : String)
    (hv : r.lookup st.cols[k].name = some (.str v)) (hun : v ∉ st.cols[k].vec) :
    ∃ m : Nat, st.cols[k].pos = (m : Int) ∧
      ∀ j, j < st.cols[k].vec.length → ind[m + j]? = some Out.nan := by
  have hname : st.cols[k].name ∈ fittedNames st := by
    simp only [fittedNames, List.mem_map]; exact ⟨_, List.getElem_mem hk, rfl⟩
  have hnd := (fitted_categories cfg X st hfit).2.1
  have hun' : ∀ ci ∈ st.cols, ci.name = st.cols[k].name → v ∉ ci.vec := by
    intro ci hci hn
    have : ci = st.cols[k] := eq_of_nodup_map_name (by simpa [fittedNames] using hnd) hci (List.getElem_mem hk) hn
    rw [this]; exact hun
  have heq : indicators st true (setCol st.cols[k].name .missing r) = indicators st true r := by
    unfold indicators
    exact fillRow_setCol_unseen hv _ _ hun'
  have hmiss : (setCol st.cols[k].name .missing r).lookup st.cols[k].name = some .missing := by
    rw [lookup_setCol_self, hv]; rfl
  exact missing_gives_none cfg X st hfit true _ ind (heq ▸ hind) k hk hmiss

/-! ### the defect of the tree before the repair (D21), on the transcription of the old loop -/

/-- With the loop as it was written (`p` surviving across cells), training on `a ∈ {x}` and
transforming the rows `x`, `q` under skip_errors=True gives row 1 — whose value `q` was never seen —
the indicator `a=x`; the repaired loop gives NaN.  And when the very first cell is unseen the old loop
fails with UnboundLocalError. -/
theorem stale_counterexample :
    transformStale ⟨[⟨"a", 0, ["x"]⟩], ["a=x"]⟩ true [[("a", .str "x")], [("a", .str "q")]] none
      = .ok [[.one], [.one]] ∧
    mapE (indicators ⟨[⟨"a", 0, ["x"]⟩], ["a=x"]⟩ true) [[("a", .str "x")], [("a", .str "q")]]
      = .ok [[.one], [.nan]] ∧
    transformStale ⟨[⟨"a", 0, ["x"]⟩], ["a=x"]⟩ true [[("a", .str "q")]] none = .error .unboundLocal := by
  decide +kernel

/-- **The repair changes nothing else**: on a frame in which every value of a fitted column is missing
or was kept at fit, the loop as it was written before the repair (stale `p`) computes exactly what the
repaired loop computes, whatever `skip_errors`. -/
theorem repair_changes_only_unseen_cells (st : Fitted) (skip : Bool) :
    ∀ (rows : List Row) (p : Option Int), (∀ r ∈ rows, RowSeen st.cols r) →
      transformStale st skip rows p = mapE (indicators st skip) rows := by
  intro rows
  induction rows with
  | nil => intro p _; rfl
  | cons r rs ih =>
    intro p hall
    have h1 := fillRowStale_eq_of_seen skip r st.cols (List.replicate st.schema.length .nan) p
      (hall r (by simp))
    simp only [transformStale, mapE, indicators]
    rw [← h1]
    cases hf : fillRowStale skip r st.cols (List.replicate st.schema.length .nan) p with
    | error e => rfl
    | ok ap =>
      obtain ⟨a, p'⟩ := ap
      simp only []
      rw [ih p' (fun x hx => hall x (by simp [hx]))]
      cases mapE (indicators st skip) rs <;> rfl

/-! ### the tie to the functions the model transcribes -/

/-- the functions the hand-written model transcribes have, in the current source, the control skeleton (tests, loop
headers, kinds of statements and the names they bind) they had when the model was written and validated: no branch,
loop, early exit or rebinding has been added that the model does not describe -/
theorem modelled_functions_have_the_transcribed_shape :
    MlVerif.Gen.C19.shapeFit =
      "sig(self, X, y=None, **fit_params)|if(not isinstance(X, pandas.DataFrame)){raise};if(self.columns){columns=}else{columns=};self._fit_columns=;max_cat=;self._categories=;for(c in columns){distinct=;nb=;if(nb >= max_cat){raise};self._categories[]=};self._schema=;return" ∧
    MlVerif.Gen.C19.shapeBuildSchema =
      "sig(self)|schema=;position=;new_vector=;last=;for((c,v) in self._categories.items()){sch=;if(self.remove){sch=};position[]=;new_vector[]=;lastAdd=;call extend};return" ∧
    MlVerif.Gen.C19.shapeTransform =
      "sig(self, X, y=None)|if(not isinstance(X, pandas.DataFrame)){raise};if(self.single){b=;def transform{if(v in vec){return};if(v is None){return};if(isinstance(v, float) and numpy.isnan(v)){return};if(not self.skip_errors){lv=;if(len(lv) > 20){lv=;call append};raise};return};(sch,pos,new_vector)=;X=;for(c in self._fit_columns){X[]=};return}else{dfcat=;dfnum=;(sch,pos,new_vector)=;vec=;res=;call fill;b=;for((i,row) in enumerate(dfcat.to_dict('records'))){for((k,v) in row.items()){if(v is None or (isinstance(v, float) and numpy.isnan(v))){continue};if(v not in vec[k]){if(b){lv=;if(len(lv) > 20){lv=;call append};raise};continue}else{p=};res[]=}};if(dfnum.shape[1] > 0){newdf=;allnum=}else{allnum=};return}" :=
  ⟨rfl, rfl, rfl⟩

/-! ### non-vacuity: concrete instances satisfying the hypotheses -/

def exX : Frame :=
  ⟨[("a", true), ("n", false), ("b", true)], [10, 5, 7],
   [[("a", .str "y"), ("n", .num 1), ("b", .str "u")],
    [("a", .str "x"), ("n", .num 2), ("b", .missing)],
    [("a", .missing), ("n", .num 3), ("b", .str "w")]]⟩
def exCfg (skip single : Bool) : Config := ⟨none, ["b=w"], skip, single⟩
def exSt : Fitted := ⟨[⟨"a", 0, ["x", "y"]⟩, ⟨"b", 2, ["u"]⟩], ["a=x", "a=y", "b=u"]⟩

example : fit (exCfg true false) exX = .ok exSt := by decide +kernel
example : maxCat 3 = 10000 ∧ tooMany 2 3 = false := by decide +kernel
-- a seen value: exactly its own indicator; pass-through first
example : encodeRow exSt false [("a", .str "y"), ("n", .num 1), ("b", .str "u")]
    = .ok [.keep (.num 1), .nan, .one, .one] := by decide +kernel
-- missing: no indicator
example : encodeRow exSt false [("a", .missing), ("n", .num 3), ("b", .str "u")]
    = .ok [.keep (.num 3), .nan, .nan, .one] := by decide +kernel
-- unseen (and removed) values: error, or skipped like a missing value
example : transform exSt (exCfg false false) exX = .error .valueError := by decide +kernel
example : FrameOK exSt exX := by
  refine ⟨by decide, ?_⟩
  intro r hr
  simp only [exX, List.mem_cons, List.not_mem_nil, or_false] at hr
  rcases hr with h | h | h <;> subst h <;> intro ci hci <;>
    simp only [exSt, List.mem_cons, List.not_mem_nil, or_false] at hci <;>
    rcases hci with h | h <;> subst h <;> simp [List.lookup]
example : transform exSt (exCfg true false) exX
    = .ok ⟨["n", "a=x", "a=y", "b=u"], [10, 5, 7],
           [[.keep (.num 1), .nan, .one, .one], [.keep (.num 2), .one, .nan, .nan],
            [.keep (.num 3), .nan, .nan, .nan]]⟩ := by decide +kernel
-- single: ranks
example : transform exSt (exCfg true true) exX
    = .ok ⟨["a", "n", "b"], [10, 5, 7],
           [[.rank 1, .keep (.num 1), .rank 0], [.rank 0, .keep (.num 2), .nan],
            [.nan, .keep (.num 3), .nan]]⟩ := by decide +kernel

example : transform exSt (exCfg false true) exX = .error .valueError := by decide +kernel
example : FrameOKSingle exSt exX := by
  refine ⟨by decide, ?_⟩
  intro r hr kv hkv hname n
  simp only [exX, List.mem_cons, List.not_mem_nil, or_false] at hr
  simp only [exSt, fittedNames, List.map_cons, List.map_nil, List.mem_cons, List.not_mem_nil, or_false] at hname
  rcases hr with h | h | h <;> subst h <;>
    simp only [List.mem_cons, List.not_mem_nil, or_false] at hkv <;>
    rcases hkv with h | h | h <;> subst h <;> simp at hname ⊢
-- row 2 holds the removed (hence unseen) modality b=w: replacing it by a missing value changes nothing
example : transform exSt (exCfg true false) { exX with rows := exX.rows.set 2 (setCol "b" .missing (exX.rows[2]'(by decide))) }
    = transform exSt (exCfg true false) exX := by decide +kernel
example : RowSeen exSt.cols [("a", .str "y"), ("n", .num 1), ("b", .missing)] := by
  intro ci hci
  simp only [exSt, List.mem_cons, List.not_mem_nil, or_false] at hci
  rcases hci with h | h <;> subst h <;> simp [List.lookup]

end MlVerif.C19
