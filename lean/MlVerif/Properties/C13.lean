/-
C13 — Target transformations are undone exactly by their reciprocal.
Property theorems only.  `MlVerif.Gen.C13.table` is regenerated from
`FunctionReciprocalTransformer.available_fcts()` on every run: the first four theorems are
statements about what the source says *now*.  The permutation theorems are about
`Model/Perm.lean` (tied to the code by the correspondence run), for every label list, every
drawn permutation `lin`, every total order on labels and every inner classifier output.
-/
import MlVerif.Gen.C13
import MlVerif.Model.FctTable
import MlVerif.Model.Perm
import MlVerif.Lemmas.FctTable
import MlVerif.Lemmas.Perm

namespace MlVerif.C13
open MlVerif.FctTable MlVerif.Perm MlVerif.Gen.C13

/-! ### the table of predefined functions -/

/-- finite check on the regenerated table: every entry names an existing entry whose chain is (after
writing `log1p`/`expm1` with `log`/`exp`) the syntactic inverse of its own, and names are not repeated -/
theorem table_checks :
    (∀ e ∈ table, checkEntry table e = true ∧ lookup table e.name = some e) ∧
      namesDistinct table = true := by
  decide

/-- For every entry `(name, f, inv)` of the generated table and every real `y` in f's domain,
`g (f y) = y` where `g` is the entry named `inv` (and `f y` lies in g's domain). -/
theorem table_inverse :
    ∀ e ∈ table, ∃ g, lookup table e.inv = some g ∧
      ∀ y : ℝ, dom e.fct y → dom g.fct (eval e.fct y) ∧ eval g.fct (eval e.fct y) = y := by
  intro e he
  exact checkEntry_sound table e (table_checks.1 e he).1

/-- and the other way round: `f (g p) = p` for every `p` in the domain of the named inverse `g` -/
theorem table_inverse_back :
    ∀ e ∈ table, ∃ g, lookup table e.inv = some g ∧
      ∀ p : ℝ, dom g.fct p → dom e.fct (eval g.fct p) ∧ eval e.fct (eval g.fct p) = p := by
  intro e he
  exact checkEntry_sound_back table e (table_checks.1 e he).1

/-- `FunctionReciprocalTransformer(name)`: `transform` then `get_fct_inv().transform` gives the
targets back, for every predefined name and every target in the function's domain -/
theorem fct_roundtrip :
    ∀ e ∈ table, ∃ f invName g ginv, fctFit table e.name = some (f, invName) ∧
      fctGetInv table e.name = some (invName, g, ginv) ∧
      ∀ y : ℝ, dom f y → eval g (eval f y) = y := by
  intro e he
  obtain ⟨g, h1, h2⟩ := table_inverse e he
  have h3 := (table_checks.1 e he).2
  refine ⟨e.fct, e.inv, g.fct, g.inv, by simp [fctFit, h3], by simp [fctGetInv, fctFit, h3, h1], ?_⟩
  intro y hy
  exact (h2 y hy).2

/-- TransformedTargetRegressor2 with a predefined name: the inner regressor is trained on `f(y)` and
`predict` returns `g(inner prediction)` with `f (g p) = p` for every inner prediction `p` in g's
domain — it predicts the inverse function of what its regressor predicts — and `g (f y) = y`. -/
theorem regressor_predict_is_inverse_of_inner :
    ∀ e ∈ table, ∃ f g, regressorChains table e.name = some (f, g) ∧ f = e.fct ∧
      (∀ p : ℝ, dom g p → dom f (eval g p) ∧ eval f (eval g p) = p) ∧
      (∀ y : ℝ, dom f y → dom g (eval f y) ∧ eval g (eval f y) = y) := by
  intro e he
  obtain ⟨g, h1, h2⟩ := table_inverse e he
  obtain ⟨g', h1', h2'⟩ := table_inverse_back e he
  have e' : g' = g := by rw [h1] at h1'; exact (Option.some.inj h1').symm
  subst e'
  have h3 := (table_checks.1 e he).2
  exact ⟨e.fct, g'.fct, by simp [regressorChains, fctGetInv, fctFit, h3, h1], rfl, h2', h2⟩

/-- why the pairing found on the unrepaired tree (`"exp(x)-1"` with inverse `"log"`) is wrong over the
reals, not only syntactically: at `y = log 2`, `log (exp y - 1) = 0 ≠ y` -/
theorem exp_minus_one_then_log_counterexample :
    ∃ y : ℝ, dom [Prim.exp, Prim.addC (-1)] y ∧
      eval [Prim.log] (eval [Prim.exp, Prim.addC (-1)] y) ≠ y := by
  refine ⟨Real.log 2, by simp [dom, domPrim], ?_⟩
  have h2 : (0 : ℝ) < 2 := by norm_num
  have e : eval [Prim.log] (eval [Prim.exp, Prim.addC (-1)] (Real.log 2)) = 0 := by
    show Real.log (Real.exp (Real.log 2) + ((-1 : Int) : ℝ)) = 0
    rw [Real.exp_log h2]
    push_cast
    norm_num
  rw [e]
  have hp : (0 : ℝ) < Real.log 2 := Real.log_pos (by norm_num)
  exact ne_of_lt hp

/-! ### PermutationReciprocalTransformer -/

/-- For every target list `y` (NaN = `none`) and every drawn permutation `lin` of `0..k-1`:
`fit` succeeds, and for every array `q` whose labels are in the fitted set, `transform` followed by
`get_fct_inv().transform` returns `q`: NaN stays NaN exactly where it was, `X` is returned as given.
Holds for float arrays (`labels`) and integer / string arrays (`plain`). -/
theorem perm_roundtrip {α ξ : Type} [DecidableEq α] (y : List (Option α)) (lin : List Nat)
    (hlin : lin.Perm (List.range (number y).length)) :
    ∃ fwd, fit y lin = .ok fwd ∧
      (∀ (X : ξ) (q : List (Option α)), (∀ u, some u ∈ q → some u ∈ y) →
        ∃ qT, transform fwd X (.labels q) = .ok (X, .labels qT) ∧
          transform (getFctInv fwd) X (.labels qT) = .ok (X, .labels q) ∧
          qT.map Option.isSome = q.map Option.isSome) ∧
      (∀ (X : ξ) (q : List α), (∀ u ∈ q, some u ∈ y) →
        ∃ qT, transform fwd X (.plain q) = .ok (X, .plain qT) ∧
          transform (getFctInv fwd) X (.plain qT) = .ok (X, .plain q)) := by
  obtain ⟨fwd, h1, hf, _, _, hmem⟩ := fit_fitted y lin hlin
  have hinv := getFctInv_eq fwd hf.values_nodup
  refine ⟨fwd, h1, ?_, ?_⟩
  · intro X q hq
    obtain ⟨qT, a, b, c, _⟩ := labels_roundtrip fwd hf.keys_nodup hf.values_nodup q
      (fun u hu => (hmem u).mpr (hq u hu))
    exact ⟨qT, by simp [transform, transformLab, a, Except.map],
      by simp [transform, transformLab, hinv, b, Except.map], c⟩
  · intro X q hq
    obtain ⟨qT, a, b, _, _⟩ := plain_roundtrip fwd hf.keys_nodup hf.values_nodup q
      (fun u hu => (hmem u).mpr (hq u hu))
    exact ⟨qT, by simp [transform, transformLab, a, Except.map],
      by simp [transform, transformLab, hinv, b, Except.map]⟩

/-- in particular on the training targets themselves -/
theorem perm_roundtrip_training {α ξ : Type} [DecidableEq α] (y : List (Option α)) (lin : List Nat)
    (hlin : lin.Perm (List.range (number y).length)) (X : ξ) :
    ∃ fwd yT, fit y lin = .ok fwd ∧ transform fwd X (.labels y) = .ok (X, .labels yT) ∧
      transform (getFctInv fwd) X (.labels yT) = .ok (X, .labels y) ∧
      yT.map Option.isSome = y.map Option.isSome := by
  obtain ⟨fwd, h1, h2, _⟩ := perm_roundtrip (ξ := ξ) y lin hlin
  obtain ⟨yT, a, b, c⟩ := h2 X y (fun u hu => hu)
  exact ⟨fwd, yT, h1, a, b, c⟩

/-- the guard the code enforces with `closest=False`: a label outside the fitted set is rejected -/
theorem perm_unseen_label_raises {α : Type} [DecidableEq α] (y : List (Option α)) (lin : List Nat)
    (hlin : lin.Perm (List.range (number y).length)) (q : List α) (u : α) (hu : u ∈ q)
    (hnot : some u ∉ y) :
    ∃ fwd, fit y lin = .ok fwd ∧ transformPlain fwd q = .error .runtimeError := by
  obtain ⟨fwd, h1, _, _, _, hmem⟩ := fit_fitted y lin hlin
  exact ⟨fwd, h1, plain_unseen_raises fwd q u hu (fun h => hnot ((hmem u).mp h))⟩

/-- `get_fct_inv` is an involution on fitted transformers: for every target list and every drawn permutation,
the transformer returned by `get_fct_inv().get_fct_inv()` holds the dictionary `fit` produced, entry by entry and in
the same order (so "the one returned by get_fct_inv" can itself be reversed, as TransformedTargetClassifier2 does
when it is cloned and refitted). -/
theorem get_fct_inv_involutive {α : Type} [DecidableEq α] (y : List (Option α)) (lin : List Nat)
    (hlin : lin.Perm (List.range (number y).length)) :
    ∃ fwd, fit y lin = .ok fwd ∧ getFctInv (getFctInv fwd) = fwd := by
  obtain ⟨fwd, h1, hf, _, _, _⟩ := fit_fitted y lin hlin
  refine ⟨fwd, h1, ?_⟩
  rw [getFctInv_eq fwd hf.values_nodup,
    getFctInv_eq (fwd.map swap) (by rw [swap_values]; exact hf.keys_nodup), fitted_swap_swap]

/-! ### `closest=True`: the nearest-neighbour fallback of the label branch

`_find_closest` (scikit-learn's kd-tree over `list(permutation_)`) is a parameter `near` of the
model; the theorems hold for every such function (first group) or for every one that returns a
key of the dictionary it searches (second group; `nearest_mem` shows the model's own `nearest`
does). -/

/-- The round trip of the property is not affected by `closest=True`, whatever the search returns:
on every array of fitted labels the transformer and the one returned by `get_fct_inv` (which
inherits `closest`) give the original targets back, NaN stays NaN. -/
theorem closest_roundtrip {α : Type} [DecidableEq α] (nearF : Dict α Nat → α → α)
    (nearI : Dict Nat α → Nat → Nat) (y : List (Option α)) (lin : List Nat)
    (hlin : lin.Perm (List.range (number y).length)) :
    ∃ fwd, fit y lin = .ok fwd ∧
      (∀ q : List (Option α), (∀ u, some u ∈ q → some u ∈ y) →
        ∃ qT, transformLabelsC nearF fwd q = .ok qT ∧
          transformLabelsC nearI (getFctInv fwd) qT = .ok q ∧
          qT.map Option.isSome = q.map Option.isSome) ∧
      (∀ q : List α, (∀ u ∈ q, some u ∈ y) →
        ∃ qT, transformPlainC nearF fwd q = .ok qT ∧
          transformPlainC nearI (getFctInv fwd) qT = .ok q) := by
  obtain ⟨fwd, h1, hf, _, _, hmem⟩ := fit_fitted y lin hlin
  have hinv := getFctInv_eq fwd hf.values_nodup
  refine ⟨fwd, h1, ?_, ?_⟩
  · intro q hq
    obtain ⟨qT, a, b, c, _⟩ := labels_roundtrip fwd hf.keys_nodup hf.values_nodup q
      (fun u hu => (hmem u).mpr (hq u hu))
    exact ⟨qT, labelsC_of_labels nearF fwd q qT a,
      by rw [hinv]; exact labelsC_of_labels nearI _ qT q b, c⟩
  · intro q hq
    obtain ⟨qT, a, b, _, _⟩ := plain_roundtrip fwd hf.keys_nodup hf.values_nodup q
      (fun u hu => (hmem u).mpr (hq u hu))
    exact ⟨qT, plainC_of_plain nearF fwd q qT a,
      by rw [hinv]; exact plainC_of_plain nearI _ qT q b⟩

/-- `closest=True` changes nothing that `closest=False` accepts: same output, cell by cell. -/
theorem closest_agrees_where_strict_succeeds {κ β : Type} [DecidableEq κ]
    (near : Dict κ β → κ → κ) (d : Dict κ β) :
    (∀ (q : List κ) (r : List β), transformPlain d q = .ok r → transformPlainC near d q = .ok r) ∧
    (∀ (q : List (Option κ)) (r : List (Option β)), transformLabels d q = .ok r →
      transformLabelsC near d q = .ok r) :=
  ⟨plainC_of_plain near d, labelsC_of_labels near d⟩

/-- With a search that returns fitted labels, `closest=True` accepts every label array (no
RuntimeError, no KeyError), every output is a code drawn by `fit`, and the inverse transformer maps
the output to the array in which each unseen label is replaced by the label the search returned:
fitted labels come back exactly, unseen ones are projected on the fitted set. -/
theorem closest_projects_on_fitted_labels {α : Type} [DecidableEq α] (near : Dict α Nat → α → α)
    (y : List (Option α)) (lin : List Nat) (hlin : lin.Perm (List.range (number y).length))
    (hn : ∀ d u, d ≠ [] → near d u ∈ Dict.keys d) (hne : ∃ u, some u ∈ y) (q : List α) :
    ∃ fwd r, fit y lin = .ok fwd ∧ transformPlainC near fwd q = .ok r ∧ (∀ c ∈ r, c ∈ lin) ∧
      transformPlain (getFctInv fwd) r =
        .ok (q.map (fun u => if u ∈ Dict.keys fwd then u else near fwd u)) ∧
      (∀ u, u ∈ Dict.keys fwd ↔ some u ∈ y) := by
  obtain ⟨fwd, h1, hf, _, hvals, hmem⟩ := fit_fitted y lin hlin
  have hinv := getFctInv_eq fwd hf.values_nodup
  have hne' : fwd ≠ [] := by
    obtain ⟨u, hu⟩ := hne
    intro e
    have := (hmem u).mpr hu
    simp [e, Dict.keys] at this
  obtain ⟨r, hr1, hr2, hr3⟩ := plainC_total near fwd (fun u => hn fwd u hne') q
  refine ⟨fwd, r, h1, hr1, fun c hc => hvals ▸ hr2 c hc, ?_, hmem⟩
  let sel : α → α := fun u => if u ∈ Dict.keys fwd then u else near fwd u
  have hsel : ∀ u ∈ q.map sel, u ∈ Dict.keys fwd := by
    intro u hu
    obtain ⟨v, _, rfl⟩ := List.mem_map.mp hu
    by_cases hv : v ∈ Dict.keys fwd
    · simp [sel, hv]
    · simp only [sel, hv, if_false]; exact hn fwd v hne'
  obtain ⟨qT, a, b, _, _⟩ := plain_roundtrip fwd hf.keys_nodup hf.values_nodup (q.map sel) hsel
  have hs := transformPlain_spec fwd (q.map sel) qT a
  have : r.map some = qT.map some := by
    rw [hr3, ← hs, List.map_map]; rfl
  have hrq : r = qT := List.map_injective_iff.mpr (Option.some_injective _) this
  rw [hinv, hrq]
  exact b

/-- The hypothesis of `closest_projects_on_fitted_labels` is met by a genuine nearest-neighbour search: for
every distance `dist`, the model's `nearest` with "strictly closer" = smaller distance returns a key of every
non-empty dictionary, and no key is closer to the query than the one returned (what `NearestNeighbors(1)` promises,
up to the choice among equidistant keys, which the model fixes as the first in dictionary order). -/
theorem closest_model_search_is_nearest {κ β : Type} (dist : κ → κ → Nat) (d : Dict κ β) (u : κ) (h : d ≠ []) :
    nearest (fun u k best => decide (dist u k < dist u best)) d u ∈ Dict.keys d ∧
      ∀ k ∈ Dict.keys d, dist u (nearest (fun u k best => decide (dist u k < dist u best)) d u) ≤ dist u k :=
  ⟨nearest_mem _ d u h, nearest_min dist d u⟩

/-! ### TransformedTargetClassifier2 (transformer = permutation) -/

/-- `predict` returns original labels: for every inner prediction list made of codes the inner
classifier was trained on, the output is the list of training labels whose codes are those
predictions (re-encoding the output gives the inner predictions back). -/
theorem classifier_predict_original_labels {α : Type} [DecidableEq α] (ys : List α) (lin : List Nat)
    (hlin : lin.Perm (List.range (number (ys.map some)).length)) :
    ∃ fwd codes, fit (ys.map some) lin = .ok fwd ∧ transformPlain fwd ys = .ok codes ∧
      ∀ innerPred : List Nat, (∀ c ∈ innerPred, c ∈ codes) →
        ∃ out, predict (getFctInv fwd) innerPred = .ok out ∧
          transformPlain fwd out = .ok innerPred ∧ ∀ l ∈ out, l ∈ ys := by
  obtain ⟨fwd, h1, hf, _, _, hmem⟩ := fit_fitted (ys.map some) lin hlin
  have hinv := getFctInv_eq fwd hf.values_nodup
  obtain ⟨codes, a, _, _, hc⟩ := plain_roundtrip fwd hf.keys_nodup hf.values_nodup ys
    (fun u hu => (hmem u).mpr (List.mem_map.mpr ⟨u, hu, rfl⟩))
  refine ⟨fwd, codes, h1, a, ?_⟩
  intro innerPred hin
  have hk : (Dict.keys (fwd.map swap)).Nodup := by rw [swap_keys]; exact hf.values_nodup
  have hv : (Dict.values (fwd.map swap)).Nodup := by rw [swap_values]; exact hf.keys_nodup
  obtain ⟨out, b, c, _, d⟩ := plain_roundtrip (fwd.map swap) hk hv innerPred
    (fun c hcm => by rw [swap_keys]; exact hc c (hin c hcm))
  rw [fitted_swap_swap] at c
  refine ⟨out, by simpa [predict, hinv] using b, c, ?_⟩
  intro l hl
  have := d l hl
  rw [swap_values] at this
  have := (hmem l).mp this
  simpa using this

/-- `classes_[j]` is the label of probability column `j`: `classes_` is the sorted list of the
distinct training labels, and in every row column `j` of `predict_proba` is the inner classifier's
column for the code of `classes_[j]` (inner classes are the codes `0..k-1`, scikit-learn's contract). -/
theorem classes_align_with_proba_columns {α γ : Type} [DecidableEq α] (le : α → α → Bool)
    (hle : IsLinearLe le) (ys : List α) (lin : List Nat)
    (hlin : lin.Perm (List.range (number (ys.map some)).length)) :
    ∃ fwd cls, fit (ys.map some) lin = .ok fwd ∧
      classes le (getFctInv fwd) (List.range fwd.length) = .ok cls ∧
      cls.Pairwise (fun a b => le a b = true) ∧ cls.Perm (number (ys.map some)).keys ∧
      ∀ rows : List (List γ), (∀ row ∈ rows, row.length = fwd.length) →
        ∃ outs, predictProba le (getFctInv fwd) rows = .ok outs ∧
          outs.map (fun o => o.map some) =
            rows.map (fun row => cls.map (fun l => (fwd.get? l).bind (fun c => row[c]?))) := by
  obtain ⟨fwd, h1, hf, hkeys, _, _⟩ := fit_fitted (ys.map some) lin hlin
  have hinv := getFctInv_eq fwd hf.values_nodup
  refine ⟨fwd, (sorted le fwd).map (·.1), h1, by rw [hinv]; exact classes_spec hle hf,
    sorted_keys_pairwise hle fwd, ?_, ?_⟩
  · rw [← hkeys]
    exact List.Perm.map (fun p : α × Nat => p.1) (sorted_perm (le := le) fwd)
  · intro rows hrows
    obtain ⟨outs, a, b⟩ := transformProba_spec (le := le) hf rows hrows
    refine ⟨outs, by simpa [predictProba, hinv] using a, ?_⟩
    rw [b]
    apply List.map_congr_left
    intro row _
    rw [List.map_map]
    apply List.map_congr_left
    intro p hp
    have hp' : p ∈ fwd := ((sorted_perm (le := le) fwd).mem_iff).mp hp
    simp [Dict.get?_of_mem fwd hf.keys_nodup p hp']

/-- For a label-permutation-equivariant learner, TransformedTargetClassifier2 agrees with the plain
classifier trained on the original labels: same predictions, and the probability matrix is the plain
one (columns = sorted distinct labels, `cls`), whatever permutation was drawn.
`plainPred` is what the plain classifier predicts on the queries `xs` (training labels, scikit-learn's
contract); the inner classifier's classes are the codes `0..k-1`. -/
theorem equivariant_learner_agrees {α ι γ : Type} [DecidableEq α] (L : Learner ι γ)
    (hL : L.Equivariant) (le : α → α → Bool) (hle : IsLinearLe le) (ys : List α) (lin : List Nat)
    (hlin : lin.Perm (List.range (number (ys.map some)).length))
    (xs : List ι) (plainPred : List α) (hplain : xs.map (L.predict ys) = plainPred.map some)
    (hclosed : ∀ l ∈ plainPred, l ∈ ys) :
    ∃ fwd codes cls, fit (ys.map some) lin = .ok fwd ∧ transformPlain fwd ys = .ok codes ∧
      classes le (getFctInv fwd) (List.range fwd.length) = .ok cls ∧
      (∃ innerPred, xs.map (L.predict codes) = innerPred.map some ∧
        predict (getFctInv fwd) innerPred = .ok plainPred) ∧
      predictProba le (getFctInv fwd) (xs.map (fun x => (List.range fwd.length).map (L.proba codes x)))
        = .ok (xs.map (fun x => cls.map (L.proba ys x))) := by
  obtain ⟨fwd, h1, hf, hkeys, _, hmem⟩ := fit_fitted (ys.map some) lin hlin
  have hinv := getFctInv_eq fwd hf.values_nodup
  have hys : ∀ u ∈ ys, u ∈ fwd.keys := fun u hu => (hmem u).mpr (List.mem_map.mpr ⟨u, hu, rfl⟩)
  have hys' : ∀ u ∈ fwd.keys, u ∈ ys := fun u hu => by simpa using (hmem u).mp hu
  -- the relabelling σ : label ↦ code
  let σ : α → Nat := fun u => (fwd.get? u).getD 0
  have hσ : ∀ u ∈ fwd.keys, fwd.get? u = some (σ u) := by
    intro u hu
    obtain ⟨v, hv⟩ := Dict.get?_isSome_of_mem_keys fwd u hu
    simp [σ, hv]
  have htr : ∀ q : List α, (∀ u ∈ q, u ∈ fwd.keys) → transformPlain fwd q = .ok (q.map σ) := by
    intro q hq
    apply mapE_ok
    intro u hu
    exact lookupE_some fwd u _ (hσ u (hq u hu))
  have hk : (Dict.keys (fwd.map swap)).Nodup := by rw [swap_keys]; exact hf.values_nodup
  have hback : ∀ u ∈ fwd.keys, Dict.get? (fwd.map swap) (σ u) = some u := by
    intro u hu
    have h2 := Dict.mem_of_get? fwd u _ (hσ u hu)
    have h4 : swap (u, σ u) ∈ fwd.map swap := List.mem_map.mpr ⟨_, h2, rfl⟩
    simpa [swap] using Dict.get?_of_mem _ hk _ h4
  have hinj : ∀ a ∈ ys, ∀ b ∈ ys, σ a = σ b → a = b := by
    intro a ha b hb e
    have h6 := hback a (hys a ha)
    rw [e, hback b (hys b hb)] at h6
    exact (Option.some.inj h6).symm
  have hcls := classes_spec hle hf
  refine ⟨fwd, ys.map σ, (sorted le fwd).map (·.1), h1, htr ys hys, by rw [hinv]; exact hcls, ?_, ?_⟩
  · -- predictions
    refine ⟨plainPred.map σ, ?_, ?_⟩
    · have : xs.map (L.predict (ys.map σ)) = xs.map (fun x => (L.predict ys x).map σ) := by
        apply List.map_congr_left
        intro x _
        exact (hL σ ys hinj x).2
      rw [this]
      have := congrArg (List.map (Option.map σ)) hplain
      simpa [List.map_map, Function.comp_def] using this
    · rw [predict, hinv]
      have hpp : ∀ u ∈ plainPred, u ∈ fwd.keys := fun u hu => hys u (hclosed u hu)
      obtain ⟨qT, q1, q2, _, _⟩ := plain_roundtrip fwd hf.keys_nodup hf.values_nodup plainPred hpp
      rw [htr plainPred hpp] at q1
      have q3 := Except.ok.inj q1
      subst q3
      exact q2
  · -- probabilities
    have hrows : ∀ row ∈ xs.map (fun x => (List.range fwd.length).map (L.proba (ys.map σ) x)),
        row.length = fwd.length := by
      intro row hrow
      obtain ⟨x, _, rfl⟩ := List.mem_map.mp hrow
      simp
    obtain ⟨outs, a, b⟩ := transformProba_spec (le := le) hf _ hrows
    rw [predictProba, hinv, a]
    congr 1
    have e : (xs.map (fun x => (List.range fwd.length).map (L.proba (ys.map σ) x))).map
          (fun row => (sorted le fwd).map (fun p => row[p.2]?))
        = (xs.map (fun x => ((sorted le fwd).map (·.1)).map (L.proba ys x))).map
          (fun o => o.map some) := by
      rw [List.map_map, List.map_map]
      apply List.map_congr_left
      intro x _
      simp only [Function.comp, List.map_map]
      apply List.map_congr_left
      intro p hp
      have hp' : p ∈ fwd := ((sorted_perm (le := le) fwd).mem_iff).mp hp
      have hkey : p.1 ∈ fwd.keys := List.mem_map.mpr ⟨p, hp', rfl⟩
      have hcode : σ p.1 = p.2 := by
        have h2 := Dict.get?_of_mem fwd hf.keys_nodup p hp'
        rw [hσ p.1 hkey] at h2
        exact Option.some.inj h2
      have hlt : p.2 < fwd.length := by
        have : p.2 ∈ fwd.values := List.mem_map.mpr ⟨p, hp', rfl⟩
        exact List.mem_range.mp ((hf.values_perm.mem_iff).mp this)
      simp only [List.getElem?_map, List.getElem?_range hlt, Option.map_some]
      rw [← hcode, (hL σ ys hinj x).1 p.1 (hys' p.1 hkey)]
      rfl
    rw [e] at b
    have := congrArg (List.map (List.filterMap id)) b
    simpa [List.map_map, List.filterMap_map, Function.comp_def] using this

/-! ### the tie to the functions the model transcribes -/

/-- the functions the hand-written model transcribes have, in the current source, the control skeleton (tests, loop
headers, kinds of statements and the names they bind) they had when the model was written and validated: no branch,
loop, early exit or rebinding has been added that the model does not describe -/
theorem modelled_functions_have_the_transcribed_shape :
    MlVerif.Gen.C13.shapeFctFit =
      "sig(self, X=None, y=None, sample_weight=None)|if(callable(self.fct)){self.fct_=;self.fct_inv_=}else{opts=;(self.fct_,self.fct_inv_)=};return" ∧
    MlVerif.Gen.C13.shapeFctTransform =
      "sig(self, X, y)|if y is None: return (X, None) ; return (X, self.fct_(y))" ∧
    MlVerif.Gen.C13.shapeFctInv =
      "sig(self)|if(isinstance(self.fct_inv_, str)){res=}else{res=};return" ∧
    MlVerif.Gen.C13.shapePermFit =
      "sig(self, X=None, y=None, sample_weight=None)|assert;num=;perm=;for(u in y.ravel()){if(num and numpy.isnan(u)){continue};if(u in perm){continue};perm[]=};lin=;if(self.random_state is None){lin=}else{rs=;lin=};perm_keys=;for(u in perm_keys){perm[]=};self.permutation_=;if(hasattr(self, 'knn_')){del self.knn_};if(hasattr(self, 'knn_perm_')){del self.knn_perm_};return" ∧
    MlVerif.Gen.C13.shapePermTransform =
      "sig(self, X, y)|if(y is None){return};call _check_is_fitted;if(len(y.shape) == 1 or y.dtype in (numpy.str_, numpy.int32, numpy.int64)){yp=;num=;res=;for(i in range(len(yp))){if(num and numpy.isnan(yp[i])){call append;continue};if(yp[i] not in self.permutation_){if(self.closest){cl=}else{raise}}else{cl=};call append};if(len(res) > 0){yp=};return}else{assert;cl=;call sort;new_perm=;for((cl,current) in cl){new_perm[]=};yp=;for(i in range(y.shape[1])){yp[]=};return}" ∧
    MlVerif.Gen.C13.shapePermInv =
      "sig(self)|call _check_is_fitted;res=;res.permutation_=;return" ∧
    MlVerif.Gen.C13.shapeRegFit =
      "sig(self, X, y, sample_weight=None)|self.transformer_ = _common_get_transform(self.transformer, True) ; self.transformer_.fit(X, y, sample_weight=sample_weight) ; X_trans, y_trans = self.transformer_.transform(X, y) ; if self.regressor is None: self.regressor_ = LinearRegression() else: self.regressor_ = clone(self.regressor) ; if sample_weight is None: self.regressor_.fit(X_trans, y_trans) else: self.regressor_.fit(X_trans, y_trans, sample_weight=sample_weight) ; return self" ∧
    MlVerif.Gen.C13.shapeRegPredict =
      "sig(self, X)|if not hasattr(self, 'regressor_'): raise NotFittedError(f'This instance {type(self)} is not fitted yet. Call 'fit' with appropriate arguments before using this method.') ; X_trans, _ = self.transformer_.transform(X, None) ; pred = self.regressor_.predict(X_trans) ; inv = self.transformer_.get_fct_inv() ; _, pred_inv = inv.transform(X_trans, pred) ; return pred_inv" ∧
    MlVerif.Gen.C13.shapeClfFit =
      "sig(self, X, y, sample_weight=None)|self.transformer_ = _common_get_transform(self.transformer, False) ; self.transformer_.fit(X, y, sample_weight=sample_weight) ; X_trans, y_trans = self.transformer_.transform(X, y) ; if self.classifier is None: self.classifier_ = LogisticRegression() else: self.classifier_ = clone(self.classifier) ; if sample_weight is None: self.classifier_.fit(X_trans, y_trans) else: self.classifier_.fit(X_trans, y_trans, sample_weight=sample_weight) ; return self" ∧
    MlVerif.Gen.C13.shapeClfApply =
      "sig(self, X, method)|self._check_is_fitted() ; assert hasattr(self.classifier_, method), f'Unable to find method {method!r} in model {type(self.classifier_)}.' ; meth = getattr(self.classifier_, method) ; X_trans, _ = self.transformer_.transform(X, None) ; pred = meth(X_trans) ; inv = self.transformer_.get_fct_inv() ; _, pred_inv = inv.transform(X_trans, pred) ; return pred_inv" ∧
    MlVerif.Gen.C13.shapeClfClasses =
      "sig(self)|self._check_is_fitted() ; inv = self.transformer_.get_fct_inv() ; _, pred_inv = inv.transform(None, self.classifier_.classes_) ; return numpy.sort(pred_inv)" ∧
    MlVerif.Gen.C13.shapeClfPredict =
      "sig(self, X)|return" ∧
    MlVerif.Gen.C13.shapeClfPredictProba =
      "sig(self, X)|return" :=
  ⟨rfl, rfl, rfl, rfl, rfl, rfl, rfl, rfl, rfl, rfl, rfl, rfl, rfl⟩

/-! ### non-vacuity: concrete instances satisfying the hypotheses -/

-- the hypothesis on the label order is satisfiable: `≤` on integers
example : IsLinearLe leInt := leInt_linear

-- the table is not empty and `log(1+x)` is defined at 0 (where `log` alone is not)
example : table ≠ [] := by decide
example : dom [Prim.addC 1, Prim.log] (0 : ℝ) ∧ ¬ dom [Prim.log] (0 : ℝ) := by
  simp [dom, domPrim, evalPrim]
-- a float target with NaN, labels 3,1,2 in first-occurrence order, drawn permutation (2,0,1) ≠ identity
example : fit [some (3 : Int), none, some 1, some 3, some 2] [2, 0, 1] = .ok [(3, 2), (1, 0), (2, 1)] := by
  decide
example : [2, 0, 1].Perm (List.range (number [some (3 : Int), none, some 1, some 3, some 2]).length) := by
  decide
example : transform [((3 : Int), 2), (1, 0), (2, 1)] () (.labels [some 3, none, some 1, some 3, some 2])
    = .ok ((), .labels [some 2, none, some 0, some 2, some 1]) := by decide
example : transform (getFctInv [((3 : Int), 2), (1, 0), (2, 1)]) () (.labels [some 2, none, some 0, some 2, some 1])
    = .ok ((), .labels [some 3, none, some 1, some 3, some 2]) := by decide
-- classifier: labels 10,30,20 coded 2,1,0 (not monotone); inner columns are codes 0,1,2 = labels 20,30,10
/-- `closest=True`, non-vacuity: the model's own search meets the hypothesis of
`closest_projects_on_fitted_labels`, and an unseen label (7) is sent to the code of the nearest fitted
label (3) while `closest=False` rejects it -/
example : ∀ (d : Dict Int Nat) (u : Int), d ≠ [] →
    nearest (fun u k best => decide ((k - u).natAbs < (best - u).natAbs)) d u ∈ Dict.keys d :=
  fun d u h => nearest_mem _ d u h
example : transformPlainC (nearest (fun u k best => decide ((k - u).natAbs < (best - u).natAbs)))
    [((3 : Int), 2), (1, 0), (2, 1)] [1, 7, 3, -5] = .ok [0, 2, 2, 0] := by decide
example : transformPlain [((3 : Int), 2), (1, 0), (2, 1)] [1, 7, 3, -5] = .error .runtimeError := by decide
example : classes leInt (getFctInv [((10 : Int), 2), (30, 1), (20, 0)]) [0, 1, 2] = .ok [10, 20, 30] := by
  simp [classes, classesUnsorted, transformPlain, mapE, lookupE, Dict.get?, getFctInv, Dict.insert,
    Dict.contains, Except.map, List.mergeSort, leInt, List.MergeSort.Internal.splitInTwo]
example : predictProba leInt (getFctInv [((10 : Int), 2), (30, 1), (20, 0)]) [["p20", "p30", "p10"]]
    = .ok [["p10", "p20", "p30"]] := by
  simp [predictProba, transformProba, newPerm, sortedPairs, dests, scatter, lexLe, mapE, Dict.get?, getFctInv,
    Dict.insert, Dict.contains, List.mergeSort, leInt, List.MergeSort.Internal.splitInTwo,
    List.range, List.range.loop]
example : predict (getFctInv [((10 : Int), 2), (30, 1), (20, 0)]) [2, 2, 0, 1] = .ok [10, 10, 20, 30] := by
  decide
/-- what the tree computed before the repair (`classes_` in inner-classifier order): column 0 of
`predict_proba` is the probability of label 10 while `classes_[0]` was 20 -/
theorem classes_unsorted_counterexample :
    classesUnsorted (getFctInv [((10 : Int), 2), (30, 1), (20, 0)]) [0, 1, 2] = .ok [20, 30, 10] ∧
    classes leInt (getFctInv [((10 : Int), 2), (30, 1), (20, 0)]) [0, 1, 2] ≠ .ok [20, 30, 10] := by
  refine ⟨by decide, ?_⟩
  simp [classes, classesUnsorted, transformPlain, mapE, lookupE, Dict.get?, getFctInv, Dict.insert,
    Dict.contains, Except.map, List.mergeSort, leInt, List.MergeSort.Internal.splitInTwo]
-- an equivariant learner exists: score 1 for seen classes, predict the first training label
example : (⟨fun ys _ b => if b ∈ ys then (1 : Nat) else 0, fun ys _ => ys.head?⟩ : Learner Unit Nat).Equivariant := by
  intro β β' _ _ σ ys _ x
  refine ⟨?_, by simp [List.head?_map]⟩
  intro b hb
  have : σ b ∈ ys.map σ := List.mem_map_of_mem hb
  simp [hb, this]

end MlVerif.C13
