/-
C10 — DecisionTreeLogisticRegression is a consistent tree of binary classifiers.
Property theorems only.  `MlVerif.Gen.C10` (comparisons, guards, index arithmetic, wiring of masks) is
regenerated from the source on every run and the model `MlVerif.DTLR` is written in terms of it, so every
theorem below is a statement about what the source says *now*.  All theorems hold for every tree, every
batch and every behaviour of the node classifiers (`prob0`, `prob` are arbitrary functions of the row).
-/
import MlVerif.Gen.C10
import MlVerif.Model.DTLR
import MlVerif.Lemmas.DTLR

namespace MlVerif.C10
open MlVerif.Gen.C10 MlVerif.DTLR MlVerif.Scatter

/-! ### what the source says (regenerated tables) -/

/-- `predict_proba`: each child receives `X[mask]` for the mask its guard counts, and its result is written
back through the same mask; the probabilities come from the node's own classifier. -/
theorem gen_proba_wiring :
    probaWiring = [("above", "above", "X[above]", "prob[above]", "-"),
                   ("below", "below", "X[below]", "prob[below]", "-")] ∧
    probaProbSource = "self.estimator.predict_proba(X)" := ⟨rfl, rfl⟩

/-- `decision_path`: the node marks its own column for the rows it received, then each child receives
`X[mask]` and `indices[mask]` for the same mask and the same matrix. -/
theorem gen_path_wiring :
    pathWiring = [("above", "above", "X[above]", "indices[above]", "mat"),
                  ("below", "below", "X[below]", "indices[below]", "mat")] ∧
    pathProbSource = "self.estimator.predict_proba(X)" ∧
    pathMark = "mat[indices, self.index] = 1" := ⟨rfl, rfl, rfl⟩

/-- the public methods delegate to the root node as the model assumes -/
theorem gen_public_methods :
    publicPredict = "take(self.classes_, self.tree_.predict(X))" ∧
    predictProbSource = "self.predict_proba(X)" ∧
    publicProba = "self.tree_.predict_proba(X)" ∧
    publicPath = "(X.shape[0], self.n_nodes_) | self.tree_.decision_path(X, mat, numpy.arange(X.shape[0]))" ∧
    publicLeaves = "self.tree_.enumerate_leaves_index() | numpy.array(sorted(indices))" :=
  ⟨rfl, rfl, rfl, rfl, rfl⟩

/-- `fit`: each `_fit_side` call gets the labels, mask and count of its own side; a side that is not built
returns `None`; a built child keeps the threshold and is fitted on the rows of the mask -/
theorem gen_fit_wiring :
    fitWiring = [("(self.above, last)", "y_above", "set(y[above])", "above", "above"),
                 ("(self.below, last)", "y_below", "set(y[below])", "below", "below")] ∧
    sideSkippedChild = "None" ∧
    sideBuilds = "(node, last_index) | last_index = node.fit(X[above_below], y[above_below], sw, dtlr, total_N)" ∧
    childThreshold = "self.threshold" ∧
    rootFitCall = "self.tree_.fit(X, cls, sample_weight, self, X.shape[0])" ∧
    nodeInit = ["self.above=None", "self.below=None", "self.depth=depth", "self.estimator=estimator",
                "self.index=index", "self.threshold=threshold"] :=
  ⟨rfl, rfl, rfl, rfl, rfl, rfl⟩

/-- `enumerate_leaves_index` / `tree_depth_`: own index first, then the above side, then the below side -/
theorem gen_leaf_order :
    leafOrder = ["self.above is None or self.below is None -> self.index",
                 "self.above is not None -> for self.above.enumerate_leaves_index()",
                 "self.above is not None -> index",
                 "self.below is not None -> for self.below.enumerate_leaves_index()",
                 "self.below is not None -> index"] ∧
    depthInit = "self.depth" := ⟨rfl, rfl⟩

/-- a missing child is never dereferenced (the model's `none` branches are the code's) -/
theorem gen_guards_protect_none (n : Int) :
    probaGuardAbove false n = false ∧ probaGuardBelow false n = false ∧
    pathGuardAbove false n = false ∧ pathGuardBelow false n = false := by
  unfold probaGuardAbove probaGuardBelow pathGuardAbove pathGuardBelow
  simp

/-- the three traversals (predict_proba, decision_path, fit) route with the same comparison: above iff
`prob > threshold`, below otherwise -/
theorem routing_agree (p thr : Rat) :
    probaAbove p thr = decide (p > thr) ∧ pathAbove p thr = probaAbove p thr ∧ fitAbove p thr = probaAbove p thr ∧
    (∀ b, probaBelow b = !b) ∧ (∀ b, pathBelow b = probaBelow b) ∧ (∀ b, fitBelow b = probaBelow b) := by
  unfold probaAbove pathAbove fitAbove probaBelow pathBelow fitBelow
  simp

/-! ### predict_proba, predict -/

/-- predict_proba gives each row the two probabilities of the classifier of the node that ends the row's
path; that node is the last one of the path, belongs to the tree and has no child on the side the row takes. -/
theorem proba_is_terminal_node_proba {ρ} (tree : Node ρ) (X : List ρ) :
    predictProba tree X = X.map (fun r => (terminal tree r).own r) ∧
    ∀ r, (pathNodes tree r).getLast? = some (terminal tree r) ∧ terminal tree r ∈ nodes tree ∧
      (((terminal tree r).prob r > (terminal tree r).threshold ∧ (terminal tree r).childAbove = none) ∨
       (¬ (terminal tree r).prob r > (terminal tree r).threshold ∧ (terminal tree r).childBelow = none)) :=
  ⟨predictProbaNode_rows tree X,
   fun r => ⟨terminal_eq_getLast tree r, terminal_mem_nodes tree r, terminal_stops tree r⟩⟩

/-- rows sum to one as soon as every node classifier's rows do -/
theorem rows_sum_to_one {ρ} (tree : Node ρ) (X : List ρ)
    (h : ∀ m ∈ nodes tree, ∀ r, m.prob0 r + m.prob r = 1) :
    ∀ q ∈ predictProba tree X, q.1 + q.2 = 1 := by
  intro q hq
  rw [(proba_is_terminal_node_proba tree X).1] at hq
  simp only [List.mem_map] at hq
  obtain ⟨r, _, rfl⟩ := hq
  exact h _ (terminal_mem_nodes tree r) r

/-- predict is `classes_` taken at probability >= 1/2 of class 1 (no IndexError) -/
theorem predict_is_classes_at_half {ρ γ} (tree : Node ρ) (c0 c1 : γ) (X : List ρ) :
    predict tree (c0, c1) X =
      X.map (fun r => some (if ((terminal tree r).own r).2 ≥ 1 / 2 then c1 else c0)) ∧
    predict tree (c0, c1) X =
      (predictProba tree X).map (fun q => some (if q.2 ≥ 1 / 2 then c1 else c0)) := by
  have key : ∀ q : Proba, [c0, c1][if predictLabel q.2 = true then 1 else 0]? =
      some (if q.2 ≥ 1 / 2 then c1 else c0) := by
    intro q
    rw [predictLabel_spec]
    by_cases h : q.2 ≥ 1 / 2 <;> simp [h]
  constructor
  · unfold predict predictLabels
    rw [predictProbaNode_rows]
    simp only [List.map_map]
    apply List.map_congr_left
    intro r _
    exact key _
  · unfold predict predictLabels predictProba
    simp only [List.map_map]
    apply List.map_congr_left
    intro q _
    exact key q

/-! ### decision_path -/

/-- The path of a row: the root always, each next node the child on the side chosen by the parent's
probability against its threshold (`>`: above), ending where that side has no child; it is the only such
list, it stays inside the tree, and `decision_path` marks exactly its nodes: row i of the dense result is
the indicator of the indices on row i's path (no IndexError when all indices are in `[0, n_nodes_)`). -/
theorem path_is_root_to_terminal {ρ} (tree : Node ρ) (nNodes : Nat) (X : List ρ)
    (hw : ∀ m ∈ nodes tree, 0 ≤ m.index ∧ m.index < (nNodes : Int)) :
    (∀ r, RootToTerminal r tree (pathNodes tree r) ∧ (pathNodes tree r).head? = some tree ∧
          (∀ l, RootToTerminal r tree l → l = pathNodes tree r) ∧ ∀ m ∈ pathNodes tree r, m ∈ nodes tree) ∧
    decisionPath tree nNodes X = some (X.map (fun r => indicator nNodes ((pathNodes tree r).map (·.index)))) := by
  refine ⟨fun r => ⟨pathNodes_rootToTerminal tree r, ?_, fun l h => rootToTerminal_unique r tree l h,
    pathNodes_sub_nodes tree r⟩, decisionPath_rows tree nNodes X hw⟩
  cases tree; rw [pathNodes_mk]; rfl

/-- cell (i, j) of the dense decision path is 1 exactly when node j is on row i's path, 0 otherwise -/
theorem path_marks_exactly {ρ} (tree : Node ρ) (nNodes : Nat) (X : List ρ)
    (hw : ∀ m ∈ nodes tree, 0 ≤ m.index ∧ m.index < (nNodes : Int)) (i j : Nat) (hi : i < X.length)
    (hj : j < nNodes) :
    ∃ D, decisionPath tree nNodes X = some D ∧ D.length = X.length ∧
      ((D[i]?.bind (·[j]?)) = some (if (j : Int) ∈ (pathNodes tree X[i]).map (·.index) then 1 else 0)) := by
  refine ⟨_, decisionPath_rows tree nNodes X hw, by simp, ?_⟩
  simp [indicator, hi, hj]

/-- predict_proba and decision_path agree on the routing: the probabilities returned for a row are those
of the classifier of the LAST node marked on its decision path -/
theorem proba_and_path_end_at_same_node {ρ} (tree : Node ρ) (X : List ρ) :
    predictProba tree X =
      X.map (fun r => match (pathNodes tree r).getLast? with
                      | some t => t.own r
                      | none => (0, 0)) := by
  rw [(proba_is_terminal_node_proba tree X).1]
  apply List.map_congr_left
  intro r _
  rw [terminal_eq_getLast]

/-! ### fit: indices, leaves, depth -/

/-- For every training history: the node indices assigned by `fit` are strictly increasing in the order
(node, above side, below side) -- hence distinct --, non-negative and below `n_nodes_`; the root has
index 0. -/
theorem indices_distinct_lt_n_nodes {ρ} (cfg : Cfg) (plan : Plan ρ) (tree : Node ρ) (nn : Int)
    (h : fit cfg plan = some (tree, nn)) :
    ((nodes tree).map (·.index)).Pairwise (· < ·) ∧ ((nodes tree).map (·.index)).Nodup ∧
    (∀ m ∈ nodes tree, 0 ≤ m.index ∧ m.index < nn) ∧ tree.index = 0 := by
  unfold fit at h
  cases hf : fitNode cfg plan rootThreshold rootDepth rootIndex with
  | none => rw [hf] at h; cases h
  | some r =>
    obtain ⟨node, last⟩ := r
    rw [hf] at h
    simp only [Option.map_some, Option.some.injEq, Prod.mk.injEq] at h
    obtain ⟨rfl, rfl⟩ := h
    obtain ⟨_, ok⟩ := fitNode_ok cfg plan _ _ _ _ _ hf
    have h0 := rootIndex_nonneg
    have h1 := nNodes_gt last
    refine ⟨ok.inc, ?_, ?_, ?_⟩
    · exact ok.inc.imp (fun hab => by omega)
    · intro m hm; have := ok.rng m hm; omega
    · rw [fitNode_index cfg plan _ _ _ _ _ hf]; unfold rootIndex; rfl

/-- the decision path of a fitted tree never raises: its indices fit the `n_nodes_` columns -/
theorem fitted_path_is_root_to_terminal {ρ} (cfg : Cfg) (plan : Plan ρ) (tree : Node ρ) (nn : Int) (X : List ρ)
    (h : fit cfg plan = some (tree, nn)) :
    decisionPath tree nn.toNat X =
      some (X.map (fun r => indicator nn.toNat ((pathNodes tree r).map (·.index)))) := by
  have := (indices_distinct_lt_n_nodes cfg plan tree nn h).2.2.1
  apply decisionPath_rows
  intro m hm
  have := this m hm
  omega

/-- `get_leaves_index` is the sorted list of the indices of the terminal nodes -- the nodes at which a
path can end, i.e. lacking a child on at least one side -- and every row's path ends in one of them. -/
theorem leaves_index_are_terminal_nodes {ρ} (tree : Node ρ) :
    (∀ i, i ∈ getLeavesIndex tree ↔
      ∃ m ∈ nodes tree, m.index = i ∧ (m.childAbove = none ∨ m.childBelow = none)) ∧
    (∀ r, (terminal tree r).index ∈ getLeavesIndex tree) ∧
    (getLeavesIndex tree).Pairwise (· ≤ ·) ∧
    (getLeavesIndex tree).Perm (enumerateLeavesIndex tree) := by
  have hperm : (getLeavesIndex tree).Perm (enumerateLeavesIndex tree) := List.mergeSort_perm _ _
  have hmem : ∀ i, i ∈ getLeavesIndex tree ↔
      ∃ m ∈ nodes tree, m.index = i ∧ (m.childAbove = none ∨ m.childBelow = none) := by
    intro i; rw [hperm.mem_iff]; exact mem_enumerateLeavesIndex tree i
  refine ⟨hmem, ?_, ?_, hperm⟩
  · intro r
    rw [hmem]
    refine ⟨terminal tree r, terminal_mem_nodes tree r, rfl, ?_⟩
    rcases terminal_stops tree r with ⟨_, h⟩ | ⟨_, h⟩
    · exact Or.inl h
    · exact Or.inr h
  · have := List.pairwise_mergeSort (le := fun a b : Int => decide (a ≤ b))
      (by intro a b c; simp only [decide_eq_true_eq]; omega)
      (by intro a b; simp only [Bool.or_eq_true, decide_eq_true_eq]; omega) (enumerateLeavesIndex tree)
    simpa [getLeavesIndex] using this

/-- The boundary of the hypothesis `1 ≤ max_depth` of `depth_le_max_depth` below, stated and proved rather than
left implicit: with `max_depth < 1` (the constructor's `assert max_depth` refuses 0 and None only; a negative value,
or 0 given through `set_params`, reaches `fit`) every training history yields the root alone, at depth 1, with
`n_nodes_ = 1` - so `tree_depth_ = 1 > max_depth` (the real code returns the same at -1, -5 and at 0 set through
`set_params`: probe recorded in DESIGN 12.8).  The depth clause of the property is read over scikit-learn's domain
`max_depth >= 1` (ASSUMPTIONS of `props/c10.py`); this theorem is why. -/
theorem max_depth_below_one_gives_root_only {ρ} (cfg : Cfg) (nRows : Int) (p0 p1 : ρ → Rat)
    (sa : SideStat) (pa : Plan ρ) (sb : SideStat) (pb : Plan ρ) (h : cfg.maxDepth < 1) :
    ∃ tree nn, fit cfg (.mk nRows p0 p1 sa pa sb pb) = some (tree, nn) ∧ nodes tree = [tree] ∧ nn = 1 ∧
      treeDepth tree = 1 ∧ cfg.maxDepth < treeDepth tree := by
  have hg : depthGuard rootDepth cfg.maxDepth = true := by
    simp only [depthGuard, rootDepth]; exact decide_eq_true (by omega)
  refine ⟨⟨rootIndex, rootThreshold, rootDepth, p0, p1, none, none⟩, nNodes (depthGuardLast rootIndex), ?_, ?_, ?_, ?_, ?_⟩
  · simp [fit, fitNode, hg]
  · simp [nodes]
  · simp [nNodes, depthGuardLast, rootIndex]
  · simp [treeDepth, rootDepth]
  · simp only [treeDepth, rootDepth]; omega

/-- For every training history and `max_depth >= 1`: every node's depth is between 1 and `max_depth`, and
`tree_depth_` is the largest of them, so the depth never exceeds `max_depth`. -/
theorem depth_le_max_depth {ρ} (cfg : Cfg) (plan : Plan ρ) (tree : Node ρ) (nn : Int)
    (h : fit cfg plan = some (tree, nn)) (hmax : 1 ≤ cfg.maxDepth) :
    (∀ m ∈ nodes tree, 1 ≤ m.depth ∧ m.depth ≤ cfg.maxDepth) ∧ treeDepth tree ≤ cfg.maxDepth ∧
    (∃ m ∈ nodes tree, m.depth = treeDepth tree) ∧ 1 ≤ treeDepth tree := by
  unfold fit at h
  cases hf : fitNode cfg plan rootThreshold rootDepth rootIndex with
  | none => rw [hf] at h; cases h
  | some r =>
    obtain ⟨node, last⟩ := r
    rw [hf] at h
    simp only [Option.map_some, Option.some.injEq, Prod.mk.injEq] at h
    obtain ⟨rfl, rfl⟩ := h
    obtain ⟨_, ok⟩ := fitNode_ok cfg plan _ _ _ _ _ hf
    rw [rootDepth_spec] at ok
    have hall : ∀ m ∈ nodes node, 1 ≤ m.depth ∧ m.depth ≤ cfg.maxDepth :=
      fun m hm => ⟨(ok.dep m hm).1, (ok.dep m hm).2 hmax⟩
    obtain ⟨_, m, hm, e⟩ := treeDepth_is_max node
    refine ⟨hall, ?_, ⟨m, hm, e⟩, ?_⟩
    · rw [← e]; exact (hall m hm).2
    · rw [← e]; exact (hall m hm).1

/-- every node of a fitted tree keeps the root's threshold 1/2 -/
theorem fitted_threshold_is_half {ρ} (cfg : Cfg) (plan : Plan ρ) (tree : Node ρ) (nn : Int)
    (h : fit cfg plan = some (tree, nn)) : ∀ m ∈ nodes tree, m.threshold = 1 / 2 := by
  unfold fit at h
  cases hf : fitNode cfg plan rootThreshold rootDepth rootIndex with
  | none => rw [hf] at h; cases h
  | some r =>
    obtain ⟨node, last⟩ := r
    rw [hf] at h
    simp only [Option.map_some, Option.some.injEq, Prod.mk.injEq] at h
    obtain ⟨rfl, rfl⟩ := h
    obtain ⟨_, ok⟩ := fitNode_ok cfg plan _ _ _ _ _ hf
    intro m hm
    rw [ok.thr m hm]; unfold rootThreshold; rfl

/-! ### batch = rows (C04 for this estimator) -/

/-- a batch call is the concatenation of the single-row calls, for the three batch methods -/
theorem batch_eq_rows {ρ γ} (tree : Node ρ) (c0 c1 : γ) (nNodes : Nat) (X : List ρ)
    (hw : ∀ m ∈ nodes tree, 0 ≤ m.index ∧ m.index < (nNodes : Int)) :
    predictProba tree X = X.flatMap (fun r => predictProba tree [r]) ∧
    predict tree (c0, c1) X = X.flatMap (fun r => predict tree (c0, c1) [r]) ∧
    decisionPath tree nNodes X = some (X.flatMap (fun r => (decisionPath tree nNodes [r]).getD [])) ∧
    (∀ r, (decisionPath tree nNodes [r]).isSome) := by
  refine ⟨?_, ?_, ?_, ?_⟩
  · simp only [(proba_is_terminal_node_proba tree _).1, List.map_cons, List.map_nil]
    induction X <;> simp_all
  · simp only [(predict_is_classes_at_half tree c0 c1 _).1, List.map_cons, List.map_nil]
    induction X <;> simp_all
  · simp only [decisionPath_rows tree nNodes _ hw, List.map_cons, List.map_nil, Option.getD_some]
    congr 1
    induction X <;> simp_all
  · intro r; simp [decisionPath_rows tree nNodes _ hw]

/-- hence any re-indexing of the batch (sub-batch, permutation, repetition: `X[idx]`) re-indexes the
result the same way -/
theorem batch_reindex {ρ} (tree : Node ρ) (nNodes : Nat) (X : List ρ) (idx : List Nat)
    (hw : ∀ m ∈ nodes tree, 0 ≤ m.index ∧ m.index < (nNodes : Int)) :
    predictProba tree (idx.filterMap (fun i => X[i]?)) = idx.filterMap (fun i => (predictProba tree X)[i]?) ∧
    decisionPath tree nNodes (idx.filterMap (fun i => X[i]?)) =
      (decisionPath tree nNodes X).map (fun D => idx.filterMap (fun i => D[i]?)) := by
  constructor
  · simp only [(proba_is_terminal_node_proba tree _).1, List.map_filterMap, List.getElem?_map]
  · simp only [decisionPath_rows tree nNodes _ hw, List.map_filterMap, List.getElem?_map, Option.map_some]

/-- boolean-mask sub-batches and permutations in particular -/
theorem batch_subbatch_perm {ρ} (tree : Node ρ) (X Y : List ρ) (mask : List Bool) :
    predictProba tree (maskGet X mask) = maskGet (predictProba tree X) mask ∧
    (X.Perm Y → (predictProba tree X).Perm (predictProba tree Y)) := by
  constructor
  · simp only [(proba_is_terminal_node_proba tree _).1]
    induction X generalizing mask with
    | nil => cases mask <;> simp [maskGet]
    | cons x xs ih =>
      cases mask with
      | nil => simp [maskGet]
      | cons m ms => cases m <;> simp [maskGet, ih]
  · intro h
    simp only [(proba_is_terminal_node_proba tree _).1]
    exact h.map _

/-! ### the tie to the functions the model transcribes -/

/-- the functions the hand-written model transcribes have, in the current source, the control skeleton (tests, loop
headers, kinds of statements and the names they bind) they had when the model was written and validated: no branch,
loop, early exit or rebinding has been added that the model does not describe -/
theorem modelled_functions_have_the_transcribed_shape :
    MlVerif.Gen.C10.shapeNodeFit =
      "sig(self, X, y, sample_weight, dtlr, total_N)|call fit;if(dtlr.verbose >= 1){call print};prob=;if(self.depth + 1 > dtlr.max_depth){return};if(X.shape[0] < dtlr.min_samples_split){return};above=;below=;n_above=;n_below=;y_above=;y_below=;def _fit_side{if(dtlr.verbose >= 1){call print};if(len(y_above_below) > 1 and above_below.shape[0] > dtlr.min_samples_leaf * 2 and (float(n_above_below) / total_N >= dtlr.min_weight_fraction_leaf * 2) and (n_above_below < total_N)){estimator=;sw=;node=;last_index=;return};return};(self.above,last)=;(self.below,last)=;return" ∧
    MlVerif.Gen.C10.shapeNodePredictProba =
      "sig(self, X)|prob=;above=;below=;n_above=;n_below=;if(self.above is not None and n_above > 0){prob_above=;prob[]=};if(self.below is not None and n_below > 0){prob_below=;prob[]=};return" ∧
    MlVerif.Gen.C10.shapeNodeDecisionPath =
      "sig(self, X, mat, indices)|mat[]=;prob=;above=;below=;n_above=;n_below=;indices_above=;indices_below=;if(self.above is not None and n_above > 0){call decision_path};if(self.below is not None and n_below > 0){call decision_path}" ∧
    MlVerif.Gen.C10.shapeNodeEnumerateLeaves =
      "sig(self)|if(self.above is None or self.below is None){expr};if(self.above is not None){for(index in self.above.enumerate_leaves_index()){expr}};if(self.below is not None){for(index in self.below.enumerate_leaves_index()){expr}}" ∧
    MlVerif.Gen.C10.shapeNodeDepth =
      "sig(self)|dt=;if(self.above is not None){dt=};if(self.below is not None){dt=};return" ∧
    MlVerif.Gen.C10.shapeFit =
      "sig(self, X, y, sample_weight=None)|if(not isinstance(X, numpy.ndarray)){if(hasattr(X, 'values')){X=}};if(not isinstance(X, numpy.ndarray)){raise};assert;self.classes_=;assert;if(self.strategy == 'parallel'){return};if(self.strategy == 'perpendicular'){return};raise" ∧
    MlVerif.Gen.C10.shapeFitParallel =
      "sig(self, X, y, sample_weight)|cls=;estimator=;self.tree_=;self.n_nodes_=;return" ∧
    MlVerif.Gen.C10.shapePredict =
      "sig(self, X)|labels=;return" ∧
    MlVerif.Gen.C10.shapePredictProba =
      "sig(self, X)|return" ∧
    MlVerif.Gen.C10.shapeDecisionPath =
      "sig(self, X, check_input=True)|mat=;call decision_path;return" ∧
    MlVerif.Gen.C10.shapeGetLeavesIndex =
      "sig(self)|indices=;return" :=
  ⟨rfl, rfl, rfl, rfl, rfl, rfl, rfl, rfl, rfl, rfl, rfl⟩

/-! ### non-vacuity: concrete instances -/

/-- rows are 0, 1, 2, 3; the root sends rows with prob > 1/2 above (a leaf), the others to a child that has
only an `above` side: row 3 ends at that one-sided child -/
def exLeaf (i : Int) (d : Int) (p : Rat) : Node Nat := ⟨i, 1 / 2, d, fun _ => 1 - p, fun _ => p, none, none⟩
def exTree : Node Nat :=
  ⟨0, 1 / 2, 1, fun r => 1 - (r : Rat) / 4, fun r => (r : Rat) / 4,
    some (exLeaf 1 2 (9 / 10)),
    some ⟨2, 1 / 2, 2, fun r => (r : Rat) / 2, fun r => 1 - (r : Rat) / 2, some (exLeaf 3 3 (1 / 5)), none⟩⟩

example : predictProba exTree [0, 1, 2, 3] = [(4 / 5, 1 / 5), (1 / 2, 1 / 2), (1, 0), (1 / 10, 9 / 10)] := by
  decide +kernel
example : predict exTree ("n", "p") [0, 1, 2, 3] = [some "n", some "p", some "n", some "p"] := by decide +kernel
example : decisionPath exTree 5 [0, 1, 2, 3] = some [[1, 0, 1, 1, 0], [1, 0, 1, 0, 0], [1, 0, 1, 0, 0], [1, 1, 0, 0, 0]] := by
  decide +kernel
example : ∀ m ∈ nodes exTree, ∀ r ∈ [0, 1, 2, 3], m.prob0 r + m.prob r = 1 := by decide +kernel
example : enumerateLeavesIndex exTree = [1, 2, 3] ∧ treeDepth exTree = 3 := by decide +kernel
example : getLeavesIndex exTree = [1, 2, 3] := by
  have h : enumerateLeavesIndex exTree = [1, 2, 3] := by decide +kernel
  simp [getLeavesIndex, h, List.mergeSort]
example : ∀ m ∈ nodes exTree, 0 ≤ m.index ∧ m.index < ((5 : Nat) : Int) := by decide +kernel
/-- a training history: 10 rows split 6 / 4, the above side splits again (one-sided), depth limit 3 -/
def exPlan : Plan Nat :=
  .mk 10 (fun _ => 0) (fun _ => 1) ⟨2, 10, 6⟩
    (.mk 6 (fun _ => 0) (fun _ => 1) ⟨1, 6, 2⟩ .unknown ⟨2, 6, 4⟩
      (.mk 4 (fun _ => 0) (fun _ => 1) ⟨2, 4, 2⟩ .unknown ⟨2, 4, 2⟩ .unknown))
    ⟨2, 10, 4⟩ (.mk 4 (fun _ => 0) (fun _ => 1) ⟨1, 4, 1⟩ .unknown ⟨1, 4, 3⟩ .unknown)
example : (fit ⟨3, 2, 1, 0, 10⟩ exPlan).map (fun r => (nodes r.1).map (fun m => (m.depth, m.childAbove.isSome, m.childBelow.isSome)))
    = some [(1, true, true), (2, false, true), (3, false, false), (2, false, false)] ∧ (1 : Int) ≤ 3 := by
  decide +kernel

end MlVerif.C10
